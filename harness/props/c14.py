"""C14 — compute, persist and optimize preserve structure and values.

Model:    lean/DaskModel/Model/Repack.lean (unpack_collections / repack as a traversal over a container tree;
          _HLGExprSequence._tune_down / __dask_keys__ operand order)
Theorems: lean/DaskModel/Props/C14.lean (repack_unpack, traverse_false) and Props/C13.lean (keys_restored)
Tie:      `unpack`  function level: dask.base.unpack_collections on nested structures of fake collections:
                    order of the extracted collections and repack(results) vs the model, traverse on/off
          `tune`    function level: _HLGExprSequence(...)._tune_down().__dask_keys__() vs the model
          `compute` API level: dask.compute on nested structures of real collections (delayed, array, bag,
                    dataframe) x traverse x scheduler x optimize_graph  ==  the structure with every collection
                    replaced by its own .compute()
          `persist` API level: dask.persist / dask.optimize keep type, keys, metadata and values
          `sched`   function level: dask.base.get_scheduler (explicit scheduler / config / class / collections' defaults,
                    names in any capitalisation, Executor, errors) vs the model over the extracted `named_schedulers`
"""
from __future__ import annotations

import collections
import dataclasses
import json

from sexp import Sym

PROP = "C14"
READY = True
DRIVER = "dm_token"
LEAN_MODULES = ["DaskModel.Props.C14", "DaskModel.Props.C14Sched"]
TABLES = ["NamedSchedulers"]
CASE_TIMEOUT_S = 180
LEVEL_TEXT = ("Lean proof: for every nesting of list/tuple/set/dict/OrderedDict/dataclass/namedtuple/iterator nodes, "
              "repack(map f collections) is the argument tuple with every collection replaced by its value and nothing "
              "else changed (repack_unpack; iterators become lists), collections are deduplicated by token; with "
              "traverse=False only top-level collections are replaced (traverse_false); get_scheduler resolves by a fixed "
              "precedence over the extracted named_schedulers table (explicit > config > class > common default, "
              "differing defaults rejected); persist / optimize return the same structure with every collection replaced by "
              "its rebuilt collection, and type, metadata and value are preserved position by position as soon as the "
              "per-class __dask_postpersist__ rebuilds preserve them (persist_spec, persist_preserves). The traversal model "
              "is diffed against dask.base.unpack_collections (incl. object leaves: list / tuple subclasses, frozensets, "
              "Counters; generators), the scheduler choice against dask.base.get_scheduler; compute / persist / optimize on "
              "nested arguments are compared end to end with per-collection compute over schedulers (sync, threads, "
              "processes, Executor) and optimize_graph, incl. pipelines whose fused task names are cut.")
LEVEL_NOTE = ("dataclass / namedtuple reconstruction (Python reflection), the per-class rebuilds of persist / optimize (type "
              "and metadata of Array, Bag, Delayed, Series, DataFrame are compared by the oracle) and scheduler independence "
              "are validated by the API-level oracle, not proved here (scheduler: C01).")
TECHNIQUE = "Lean 4 proof (mutual structural induction with an extension-closed invariant on the collections list) + differential correspondence"
ASSUMPTIONS = ["collections with equal tokens denote the same value (C12/C13)",
               "simple_get on the repack graph evaluates Task(type, List(...)) as type([...]) (C08)"]
TRUSTED = ["fake collection class of harness/props/c14.py (implements the dask collection protocol with a chosen token)"]


# ----------------------------------------------------------------------------------------------
# python structures from specs
# ----------------------------------------------------------------------------------------------

@dataclasses.dataclass
class DC1:
    a: object


@dataclasses.dataclass
class DC2:
    a: object
    b: object


@dataclasses.dataclass(frozen=True)
class DC3:
    a: object
    b: object
    c: object


@dataclasses.dataclass(kw_only=True)
class KW1:
    a: object


@dataclasses.dataclass(kw_only=True)
class KW2:
    a: object
    b: object


@dataclasses.dataclass
class KW3:          # one positional, two keyword-only fields
    a: object
    b: object = dataclasses.field(kw_only=True)
    c: object = dataclasses.field(kw_only=True, default=None)


DCS_KW = {1: KW1, 2: KW2, 3: KW3}
NT1 = collections.namedtuple("NT1", "p")
NT2 = collections.namedtuple("NT2", "p q")
NT3 = collections.namedtuple("NT3", "p q r")
DCS = {1: DC1, 2: DC2, 3: DC3}
NTS = {1: NT1, 2: NT2, 3: NT3}


class ML(list):
    """a list subclass: not traversed (its type is not `list`), a leaf like any other object"""


class TS(tuple):
    """a tuple subclass without `_fields`: a leaf"""


def _leaf_obj(n):
    """leaf catalogue: 0-5 strings; 6-9 unhashable objects; 10-15 hashable objects that look like containers / scalars"""
    if n <= 5:
        return f"L{n}"
    return {6: lambda: ML([1, 2]), 7: lambda: ML(), 8: lambda: collections.Counter("aab"), 9: lambda: ML([ML([3])]),
            10: lambda: frozenset({1, 2}), 11: lambda: TS((1, 2)), 12: lambda: None, 13: lambda: 2.5, 14: lambda: b"xy",
            15: lambda: TS(())}[n]()


def _leaf_id(obj):
    """inverse of _leaf_obj on result objects (type checked exactly: a leaf must come back as the same kind of object)"""
    if isinstance(obj, str) and obj.startswith("L") and obj[1:].isdigit():
        return int(obj[1:])
    for n in range(6, 16):
        ref = _leaf_obj(n)
        if type(obj) is type(ref) and obj == ref:
            return n
    return None


HASHABLE_LEAVES = [0, 1, 2, 3, 4, 5, 10, 11, 12, 13, 14, 15]


class FakeColl:
    """A minimal dask collection whose token is chosen by the test."""

    def __init__(self, tok):
        self.tok = tok

    def __dask_graph__(self):
        return {("fake", self.tok): self.tok}

    def __dask_keys__(self):
        return [("fake", self.tok)]

    def __dask_tokenize__(self):
        return ("fake", self.tok)

    def __repr__(self):
        return f"FakeColl({self.tok})"


def build_tree2(spec, mk):
    """spec -> (python structure, actual spec). The actual spec lists set elements / dict items in the order the
    real object iterates them (what dask sees) and without the elements Python merged."""
    t = spec[0]
    if t == "coll":
        return mk(spec[1]), spec
    if t == "leaf":
        return _leaf_obj(spec[1]), spec
    if t in ("list", "tuple", "iter", "gen"):
        kids = [build_tree2(s, mk) for s in spec[1]]
        objs = [o for o, _ in kids]
        obj = objs if t == "list" else tuple(objs) if t == "tuple" else iter(objs) if t == "iter" else (o for o in objs)
        return obj, [t, [a for _, a in kids]]
    if t == "set":
        kids = [build_tree2(s, mk) for s in spec[1]]
        obj = set()
        first = {}
        for o, a in kids:
            if o not in obj:
                obj.add(o)
                first[id(o)] = a
        return obj, ["set", [first[id(o)] for o in obj]]
    if t in ("dict", "odict"):
        obj = {} if t == "dict" else collections.OrderedDict()
        keyspec, valspec = {}, {}
        for k, v in spec[1]:
            ko, ka = build_tree2(k, mk)
            vo, va = build_tree2(v, mk)
            if ko not in obj:
                keyspec[id(ko)] = ka
                valspec[id(ko)] = va
                obj[ko] = vo
            else:
                kk = next(x for x in obj if x == ko)
                valspec[id(kk)] = va
                obj[kk] = vo
        return obj, [t, [[keyspec[id(k)], valspec[id(k)]] for k in obj]]
    if t in ("dc", "nt"):
        kids = [build_tree2(s, mk) for s in spec[2]]
        if t == "dc" and spec[1] == 1:
            # a dataclass with keyword-only fields (rebuilt by field name)
            cls = DCS_KW[len(kids)]
            names = [f.name for f in dataclasses.fields(cls)]
            return cls(**dict(zip(names, [o for o, _ in kids]))), [t, spec[1], [a for _, a in kids]]
        cls = (DCS if t == "dc" else NTS)[len(kids)]
        return cls(*[o for o, _ in kids]), [t, spec[1], [a for _, a in kids]]
    raise ValueError(spec)


def build_tree(spec, mk):
    return build_tree2(spec, mk)[0]


def enc_tree(spec):
    t = spec[0]
    if t in ("coll", "leaf"):
        return [Sym(t), spec[1]]
    if t in ("list", "tuple", "set", "iter"):
        return [Sym(t)] + [enc_tree(s) for s in spec[1]]
    if t == "gen":          # a generator is an Iterator: "treat iterators like lists"
        return [Sym("iter")] + [enc_tree(s) for s in spec[1]]
    if t in ("dict", "odict"):
        return [Sym(t)] + [[enc_tree(k), enc_tree(v)] for k, v in spec[1]]
    if t == "dc":
        return [Sym("dataclass"), len(spec[2])] + [enc_tree(s) for s in spec[2]]
    if t == "nt":
        return [Sym("namedtuple"), len(spec[2])] + [enc_tree(s) for s in spec[2]]
    raise ValueError(spec)


def canon(obj, val=lambda x: None):
    """Canonical JSON-able form of a python result structure. `val(x)` canonicalises a computed value / collection
    (returns None when x is not one)."""
    v = val(obj)
    if v is not None:
        return v
    lid = _leaf_id(obj)
    if lid is not None:
        return ["leaf", lid]
    if isinstance(obj, collections.OrderedDict):
        return ["odict", [[canon(k, val), canon(x, val)] for k, x in obj.items()]]
    if type(obj) is dict:
        return ["dict", [[canon(k, val), canon(x, val)] for k, x in obj.items()]]
    if type(obj) is list:
        return ["list", [canon(x, val) for x in obj]]
    if type(obj) in NTS.values():
        return ["nt", len(obj), [canon(x, val) for x in obj]]
    if type(obj) is tuple:
        return ["tuple", [canon(x, val) for x in obj]]
    if type(obj) is set:
        return ["set", sorted((canon(x, val) for x in obj), key=repr)]
    if type(obj) in DCS.values() or type(obj) in DCS_KW.values():
        fs = dataclasses.fields(obj)
        return ["dc", len(fs), [canon(getattr(obj, f.name), val) for f in fs]]
    if hasattr(obj, "__next__"):
        return ["iter", [canon(x, val) for x in obj]]
    return ["other", repr(obj)]


def model_to_canon(m):
    """Lean tree s-expression -> the same canonical form (coll n = result n)."""
    t = str(m[0])
    if t == "coll":
        return ["res", m[1]]
    if t == "leaf":
        return ["leaf", m[1]]
    if t in ("list", "tuple", "iter"):
        return [t, [model_to_canon(x) for x in m[1:]]]
    if t == "set":
        # python set semantics: duplicates collapse
        out = []
        for x in (model_to_canon(x) for x in m[1:]):
            if x not in out:
                out.append(x)
        return ["set", sorted(out, key=repr)]
    if t in ("dict", "odict"):
        out = []
        for k, v in ((model_to_canon(k), model_to_canon(v)) for k, v in m[1:]):
            for p in out:
                if p[0] == k:
                    p[1] = v        # later item wins, first position kept
                    break
            else:
                out.append([k, v])
        return [t, out]
    if t == "dataclass":
        return ["dc", m[1], [model_to_canon(x) for x in m[2:]]]
    if t == "namedtuple":
        return ["nt", m[1], [model_to_canon(x) for x in m[2:]]]
    raise ValueError(m)


def _has(spec, kinds):
    if spec[0] in kinds:
        return True
    if spec[0] in ("list", "tuple", "set", "iter", "gen"):
        return any(_has(s, kinds) for s in spec[1])
    if spec[0] in ("dict", "odict"):
        return any(_has(k, kinds) or _has(v, kinds) for k, v in spec[1])
    if spec[0] in ("dc", "nt"):
        return any(_has(s, kinds) for s in spec[2])
    return False


def _depth(spec):
    if spec[0] in ("coll", "leaf"):
        return 0
    kids = spec[2] if spec[0] in ("dc", "nt") else ([x for p in spec[1] for x in p] if spec[0] in ("dict", "odict") else spec[1])
    return 1 + max([_depth(k) for k in kids], default=0)


def _leaf_branches(ctx, args, pref=""):
    """which special leaves / iterator shapes the case holds"""
    def go(s, parent, nsib):
        t = s[0]
        if t == "leaf" and s[1] >= 6:
            ctx.branch(pref + "leaf-object")
            if s[1] in (6, 7, 9) and parent in ("list", "tuple", "set", "iter", "gen") and nsib == 1:
                ctx.branch(pref + "list-subclass-leaf-alone-in-container")
        if t in ("iter", "gen") and all(x[0] == "leaf" for x in s[1]):
            ctx.branch(pref + "iterator-of-plain-leaves")
        if t == "gen":
            ctx.branch(pref + "generator")
        if t in ("list", "tuple", "set", "iter", "gen"):
            for x in s[1]:
                go(x, t, len(s[1]))
        elif t in ("dict", "odict"):
            for k, v in s[1]:
                go(k, t, 0)
                go(v, t, 0)
        elif t in ("dc", "nt"):
            for x in s[2]:
                go(x, t, 0)
    for a in args:
        go(a, "top", len(args))


def _branches(ctx, args, pref=""):
    for k in ("set", "dict", "odict", "dc", "nt", "iter", "tuple", "list"):
        if any(_has(a, (k,)) for a in args):
            ctx.branch(pref + k)
    if '["dc", 1' in json.dumps(args):
        ctx.branch(pref + "dataclass-keyword-only")
    _leaf_branches(ctx, args, pref)
    d = max([_depth(a) for a in args], default=0)
    ctx.branch(pref + f"depth{min(d, 4)}")
    ids = _coll_ids(args)
    if len(ids) != len(set(ids)):
        ctx.branch(pref + "repeated-collection")
    for a in args:
        if a[0] in ("dict", "odict") and any(_has(k, ("coll",)) for k, _ in a[1]):
            ctx.branch(pref + "collection-as-dict-key")


def _coll_ids(args):
    out = []

    def go(s):
        if s[0] == "coll":
            out.append(s[1])
        elif s[0] in ("list", "tuple", "set", "iter", "gen"):
            for x in s[1]:
                go(x)
        elif s[0] in ("dict", "odict"):
            for k, v in s[1]:
                go(k)
                go(v)
        elif s[0] in ("dc", "nt"):
            for x in s[2]:
                go(x)
    for a in args:
        go(a)
    return out


# ----------------------------------------------------------------------------------------------
# function level
# ----------------------------------------------------------------------------------------------

def case_unpack(ctx, inp):
    from dask.base import unpack_collections
    args, traverse = inp["args"], inp.get("traverse", True)
    built = [build_tree2(a, FakeColl) for a in args]
    objs = [o for o, _ in built]
    args = [a for _, a in built]      # what the real objects hold, in their iteration order
    try:
        colls, repack = unpack_collections(*objs, traverse=traverse)
        real_colls = [c.tok for c in colls]
        results = [1000 + t for t in real_colls]
        out = repack([f"R{r}" for r in results])
    except Exception as e:
        ctx.fail(f"unpack_collections / repack raised {type(e).__name__}: {str(e)[:120]}", observed=type(e).__name__)
        return

    def val(x):
        if isinstance(x, str) and x.startswith("R"):
            return ["res", int(x[1:])]
        if isinstance(x, FakeColl):
            return ["lazy", x.tok]
        return None
    if traverse:
        mcolls, mout = ctx.lean(Sym("unpack"), [enc_tree(a) for a in args], results)
        ctx.eq("unpack_collections: collections", mcolls, real_colls)
        real = canon(out, val)
        model = ["tuple", [model_to_canon(x) for x in mout[1:]]] if mout is not None else None
        ctx.eq("repack(results)", model, real)
        # property oracle on the real output: structure with every collection replaced
        want = ["tuple", [_spec_result(a) for a in args]]
        if real != want:
            ctx.fail("repack(results) is not args with every collection replaced by its result",
                     observed=real, expected=want)
    else:
        mcolls, mout = ctx.lean(Sym("unpacktop"), [enc_tree(a) for a in args], results)
        ctx.eq("unpack_collections(traverse=False): collections", mcolls, real_colls)
        real = [["res", int(o[1:])] if isinstance(o, str) and o.startswith("R") else ["same"] for o in out]
        ctx.eq("repack(results) traverse=False", [[str(x[0])] + list(x[1:]) for x in mout], real)
        for o, src, a in zip(out, objs, args):
            if a[0] == "coll":
                if o != f"R{1000 + a[1]}":
                    ctx.fail("traverse=False: top-level collection not replaced", observed=repr(o))
            elif o is not src:
                ctx.fail("traverse=False: a non-collection argument was not returned as it was", observed=repr(o))
        ctx.branch("traverse-false")
    _branches(ctx, args)


def _spec_result(spec):
    """the specification in canonical form: coll -> res(1000+id), iter -> list, python set/dict semantics"""
    t = spec[0]
    if t == "coll":
        return ["res", 1000 + spec[1]]
    if t == "leaf":
        return ["leaf", spec[1]]
    if t in ("list", "iter", "gen"):
        return ["list", [_spec_result(s) for s in spec[1]]]
    if t == "tuple":
        return ["tuple", [_spec_result(s) for s in spec[1]]]
    if t == "set":
        out = []
        for x in (_spec_result(s) for s in spec[1]):
            if x not in out:
                out.append(x)
        return ["set", sorted(out, key=repr)]
    if t in ("dict", "odict"):
        out = []
        for k, v in ((_spec_result(k), _spec_result(v)) for k, v in spec[1]):
            for p in out:
                if p[0] == k:
                    p[1] = v
                    break
            else:
                out.append([k, v])
        return [t, out]
    if t == "dc":
        return ["dc", len(spec[2]), [_spec_result(s) for s in spec[2]]]
    if t == "nt":
        return ["nt", len(spec[2]), [_spec_result(s) for s in spec[2]]]
    raise ValueError(spec)


# ----------------------------------------------------------------------------------------------
# real collections
# ----------------------------------------------------------------------------------------------

def _inc(x):
    return x + 1


def _tasklike(n):
    return (len, "abc"[: n % 3 + 1]) if n % 2 == 0 else [(max, n, 7), {"k": (len, "ab")}]


def _addk(k):
    def f(v):
        return v + k
    f.__name__ = f"addk{k}"
    return f


KINDS = ["delayed", "array", "bag", "series", "frame", "scalar"]


def real_coll(cid, kinds=None):
    """Deterministic catalogue: id -> (collection, expected value). Same id => same construction => same token."""
    import numpy as np
    import dask
    kinds = kinds or KINDS
    kind = kinds[cid % len(kinds)]
    n = cid // len(kinds)
    if kind == "delayed":
        return dask.delayed(_inc)(cid), cid + 1
    if kind == "array":
        import dask.array as da
        x = np.arange(n % 5 + 1) * (n + 1)
        return da.from_array(x, chunks=2) + cid, x + cid
    if kind == "scalar":
        import dask.array as da
        x = np.arange(n % 4 + 2) + cid
        return da.from_array(x, chunks=2).sum(), x.sum()
    if kind == "bag":
        import dask.bag as db
        seq = [cid + i for i in range(n % 4 + 1)]
        return db.from_sequence(seq, npartitions=2).map(_inc), [v + 1 for v in seq]
    if kind == "longbag":
        # the same long-named steps for every id, different data: the fused names are cut to a common prefix
        import dask.bag as db
        from props import _token_util as U
        seq = [cid + i for i in range(n % 3 + 1)]
        f, g = U.LONG_MAPS[0], U.LONG_MAPS[1]
        return db.from_sequence(seq, npartitions=1).map(f).map(g), [g(f(v)) for v in seq]
    if kind == "longarr":
        import dask.array as da
        from props import _token_util as U
        x = np.arange(n % 4 + 2) + cid
        f, g = U.LONG_MAPS[2], U.LONG_MAPS[3]
        return da.from_array(x, chunks=-1).map_blocks(f, dtype=x.dtype)[::-1].map_blocks(g, dtype=x.dtype), g(f(x)[::-1])
    if kind.startswith("s"):
        sh = _shared_coll(kind, n)
        if sh is not None:
            return sh
    import pandas as pd
    from core import import_dd
    dd = import_dd()
    df = pd.DataFrame({"a": [cid + i for i in range(n % 4 + 2)], "b": [float(i) for i in range(n % 4 + 2)]})
    ddf = dd.from_pandas(df, npartitions=2)
    if kind == "series":
        return ddf.a + 1, df.a + 1
    return ddf.assign(c=ddf.a * 2), df.assign(c=df.a * 2)


# Collections that SHARE OUTPUT KEYS when they meet in one compute / persist / optimize call: a base collection that
# depends on `n` only (same n => same keys) and collections derived from it — its own to_delayed() pieces, .blocks[...],
# .partitions[...], its output key wrapped as a Delayed, an Item and its to_delayed() (same token, other type), a
# persisted copy.  The kind names say what is derived from what.
SHARE_KINDS = ["sarr", "sarr-piece0", "sarr-pieceL", "sarr-block0", "sarr-blockL", "sarr-key", "sarr-persisted", "sarr-slice",
               "sbag", "sbag-piece0", "sbag-pieceL", "sbag-key", "sbag-persisted", "sitem", "sitem-del",
               "sdel", "sdel-key", "sdel-persisted", "delayed", "stask", "stask-persisted"]
SHARE_KINDS_DF = SHARE_KINDS + ["sframe", "sframe-part0", "sframe-del0"]


def _shared_coll(kind, n):
    import numpy as np
    import dask
    from dask.core import flatten
    from dask.delayed import Delayed
    base, _, how = kind.partition("-")
    if base == "sarr":
        import dask.array as da
        x = np.arange(n % 4 + 3) * (n + 1)
        c, v = da.from_array(x, chunks=2) + n, x + n
        blocks = [v[i:i + 2] for i in range(0, len(v), 2)]
        if how in ("piece0", "pieceL"):
            return c.to_delayed().ravel()[0 if how == "piece0" else -1], blocks[0 if how == "piece0" else -1]
        if how in ("block0", "blockL"):
            return c.blocks[0 if how == "block0" else len(blocks) - 1], blocks[0 if how == "block0" else -1]
        if how == "slice":
            return c[:2], v[:2]
    elif base == "sbag":
        import dask.bag as db
        seq = [n + i for i in range(n % 3 + 2)]
        c, v = db.from_sequence(seq, npartitions=2).map(_inc), [x + 1 for x in seq]
        if how in ("piece0", "pieceL"):
            parts = c.to_delayed()
            sizes = [len(p.compute(scheduler="sync")) for p in parts]
            i = 0 if how == "piece0" else len(parts) - 1
            lo = sum(sizes[:i])
            return parts[i], v[lo:lo + sizes[i]]
    elif base == "sitem":
        import dask.bag as db
        seq = [n + i for i in range(n % 3 + 2)]
        c, v = db.from_sequence(seq, npartitions=2).map(_inc).sum(), sum(x + 1 for x in seq)
        if how == "del":
            return c.to_delayed(), v
    elif base == "sdel":
        c, v = dask.delayed(_inc, pure=True)(1000 + n), 1001 + n
    elif base == "stask":
        # a value that LOOKS like a task (a tuple headed by a callable): it is data and must stay data
        c, v = dask.delayed(_tasklike, pure=True)(n), _tasklike(n)
    elif base == "sframe":
        import pandas as pd
        from core import import_dd
        dd = import_dd()
        df = pd.DataFrame({"a": [n + i for i in range(n % 3 + 3)], "b": [float(i) for i in range(n % 3 + 3)]})
        c, v = dd.from_pandas(df, npartitions=2), df
        if how == "part0":
            return c.partitions[0], c.partitions[0].compute(scheduler="sync")
        if how == "del0":
            return c.to_delayed()[0], c.partitions[0].compute(scheduler="sync")
    else:
        return None
    if how == "":
        return c, v
    if how == "key":
        # the collection's first output key as a Delayed of its own
        k = list(flatten(c.__dask_keys__()))[0]
        first = v[:2] if base == "sarr" else (c.to_delayed()[0].compute(scheduler="sync") if base == "sbag" else v)
        return Delayed(k, c.__dask_graph__(), layer=c.__dask_layers__()[-1]), first
    if how == "persisted":
        return dask.persist(c, scheduler="sync")[0], v
    raise ValueError(kind)


def _shares_keys(colls):
    """(some two collections of the call share an output key, the first of such a pair holds fewer keys than the other)"""
    from dask.core import flatten
    keysets = []
    for c in colls:
        try:
            keysets.append(set(flatten(c.__dask_keys__())))
        except Exception:
            keysets.append(set())
    shared = sharer_first = False
    for i in range(len(keysets)):
        for j in range(i):
            if keysets[i] & keysets[j] and colls[i] is not colls[j]:
                shared = True
                if len(keysets[j]) < len(keysets[i]) or keysets[j] < keysets[i]:
                    sharer_first = True
    return shared, sharer_first


def val_canon(x):
    """canonical form of a computed value (or of a lazy collection left in place)."""
    import numpy as np
    import dask
    if dask.is_dask_collection(x):
        return ["lazy", type(x).__name__]
    if isinstance(x, np.ndarray):
        return ["nd", str(x.dtype), list(x.shape), x.tolist()]
    if isinstance(x, np.generic):
        return ["npscalar", str(x.dtype), x.item()]
    try:
        import pandas as pd
        if isinstance(x, pd.Series):
            return ["series", str(x.dtype), x.name, x.tolist(), list(x.index)]
        if isinstance(x, pd.DataFrame):
            return ["frame", list(x.columns), [str(d) for d in x.dtypes], x.values.tolist(), list(x.index)]
    except ImportError:  # pragma: no cover
        pass
    if isinstance(x, bool) or x is None:
        return None
    if isinstance(x, int):
        return ["int", x]
    return None


def _expected(spec, table, top=True, traverse=True):
    """canonical expected result of dask.compute for one argument."""
    t = spec[0]
    if t == "coll":
        if traverse or top:
            return canon(table[spec[1]][1], val_canon)
        return ["lazy", type(table[spec[1]][0]).__name__]
    if t == "leaf":
        return ["leaf", spec[1]]
    if not traverse:
        # untouched: canonical form of the original object with lazy collections inside
        if t in ("iter", "gen"):
            return ["iter-untouched"]
        return _untouched(spec, table)
    if t in ("list", "iter", "gen"):
        return ["list", [_expected(s, table, False) for s in spec[1]]]
    if t == "tuple":
        return ["tuple", [_expected(s, table, False) for s in spec[1]]]
    if t == "set":
        out = []
        for x in (_expected(s, table, False) for s in spec[1]):
            if x not in out:
                out.append(x)
        return ["set", sorted(out, key=repr)]
    if t in ("dict", "odict"):
        out = []
        for k, v in ((_expected(k, table, False), _expected(v, table, False)) for k, v in spec[1]):
            for p in out:
                if p[0] == k:
                    p[1] = v
                    break
            else:
                out.append([k, v])
        return [t, out]
    if t == "dc":
        return ["dc", len(spec[2]), [_expected(s, table, False) for s in spec[2]]]
    if t == "nt":
        return ["nt", len(spec[2]), [_expected(s, table, False) for s in spec[2]]]
    raise ValueError(spec)


def _untouched(spec, table):
    t = spec[0]
    if t == "coll":
        return ["lazy", type(table[spec[1]][0]).__name__]
    if t == "leaf":
        return ["leaf", spec[1]]
    if t in ("list", "tuple"):
        return [t, [_untouched(s, table) for s in spec[1]]]
    if t == "set":
        return ["set", sorted((_untouched(s, table) for s in spec[1]), key=repr)]
    if t in ("dict", "odict"):
        return [t, [[_untouched(k, table), _untouched(v, table)] for k, v in spec[1]]]
    if t in ("dc", "nt"):
        return [t, len(spec[2]), [_untouched(s, table) for s in spec[2]]]
    return ["iter-untouched"]


def _canon_result(obj):
    def val(x):
        c = val_canon(x)
        if c is not None:
            return c
        if hasattr(x, "__next__"):
            return ["iter-untouched"]
        return None
    return canon(obj, val)


def case_compute(ctx, inp):
    import dask
    args = inp["args"]
    ids = sorted(set(_coll_ids(args)))
    kinds = inp.get("kinds")
    table = {i: real_coll(i, kinds) for i in ids}
    # a second, independently built object for repeated ids (equal token, distinct object)
    built = {}

    def mk(i):
        built[i] = built.get(i, 0) + 1
        return table[i][0] if built[i] == 1 else real_coll(i, kinds)[0]
    built2 = [build_tree2(a, mk) for a in args]
    objs = [o for o, _ in built2]
    args = [a for _, a in built2]
    traverse, sch, og = inp.get("traverse", True), inp.get("scheduler", "sync"), inp.get("optimize_graph", True)
    kw = {}
    pool = None
    if sch == "processes":
        kw["num_workers"] = 2
    elif sch == "executor":
        from concurrent.futures import ThreadPoolExecutor
        pool = sch = ThreadPoolExecutor(2)
    import warnings
    with warnings.catch_warnings():
        warnings.simplefilter("ignore")
        try:
            out = dask.compute(*objs, traverse=traverse, scheduler=sch, optimize_graph=og, **kw)
        except Exception as e:
            ctx.fail(f"dask.compute raised {type(e).__name__}: {str(e)[:150]}", observed=type(e).__name__)
            return
        finally:
            if pool is not None:
                pool.shutdown(wait=True)
                sch = "executor"
    got = ["tuple", [_canon_result(o) for o in out]]
    if not ids or (not traverse and not any(a[0] == "coll" for a in args)):
        # `if not collections: return args` — nothing is touched, iterators stay iterators
        want = ["tuple", [_untouched(a, table) for a in args]]
        ctx.branch("compute-no-collections")
    else:
        want = ["tuple", [_fix_bag(_expected(a, table, True, traverse)) for a in args]]
    if got != want:
        kinds_here = sorted({(kinds or KINDS)[i % len(kinds or KINDS)] for i in ids})
        sig = None
        ctx.fail("dask.compute(*args) is not args with every collection replaced by its own computed value",
                 sig=sig, observed=got, expected=want)
    # each collection computed alone gives the expected value (validates the catalogue)
    for i in ids:
        alone = table[i][0].compute(scheduler="sync")
        if _canon_result(alone) != _fix_bag(_expected(["coll", i], table)):
            ctx.fail("collection computed alone differs from its NumPy/pandas/Python reference", observed=_canon_result(alone),
                     expected=_expected(["coll", i], table), inp={"args": [["coll", i]], "kinds": kinds})
    _branches(ctx, args, "compute-")
    ctx.branch(f"compute-{sch}-og{int(og)}-tr{int(traverse)}")
    ks = sorted({(kinds or KINDS)[i % len(kinds or KINDS)] for i in ids})
    if len(ks) > 1:
        ctx.branch("compute-mixed-kinds")
    if ids and _shares_keys([table[i][0] for i in _coll_ids(args)])[0]:
        ctx.branch("compute-shared-output-keys")
    seq = [(kinds or KINDS)[i % len(kinds or KINDS)] for i in _coll_ids(args)]
    if _interleaved(seq):
        ctx.branch("compute-interleaved-optimizers")


def _interleaved(seq):
    """some kind occurs, then another kind, then the first again (what grouping by optimizer reorders)"""
    fam = {"array": "a", "scalar": "a", "longarr": "a", "longbag": "bag", "series": "d", "frame": "d"}
    fam.update({k: ("a" if k.startswith("sarr") and k.split("-")[-1] not in ("piece0", "pieceL", "key") else
                    "bag" if k in ("sbag", "sbag-persisted", "sitem") else "d" if k in ("sframe", "sframe-part0") else "delayed")
                for k in SHARE_KINDS_DF if k.startswith("s")})
    s = [fam.get(k, k) for k in seq]
    for i in range(len(s)):
        for j in range(i + 1, len(s)):
            if s[j] != s[i] and s[i] in s[j + 1:]:
                return True
    return False


def _fix_bag(c):
    return c



def case_persist(ctx, inp):
    """dask.persist / dask.optimize on a flat list of collections: same type, metadata, values."""
    import dask
    ids, kinds = inp["ids"], inp.get("kinds")
    table = {i: real_coll(i, kinds) for i in set(ids)}
    objs = [table[i][0] for i in ids]
    seq = [(kinds or KINDS)[i % len(kinds or KINDS)] for i in ids]
    has_df = any(k in ("series", "frame") for k in seq)
    import warnings
    for which in inp.get("ops", ["persist", "optimize"]):
        sig = None   # (dask.optimize + dataframe used to be a known finding; repaired by 41fcfbc)
        with warnings.catch_warnings():
            warnings.simplefilter("ignore")
            try:
                if which == "persist":
                    outs = dask.persist(*objs, scheduler=inp.get("scheduler", "sync"), optimize_graph=inp.get("optimize_graph", True))
                else:
                    outs = dask.optimize(*objs)
            except Exception as e:
                ctx.fail(f"dask.{which} raised {type(e).__name__}: {str(e)[:120]}", sig=sig, observed=type(e).__name__)
                continue
        if len(outs) != len(objs):
            ctx.fail(f"dask.{which} returned {len(outs)} objects for {len(objs)} collections", observed=len(outs))
            continue
        for i, o, p in zip(ids, objs, outs):
            if type(o) is not type(p):
                ctx.fail(f"dask.{which} changed the type of a collection", sig=sig, observed=[type(o).__name__, type(p).__name__])
                continue
            if _meta(o) != _meta(p):
                ctx.fail(f"dask.{which} changed the metadata of a collection", sig=sig, observed=[_meta(o), _meta(p)])
            if which == "persist" and type(o).__name__ in ("Array", "Bag", "Delayed"):
                # graph-backed collections keep their output keys, and the persisted graph holds nothing but those keys
                from dask.core import flatten
                ok_, pk_ = list(flatten(o.__dask_keys__())), list(flatten(p.__dask_keys__()))
                if ok_ != pk_:
                    ctx.fail("dask.persist changed the output keys of a graph-backed collection", observed=[repr(ok_)[:150], repr(pk_)[:150]])
                elif set(dict(p.__dask_graph__())) != set(pk_):
                    ctx.fail("the graph of a persisted collection holds more than its output keys",
                             observed=sorted(map(str, set(dict(p.__dask_graph__())) ^ set(pk_)))[:5])
                ctx.branch("persist-same-keys")
            try:
                got = _canon_result(p.compute(scheduler="sync"))
            except Exception as e:
                ctx.fail(f"a collection returned by dask.{which} cannot be computed: {type(e).__name__}", sig=sig, observed=str(e)[:200])
                continue
            want = _expected(["coll", i], table)
            if got != want:
                ctx.fail(f"a collection returned by dask.{which} computes to a different value", sig=sig, observed=got, expected=want)
        ctx.branch(which + ("-with-dataframe" if has_df else ""))
        shared, sharer_first = _shares_keys(objs)
        if shared:
            ctx.branch(which + "-shared-output-keys")
        if sharer_first:
            ctx.branch(which + "-shared-output-keys:part-before-whole")
        if any(k.startswith("long") for k in seq) and len(set(ids)) >= 2:
            ctx.branch(which + "-long-named-pipelines")
    if _interleaved(seq):
        ctx.branch("persist-interleaved-optimizers")


def case_persistn(ctx, inp):
    """dask.persist / dask.optimize on NESTED arguments: the result is the argument structure with every collection
    replaced by a collection of the same type and metadata that computes to the same value; leaves unchanged,
    iterators become lists (nothing is touched when the arguments hold no collection)."""
    import dask
    import warnings
    args = inp["args"]
    ids = sorted(set(_coll_ids(args)))
    kinds = inp.get("kinds")
    table = {i: real_coll(i, kinds) for i in ids}

    def lazy(x):
        if dask.is_dask_collection(x):
            # Delayed objects (the only collections used as dict keys / set elements) are told apart by their key
            return ["lazy", type(x).__name__, _meta(x), x.key if type(x).__name__ == "Delayed" else None]
        if hasattr(x, "__next__"):
            return ["iter-untouched"]
        return None

    def want_lazy(spec, top=True):
        t = spec[0]
        if t == "coll":
            c = table[spec[1]][0]
            return ["lazy", type(c).__name__, _meta(c), c.key if type(c).__name__ == "Delayed" else None]
        if t == "leaf":
            return ["leaf", spec[1]]
        if t in ("list", "iter", "gen"):
            return ["list", [want_lazy(x, False) for x in spec[1]]]
        if t == "tuple":
            return ["tuple", [want_lazy(x, False) for x in spec[1]]]
        if t == "set":
            out = []
            for x in (want_lazy(x, False) for x in spec[1]):
                if x not in out:
                    out.append(x)
            return ["set", sorted(out, key=repr)]
        if t in ("dict", "odict"):
            out = []
            for k, v in ((want_lazy(k, False), want_lazy(v, False)) for k, v in spec[1]):
                for q in out:
                    if q[0] == k:
                        q[1] = v
                        break
                else:
                    out.append([k, v])
            return [t, out]
        return [t, len(spec[2]), [want_lazy(x, False) for x in spec[2]]]
    for which in inp.get("ops", ["persist", "optimize"]):
        built2 = [build_tree2(a, lambda i: table[i][0]) for a in args]
        objs = [o for o, _ in built2]
        aspec = [a for _, a in built2]
        with warnings.catch_warnings():
            warnings.simplefilter("ignore")
            try:
                if which == "persist":
                    outs = dask.persist(*objs, scheduler="sync", optimize_graph=inp.get("optimize_graph", True))
                else:
                    outs = dask.optimize(*objs)
            except Exception as e:
                ctx.fail(f"dask.{which} on nested arguments raised {type(e).__name__}: {str(e)[:120]}", observed=type(e).__name__)
                continue
        if not ids:
            got = ["tuple", [canon(o, lazy) for o in outs]]
            want = ["tuple", [_untouched(a, table) for a in aspec]]
            ctx.branch(which + "-nested-no-collections")
        else:
            got = ["tuple", [canon(o, lazy) for o in outs]]
            want = ["tuple", [want_lazy(a) for a in aspec]]
        if got != want:
            ctx.fail(f"dask.{which}(*args) is not args with every collection replaced by a collection of the same type and metadata",
                     observed=got, expected=want)
            continue
        if ids:
            with warnings.catch_warnings():
                warnings.simplefilter("ignore")
                try:
                    vals = dask.compute(*outs, scheduler="sync")
                except Exception as e:
                    ctx.fail(f"the structure returned by dask.{which} cannot be computed: {type(e).__name__}", observed=str(e)[:200])
                    continue
            gotv = ["tuple", [_canon_result(o) for o in vals]]
            wantv = ["tuple", [_expected(a, table, True, True) for a in aspec]]
            if gotv != wantv:
                ctx.fail(f"the collections returned by dask.{which} compute to different values", observed=gotv, expected=wantv)
        ctx.branch(which + "-nested")
        if ids and _shares_keys([table[i][0] for i in _coll_ids(args)])[0]:
            ctx.branch(which + "-nested-shared-output-keys")
    _branches(ctx, args, "persistn-")


def _meta(c):
    t = type(c).__name__
    if t == "Array":
        return [t, list(c.shape), str(c.dtype), [list(x) for x in c.chunks]]
    if t == "Bag":
        return [t, c.npartitions]
    if t in ("Series", "DataFrame"):
        cols = list(c.columns) if t == "DataFrame" else [c.name]
        return [t, c.npartitions, cols, [str(d) for d in (c.dtypes if t == "DataFrame" else [c.dtype])], list(c.divisions)]
    return [t]


def case_tune(ctx, inp):
    """_HLGExprSequence(...)._tune_down() and __dask_keys__ on real HLG expressions."""
    from dask._expr import HLGExpr, _HLGExprSequence
    ids = inp["ids"]
    kinds = ["delayed", "array", "bag", "scalar"]
    table = {i: real_coll(i, kinds) for i in set(ids)}
    colls = [real_coll(i, kinds)[0] for i in ids]   # distinct objects even for equal ids
    seq = _HLGExprSequence(*[HLGExpr.from_collection(c) for c in colls])
    tuned = seq._tune_down()
    keys = (tuned if tuned is not None else seq).__dask_keys__()
    want = [c.__dask_keys__() for c in colls]
    if keys != want:
        ctx.fail("keys of the tuned sequence are not in operand order", observed=repr(keys)[:300], expected=repr(want)[:300])
    opt = {"delayed": 0, "array": 1, "scalar": 1, "bag": 2}
    ops = [[opt[kinds[i % len(kinds)]], pos] for pos, i in enumerate(ids)]
    mkeys, mtuned = ctx.lean(Sym("tune"), ops)
    ctx.eq("_tune_down changed the sequence", bool(mtuned), tuned is not None)
    ctx.eq("__dask_keys__ order (as operand positions)", mkeys, [want.index(k) if want.count(k) == 1 else _pos(want, keys, j) for j, k in enumerate(keys)])
    if tuned is not None:
        ctx.branch("tuned")
        if _interleaved([kinds[i % len(kinds)] for i in ids]):
            ctx.branch("tuned-interleaved")
    else:
        ctx.branch("not-tuned")


def _pos(want, keys, j):
    """position of keys[j] among the operands (equal key lists occur for equal ids: take them in order)"""
    k = keys[j]
    occ = [p for p, w in enumerate(want) if w == k]
    nth = sum(1 for x in keys[:j] if x == k)
    return occ[min(nth, len(occ) - 1)]


def _sched_fn(i):
    def f(dsk, keys, **kw):
        raise RuntimeError("not meant to be called")
    f.__name__ = f"sched{i}"
    return f


_SCHED_FNS = {}


def case_sched(ctx, inp):
    import dask
    from concurrent.futures import ThreadPoolExecutor
    from functools import partial
    from dask import local, threaded, multiprocessing as dmp
    from dask.base import get_scheduler
    names = {id(local.get_sync): "local.get_sync", id(threaded.get): "threaded.get", id(dmp.get): "dask_multiprocessing.get"}
    pools = []

    def mk(spec):
        k = spec[0]
        if k == "none":
            return None
        if k == "callable":
            return _SCHED_FNS.setdefault(spec[1], _sched_fn(spec[1]))
        if k == "name":
            return spec[1]
        if k == "executor":
            p = ThreadPoolExecutor(spec[1] or 1)
            pools.append(p)
            if spec[1] is None:
                p._max_workers = None
            return p
        return 42

    class Coll:
        def __init__(self, d):
            self.__dask_scheduler__ = _SCHED_FNS.setdefault(100 + d, _sched_fn(100 + d))
    cls = None
    if inp["cls"] is not None:
        cls = type("C", (), {"__dask_scheduler__": staticmethod(_SCHED_FNS.setdefault(100 + inp["cls"], _sched_fn(100 + inp["cls"])))})
    colls = [None if c is None else Coll(c) for c in inp["colls"]]
    # every key is set explicitly: core.import_dd() leaves `scheduler: sync` in the global config of this process
    cfg = {"scheduler": mk(inp["cfg"]) if inp["cfg"][0] != "none" else None,
           "get": _sched_fn(999) if inp["cfgget"] else None}
    if inp["cfgworkers"] is not None:
        cfg["num_workers"] = inp["cfgworkers"]
    try:
        with dask.config.set(cfg):
            r = get_scheduler(get=(_sched_fn(998) if inp["get"] else None), scheduler=mk(inp["sched"]),
                              collections=colls if inp["colls"] else None, cls=cls)
        if r is None:
            real = ["nothing"]
        elif id(r) in names:
            real = ["fn", names[id(r)]]
        elif isinstance(r, partial) and r.func is local.get_async:
            real = ["async", r.args[1]]
        else:
            hit = [k for k, v in _SCHED_FNS.items() if v is r or getattr(r, "__func__", None) is v]
            real = (["callable", hit[0]] if hit and hit[0] < 100 else ["default", hit[0] - 100]) if hit else ["unknown", repr(r)]
    except (TypeError, ValueError, RuntimeError, AssertionError) as e:
        real = ["raised", type(e).__name__]
    finally:
        for p in pools:
            p.shutdown(wait=False)
    import os
    from dask.system import CPU_COUNT

    def enc(spec):
        if spec[0] == "executor":
            return [Sym("executor"), spec[1]]
        if spec[0] in ("callable", "name"):
            return [Sym(spec[0]), spec[1]]
        return [Sym(spec[0])]
    model = ctx.lean(Sym("getscheduler"), CPU_COUNT, inp["get"], enc(inp["sched"]), enc(inp["cfg"]), inp["cfgget"],
                     inp["cfgworkers"], inp["cls"], inp["colls"])
    ctx.eq("get_scheduler", [str(model[0])] + list(model[1:]), real)
    ctx.branch("sched-" + real[0] + ("-" + str(real[1]) if real[0] == "raised" else ""))
    if inp["sched"][0] == "none" and inp["cfg"][0] != "none":
        ctx.branch("sched-from-config")


CASES = {"unpack": case_unpack, "compute": case_compute, "persist": case_persist, "persistn": case_persistn, "tune": case_tune,
         "sched": case_sched}


# ----------------------------------------------------------------------------------------------
# generators
# ----------------------------------------------------------------------------------------------

def gen_tree(rng, depth, ids, hashable=False, maxdepth=4):
    r = rng.random()
    if depth >= maxdepth or r < 0.3:
        if rng.random() < 0.65:
            return ["coll", rng.choice(ids)]
        if rng.random() < 0.3:
            return ["leaf", rng.choice(HASHABLE_LEAVES[6:]) if hashable else rng.randint(6, 15)]
        return ["leaf", rng.randint(0, 5)]
    if hashable:
        return ["tuple", [gen_tree(rng, depth + 1, ids, True, maxdepth) for _ in range(rng.randint(0, 2))]]
    k = rng.randrange(9)
    n = rng.randint(0, 3)
    if k == 0:
        return ["list", [gen_tree(rng, depth + 1, ids, False, maxdepth) for _ in range(n)]]
    if k == 1:
        return ["tuple", [gen_tree(rng, depth + 1, ids, False, maxdepth) for _ in range(n)]]
    if k == 2:
        return ["set", _distinct([gen_tree(rng, depth + 2, ids, True, maxdepth) for _ in range(n)])]
    if k in (3, 4):
        keys = _distinct([gen_tree(rng, depth + 2, ids, True, maxdepth) for _ in range(n)])
        return ["dict" if k == 3 else "odict", [[kk, gen_tree(rng, depth + 1, ids, False, maxdepth)] for kk in keys]]
    if k == 5:
        return ["dc", rng.choice([0, 0, 1]), [gen_tree(rng, depth + 1, ids, False, maxdepth) for _ in range(rng.randint(1, 3))]]
    if k == 6:
        return ["nt", 0, [gen_tree(rng, depth + 1, ids, False, maxdepth) for _ in range(rng.randint(1, 3))]]
    if k == 7:
        kind = rng.choice(["iter", "iter", "gen"])
        if rng.random() < 0.35:
            # an iterator that holds plain leaves only (nothing to substitute inside)
            return [kind, [["leaf", rng.randint(0, 15)] for _ in range(rng.randint(0, 3))]]
        return [kind, [gen_tree(rng, depth + 1, ids, False, maxdepth) for _ in range(n)]]
    if rng.random() < 0.3:
        # a container whose only element is a leaf object
        return [rng.choice(["list", "tuple"]), [["leaf", rng.randint(6, 15)]]]
    return ["list", [["coll", rng.choice(ids)] for _ in range(n)]]


def _distinct(specs):
    out = []
    for s in specs:
        if s not in out:
            out.append(s)
    return out


EXPLICIT_COMPUTE = [
    # DESIGN.md 6 #32: two collection types interleaved (fixed by 2fdba98)
    {"args": [["coll", 2], ["coll", 1], ["coll", 5], ["coll", 6]], "kinds": ["delayed", "array", "bag", "scalar"]},
    {"args": [["list", [["list", [["tuple", [["coll", 2], ["coll", 1], ["coll", 5]]]]], ["coll", 6]]]], "kinds": ["delayed", "array", "bag", "scalar"]},
    {"args": [["coll", 0], ["coll", 1], ["coll", 2], ["coll", 4], ["coll", 5], ["coll", 6]], "kinds": ["delayed", "array", "bag", "scalar"]},
]


def _sid(kind, n=0):
    return n * len(SHARE_KINDS) + SHARE_KINDS.index(kind)


EXPLICIT_SHARED = [
    # a piece before the whole, the whole before its pieces, an Item and its Delayed twin, a wrapped key, re-persisting
    ("persist", {"ids": [_sid("sarr-piece0"), _sid("sarr")], "kinds": SHARE_KINDS}),
    ("persist", {"ids": [_sid("sarr"), _sid("sarr-piece0"), _sid("sarr-pieceL")], "kinds": SHARE_KINDS}),
    ("persist", {"ids": [_sid("sbag-pieceL"), _sid("sbag"), _sid("sbag-piece0")], "kinds": SHARE_KINDS}),
    ("persist", {"ids": [_sid("sarr-block0"), _sid("sarr"), _sid("sarr-blockL")], "kinds": SHARE_KINDS}),
    ("persist", {"ids": [_sid("sarr-key"), _sid("sarr"), _sid("sbag-key"), _sid("sbag")], "kinds": SHARE_KINDS}),
    ("persist", {"ids": [_sid("sitem"), _sid("sitem-del")], "kinds": SHARE_KINDS}),
    ("persist", {"ids": [_sid("stask"), _sid("stask", 1), _sid("stask-persisted"), _sid("stask-persisted", 1)], "kinds": SHARE_KINDS}),
    ("persist", {"ids": [_sid("sitem-del"), _sid("sitem")], "kinds": SHARE_KINDS}),
    ("persist", {"ids": [_sid("sarr-persisted"), _sid("sarr"), _sid("sdel-persisted"), _sid("sdel"), _sid("sdel-key")], "kinds": SHARE_KINDS}),
    ("persist", {"ids": [_sid("sarr-piece0"), _sid("sarr-piece0"), _sid("sarr-piece0", 1), _sid("sarr", 1)], "kinds": SHARE_KINDS}),
    ("compute", {"args": [["list", [["coll", _sid("sitem-del")], ["coll", _sid("sitem")]]], ["coll", _sid("sarr-piece0")], ["coll", _sid("sarr")]],
                 "kinds": SHARE_KINDS, "traverse": True, "scheduler": "sync", "optimize_graph": True}),
    ("persistn", {"args": [["dict", [[["leaf", 1], ["coll", _sid("sbag-piece0")]], [["leaf", 2], ["coll", _sid("sbag")]]]], ["coll", _sid("sarr-key")],
                           ["tuple", [["coll", _sid("sarr")], ["coll", _sid("sitem-del")], ["coll", _sid("sitem")]]]],
                  "kinds": SHARE_KINDS, "optimize_graph": True}),
]


def generate(ctx):
    rng = ctx.rng
    # function level: traversal model
    for _ in range(ctx.n(800, 10000)):
        ids = rng.sample(range(12), rng.randint(1, 5))
        args = [gen_tree(rng, 0, ids) for _ in range(rng.randint(0, 4))]
        yield "unpack", {"args": args, "traverse": rng.random() < 0.8}
    # every argument structure up to depth 2 over {two collections, a string, a list subclass, a frozenset}
    from props import _token_exhaustive as X
    for i, case in enumerate(X.tree_cases()):
        if ctx.thorough() or i % 4 == ctx.seed % 4:
            yield case
    # function level: operand grouping
    # every sequence of optimizers (delayed / array / bag) up to length 4 (thorough: 6), then random longer ones
    import itertools
    for ln in range(1, 5 if not ctx.thorough() else 7):
        for combo in itertools.product([0, 1, 2], repeat=ln):
            # ids with kind = id % 4 in (delayed, array, bag): distinct ids per position so that keys differ
            yield "tune", {"ids": [k + 4 * (pos + 1) for pos, k in enumerate(combo)]}
    for _ in range(ctx.n(20, 300)):
        yield "tune", {"ids": [rng.randrange(12) for _ in range(rng.randint(5, 9))]}
    # function level: scheduler choice
    def spec():
        k = rng.randrange(7)
        if k <= 1:
            return ["none"]
        if k == 2:
            return ["callable", rng.randrange(3)]
        if k in (3, 4):
            base = rng.choice(["sync", "synchronous", "single-threaded", "threads", "threading", "processes", "multiprocessing",
                               "distributed", "dask.distributed", "nope", "", "thread"])
            return ["name", rng.choice([base, base.upper(), base.capitalize()])]
        if k == 5:
            return ["executor", rng.choice([1, 2, 3, None])]
        return ["other"]
    for _ in range(ctx.n(250, 2500)):
        yield "sched", {"get": rng.random() < 0.05, "sched": spec(), "cfg": spec() if rng.random() < 0.5 else ["none"],
                        "cfgget": rng.random() < 0.05, "cfgworkers": rng.choice([None, None, 2, 5]),
                        "cls": rng.choice([None, None, 0, 1]),
                        "colls": [rng.choice([None, 0, 0, 1]) for _ in range(rng.choice([0, 1, 2, 3]))]}
    # API level
    for e in EXPLICIT_COMPUTE:
        yield "compute", dict(e)
        yield "persist", {"ids": _coll_ids(e["args"]), "kinds": e["kinds"]}
    scheds = ["sync", "sync", "threads", "executor"] + (["processes"] if ctx.thorough() else [])
    for _ in range(ctx.n(45, 450)):
        kinds = rng.choice([None, None, ["delayed", "array", "bag", "scalar"], ["delayed", "array"], ["delayed", "bag", "array"]])
        sched = rng.choice(scheds)
        if sched == "processes" and kinds is None:
            # the pyarrow import stub is not active in worker processes: no dataframes with the processes scheduler
            kinds = ["delayed", "array", "bag", "scalar"]
        nk = len(kinds or KINDS)
        ids = rng.sample(range(3 * nk), rng.randint(1, 5))
        delayed_ids = [i for i in range(3 * nk) if (kinds or KINDS)[i % nk] == "delayed"]
        args = [_hashable_fix(gen_tree(rng, 0, ids, maxdepth=3), delayed_ids, rng) for _ in range(rng.randint(1, 4))]
        yield "compute", {"args": args, "kinds": kinds, "traverse": rng.random() < 0.85, "scheduler": sched,
                          "optimize_graph": rng.random() < 0.7}
    for _ in range(ctx.n(25, 250)):
        kinds = rng.choice([None, ["delayed", "array", "bag", "scalar"], ["delayed", "array", "bag", "scalar"], ["delayed", "array"]])
        nk = len(kinds or KINDS)
        ids = rng.sample(range(2 * nk), rng.randint(0, 3))
        delayed_ids = [i for i in range(2 * nk) if (kinds or KINDS)[i % nk] == "delayed"]
        args = [_hashable_fix(gen_tree(rng, 0, ids or [0], maxdepth=3), delayed_ids, rng) for _ in range(rng.randint(1, 3))]
        if not ids:
            args = [_strip_colls(a) for a in args]
        yield "persistn", {"args": args, "kinds": kinds, "optimize_graph": rng.random() < 0.7}
    for _ in range(ctx.n(10, 100)):
        # pipelines with the same long-named steps over different data: cut fused names must still differ
        kinds = rng.choice([["longbag"], ["longarr"], ["longbag", "longarr"], ["longbag", "delayed", "longarr"]])
        yield "persist", {"ids": rng.sample(range(8), rng.randint(2, 4)), "kinds": kinds,
                          "scheduler": "sync", "optimize_graph": True}
    # collections that share output keys in one call (a collection with its own pieces / blocks / wrapped key / persisted
    # copy, an Item with its to_delayed()), in every order, flat and nested
    for e in EXPLICIT_SHARED:
        yield e[0], dict(e[1])
    for _ in range(ctx.n(40, 400)):
        kinds = SHARE_KINDS_DF if rng.random() < 0.15 else SHARE_KINDS
        nk = len(kinds)
        ns = rng.sample(range(4), rng.choice([1, 1, 2]))
        fam = rng.choice(["sarr", "sbag", "sitem", "sdel", "stask", "sframe" if kinds is SHARE_KINDS_DF else "sarr", None])
        pool = [n * nk + k for n in ns for k, name in enumerate(kinds) if fam is None or name.startswith(fam) or name == "delayed"]
        ids = [rng.choice(pool) for _ in range(rng.randint(2, 5))]
        r = rng.random()
        if r < 0.5:
            yield "persist", {"ids": ids, "kinds": kinds, "scheduler": rng.choice(["sync", "sync", "threads"]),
                              "optimize_graph": rng.random() < 0.7}
        else:
            delayed_ids = [n * nk + kinds.index("delayed") for n in ns]
            args = [_hashable_fix(gen_tree(rng, 0, ids, maxdepth=2), delayed_ids, rng) for _ in range(rng.randint(1, 3))]
            if r < 0.75:
                yield "persistn", {"args": args, "kinds": kinds, "optimize_graph": rng.random() < 0.7}
            else:
                yield "compute", {"args": args, "kinds": kinds, "traverse": True, "scheduler": rng.choice(["sync", "threads"]),
                                  "optimize_graph": rng.random() < 0.7}
    for _ in range(ctx.n(8, 80)):
        kinds = rng.choice([None, ["delayed", "array", "bag", "scalar"]])
        nk = len(kinds or KINDS)
        yield "persist", {"ids": [rng.randrange(2 * nk) for _ in range(rng.randint(1, 5))], "kinds": kinds,
                          "scheduler": rng.choice(["sync", "threads"]), "optimize_graph": rng.random() < 0.7}


def _strip_colls(spec):
    """the same structure without collections (they become leaves)"""
    t = spec[0]
    if t == "coll":
        return ["leaf", spec[1] % 6]
    if t == "leaf":
        return spec
    if t in ("dict", "odict"):
        return [t, _distinct_keys([[_strip_colls(k), _strip_colls(v)] for k, v in spec[1]])]
    if t in ("dc", "nt"):
        return [t, spec[1], [_strip_colls(x) for x in spec[2]]]
    kids = [_strip_colls(x) for x in spec[1]]
    return [t, _distinct(kids) if t == "set" else kids]


def _distinct_keys(items):
    out = []
    for k, v in items:
        if all(k != q[0] for q in out):
            out.append([k, v])
    return out


def _hashable_fix(spec, delayed_ids, rng):
    """inside sets and dict keys only collections with hashable results (delayed ints) may occur"""
    t = spec[0]

    def fixh(s):
        if s[0] == "coll":
            return ["coll", rng.choice(delayed_ids)]
        if s[0] == "tuple":
            return ["tuple", [fixh(x) for x in s[1]]]
        return s
    if t == "set":
        return ["set", _distinct([fixh(s) for s in spec[1]])]
    if t in ("dict", "odict"):
        keys = _distinct([fixh(k) for k, _ in spec[1]])
        vals = [v for _, v in spec[1]]
        return [t, [[k, _hashable_fix(v, delayed_ids, rng)] for k, v in zip(keys, vals)]]
    if t in ("list", "tuple", "iter", "gen"):
        return [t, [_hashable_fix(s, delayed_ids, rng) for s in spec[1]]]
    if t in ("dc", "nt"):
        return [t, spec[1], [_hashable_fix(s, delayed_ids, rng) for s in spec[2]]]
    return spec


def search(ctx):
    yield from generate(ctx)
