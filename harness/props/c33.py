"""C33 — masked array operations equal numpy.ma.

Model:    lean/DaskModel/Model/Masked.lean (element type Option Int; reductions = K1 at the lifted monoid,
          elementwise = blockwise zip, cumulative = K2 on the filled data with the mask re-applied)
Theorems: lean/DaskModel/Props/C33.lean
Tie:      API level vs numpy.ma (mask exactly, data where unmasked, fill_value where it is part of the call):
          construction, elementwise (unary/binary, mixed chunkings), reductions (axis tuples × keepdims ×
          split_every), filled/getmaskarray/getdata, masked_where/inside/outside/invalid/equal/greater…,
          cumsum/cumprod; integer cases are also compared with the Lean model run by the driver.
          Section seq — sequences of 2–5 operations on ONE array (stacked masking functions, set_fill_value in place,
          possibly twice, arithmetic, rechunk) mirrored step by step in numpy.ma; an alias taken before an in-place
          step keeps its meaning; result / filled() / mask / sum / count compared, computed jointly and alone; the
          NumPy source array must be unchanged (data, mask, fill_value) after computing.
          Extension (harness/props/_c33x.py, Props/C33xRed.lean): sections mapartials (every chunk-level partial, combine task
          and aggregate of the REAL graph of a masked reduction vs the pair model, `nomask` status of the blocks included) and
          maarr (getmaskarray / getdata / filled per block, `nomask` expanded), maavg (average with weights).
"""
from __future__ import annotations

import itertools
import warnings

import numpy as np

from sexp import Sym
from props import _reduce_util as U
from props.c22 import check_plan, norm_axes, dec_split, eff_split
from props import _c33x as X

PROP = "C33"
READY = True
DRIVER = "dm_reduce"
LEAN_MODULES = ["DaskModel.Props.C33", "DaskModel.Props.C33xRed"]
CASE_TIMEOUT_S = 20
LEVEL_TEXT = (
    "Proved in Lean 4 at the element type Masked = Option Int (none = masked), for every blocking, split_every and valid depth: "
    "ma_reduce_eq (sum/prod/min/max skip masked elements and are masked iff everything is masked — K1 treeReduce_eq_fold at the "
    "lifted monoid, all-masked and empty blocks included), ma_reduce_nd_eq (the same over several axes at once, any per-axis "
    "split_every), ma_count_eq, ma_mean_eq ((masked total, #unmasked)), ma_elemwise_den (block-wise binary op = whole-array op, "
    "mask = OR), construction masked_array_den / getmask_masked_array, filled_den, getmaskarray_den, masked_where_den, "
    "masked_by_den (every masked_<predicate>: equal/greater/less/…/invalid is one predicate on the value applied per block), "
    "masked_inside_den / masked_outside_den with numpy.ma's normalisation of the bounds, masked_inside_swap / "
    "masked_outside_swap (bounds in either order), masked_inside_mask, inside_outside_partition, masked_inside_raw_refuted / "
    "masked_outside_raw_refuted (the plain comparison (x >= v1) & (x <= v2) is wrong for reversed bounds), ma_cumsum_eq "
    "(sequential cumsum/cumprod on masked blocks = np.ma.cumsum). VALIDATED against numpy.ma only: fill_value propagation, dtype "
    "promotion, var/std/any/all on masked data, NaN/inf semantics of masked_invalid / fix_invalid, the tolerances of "
    "masked_values, average / set_fill_value, Blelloch scans on masked data, n-d value equality of reductions, sequences of "
    "in-place steps (section seq). EXTENSION (Props/C33xRed, element = the (data, mask) pair numpy.ma stores, a block carries "
    "`mask is nomask`, chunk/combine/aggregate = numpy.ma's (filled(e).op(), _check_mask_axis(mask)); any monoid (op, e): sum, prod, "
    "any, all): ma_tree_eq (one partial: payload = fold of the unmasked values — ma_contributes_iff_unmasked —, masked iff every "
    "block partial is), ma_all_masked_block_unit / ma_unit_partial_neutral, ma_red_eq_numpy_ma with instances ma_sum_eq_numpy_ma / "
    "ma_prod_eq_numpy_ma / ma_any_eq_numpy_ma / ma_all_eq_numpy_ma (blocks of from_array, nomask arrays and zero-length chunks "
    "included: payload AND mask of numpy.ma's reduction of the whole array), ma_sum_spec, ma_all_masked_result_masked (masked iff the "
    "array has a mask and every element is masked), maChunk_toOpt_eq_mfold (the Option model is this one with the payload "
    "forgotten), ma_min_max_eq (= List.min?/max? of the unmasked values), ma_mean_eq_numpy_ma ((total, n): n = #unmasked, both "
    "masked iff everything is), ma_var_eq / ma_var_all_masked (moment tree over the unmasked values = C22.var_eq_numpy), "
    "getmaskarray_nomask_den (nomask expanded per block), getdata_den, filled_arr_den, ma_red_nd_eq (the pair-level tree over SEVERAL "
    "axes at once, commutative monoid, every per-axis split_every), ma_average_eq_partial (da.ma.average(weights=w): numerator = "
    "weighted sum of the unmasked values, denominator = total weight of the unmasked positions; the numerator's blocks come from a "
    "per-block ufunc call and are shrunk, hence partial). REFUTED (finding, not repaired): for blocks "
    "that went through a per-block numpy.ma masking function (masked_where/greater/…: masks shrunk to nomask block by block) "
    "ma_red_shrunk_empty_block_refuted — a zero-length block becomes nomask, its partial is the unmasked unit, and sum/prod/any/all/"
    "mean/var of a completely masked array return 0/1/False/True/nan where numpy.ma returns masked; "
    "ma_red_shrunk_eq_numpy_partial is the theorem on the complement (no zero-length block or not everything masked)."
)
LEVEL_NOTE = ("Trusted: Lean kernel + standard axioms; numpy.ma on one block and numpy.ma as the reference; payload under "
              "the mask is unspecified in numpy.ma and is never compared.")
TECHNIQUE = "Lean 4 proof (K1/K2 instantiated at Option Int; pointwise maps distribute over blocks) + differential correspondence against numpy.ma"
ASSUMPTIONS = ["values under the mask are not observable (compared only through filled/getdata of unmasked positions)",
               "the value type of the model is Int: predicates on floats (NaN, inf, tolerances) are abstract predicates p in masked_by_den"]
TRUSTED = ["numpy.ma per-block kernels and numpy.ma as oracle"]


def _da():
    import dask
    import dask.array as da
    dask.config.set(scheduler="sync")
    return da


def dec_ma(d):
    data = np.array(d["data"], dtype=d.get("dtype", "int64")).reshape(d["shape"])
    if d.get("mask") is None:
        return np.ma.masked_array(data) if d.get("ma", True) else data
    kw = {}
    if d.get("fill") is not None:
        kw["fill_value"] = d["fill"]
    return np.ma.masked_array(data, mask=np.array(d["mask"], dtype=bool).reshape(d["shape"]), **kw)


def ma_same(got, exp, exact=True, scale=1.0, fill=False):
    """None if `got` equals `exp` in the numpy.ma sense, else a description."""
    if exp is np.ma.masked or got is np.ma.masked:
        ok = (exp is np.ma.masked or (isinstance(exp, np.ma.MaskedArray) and exp.ndim == 0 and bool(np.ma.getmaskarray(exp)))) and \
             (got is np.ma.masked or (isinstance(got, np.ma.MaskedArray) and got.ndim == 0 and bool(np.ma.getmaskarray(got))))
        return None if ok else "masked scalar vs value"
    gm, em = np.ma.getmaskarray(got), np.ma.getmaskarray(exp)
    if gm.shape != em.shape:
        return f"shape {gm.shape} vs {em.shape}"
    if not np.array_equal(gm, em):
        return "mask differs"
    gd, ed = np.ma.getdata(got), np.ma.getdata(exp)
    keep = ~em
    if exact:
        if not np.array_equal(np.asarray(gd)[keep], np.asarray(ed)[keep], equal_nan=(np.asarray(ed).dtype.kind == "f")):
            return "data differs where unmasked"
    else:
        with warnings.catch_warnings():
            warnings.simplefilter("ignore")
            if not np.allclose(np.asarray(gd, dtype=float)[keep], np.asarray(ed, dtype=float)[keep], rtol=1e-9,
                               atol=1e-9 * max(1.0, scale), equal_nan=True):
                return "data differs where unmasked"
    if fill and isinstance(exp, np.ma.MaskedArray):
        if not isinstance(got, np.ma.MaskedArray):
            return "result is not a masked array"
        if not (got.fill_value == exp.fill_value or (got.fill_value != got.fill_value and exp.fill_value != exp.fill_value)):
            return f"fill_value {got.fill_value!r} vs {exp.fill_value!r}"
    return None


def show(x):
    if x is np.ma.masked:
        return "masked"
    try:
        return {"data": np.ma.getdata(x).tolist(), "mask": np.ma.getmaskarray(x).tolist()}
    except Exception:
        return repr(x)


def compare(ctx, what, got, exp, exact=True, scale=1.0, fill=False):
    if exp[0] == "raised":
        if got[0] != "raised":
            ctx.fail(f"{what}: numpy.ma raises {exp[1]} but dask returned a value", observed=show(got[1]))
        ctx.branch("numpy-raises")
        return False
    if got[0] == "raised":
        ctx.fail(f"{what}: dask raised but numpy.ma returns a value: {got[1]}", observed=got[1], expected=show(exp[1]))
        return False
    why = ma_same(got[1], exp[1], exact, scale, fill)
    if why:
        ctx.fail(f"{what}: {why}", observed=show(got[1]), expected=show(exp[1]))
        return False
    return True


def enc_m(arr):
    """masked 1-d array -> list for the driver (masked element = symbol m)"""
    mask = np.ma.getmaskarray(arr)
    data = np.ma.getdata(arr)
    return [Sym("m") if m else int(v) for v, m in zip(data.ravel(), mask.ravel())]


def branches(ctx, m, chunks):
    mask = np.ma.getmaskarray(m)
    if mask.any():
        ctx.branch("some masked")
    if not isinstance(m, np.ma.MaskedArray) or m.mask is np.ma.nomask:
        ctx.branch("nomask")
    for _, _, blk in U.blocks_c_order(mask, chunks):
        if blk.size and blk.all():
            ctx.branch("all-masked chunk")
            break
    if any(len(c) > 1 and len(set(c)) > 1 for c in chunks):
        ctx.branch("irregular chunks")


# ---------------------------------------------------------------------------------------------

def case_construct(ctx, inp):
    da = _da()
    data = np.array(inp["data"], dtype=inp.get("dtype", "int64")).reshape(inp["shape"])
    chunks = tuple(tuple(c) for c in inp["chunks"])
    mk = inp["mask_kind"]
    mask = None if mk == "nomask" else (bool(inp["mask"]) if mk == "scalar" else np.array(inp["mask"], dtype=bool).reshape(inp["shape"]))
    fill = inp.get("fill")
    x = da.from_array(data, chunks=chunks)

    def impl():
        if mk == "nomask":
            return U.sync_compute(da.ma.masked_array(x, fill_value=fill))
        if mk == "dask":
            return U.sync_compute(da.ma.masked_array(x, mask=da.from_array(mask, chunks=tuple(tuple(c) for c in inp["mchunks"])), fill_value=fill))
        return U.sync_compute(da.ma.masked_array(x, mask=mask, fill_value=fill))

    def ref():
        if mk == "nomask":
            return np.ma.masked_array(data, fill_value=fill)
        return np.ma.masked_array(data, mask=mask, fill_value=fill)

    got, exp = U.run_both(impl, ref)
    if compare(ctx, "masked_array", got, exp, True, fill=True):
        if not isinstance(got[1], np.ma.MaskedArray):
            ctx.fail("masked_array did not produce a masked array", observed=repr(type(got[1])))
    ctx.branch("mask=" + mk)
    if fill is not None:
        ctx.branch("fill_value")


BIN = {"add": np.add, "sub": np.subtract, "mul": np.multiply, "maximum": np.maximum, "less": np.less, "eq": np.equal}
UN = {"neg": np.negative, "abs": np.abs, "square": np.square}


def case_elemwise(ctx, inp):
    da = _da()
    a = dec_ma(inp["a"])
    ca = tuple(tuple(c) for c in inp["ca"])
    x = da.from_array(a, chunks=ca)
    op = inp["op"]
    if op in UN:
        got, exp = U.run_both(lambda: U.sync_compute(UN[op](x)), lambda: UN[op](a))
        compare(ctx, op, got, exp, True)
        ctx.branch("unary")
    else:
        b = dec_ma(inp["b"])
        cb = tuple(tuple(c) for c in inp["cb"])
        y = da.from_array(b, chunks=cb)
        got, exp = U.run_both(lambda: U.sync_compute(BIN[op](x, y)), lambda: BIN[op](a, b))
        ok = compare(ctx, op, got, exp, True)
        if ca != cb:
            ctx.branch("different chunkings")
        if not isinstance(b, np.ma.MaskedArray):
            ctx.branch("masked op plain")
        if ok and a.ndim == 1 and op in ("add", "sub", "mul") and ca == cb and isinstance(b, np.ma.MaskedArray):
            xs = [enc_m(blk) for _, _, blk in U.blocks_c_order(a, ca)]
            ys = [enc_m(blk) for _, _, blk in U.blocks_c_order(b, cb)]
            m = ctx.lean(Sym("mazip"), Sym(op), xs, ys)
            flat = [v for blk in m for v in blk]
            ctx.eq(f"{op}: Lean blockZip vs dask", [None if v == "m" else v for v in flat],
                   [None if mk else int(v) for v, mk in zip(np.ma.getdata(got[1]), np.ma.getmaskarray(got[1]))])
            ctx.branch("lean-value")
    branches(ctx, a, ca)


RED = ["sum", "prod", "min", "max", "mean", "var", "std", "any", "all", "count"]
LEAN_RED = {"sum", "prod", "min", "max", "count", "mean"}


def case_reduce(ctx, inp):
    da = _da()
    a = dec_ma(inp["a"])
    chunks = tuple(tuple(c) for c in inp["chunks"])
    op, axis, kd, se = inp["op"], inp["axis"], inp["keepdims"], dec_split(inp["split_every"])
    ax_arg = None if axis is None else (axis if isinstance(axis, int) else tuple(axis))
    x = da.from_array(a, chunks=chunks)
    holder = {}

    def impl():
        if op == "count":
            holder["r"] = da.ma.count(x, axis=ax_arg, keepdims=kd, split_every=se)
        else:
            holder["r"] = getattr(da, op)(x, axis=ax_arg, keepdims=kd, split_every=se)
        return U.sync_compute(holder["r"])

    def ref():
        if op == "count":
            return np.ma.count(a, axis=ax_arg, keepdims=kd)
        return getattr(np.ma, op)(a, axis=ax_arg, keepdims=kd)

    got, exp = U.run_both(impl, ref)
    exact = op in ("sum", "prod", "min", "max", "any", "all", "count") and a.dtype.kind in "iub"
    s = U.fsum_abs(np.ma.getdata(a))
    ok = compare(ctx, op, got, exp, exact, max(1.0, s * s if op in ("var", "std") else s))
    axes = norm_axes(axis, a.ndim)
    if ok and op not in ("std",):
        depth, split = check_plan(ctx, "ma." + op, holder["r"], [len(c) for c in chunks], axes, kd, se)
        if op in LEAN_RED and a.dtype.kind in "iu" and a.size <= 40:
            kept = [i for i in range(a.ndim) if i not in axes]
            res = got[1] if kd is False else impl_nokd(da, x, op, ax_arg, se)
            for cell in itertools.product(*[range(a.shape[i]) for i in kept]):
                sl = [slice(None)] * a.ndim
                for i, c in zip(kept, cell):
                    sl[i] = c
                sub = a[tuple(sl)]
                blocks = [enc_m(blk) for _, _, blk in U.blocks_c_order(sub, [chunks[i] for i in axes])]
                r = ctx.lean(Sym("mareduce"), Sym(op), [len(chunks[i]) for i in axes], [split[i] for i in axes], False, depth, blocks)
                if r[0] != "ok" or len(r) != 2:
                    ctx.disagree(f"ma.{op}: Lean tree failed", r, None)
                    break
                mv = r[1][1]
                rv = res if not kept else res[cell]
                masked = rv is np.ma.masked or bool(np.ma.getmaskarray(rv))
                if op == "mean":
                    tot, n = mv
                    if (tot == "m" or n == 0) != masked or (not masked and abs(float(tot) / n - float(rv)) > 1e-9 * max(1.0, s)):
                        ctx.disagree("ma.mean: Lean (total, n) vs dask", [str(tot), n], None if masked else float(rv))
                else:
                    ctx.eq(f"ma.{op}: Lean tree vs dask", None if mv == "m" else mv, None if masked else int(rv))
            ctx.branch("lean-value")
    branches(ctx, a, chunks)
    if any(0 in c for c in chunks):
        ctx.branch("zero-length chunk")


def impl_nokd(da, x, op, ax_arg, se):
    if op == "count":
        return U.sync_compute(da.ma.count(x, axis=ax_arg, split_every=se))
    return U.sync_compute(getattr(da, op)(x, axis=ax_arg, split_every=se))


def case_fn(ctx, inp):
    da = _da()
    a = dec_ma(inp["a"])
    chunks = tuple(tuple(c) for c in inp["chunks"])
    fn, args = inp["fn"], inp.get("args", [])
    x = da.from_array(a, chunks=chunks)
    fill = False
    if fn == "masked_where":
        cond = np.array(inp["cond"], dtype=bool).reshape(a.shape)
        cx = da.from_array(cond, chunks=tuple(tuple(c) for c in inp["cchunks"]))
        got, exp = U.run_both(lambda: U.sync_compute(da.ma.masked_where(cx, x)), lambda: np.ma.masked_where(cond, a))
        if a.ndim == 1 and a.dtype.kind in "iu" and got[0] == "ok":
            m = ctx.lean(Sym("mawhere"), [bool(c) for c in cond], enc_m(a))
            ctx.eq("masked_where: Lean vs dask", [v == "m" for v in m], np.ma.getmaskarray(got[1]).tolist())
            ctx.branch("lean-value")
    elif fn == "set_fill_value":
        src = dec_ma(inp["a"])      # own source: NumPy's set_fill_value below reaches `a` through the shared fill value of a.copy()

        def impl():
            y = da.from_array(src, chunks=chunks)
            da.ma.set_fill_value(y, args[0])
            return U.sync_compute(y)

        def ref():
            b = dec_ma(inp["a"])
            np.ma.set_fill_value(b, args[0])
            return b
        got, exp = U.run_both(impl, ref)
        fill = isinstance(a, np.ma.MaskedArray)
    elif fn == "filled":
        got, exp = U.run_both(lambda: U.sync_compute(da.ma.filled(x, *args)), lambda: np.ma.filled(a, *args))
        if a.ndim == 1 and a.dtype.kind in "iu" and args and got[0] == "ok":
            ctx.eq("filled: Lean vs dask", ctx.lean(Sym("mafilled"), int(args[0]), enc_m(a)), [int(v) for v in got[1]])
            ctx.branch("lean-value")
    elif fn == "average":
        got, exp = U.run_both(lambda: U.sync_compute(da.ma.average(x, axis=inp.get("axis"))), lambda: np.ma.average(a, axis=inp.get("axis")))
    else:
        kw = inp.get("kw", {})
        got, exp = U.run_both(lambda: U.sync_compute(getattr(da.ma, fn)(x, *args, **kw)), lambda: getattr(np.ma, fn)(a, *args, **kw))
        if kw:
            ctx.branch(fn + " with keywords")
        fill = fn.startswith("masked_") and isinstance(a, np.ma.MaskedArray)
        if fn in ("masked_inside", "masked_outside") and a.dtype.kind in "iu" and got[0] == "ok":
            flat = np.ma.masked_array(a).ravel() if not isinstance(a, np.ma.MaskedArray) else a.ravel()
            m = ctx.lean(Sym("mainside"), fn == "masked_outside", int(args[0]), int(args[1]), enc_m(flat))
            ctx.eq(f"{fn}: Lean (bounds normalised as numpy.ma does) vs dask", [v == "m" for v in m],
                   np.ma.getmaskarray(got[1]).ravel().tolist())
            ctx.branch("lean-value")
    exact = fn not in ("average",)
    compare(ctx, fn, got, exp, exact, U.fsum_abs(np.ma.getdata(a)), fill=fill)
    branches(ctx, a, chunks)
    if fn in ("masked_inside", "masked_outside") and args[0] > args[1]:
        ctx.branch("bounds in reverse order")
    ctx.branch(fn)


def case_cum(ctx, inp):
    da = _da()
    a = dec_ma(inp["a"])
    chunks = tuple(tuple(c) for c in inp["chunks"])
    op, axis, method = inp["op"], inp["axis"], inp["method"]
    x = da.from_array(a, chunks=chunks)
    got, exp = U.run_both(lambda: U.sync_compute(getattr(da, op)(x, axis=axis, method=method)),
                          lambda: getattr(np.ma, op)(a, axis=axis))
    ok = compare(ctx, f"{op}[{method}]", got, exp, True)
    if ok and a.ndim == 1 and method == "sequential" and a.dtype.kind in "iu":
        m = ctx.lean(Sym("mascan"), Sym("sum" if op == "cumsum" else "prod"), [enc_m(blk) for _, _, blk in U.blocks_c_order(a, chunks)])
        flat = [v for blk in m for v in blk]
        ctx.eq(f"{op}: Lean masked scan vs dask", [None if v == "m" else v for v in flat],
               [None if mk else int(v) for v, mk in zip(np.ma.getdata(got[1]), np.ma.getmaskarray(got[1]))])
        ctx.branch("lean-value")
    branches(ctx, a, chunks)
    ctx.branch(method)


def _joint_item(da, x, shape, it):
    f = it["fn"]
    if f == "filled":
        return da.ma.filled(x, it["v"])
    if f in ("masked_greater", "masked_less", "masked_equal", "masked_not_equal"):
        return getattr(da.ma, f)(x, it["v"])
    if f in ("masked_inside", "masked_outside"):
        return getattr(da.ma, f)(x, it["v"], it["w"])
    if f == "masked_where":
        return da.ma.masked_where(da.from_array(np.array(it["cond"], dtype=bool).reshape(shape), chunks=x.chunks), x)
    if f == "count":
        return da.ma.count(x, axis=it["axis"])
    return getattr(da, f)(x, axis=it["axis"], keepdims=it.get("keepdims", False))


def case_joint(ctx, inp):
    """several masked operations computed in ONE graph keep their own results: different operations on the same
    array, the same operations on an array with the same data but the complementary mask, on other data with the same
    mask, and on the same masked array chunked as one block"""
    da = _da()
    a = dec_ma(inp["a"])
    chunks = tuple(tuple(c) for c in inp["chunks"])
    x = da.from_array(a, chunks=chunks)
    srcs = [("x", x)]
    if np.ma.isMaskedArray(a) and a.size:
        mk = np.ma.getmaskarray(a)
        srcs.append(("complementary mask", da.from_array(np.ma.masked_array(np.ma.getdata(a), mask=~mk), chunks=chunks)))
        srcs.append(("other data", da.from_array(np.ma.masked_array(np.ma.getdata(a)[(slice(None, None, -1),) * a.ndim] + 1, mask=mk), chunks=chunks)))
        srcs.append(("one block", da.from_array(a, chunks=a.shape)))
    arrs, labels = [], []
    for nm, src in srcs:
        for it in inp["items"]:
            arrs.append(_joint_item(da, src, a.shape, it))
            labels.append((nm, it))
    bad = U.joint_vs_solo(arrs)
    for i in bad:
        ctx.fail("a masked operation computed together with others differs from the same operation computed alone",
                 observed={"item": labels[i], "name": arrs[i].name,
                           "same_name_as": [labels[j] for j, y in enumerate(arrs) if j != i and y.name == arrs[i].name]})
    if len(srcs) > 1:
        ctx.branch("variants")
    ctx.branch(f"joint×{len(inp['items'])}")


def _seq_step(mod, x, st, lazy, da=None, chunks=None):
    """one step of a sequence, on numpy.ma (`lazy` False) or dask (`lazy` True); returns the new current array"""
    f = st["fn"]
    if f in ("masked_greater", "masked_less", "masked_equal", "masked_not_equal", "masked_greater_equal", "masked_less_equal"):
        return getattr(mod, f)(x, st["v"])
    if f in ("masked_inside", "masked_outside"):
        return getattr(mod, f)(x, st["v"], st["w"])
    if f == "masked_where":
        cond = np.array(st["cond"], dtype=bool).reshape(x.shape)
        return mod.masked_where(da.from_array(cond, chunks=chunks) if lazy else cond, x)
    if f == "set_fill_value":
        if not lazy:
            x = x.copy() if isinstance(x, np.ma.MaskedArray) else x
        mod.set_fill_value(x, st["v"])
        return x
    if f == "negative":
        return -x
    if f == "add_self":
        return x + x
    if f == "add_scalar":
        return x + st["v"]
    if f == "rechunk":
        return x.rechunk(tuple(tuple(c) for c in st["chunks"])) if lazy else x
    raise KeyError(f)


def case_seq(ctx, inp):
    """a SEQUENCE of masked operations on one array (masking functions stacked, set_fill_value applied in place —
    possibly twice —, arithmetic, rechunk), mirrored step by step in numpy.ma; an alias taken before an in-place step
    must keep its old meaning; the end result is compared as filled(), as a reduction and as data+mask."""
    da = _da()
    a = dec_ma(inp["a"])
    chunks = tuple(tuple(c) for c in inp["chunks"])

    src = dec_ma(inp["a"])          # the dask side gets its own source array: computing must not change it
    src_fill = src.fill_value if isinstance(src, np.ma.MaskedArray) else None
    src_copy = src.copy()

    def impl():
        x = da.from_array(src, chunks=chunks)
        early = None
        for i, st in enumerate(inp["steps"]):
            if i == inp["alias_at"]:
                early = x + 0
            x = _seq_step(da.ma, x, st, True, da, x.chunks)
        outs = [x, da.ma.filled(x), da.ma.getmaskarray(x), da.sum(x, axis=0), da.ma.count(x)]
        if early is not None:
            outs.append(early)
        return [U.sync_compute(o) for o in outs], U.joint_vs_solo(outs)

    def ref():
        x = a
        early = None
        for i, st in enumerate(inp["steps"]):
            if i == inp["alias_at"]:
                early = x + 0
            x = _seq_step(np.ma, x, st, False)
        outs = [x, np.ma.filled(x), np.ma.getmaskarray(x), np.ma.sum(x, axis=0), np.ma.count(x)]
        if early is not None:
            outs.append(early)
        return outs

    got, exp = U.run_both(impl, ref)
    if exp[0] == "raised":
        ctx.branch("numpy-raises")
        return
    if got[0] == "raised":
        ctx.fail(f"sequence: dask raised but numpy.ma returns a value: {got[1]}", observed=got[1])
        return
    vals, bad = got[1]
    if ma_same(src, src_copy, True) or (src_fill is not None and src.fill_value != src_fill):
        ctx.fail("sequence: computing the dask arrays changed the NumPy source array (data, mask or fill_value)",
                 observed=[show(src), repr(getattr(src, "fill_value", None))], expected=[show(src_copy), repr(src_fill)])
    names = ["result", "filled()", "getmaskarray", "sum(axis=0)", "count", "alias taken before an in-place step"]
    has_fill = isinstance(exp[1][0], np.ma.MaskedArray)
    for nm, g, e in zip(names, vals, exp[1]):
        why = ma_same(g, e, True, 1.0, has_fill and nm == "result")
        if why:
            ctx.fail(f"sequence/{nm}: {why}", observed=show(g), expected=show(e))
    if bad:
        ctx.fail("sequence: outputs computed together differ from the outputs computed alone", observed=[names[i] for i in bad])
    fns = [st["fn"] for st in inp["steps"]]
    if fns.count("set_fill_value") > 1:
        ctx.branch("set_fill_value twice")
    if "set_fill_value" in fns and inp["alias_at"] is not None and inp["alias_at"] <= fns.index("set_fill_value"):
        ctx.branch("alias before in-place step")
    if sum(f.startswith("masked_") for f in fns) > 1:
        ctx.branch("stacked masking")
    ctx.branch(f"seq×{len(fns)}")


CASES = {"seq": case_seq, "joint": case_joint, "construct": case_construct, "elemwise": case_elemwise, "reduce": case_reduce, "fn": case_fn, "cum": case_cum}
CASES.update(X.CASES)
CASES = {k: U.pure_sources(v) for k, v in CASES.items()}


# ---------------------------------------------------------------------------------------------

def gen_ma(rng, shape, chunks, kind="int", ma=True):
    n = U.prod_shape(shape)
    if kind == "int":
        data = [rng.randint(-3, 3) for _ in range(n)]
        dtype = "int64"
    else:
        data = [rng.choice([rng.randint(-3, 3) * 0.5, round(rng.uniform(-9, 9), 2)]) for _ in range(n)]
        dtype = "float64"
    d = {"data": data, "shape": list(shape), "dtype": dtype, "ma": ma}
    r = rng.random()
    if not ma or r < 0.12:
        d["mask"] = None                          # nomask (or a plain ndarray when ma=False)
        return d
    p = rng.choice([0.0, 0.2, 0.5, 0.9])
    mask = np.array([rng.random() < p for _ in range(n)], dtype=bool).reshape(shape)
    if rng.random() < 0.35 and n:
        # make one chunk completely masked
        bounds = [U.block_bounds(c) for c in chunks]
        idx = [rng.randrange(len(b)) for b in bounds]
        mask[tuple(slice(bounds[ax][i][0], bounds[ax][i][1]) for ax, i in enumerate(idx))] = True
    if rng.random() < 0.05:
        mask[...] = True
    d["mask"] = [bool(v) for v in mask.ravel()]
    if rng.random() < 0.3:
        d["fill"] = rng.choice([0, -1, 7, 99])
    return d


def _axis_choices(ndim):
    out = [None] + list(range(ndim))
    for r in range(2, ndim + 1):
        out += [list(c) for c in itertools.combinations(range(ndim), r)]
    return out



def gen_seq(ctx, n):
    rng = ctx.rng
    for _ in range(n):
        shape = U.rand_shape(rng, 2, 5)
        chunks = U.rand_chunks(rng, shape)
        a = gen_ma(rng, shape, chunks, "int", ma=rng.random() < 0.85)
        steps = []
        for _ in range(rng.randint(2, 5)):
            f = rng.choice(["masked_greater", "masked_less", "masked_equal", "masked_not_equal", "masked_inside", "masked_outside",
                            "masked_where", "set_fill_value", "set_fill_value", "negative", "add_self", "add_scalar", "rechunk"])
            st = {"fn": f, "v": rng.randint(-3, 3), "w": rng.randint(-3, 3)}
            if f == "masked_where":
                st["cond"] = [rng.random() < 0.3 for _ in range(U.prod_shape(shape))]
            if f == "set_fill_value":
                st["v"] = rng.choice([0, 3, -9, 77])
            if f == "rechunk":
                st["chunks"] = [list(c) for c in U.rand_chunks(rng, shape)]
            steps.append(st)
        yield "seq", {"a": a, "chunks": [list(c) for c in chunks], "steps": steps,
                      "alias_at": rng.choice([None, 0, rng.randrange(len(steps))])}


def generate(ctx):
    rng = ctx.rng
    yield from gen_seq(ctx, ctx.n(150, 1800))
    for _ in range(ctx.n(60, 600)):
        shape = U.rand_shape(rng, 3, 4)
        chunks = U.rand_chunks(rng, shape)
        mk = rng.choice(["nomask", "scalar", "numpy", "dask", "dask"])
        n = U.prod_shape(shape)
        inp = {"data": [rng.randint(-3, 3) for _ in range(n)], "shape": list(shape), "chunks": [list(c) for c in chunks],
               "mask_kind": mk, "fill": rng.choice([None, None, 5, -1])}
        if mk == "scalar":
            inp["mask"] = rng.random() < 0.5
        elif mk != "nomask":
            inp["mask"] = [rng.random() < 0.4 for _ in range(n)]
            inp["mchunks"] = [list(c) for c in U.rand_chunks(rng, shape)]
        yield "construct", inp
    for _ in range(ctx.n(170, 1700)):
        shape = U.rand_shape(rng, 3, 5)
        ca = U.rand_chunks(rng, shape)
        op = rng.choice(list(BIN) + list(UN))
        inp = {"a": gen_ma(rng, shape, ca), "ca": [list(c) for c in ca], "op": op}
        if op in BIN:
            cb = ca if rng.random() < 0.5 else U.rand_chunks(rng, shape)
            inp["b"] = gen_ma(rng, shape, cb, ma=rng.random() < 0.8)
            inp["cb"] = [list(c) for c in cb]
        yield "elemwise", inp
    for _ in range(ctx.n(330, 3500)):
        shape = U.rand_shape(rng, 3, 5)
        if rng.random() < 0.15:
            shape = (rng.randint(5, 12),)
        chunks = U.rand_chunks(rng, shape, zero_p=0.05)
        if rng.random() < 0.08:
            shape, chunks = U.big_shape_chunks(rng)
        op = rng.choice(RED)
        axis = rng.choice(_axis_choices(len(shape)))
        se = rng.choice([None, None, 2, 3, 4])
        kind = "int" if op in ("sum", "prod", "min", "max", "count", "any", "all") or rng.random() < 0.5 else "float"
        yield "reduce", {"a": gen_ma(rng, shape, chunks, kind), "chunks": [list(c) for c in chunks], "op": op, "axis": axis,
                         "keepdims": rng.random() < 0.3, "split_every": se}
    fns = ["filled", "filled", "getmaskarray", "getdata", "masked_where", "masked_where", "masked_inside", "masked_outside",
           "masked_inside", "masked_outside", "masked_inside", "masked_outside",
           "masked_invalid", "masked_equal", "masked_greater", "masked_greater_equal", "masked_less", "masked_less_equal",
           "masked_not_equal", "masked_values", "fix_invalid", "set_fill_value", "average"]
    for _ in range(ctx.n(240, 2400)):
        shape = U.rand_shape(rng, 3, 5)
        chunks = U.rand_chunks(rng, shape)
        fn = rng.choice(fns)
        kind = "float" if fn in ("masked_invalid", "fix_invalid", "masked_values") and rng.random() < 0.7 else "int"
        a = gen_ma(rng, shape, chunks, kind, ma=rng.random() < 0.85)
        if kind == "float" and fn in ("masked_invalid", "fix_invalid"):
            a["data"] = [("nan" if rng.random() < 0.2 else ("inf" if rng.random() < 0.1 else v)) for v in a["data"]]
            a["data"] = [float(v) for v in a["data"]]
        inp = {"a": a, "chunks": [list(c) for c in chunks], "fn": fn}
        if fn == "filled":
            inp["args"] = [] if rng.random() < 0.4 else [rng.choice([0, -7, 42])]
        elif fn in ("masked_inside", "masked_outside"):
            v1, v2 = rng.randint(-3, 3), rng.randint(-3, 3)      # either order: numpy.ma accepts reversed bounds
            if rng.random() < 0.3:
                v1, v2 = max(v1, v2) + 1, min(v1, v2)
            inp["args"] = [v1, v2]
        elif fn in ("masked_equal", "masked_greater", "masked_greater_equal", "masked_less", "masked_less_equal", "masked_not_equal", "masked_values"):
            inp["args"] = [rng.randint(-2, 2)]
            if fn == "masked_values" and a["dtype"] == "float64":
                # values at the edge of the rtol / atol tolerances, and the tolerances themselves as keywords
                v = inp["args"][0]
                deltas = [0.0, 1e-9, -1e-9, 1e-7, -5e-6, 5e-6, 2e-5, -2e-5, 1e-3]
                a["data"] = [(v + rng.choice(deltas) * max(1, abs(v))) if rng.random() < 0.5 else d for d in a["data"]]
                inp["kw"] = rng.choice([{}, {}, {"rtol": 1e-3}, {"rtol": 0.0, "atol": 1e-3}, {"atol": 0.0}, {"shrink": False}])
        elif fn == "set_fill_value":
            inp["args"] = [rng.choice([0, 3, -9])]
        elif fn == "fix_invalid":
            inp["args"] = []
        elif fn == "masked_where":
            inp["cond"] = [rng.random() < 0.4 for _ in range(U.prod_shape(shape))]
            inp["cchunks"] = [list(c) for c in (chunks if rng.random() < 0.5 else U.rand_chunks(rng, shape))]
        elif fn == "average":
            inp["axis"] = rng.choice([None] + list(range(len(shape))))
        yield "fn", inp
    for _ in range(ctx.n(50, 500)):
        shape = U.rand_shape(rng, 2, 5)
        chunks = U.rand_chunks(rng, shape)
        items = []
        for _ in range(rng.randint(3, 6)):
            f = rng.choice(["filled", "filled", "masked_greater", "masked_less", "masked_equal", "masked_inside", "masked_outside",
                            "masked_where", "count", "sum", "min", "max", "mean"])
            it = {"fn": f, "v": rng.randint(-2, 2), "w": rng.randint(-2, 2), "axis": rng.choice([None] + list(range(len(shape)))),
                  "keepdims": rng.random() < 0.3}
            if f == "masked_where":
                it["cond"] = [rng.random() < 0.4 for _ in range(U.prod_shape(shape))]
            items.append(it)
        yield "joint", {"a": gen_ma(rng, shape, chunks), "chunks": [list(c) for c in chunks], "items": items}
    for _ in range(ctx.n(120, 1200)):
        shape = U.rand_shape(rng, 2, 6) if rng.random() < 0.4 else (rng.randint(1, 10),)
        chunks = U.rand_chunks(rng, shape, zero_p=0.1)
        yield "cum", {"a": gen_ma(rng, shape, chunks), "chunks": [list(c) for c in chunks], "op": rng.choice(["cumsum", "cumprod"]),
                      "axis": rng.randrange(len(shape)), "method": rng.choice(["sequential", "sequential", "blelloch"])}
    yield from X.generate(ctx)          # extension round: generated last, the streams of the older sections are unchanged
