"""C05 — scheduler callbacks fire in protocol order and contexts nest like a stack.

Model:    lean/DaskModel/Model/Callbacks.lean (Callback.active, add_callbacks, Callback.__enter__/__exit__,
          register/unregister, local_callbacks) + the callback log of Model/Sched.lean
Theorems: lean/DaskModel/Props/C05.lean
Tie:      `hist`  — flat histories (also ill-bracketed) of enter/exit of Callback objects, of add_callbacks
                    managers BUILT, ENTERED and LEFT as separate operations (entered later than built, several
                    times, in another order than built), register/unregister, scheduler calls with and without
                    `callbacks=`, executed on the real classes and on the model: `Callback.active` after every
                    operation, which callbacks every scheduler call used, which operation raises; the statement's
                    clauses are also evaluated directly on the real classes (no exit deactivates what an enclosing
                    open context or an earlier register() activated; what a context is given is active inside it);
          `prog`  — well-bracketed programs (real nested `with` statements, incl. `with h:` for manager objects
                    built earlier) vs the structured `exec`;
          `unpack` — unpack_callbacks / normalize_callback / local_callbacks at function level;
          every real scheduler call records the full event sequence each callback saw: protocol oracle;
          `exh`   — (thorough) every history of <= 5 operations over 2 callback objects.
"""
from __future__ import annotations

import itertools

from sexp import Sym

PROP = "C05"
READY = True
DRIVER = "dm_sched"
LEAN_MODULES = ["DaskModel.Props.C05"]
CASE_TIMEOUT_S = 30
LEVEL_TEXT = (
    "Lean 4 theorems (a) over a model of dask/callbacks.py as repaired by /repo commits 64c9a31 and 82d054d (building, "
    "entering and leaving an add_callbacks object are separate operations): for EVERY well-bracketed program of nested "
    "`with cb:` / `with add_callbacks(...)` / `with h:` blocks (h a manager object built earlier: entered later than "
    "built, several times, inside itself), register/unregister and scheduler calls, with the same or different callback "
    "objects and any nesting depth, a callback that was active before a block (enclosing context or earlier register()) "
    "is active after it unless the block unregisters it (exit_preserves_outer), nothing stays active except what the "
    "block registered and every Callback object and every manager object finds its stack as it left it (exit_restores, "
    "block_is_neutral, via exec_stack), callbacks given to a block are seen by scheduler calls inside it "
    "(with_activates, withH_activates, with_obj_activates), building a manager is inert (build_is_inert), a scheduler "
    "call leaves Callback.active untouched (get_restores_active); for FLAT, also ill-bracketed, histories: an enter "
    "pushes exactly what it newly activated and an exit deactivates exactly the popped entry (enterCm_spec, exitCm_spec), "
    "hence whatever happens between an enter and the exit that pops its entry, that exit deactivates nothing that was "
    "active before the enter (flat_exit_preserves, flat_exitObj_preserves); (b) over the get_async model: the event "
    "sequence of a call is start, start_state, (pretask|posttask)*, finish with one pretask and at most one posttask per "
    "executed key (exactly one on success), in every prefix a posttask only after its pretask, finish last and once with "
    "failed=true iff the call does not return normally, for every completion order (protocol_order), and the same as seen "
    "by ONE callback tuple with any subset of the five hooks (callback_sees_protocol, view_protocol). VALIDATED ONLY: the "
    "flat machine and the structured exec vs the real classes (histories, real nested with-statements, Callback "
    "subclasses, tuples with missing hooks), unpack_callbacks / normalize_callback / local_callbacks at function level.")
LEVEL_NOTE = (
    "Not modelled: exceptions raised by user callbacks themselves (started_cbs bookkeeping), callbacks that mutate "
    "Callback.active from inside a task, thread-safety of the class-level set, which of several active callbacks is "
    "called first. Review round: an add_callbacks object used a second time inside a context that had activated the "
    "same callback deactivated it (real violation of the statement on the unchanged tree), repaired in /repo (82d054d). "
    "Trusted: Lean kernel + standard axioms; the harness.")
TECHNIQUE = "Lean 4 structural-induction proof over all well-bracketed callback programs + differential correspondence on operation histories"
ASSUMPTIONS = ["callbacks do not raise and do not touch Callback.active themselves"]


HOOKS = ("start", "start_state", "pretask", "posttask", "finish")


class _World:
    """real callback objects; object o has tuple id TUP[o] (objects with the same tuple id share their functions).

    flavour "functions": `Callback(start=…, …)`; flavour "subclass": instances of a `Callback` subclass whose hooks are
    methods (bound methods: every instance has its own tuple, so tuple ids must be distinct).
    hooks: tuple id -> the hooks that exist (the others are None in the 5-tuple)."""

    def __init__(self, tup, flavour="functions", hooks=None):
        from dask.callbacks import Callback
        self.tup = tup
        self.hooks = {t: tuple((hooks or {}).get(str(t), (hooks or {}).get(t, HOOKS))) for t in set(tup)}
        self.events = {}          # tuple id -> list of events of the current scheduler call

        def rec(t, ev):
            self.events.setdefault(t, []).append(ev)
        fns = {}
        for t in sorted(set(tup)):
            allf = dict(
                start=(lambda dsk, t=t: rec(t, ("start",))),
                start_state=(lambda dsk, state, t=t: rec(t, ("start_state",))),
                pretask=(lambda key, dsk, state, t=t: rec(t, ("pretask", key))),
                posttask=(lambda key, res, dsk, state, wid, t=t: rec(t, ("posttask", key))),
                finish=(lambda dsk, state, failed, t=t: rec(t, ("finish", bool(failed)))))
            fns[t] = {k: f for k, f in allf.items() if k in self.hooks[t]}
        if flavour == "subclass":
            assert len(set(tup)) == len(tup)
            self.objs = []
            for t in tup:
                ns = {}
                for k, f in fns[t].items():
                    ns["_" + k] = (lambda f: (lambda self, *a: f(*a)))(f)
                self.objs.append(type("Sub%d" % t, (Callback,), ns)())
        else:
            self.objs = [Callback(**fns[t]) for t in tup]
        self.tuple_of = {}
        for o, t in zip(self.objs, tup):
            self.tuple_of[o._callback] = t
        self.handles = {}

    def obj_of(self, c, last=False):
        idx = [i for i, t in enumerate(self.tup) if t == c]
        return self.objs[idx[-1] if last else idx[0]]

    def active(self):
        from dask.callbacks import Callback
        return sorted(self.tuple_of.get(c, 99) for c in Callback.active)

    def get(self, ctx, how, cbs=None, fail=False):
        """one scheduler call; returns the sorted list of tuple ids that were used (with multiplicity)"""
        from dask.local import get_sync
        from dask.threaded import get as tget
        self.events = {}

        def boom(x):
            raise ValueError("boom")
        dsk = {"a": 1, "b": (lambda x: x + 1, "a"), "c": ((boom if fail else (lambda x: x * 2)), "b"), "d": (lambda x, y: x + y, "b", "c")}
        if fail == "missing":
            # the graph lacks a dependency: start_state_from_dask raises after the start callbacks ran
            from dask._task_spec import Task, TaskRef
            dsk = {"d": Task("d", (lambda x: x), TaskRef("no-such-key"))}
        kw = {} if cbs is None else {"callbacks": [self.obj_of(c)._callback for c in cbs]}
        try:
            if how == "threaded":
                tget(dsk, "d", num_workers=2, **kw)
            else:
                get_sync(dsk, "d", **kw)
            failed = False
        except ValueError:
            failed = True
        if failed != bool(fail):
            ctx.fail("scheduler call outcome unexpected", observed=failed, expected=bool(fail))
        used = []
        for t, evs in self.events.items():
            n = _protocol_oracle(ctx, t, evs, fail, self.hooks.get(t, HOOKS))
            used += [t] * n
        return sorted(used)


def _protocol_oracle(ctx, t, evs, fail, hooks=HOOKS):
    """events one callback (with the hooks `hooks`) saw during one scheduler call; returns how many times it was
    invoked (multiplicity)"""
    if fail == "missing":
        # the start state could not be built: the callback saw `start` (if it has the hook) and then `finish(failed=True)`
        want = [e for e in (("start",), ("finish", True)) if e[0] in hooks]
        n = max(1, sum(1 for e in evs if e[0] == (want[0][0] if want else "start")))
        if sorted(evs) != sorted(want * n) or (n == 1 and evs != want):
            ctx.fail("a call whose start state cannot be built: callbacks did not see exactly start, finish(failed=True)",
                     observed=evs[:6], expected=want)
        return n
    once = [k for k in ("start", "start_state", "finish") if k in hooks]
    if once:
        n = sum(1 for e in evs if e[0] == once[0])
    else:
        marker = ("pretask", "b") if "pretask" in hooks else ("posttask", "b")
        n = sum(1 for e in evs if e == marker)
    if any(e[0] not in hooks for e in evs):
        ctx.fail("a hook that the callback does not have was invoked", observed=evs[:6])
    if n == 0:
        ctx.fail("callback saw events but not its first per-call event", observed=evs[:6])
        return 1
    if n > 1:
        # the same tuple passed several times through callbacks=[...]: split is not possible, check the counts only
        for kind in once:
            if sum(1 for e in evs if e[0] == kind) != n:
                ctx.fail(f"callback invoked {n} times but {kind} count differs", observed=evs[:10])
        return n
    pos = 0
    for kind in ("start", "start_state"):
        if kind in hooks:
            if len(evs) <= pos or evs[pos] != (kind,):
                ctx.fail("start / start_state are not the first events, once, in this order", observed=evs[:4])
            pos += 1
    for kind in ("start", "start_state"):
        if sum(1 for e in evs if e[0] == kind) > 1:
            ctx.fail(f"{kind} fired more than once in one scheduler call", observed=evs[:6])
    if "finish" in hooks:
        if evs[-1][0] != "finish" or sum(1 for e in evs if e[0] == "finish") != 1:
            ctx.fail("finish is not the single last event", observed=evs[-3:])
        elif evs[-1][1] != fail:
            ctx.fail("finish got the wrong failed flag", observed=evs[-1], expected=fail)
    pre = [e[1] for e in evs if e[0] == "pretask"]
    post = [e[1] for e in evs if e[0] == "posttask"]
    if len(set(pre)) != len(pre) or len(set(post)) != len(post):
        ctx.fail("a key got two pretask or two posttask calls", observed=[pre, post])
    if "pretask" in hooks and "posttask" in hooks:
        for k in post:
            if k not in pre or evs.index(("pretask", k)) > evs.index(("posttask", k)):
                ctx.fail("posttask without a preceding pretask", observed=k)
    if not fail:
        for kind, lst in (("pretask", pre), ("posttask", post)):
            if kind in hooks and sorted(lst) != ["b", "c", "d"]:
                ctx.fail(f"on success the {kind} keys are not exactly the executed tasks", observed=lst)
    if fail and ("c" in post or "d" in pre or "d" in post):
        ctx.fail("callbacks saw a dependent of the failed task / posttask of the failed task", observed=[pre, post])
    return 1


def _enc_op(op):
    return [Sym(op[0])] + list(op[1:])


class _Raised(Exception):
    pass


def case_hist(ctx, inp):
    from dask.callbacks import Callback, add_callbacks
    tup, ops = inp["tup"], inp["ops"]
    Callback.active.clear()
    w = _World(tup, inp.get("flavour", "functions"), inp.get("hooks"))
    real = []
    frames = []            # open contexts in entry order: dict(id, before, activated)
    registered = set()     # tuple ids activated by register() (inactive before it) and not unregistered since
    try:
        for op in ops:
            kind = op[0]
            used = None
            before = w.active()
            try:
                if kind == "enterObj":
                    w.objs[op[1]].__enter__()
                elif kind == "exitObj":
                    w.objs[op[1]].__exit__(None, None, None)
                elif kind == "buildCm":
                    if op[1] in w.handles:
                        raise KeyError(op[1])
                    w.handles[op[1]] = add_callbacks(*[w.obj_of(c, last=True) for c in op[2:]])
                elif kind == "enterCm":
                    w.handles[op[1]].__enter__()
                elif kind == "exitCm":
                    w.handles[op[1]].__exit__(None, None, None)
                elif kind == "register":
                    w.obj_of(op[1]).register()
                elif kind == "unregister":
                    w.obj_of(op[1]).unregister()
                elif kind == "get":
                    used = w.get(ctx, inp.get("how", "sync"), None, inp.get("fail", False))
                elif kind == "getWith":
                    used = w.get(ctx, inp.get("how", "sync"), list(op[1:]), inp.get("fail", False))
            except (KeyError, IndexError, AttributeError):
                real.append([Sym("raised")])
                ctx.branch("raises:" + kind)
                break
            after = w.active()
            real.append([Sym("ok"), after, used if used is not None else None])
            # ---- the statement's clauses, evaluated directly on the real classes
            if kind in ("enterObj", "enterCm"):
                fid = (kind[5:], op[1])
                given = [tup[op[1]]] if kind == "enterObj" else sorted({w.tuple_of[c] for c in w.handles[op[1]].callbacks})
                if any(c not in after for c in given):
                    ctx.fail("a callback given to a context is not active inside it", observed=after, expected=given)
                lost = [c for c in before if c not in after]
                if lost:
                    ctx.fail("entering a callback context deactivated a callback", observed=lost)
                frames.append({"id": fid, "before": set(before), "activated": set(after) - set(before)})
            elif kind in ("exitObj", "exitCm"):
                fid = (kind[4:], op[1])
                idx = max((i for i, f in enumerate(frames) if f["id"] == fid), default=None)
                if idx is not None:
                    f = frames.pop(idx)
                    removed = set(before) - set(after)
                    outer = set().union(*[g["activated"] for g in frames[:idx]]) if idx else set()
                    bad = sorted(c for c in removed if c in f["before"] and (c in outer or c in registered))
                    if bad:
                        ctx.fail("leaving a callback context deactivated a callback that an enclosing context or an "
                                 "earlier register() activated", observed=bad, expected=sorted(before))
                    if set(after) - set(before):
                        ctx.fail("leaving a callback context activated a callback", observed=sorted(set(after) - set(before)))
            elif kind == "buildCm":
                if before != after:
                    ctx.fail("building an add_callbacks object changed Callback.active (contexts apply only when entered)",
                             observed=after, expected=before)
            elif kind == "register":
                if op[1] not in before:
                    registered.add(op[1])
                if op[1] not in after:
                    ctx.fail("register() did not activate the callback", observed=after)
            elif kind == "unregister":
                registered.discard(op[1])
                for g in frames:
                    g["activated"].discard(op[1])
            elif kind == "get":
                visible = before
                if inp.get("fail") == "missing":
                    # only `start` and `finish` fire in such a call: a tuple without both hooks sees nothing
                    visible = [t for t in before if {"start", "finish"} & set(w.hooks.get(t, HOOKS))]
                if sorted(set(used)) != visible or len(used) != len(set(used)):
                    ctx.fail("a scheduler call did not use exactly the active callbacks", observed=used, expected=before)
                if after != before:
                    ctx.fail("a scheduler call changed Callback.active", observed=after, expected=before)
            elif kind == "getWith":
                given = sorted(op[1:])
                if inp.get("fail") == "missing":
                    given = [t for t in given if {"start", "finish"} & set(w.hooks.get(t, HOOKS))]
                if used != given:
                    ctx.fail("a scheduler call with callbacks=[...] did not use exactly those", observed=used, expected=sorted(op[1:]))
    finally:
        Callback.active.clear()
    mops = []
    for op in ops:
        if op[0] == "enterObj":
            mops.append([Sym("enterObj"), op[1], tup[op[1]]])
        else:
            mops.append(_enc_op(op))
    model = ctx.lean(Sym("cbrun"), *mops)
    if inp.get("fail") == "missing":
        # in such a call only `start` and `finish` fire: a tuple that has neither hook is used but sees nothing
        model = [[m[0], m[1], [t for t in m[2] if {"start", "finish"} & set(w.hooks.get(t, HOOKS))]]
                 if len(m) == 3 and isinstance(m[2], list) else m for m in model]
    ctx.eq("Callback.active / callbacks used after each operation", model, real)
    kinds = [o[0] for o in ops]
    # measured classes of histories
    depth, mx = 0, 0
    for k in kinds:
        if k in ("enterObj", "enterCm"):
            depth += 1
            mx = max(mx, depth)
        elif k in ("exitObj", "exitCm"):
            depth -= 1
    if mx >= 2:
        ctx.branch("nesting>=2")
    ent = [o[1] for o in ops if o[0] == "enterObj"]
    if len(ent) != len(set(ent)):
        ctx.branch("same-object-entered-twice")
    entc = [o[1] for o in ops if o[0] == "enterCm"]
    if len(entc) != len(set(entc)):
        ctx.branch("same-manager-entered-twice")
    # a manager entered although something else happened between its construction and its entry
    for j, o in enumerate(ops):
        if o[0] == "enterCm":
            b = [i for i, q in enumerate(ops[:j]) if q[0] == "buildCm" and q[1] == o[1]]
            if b and any(q[0] in ("enterObj", "enterCm", "register", "exitObj", "exitCm", "unregister") for q in ops[b[0] + 1:j]):
                ctx.branch("manager-entered-later-than-built")
                break
    built = [o[1] for o in ops if o[0] == "buildCm"]
    first_enter = []
    for o in ops:
        if o[0] == "enterCm" and o[1] not in first_enter:
            first_enter.append(o[1])
    if len(first_enter) >= 2 and first_enter != [h for h in built if h in first_enter]:
        ctx.branch("managers-entered-in-another-order-than-built")
    if "register" in kinds and ("enterObj" in kinds or "enterCm" in kinds):
        ctx.branch("register+context")
    if any(k in ("get", "getWith") for k in kinds):
        ctx.branch("scheduler-call")
    if len(set(tup)) < len(tup) and len({o[1] for o in ops if o[0] == "enterObj"}) > 1:
        ctx.branch("objects-sharing-a-tuple")
    if inp.get("fail"):
        ctx.branch("failing-call")
    if inp.get("fail") == "missing" and any(k in ("get", "getWith") for k in kinds):
        ctx.branch("call-whose-start-state-raises")
    if inp.get("flavour") == "subclass":
        ctx.branch("subclass-callbacks")
    if inp.get("hooks"):
        ctx.branch("partial-hooks")


def _run_prog(ctx, w, p, uses, how, fail):
    """execute a well-bracketed program with REAL nested with-statements"""
    from dask.callbacks import add_callbacks
    kind = p[0]
    if kind == "skip":
        return
    if kind == "seq":
        _run_prog(ctx, w, p[1], uses, how, fail)
        _run_prog(ctx, w, p[2], uses, how, fail)
    elif kind == "withCm":
        with add_callbacks(*[w.objs[c] for c in p[1]]):
            _run_prog(ctx, w, p[2], uses, how, fail)
    elif kind == "withObj":
        with w.objs[p[1]]:
            _run_prog(ctx, w, p[2], uses, how, fail)
    elif kind == "build":
        if p[1] in w.handles:
            raise _Raised()
        w.handles[p[1]] = add_callbacks(*[w.objs[c] for c in p[2]])
    elif kind == "withH":
        if p[1] not in w.handles:
            raise _Raised()
        with w.handles[p[1]]:
            _run_prog(ctx, w, p[2], uses, how, fail)
    elif kind == "register":
        w.objs[p[1]].register()
    elif kind == "unregister":
        w.objs[p[1]].unregister()
    elif kind == "get":
        uses.append(w.get(ctx, how, None, fail))


def _enc_prog(p):
    k = p[0]
    if k == "seq":
        return [Sym("seq"), _enc_prog(p[1]), _enc_prog(p[2])]
    if k == "withCm":
        return [Sym("withCm"), list(p[1]), _enc_prog(p[2])]
    if k == "withObj":
        return [Sym("withObj"), p[1], _enc_prog(p[2])]
    if k == "build":
        return [Sym("build"), p[1], list(p[2])]
    if k == "withH":
        return [Sym("withH"), p[1], _enc_prog(p[2])]
    return [Sym(k)] + list(p[1:])


def _regs(p, which):
    k = p[0]
    if k == "seq":
        return _regs(p[1], which) | _regs(p[2], which)
    if k in ("withCm", "withObj", "withH"):
        return _regs(p[2], which)
    return {p[1]} if k == which else set()


def case_prog(ctx, inp):
    from dask.callbacks import Callback
    n, p = inp["n"], inp["prog"]
    Callback.active.clear()
    w = _World(list(range(n)), inp.get("flavour", "functions"), inp.get("hooks"))
    for c in inp.get("pre", []):
        w.objs[c].register()
    before = w.active()
    uses = []
    try:
        try:
            _run_prog(ctx, w, p, uses, inp.get("how", "sync"), inp.get("fail", False))
            real = [Sym("ok"), w.active(), uses]
        except (KeyError, _Raised):
            real = [Sym("raised")]
            ctx.branch("prog:raises")
    finally:
        after = w.active()
        Callback.active.clear()
    full = p
    for c in reversed(inp.get("pre", [])):
        full = ["seq", ["register", c], full]
    model = ctx.lean(Sym("cbexec"), _enc_prog(full))
    if inp.get("fail") == "missing" and model[0] == "ok":
        model = [model[0], model[1], [[t for t in u if {"start", "finish"} & set(w.hooks.get(t, HOOKS))] for u in model[2]]]
    ctx.eq("well-bracketed program: active afterwards and callbacks used by every scheduler call", model, real)
    if real[0] == "ok":
        # the statement itself, on the real classes
        lost = [x for x in before if x not in after and x not in _regs(p, "unregister")]
        if lost:
            ctx.fail("leaving a callback context deactivated a callback that was active before it", observed=lost,
                     expected=before)
        extra = [x for x in after if x not in before and x not in _regs(p, "register")]
        if extra:
            ctx.fail("a callback is still active after its context was left", observed=extra)

    def depth(q):
        return 0 if q[0] not in ("seq", "withCm", "withObj", "withH") else (max(depth(q[1]), depth(q[2])) if q[0] == "seq" else 1 + depth(q[2]))
    if depth(p) >= 2:
        ctx.branch("prog:nesting>=2")
    if depth(p) >= 3:
        ctx.branch("prog:nesting>=3")
    if uses:
        ctx.branch("prog:scheduler-call")
    if inp.get("pre"):
        ctx.branch("prog:registered-before")

    def has(q, k):
        return q[0] == k or (q[0] == "seq" and (has(q[1], k) or has(q[2], k))) or \
            (q[0] in ("withCm", "withObj", "withH") and has(q[2], k))
    if has(p, "withH"):
        ctx.branch("prog:prebuilt-manager")

    def nested_same_h(q, open_=()):
        if q[0] == "seq":
            return nested_same_h(q[1], open_) or nested_same_h(q[2], open_)
        if q[0] == "withH":
            return q[1] in open_ or nested_same_h(q[2], open_ + (q[1],))
        if q[0] in ("withCm", "withObj"):
            return nested_same_h(q[2], open_)
        return False
    if nested_same_h(p):
        ctx.branch("prog:manager-entered-inside-itself")

    def count_h(q):
        if q[0] == "seq":
            return count_h(q[1]) + count_h(q[2])
        if q[0] == "withH":
            return [q[1]] + count_h(q[2])
        if q[0] in ("withCm", "withObj"):
            return count_h(q[2])
        return []
    hs = count_h(p)
    if len(hs) != len(set(hs)):
        ctx.branch("prog:manager-reused")

    def reenters(q, open_=()):
        if q[0] == "seq":
            return reenters(q[1], open_) or reenters(q[2], open_)
        if q[0] == "withObj":
            return q[1] in open_ or reenters(q[2], open_ + (q[1],))
        if q[0] == "withCm":
            return any(c in open_ for c in q[1]) or reenters(q[2], open_ + tuple(q[1]))
        if q[0] == "withH":
            cbs = tuple(inp.get("mgrs", {}).get(str(q[1]), []))
            return any(c in open_ for c in cbs) or reenters(q[2], open_ + cbs)
        return False
    if reenters(p, tuple(inp.get("pre", []))):
        ctx.branch("prog:re-enters-an-active-callback")


def case_unpack(ctx, inp):
    """unpack_callbacks / normalize_callback / local_callbacks at function level"""
    from dask.callbacks import Callback, add_callbacks, local_callbacks, normalize_callback, unpack_callbacks
    # callbacks as 5-tuples of small ints (0 = the hook is missing): plain Python is the specification
    cbs = [tuple(c) for c in inp["cbs"]]
    fake = [tuple((("f", v) if v else None) for v in c) for c in cbs]
    got = unpack_callbacks(fake)
    want = [[c[i] for c in fake if c[i]] for i in range(5)] if fake else [(), (), (), (), ()]
    if [list(x) for x in got] != [list(x) for x in want]:
        ctx.fail("unpack_callbacks does not return, per hook, the given hooks in the order of the callbacks",
                 observed=repr(got)[:200], expected=repr(want)[:200])
    if not fake:
        ctx.branch("unpack:empty")
    if any(not all(c) for c in fake):
        ctx.branch("unpack:missing-hooks")
    # normalize_callback
    o = Callback(pretask=lambda *a: None)
    if normalize_callback(o) != o._callback or normalize_callback(fake[0] if fake else (None,) * 5) != (fake[0] if fake else (None,) * 5):
        ctx.fail("normalize_callback changed a tuple / did not return Callback._callback", observed="normalize_callback")
    try:
        normalize_callback([1, 2])
        ctx.fail("normalize_callback accepted a list", observed="no TypeError")
    except TypeError:
        pass
    # local_callbacks: with callbacks=None the global set is handed over and restored (also when the body raises);
    # with explicit callbacks the global set is untouched
    Callback.active.clear()
    try:
        for c in fake[: inp.get("nactive", 0)]:
            Callback.active.add(c)
        snapshot = set(Callback.active)
        try:
            with local_callbacks(None) as inner:
                if set(inner) != snapshot:
                    ctx.fail("local_callbacks(None) does not hand over the active callbacks", observed=len(inner), expected=len(snapshot))
                if Callback.active:
                    ctx.fail("local_callbacks(None): nested schedulers would see the global callbacks again",
                             observed=len(Callback.active))
                if inp.get("raise_inside"):
                    raise ZeroDivisionError
        except ZeroDivisionError:
            ctx.branch("unpack:body-raises")
        if set(Callback.active) != snapshot:
            ctx.fail("local_callbacks(None) did not restore Callback.active", observed=len(Callback.active), expected=len(snapshot))
        with local_callbacks(fake) as inner:
            if list(inner) != list(fake or ()):
                ctx.fail("local_callbacks(cbs) does not yield cbs", observed=repr(inner)[:100])
            if set(Callback.active) != snapshot:
                ctx.fail("local_callbacks(cbs) touched Callback.active", observed=len(Callback.active))
        if snapshot:
            ctx.branch("unpack:active-nonempty")
    finally:
        Callback.active.clear()


CASES = {"hist": case_hist, "prog": case_prog, "unpack": case_unpack}


def _gen_hooks(rng, tids):
    """for some tuple ids only a subset of the five hooks exists"""
    out = {}
    for t in tids:
        if rng.random() < 0.5:
            k = rng.randint(1, 4)
            out[str(t)] = sorted(rng.sample(HOOKS, k), key=HOOKS.index)
    return out


def _gen_hist(rng, nobj, length):
    tup = [0, 0, 1, 2][:nobj] if rng.random() < 0.3 else list(range(nobj))
    tids = sorted(set(tup))
    ops, depth_objs, open_cms, built = [], [], [], []
    # managers built ahead of time (entered later, several times, in another order)
    for _ in range(rng.choice([0, 0, 1, 2, 3])):
        ops.append(["buildCm", len(built)] + [rng.choice(tids) for _ in range(rng.randint(1, 3))])
        built.append(len(built))
    while len(ops) < length:
        r = rng.random()
        if r < 0.20:
            o = rng.randrange(nobj)
            ops.append(["enterObj", o])
            depth_objs.append(o)
        elif r < 0.34:
            # mostly well-bracketed exits, sometimes arbitrary
            o = depth_objs.pop() if depth_objs and rng.random() < 0.8 else rng.randrange(nobj)
            ops.append(["exitObj", o])
        elif r < 0.42:
            # `with add_callbacks(...)`: built and entered at once
            h = len(built)
            built.append(h)
            ops.append(["buildCm", h] + [rng.choice(tids) for _ in range(rng.randint(1, 3))])
            ops.append(["enterCm", h])
            open_cms.append(h)
        elif r < 0.47:
            h = len(built)
            built.append(h)
            ops.append(["buildCm", h] + [rng.choice(tids) for _ in range(rng.randint(1, 3))])
        elif r < 0.57 and built:
            h = rng.choice(built)                    # any manager: never entered, entered before, still open
            ops.append(["enterCm", h])
            open_cms.append(h)
        elif r < 0.68 and built:
            h = open_cms.pop() if open_cms and rng.random() < 0.75 else rng.choice(built)
            ops.append(["exitCm", h])
        elif r < 0.76:
            ops.append(["register", rng.choice(tids)])
        elif r < 0.82:
            ops.append(["unregister", rng.choice(tids)])
        elif r < 0.95:
            ops.append(["get"])
        else:
            ops.append(["getWith"] + [rng.choice(tids) for _ in range(rng.randint(0, 2))])
    return tup, ops


def _gen_prog(rng, n, depth, handles=()):
    r = rng.random()
    if depth <= 0 or r < 0.15:
        return rng.choice([["get"], ["get"], ["skip"], ["register", rng.randrange(n)], ["unregister", rng.randrange(n)]]) \
            if rng.random() < 0.35 else ["get"]
    if r < 0.45:
        return ["seq", _gen_prog(rng, n, depth - 1, handles), _gen_prog(rng, n, depth - 1, handles)]
    if handles and r < 0.62:
        return ["withH", rng.choice(handles), _gen_prog(rng, n, depth - 1, handles)]
    if r < 0.80:
        return ["withObj", rng.randrange(n), _gen_prog(rng, n, depth - 1, handles)]
    return ["withCm", [rng.randrange(n) for _ in range(rng.randint(1, 3))], _gen_prog(rng, n, depth - 1, handles)]


def _gen_prog_input(rng):
    n = rng.randint(1, 3)
    mgrs = {}
    if rng.random() < 0.5:
        for h in range(rng.randint(1, 2)):
            mgrs[str(h)] = [rng.randrange(n) for _ in range(rng.randint(1, 2))]
    body = _gen_prog(rng, n, rng.randint(1, 5), tuple(int(h) for h in mgrs))
    # the managers are built first - or, sometimes, only after an outer context is already open
    builds = None
    for h, cbs in mgrs.items():
        b = ["build", int(h), cbs]
        builds = b if builds is None else ["seq", builds, b]
    if builds is not None:
        if rng.random() < 0.3:
            body = ["withCm", [rng.randrange(n)], ["seq", builds, body]]
        elif rng.random() < 0.3:
            body = ["withObj", rng.randrange(n), ["seq", builds, body]]
        else:
            body = ["seq", builds, body]
    inp = {"n": n, "prog": body, "pre": [c for c in range(n) if rng.random() < 0.25], "mgrs": mgrs,
           "how": rng.choice(["sync", "sync", "threaded"]),
           "fail": rng.choice([False, False, False, False, False, False, False, True, "missing"])}
    if rng.random() < 0.25:
        inp["flavour"] = "subclass"
    if rng.random() < 0.25:
        inp["hooks"] = _gen_hooks(rng, range(n))
    return inp


def _all_ops(nobj):
    ops = [["get"]]
    for o in range(nobj):
        ops += [["enterObj", o], ["exitObj", o], ["register", o], ["unregister", o]]
    ops += [["enterCm", 0], ["enterCm", 1], ["exitCm", 0], ["exitCm", 1]]
    return ops


def generate(ctx):
    rng = ctx.rng
    # the recorded defect (#1, fixed): re-entering the same object; register() then a context
    yield "prog", {"n": 1, "prog": ["withObj", 0, ["seq", ["withObj", 0, ["skip"]], ["get"]]]}
    yield "prog", {"n": 1, "pre": [0], "prog": ["seq", ["withObj", 0, ["skip"]], ["seq", ["get"], ["unregister", 0]]]}
    yield "hist", {"tup": [0], "ops": [["enterObj", 0], ["enterObj", 0], ["exitObj", 0], ["get"], ["exitObj", 0], ["get"]]}
    # the second recorded defect (fixed): a manager object used again inside a context that activated the same callback
    yield "prog", {"n": 1, "mgrs": {"0": [0]}, "prog": ["seq", ["build", 0, [0]], ["seq", ["withH", 0, ["skip"]],
                   ["withCm", [0], ["seq", ["withH", 0, ["skip"]], ["get"]]]]]}
    yield "hist", {"tup": [0], "ops": [["buildCm", 0, 0], ["enterCm", 0], ["exitCm", 0], ["buildCm", 1, 0], ["enterCm", 1],
                                       ["enterCm", 0], ["exitCm", 0], ["get"], ["exitCm", 1], ["get"]]}
    # built ahead of time, entered after an enclosing context activated the same callback
    yield "hist", {"tup": [0], "ops": [["buildCm", 0, 0], ["enterObj", 0], ["enterCm", 0], ["exitCm", 0], ["get"], ["exitObj", 0], ["get"]]}
    for _ in range(ctx.n(500, 5000)):
        tup, ops = _gen_hist(rng, rng.randint(1, 4), rng.randint(1, 12))
        inp = {"tup": tup, "ops": ops, "how": rng.choice(["sync", "sync", "threaded"]),
               "fail": rng.choice([False, False, False, False, False, False, True, True, "missing"])}
        if len(set(tup)) == len(tup) and rng.random() < 0.25:
            inp["flavour"] = "subclass"
        if rng.random() < 0.25:
            inp["hooks"] = _gen_hooks(rng, sorted(set(tup)))
        yield "hist", inp
    for _ in range(ctx.n(400, 4000)):
        yield "prog", _gen_prog_input(rng)
    for _ in range(ctx.n(40, 400)):
        k = rng.randint(0, 4)
        yield "unpack", {"cbs": [[rng.choice([0, 0, i * 5 + j + 1]) for j in range(5)] for i in range(k)],
                         "nactive": rng.randint(0, k), "raise_inside": rng.random() < 0.3}
    # exhaustive: two managers built ahead of time (h0 = add_callbacks(cb0), h1 = add_callbacks(cb0, cb1)), then every
    # history of <= 3 (quick) / <= 4 (thorough) operations over 2 callback objects and these managers
    ops = _all_ops(2)
    pre = [["buildCm", 0, 0], ["buildCm", 1, 0, 1]]
    for ln in range(1, 5 if ctx.thorough() else 4):
        for combo in itertools.product(ops, repeat=ln):
            if ln >= 3 and not ctx.thorough() and rng.random() > 0.25:
                continue
            yield "hist", {"tup": [0, 1], "ops": pre + [list(o) for o in combo]}


def search(ctx):
    rng = ctx.rng
    for _ in range(ctx.n(1500, 6000)):
        yield "prog", _gen_prog_input(rng)
    for _ in range(ctx.n(1500, 6000)):
        tup, ops = _gen_hist(rng, rng.randint(1, 3), rng.randint(2, 10))
        yield "hist", {"tup": tup, "ops": ops}
