"""C05 — scheduler callbacks fire in protocol order and contexts nest like a stack.

Model:    lean/DaskModel/Model/Callbacks.lean (Callback.active, add_callbacks, Callback.__enter__/__exit__,
          register/unregister, local_callbacks) + the callback log of Model/Sched.lean
Theorems: lean/DaskModel/Props/C05.lean
Tie:      `hist`  — flat histories (also ill-bracketed) of enter/exit of Callback objects and add_callbacks
                    managers, register/unregister, scheduler calls with and without `callbacks=`, executed on
                    the real classes and on the model: `Callback.active` after every operation, which callbacks
                    every scheduler call used, which operation raises;
          `prog`  — well-bracketed programs (real nested `with` statements) vs the structured `exec`;
          every real scheduler call records the full event sequence each callback saw: protocol oracle;
          `exh`   — (thorough) every history of <= 5 operations over 2 callback objects.
"""
from __future__ import annotations

import itertools

from sexp import Sym

PROP = "C05"
READY = True
DRIVER = "dm_sched"
LEAN_MODULES = ["DaskModel.Props.C05"]
CASE_TIMEOUT_S = 30
LEVEL_TEXT = (
    "Lean 4 theorems (a) over a model of dask/callbacks.py as repaired by /repo commit 64c9a31: for EVERY "
    "well-bracketed program of nested `with cb:` / `with add_callbacks(...)` blocks, register/unregister and "
    "scheduler calls, with the same or different callback objects and any nesting depth, a callback that was "
    "active before a block (enclosing context or earlier register()) is active after it unless the block "
    "unregisters it (exit_preserves_outer), nothing stays active except what the block registered and every "
    "Callback object finds its stack of managers as it left it (exit_restores, block_is_neutral), callbacks given "
    "to a block are seen by scheduler calls inside it (with_activates, with_obj_activates), a scheduler call leaves "
    "Callback.active untouched (get_restores_active); (b) over the get_async model: the event sequence every active "
    "callback sees is start, start_state, (pretask|posttask)*, finish with one pretask and at most one posttask per "
    "executed key (exactly one on success), finish last and once with failed=true iff the call does not return "
    "normally, for every completion order (protocol_order). Flat, also ill-bracketed, histories are validated by "
    "correspondence only.")
LEVEL_NOTE = (
    "Not modelled: exceptions raised by user callbacks themselves (started_cbs bookkeeping), callbacks that mutate "
    "Callback.active from inside a task, thread-safety of the class-level set. The order of pretask before "
    "posttask for the same key is validated on the real event logs (the theorem gives the counts and "
    "posttask-implies-pretask). Trusted: Lean kernel + standard axioms; the harness.")
TECHNIQUE = "Lean 4 structural-induction proof over all well-bracketed callback programs + differential correspondence on operation histories"
ASSUMPTIONS = ["callbacks do not raise and do not touch Callback.active themselves"]


class _World:
    """real callback objects; object o has tuple id TUP[o] (objects 0 and 1 share their functions)"""

    def __init__(self, tup):
        from dask.callbacks import Callback
        self.tup = tup
        self.events = {}          # tuple id -> list of events of the current scheduler call
        fn_sets = {}
        for t in sorted(set(tup)):
            fn_sets[t] = dict(
                start=(lambda dsk, t=t: self.events.setdefault(t, []).append(("start",))),
                start_state=(lambda dsk, state, t=t: self.events.setdefault(t, []).append(("start_state",))),
                pretask=(lambda key, dsk, state, t=t: self.events.setdefault(t, []).append(("pretask", key))),
                posttask=(lambda key, res, dsk, state, wid, t=t: self.events.setdefault(t, []).append(("posttask", key))),
                finish=(lambda dsk, state, failed, t=t: self.events.setdefault(t, []).append(("finish", bool(failed)))))
        self.objs = [Callback(**fn_sets[t]) for t in tup]
        self.tuple_of = {}
        for o, t in zip(self.objs, tup):
            self.tuple_of[o._callback] = t
        self.handles = []

    def active(self):
        from dask.callbacks import Callback
        return sorted(self.tuple_of.get(c, 99) for c in Callback.active)

    def get(self, ctx, how, cbs=None, fail=False):
        """one scheduler call; returns the sorted list of tuple ids that were used"""
        from dask.local import get_sync
        from dask.threaded import get as tget
        self.events = {}

        def boom(x):
            raise ValueError("boom")
        dsk = {"a": 1, "b": (lambda x: x + 1, "a"), "c": ((boom if fail else (lambda x: x * 2)), "b"), "d": (lambda x, y: x + y, "b", "c")}
        kw = {} if cbs is None else {"callbacks": [self.objs[[i for i, t in enumerate(self.tup) if t == c][0]]._callback for c in cbs]}
        try:
            if how == "threaded":
                tget(dsk, "d", num_workers=2, **kw)
            else:
                get_sync(dsk, "d", **kw)
            failed = False
        except ValueError:
            failed = True
        if failed != fail:
            ctx.fail("scheduler call outcome unexpected", observed=failed, expected=fail)
        used = []
        for t, evs in self.events.items():
            n = _protocol_oracle(ctx, t, evs, fail)
            used += [t] * n
        return sorted(used)


def _protocol_oracle(ctx, t, evs, fail):
    """events one callback saw during one scheduler call; returns how many times it was invoked (multiplicity)"""
    n = sum(1 for e in evs if e[0] == "start")
    if n == 0:
        ctx.fail("callback saw events but no start", observed=evs[:6])
        return 1
    if n > 1:
        # the same tuple passed several times through callbacks=[...]: split is not possible, check the counts only
        for kind in ("start_state", "finish"):
            if sum(1 for e in evs if e[0] == kind) != n:
                ctx.fail(f"callback invoked {n} times but {kind} count differs", observed=evs[:10])
        return n
    if evs[0] != ("start",) or evs[1] != ("start_state",):
        ctx.fail("start / start_state are not the first two events", observed=evs[:4])
    if evs[-1][0] != "finish" or sum(1 for e in evs if e[0] == "finish") != 1:
        ctx.fail("finish is not the single last event", observed=evs[-3:])
    elif evs[-1][1] != fail:
        ctx.fail("finish got the wrong failed flag", observed=evs[-1], expected=fail)
    pre = [e[1] for e in evs if e[0] == "pretask"]
    post = [e[1] for e in evs if e[0] == "posttask"]
    if len(set(pre)) != len(pre) or len(set(post)) != len(post):
        ctx.fail("a key got two pretask or two posttask calls", observed=[pre, post])
    for k in post:
        if k not in pre or evs.index(("pretask", k)) > evs.index(("posttask", k)):
            ctx.fail("posttask without a preceding pretask", observed=k)
    if not fail and sorted(pre) != sorted(post):
        ctx.fail("on success pretask and posttask keys differ", observed=[pre, post])
    if not fail and sorted(pre) != ["b", "c", "d"]:
        ctx.fail("pretask keys are not the executed tasks", observed=pre)
    if fail and ("c" in post or "d" in pre):
        ctx.fail("callbacks saw a dependent of the failed task / posttask of the failed task", observed=[pre, post])
    return 1


def _enc_op(op):
    return [Sym(op[0])] + list(op[1:])


def case_hist(ctx, inp):
    from dask.callbacks import Callback, add_callbacks
    tup, ops = inp["tup"], inp["ops"]
    Callback.active.clear()
    w = _World(tup)
    real = []
    try:
        for op in ops:
            kind = op[0]
            used = None
            try:
                if kind == "enterObj":
                    w.objs[op[1]].__enter__()
                elif kind == "exitObj":
                    w.objs[op[1]].__exit__(None, None, None)
                elif kind == "enterCm":
                    objs = [w.objs[[i for i, t in enumerate(tup) if t == c][-1]] for c in op[1:]]
                    h = add_callbacks(*objs)
                    h.__enter__()
                    w.handles.append(h)
                elif kind == "exitCm":
                    w.handles[op[1]].__exit__(None, None, None)
                elif kind == "register":
                    w.objs[[i for i, t in enumerate(tup) if t == op[1]][0]].register()
                elif kind == "unregister":
                    w.objs[[i for i, t in enumerate(tup) if t == op[1]][0]].unregister()
                elif kind == "get":
                    used = w.get(ctx, inp.get("how", "sync"), None, inp.get("fail", False))
                elif kind == "getWith":
                    used = w.get(ctx, inp.get("how", "sync"), list(op[1:]), inp.get("fail", False))
            except (KeyError, IndexError, AttributeError):
                real.append([Sym("raised")])
                ctx.branch("raises:" + kind)
                break
            real.append([Sym("ok"), w.active(), used if used is not None else None])
    finally:
        Callback.active.clear()
    mops = []
    for op in ops:
        if op[0] == "enterObj":
            mops.append([Sym("enterObj"), op[1], tup[op[1]]])
        else:
            mops.append(_enc_op(op))
    model = ctx.lean(Sym("cbrun"), *mops)
    ctx.eq("Callback.active / callbacks used after each operation", model, real)
    kinds = [o[0] for o in ops]
    # measured classes of histories
    depth, mx = 0, 0
    for k in kinds:
        if k in ("enterObj", "enterCm"):
            depth += 1
            mx = max(mx, depth)
        elif k in ("exitObj", "exitCm"):
            depth -= 1
    if mx >= 2:
        ctx.branch("nesting>=2")
    ent = [o[1] for o in ops if o[0] == "enterObj"]
    if len(ent) != len(set(ent)):
        ctx.branch("same-object-entered-twice")
    if "register" in kinds and ("enterObj" in kinds or "enterCm" in kinds):
        ctx.branch("register+context")
    if any(k in ("get", "getWith") for k in kinds):
        ctx.branch("scheduler-call")
    if len(set(tup)) < len(tup) and len({o[1] for o in ops if o[0] == "enterObj"}) > 1:
        ctx.branch("objects-sharing-a-tuple")
    if inp.get("fail"):
        ctx.branch("failing-call")


def _run_prog(ctx, w, p, uses, how, fail):
    """execute a well-bracketed program with REAL nested with-statements"""
    from dask.callbacks import add_callbacks
    kind = p[0]
    if kind == "skip":
        return
    if kind == "seq":
        _run_prog(ctx, w, p[1], uses, how, fail)
        _run_prog(ctx, w, p[2], uses, how, fail)
    elif kind == "withCm":
        with add_callbacks(*[w.objs[c] for c in p[1]]):
            _run_prog(ctx, w, p[2], uses, how, fail)
    elif kind == "withObj":
        with w.objs[p[1]]:
            _run_prog(ctx, w, p[2], uses, how, fail)
    elif kind == "register":
        w.objs[p[1]].register()
    elif kind == "unregister":
        w.objs[p[1]].unregister()
    elif kind == "get":
        uses.append(w.get(ctx, how, None, fail))


def _enc_prog(p):
    k = p[0]
    if k == "seq":
        return [Sym("seq"), _enc_prog(p[1]), _enc_prog(p[2])]
    if k == "withCm":
        return [Sym("withCm"), list(p[1]), _enc_prog(p[2])]
    if k == "withObj":
        return [Sym("withObj"), p[1], _enc_prog(p[2])]
    return [Sym(k)] + list(p[1:])


def _regs(p, which):
    k = p[0]
    if k == "seq":
        return _regs(p[1], which) | _regs(p[2], which)
    if k in ("withCm", "withObj"):
        return _regs(p[2], which)
    return {p[1]} if k == which else set()


def case_prog(ctx, inp):
    from dask.callbacks import Callback
    n, p = inp["n"], inp["prog"]
    Callback.active.clear()
    w = _World(list(range(n)))
    for c in inp.get("pre", []):
        w.objs[c].register()
    before = w.active()
    uses = []
    try:
        try:
            _run_prog(ctx, w, p, uses, inp.get("how", "sync"), inp.get("fail", False))
            real = [Sym("ok"), w.active(), uses]
        except KeyError:
            real = [Sym("raised")]
            ctx.branch("prog:unregister-raises")
    finally:
        after = w.active()
        Callback.active.clear()
    full = p
    for c in reversed(inp.get("pre", [])):
        full = ["seq", ["register", c], full]
    model = ctx.lean(Sym("cbexec"), _enc_prog(full))
    ctx.eq("well-bracketed program: active afterwards and callbacks used by every scheduler call", model, real)
    if real[0] == "ok":
        # the statement itself, on the real classes
        lost = [x for x in before if x not in after and x not in _regs(p, "unregister")]
        if lost:
            ctx.fail("leaving a callback context deactivated a callback that was active before it", observed=lost,
                     expected=before)
        extra = [x for x in after if x not in before and x not in _regs(p, "register")]
        if extra:
            ctx.fail("a callback is still active after its context was left", observed=extra)
    def depth(q):
        return 0 if q[0] not in ("seq", "withCm", "withObj") else (max(depth(q[1]), depth(q[2])) if q[0] == "seq" else 1 + depth(q[2]))
    if depth(p) >= 2:
        ctx.branch("prog:nesting>=2")
    if depth(p) >= 3:
        ctx.branch("prog:nesting>=3")
    if uses:
        ctx.branch("prog:scheduler-call")
    if inp.get("pre"):
        ctx.branch("prog:registered-before")

    def reenters(q, open_=()):
        if q[0] == "seq":
            return reenters(q[1], open_) or reenters(q[2], open_)
        if q[0] == "withObj":
            return q[1] in open_ or reenters(q[2], open_ + (q[1],))
        if q[0] == "withCm":
            return any(c in open_ for c in q[1]) or reenters(q[2], open_ + tuple(q[1]))
        return False
    if reenters(p, tuple(inp.get("pre", []))):
        ctx.branch("prog:re-enters-an-active-callback")


CASES = {"hist": case_hist, "prog": case_prog}


def _gen_hist(rng, nobj, length):
    tup = [0, 0, 1, 2][:nobj] if rng.random() < 0.3 else list(range(nobj))
    ops, ncm, depth_objs = [], 0, []
    for _ in range(length):
        r = rng.random()
        if r < 0.25:
            o = rng.randrange(nobj)
            ops.append(["enterObj", o])
            depth_objs.append(o)
        elif r < 0.42:
            # mostly well-bracketed exits, sometimes arbitrary
            o = depth_objs.pop() if depth_objs and rng.random() < 0.8 else rng.randrange(nobj)
            ops.append(["exitObj", o])
        elif r < 0.55:
            k = rng.randint(1, 3)
            ops.append(["enterCm"] + [rng.choice(sorted(set(tup))) for _ in range(k)])
            ncm += 1
        elif r < 0.65 and ncm:
            ops.append(["exitCm", rng.randrange(ncm)])
        elif r < 0.75:
            ops.append(["register", rng.choice(sorted(set(tup)))])
        elif r < 0.82:
            ops.append(["unregister", rng.choice(sorted(set(tup)))])
        elif r < 0.95:
            ops.append(["get"])
        else:
            ops.append(["getWith"] + [rng.choice(sorted(set(tup))) for _ in range(rng.randint(0, 2))])
    return tup, ops


def _gen_prog(rng, n, depth):
    r = rng.random()
    if depth <= 0 or r < 0.15:
        return rng.choice([["get"], ["get"], ["skip"], ["register", rng.randrange(n)], ["unregister", rng.randrange(n)]]) \
            if rng.random() < 0.35 else ["get"]
    if r < 0.45:
        return ["seq", _gen_prog(rng, n, depth - 1), _gen_prog(rng, n, depth - 1)]
    if r < 0.75:
        return ["withObj", rng.randrange(n), _gen_prog(rng, n, depth - 1)]
    return ["withCm", [rng.randrange(n) for _ in range(rng.randint(1, 3))], _gen_prog(rng, n, depth - 1)]


def _all_ops(nobj):
    ops = [["get"]]
    for o in range(nobj):
        ops += [["enterObj", o], ["exitObj", o], ["register", o], ["unregister", o]]
    ops += [["enterCm", 0], ["enterCm", 0, 1], ["exitCm", 0], ["exitCm", 1]]
    return ops


def generate(ctx):
    rng = ctx.rng
    # the recorded defect (#1, fixed): re-entering the same object; register() then a context
    yield "prog", {"n": 1, "prog": ["withObj", 0, ["seq", ["withObj", 0, ["skip"]], ["get"]]]}
    yield "prog", {"n": 1, "pre": [0], "prog": ["seq", ["withObj", 0, ["skip"]], ["seq", ["get"], ["unregister", 0]]]}
    yield "hist", {"tup": [0], "ops": [["enterObj", 0], ["enterObj", 0], ["exitObj", 0], ["get"], ["exitObj", 0], ["get"]]}
    for _ in range(ctx.n(500, 5000)):
        tup, ops = _gen_hist(rng, rng.randint(1, 4), rng.randint(1, 12))
        yield "hist", {"tup": tup, "ops": ops, "how": rng.choice(["sync", "sync", "threaded"]), "fail": rng.random() < 0.2}
    for _ in range(ctx.n(400, 4000)):
        n = rng.randint(1, 3)
        yield "prog", {"n": n, "prog": _gen_prog(rng, n, rng.randint(1, 5)), "pre": [c for c in range(n) if rng.random() < 0.25],
                       "how": rng.choice(["sync", "sync", "threaded"]), "fail": rng.random() < 0.15}
    # exhaustive: every history of <= 3 (quick) / <= 4 (thorough) operations over 2 callback objects
    ops = _all_ops(2)
    for ln in range(1, 5 if ctx.thorough() else 4):
        for combo in itertools.product(ops, repeat=ln):
            if ln >= 3 and not ctx.thorough() and rng.random() > 0.25:
                continue
            yield "hist", {"tup": [0, 1], "ops": [list(o) for o in combo]}


def search(ctx):
    rng = ctx.rng
    for _ in range(ctx.n(1500, 6000)):
        n = rng.randint(1, 3)
        yield "prog", {"n": n, "prog": _gen_prog(rng, n, rng.randint(1, 5)), "pre": [c for c in range(n) if rng.random() < 0.25]}
