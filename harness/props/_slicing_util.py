"""Helpers shared by the `slicing` group (C20, C21, C26, C29): generators and canonicalisers."""
from __future__ import annotations

import itertools

from sexp import Sym


def compositions(n, zeros=False, maxparts=None):
    """All chunk tuples summing to n: compositions with positive parts (dask's usual chunks); with
    zeros=True also tuples with zero-length chunks (up to maxparts parts)."""
    if n == 0 and not zeros:
        return [(0,)]
    if not zeros:
        out = []
        for k in range(1 << (n - 1)):
            c, cur = [], 1
            for b in range(n - 1):
                if k >> b & 1:
                    c.append(cur)
                    cur = 1
                else:
                    cur += 1
            c.append(cur)
            out.append(tuple(c))
        return out
    maxparts = maxparts or (n + 2)
    out = set()
    for k in range(1, maxparts + 1):
        for c in itertools.product(range(n + 1), repeat=k):
            if sum(c) == n:
                out.add(c)
    return sorted(out)


def random_chunks(rng, n, zeros=0.0):
    """A random chunk tuple for an axis of length n (irregular, size-1 chunks likely, optional empty chunks)."""
    if n == 0:
        return (0,) if rng.random() > zeros else tuple([0] * rng.randint(1, 3))
    style = rng.random()
    if style < 0.15:
        c = [n]
    elif style < 0.3:
        k = rng.randint(1, n)
        c = [k] * (n // k) + ([n % k] if n % k else [])
    else:
        cuts = sorted(rng.sample(range(1, n), rng.randint(0, min(n - 1, 5)))) if n > 1 else []
        pts = [0] + cuts + [n]
        c = [b - a for a, b in zip(pts, pts[1:])]
    if zeros and rng.random() < zeros:
        for _ in range(rng.randint(1, 2)):
            c.insert(rng.randint(0, len(c)), 0)
    return tuple(c)


def enc_slice(s):
    """slice -> [start, stop, step] with None kept (encoded as the symbol `none`)."""
    return [s.start, s.stop, s.step]


def dec_slice(t):
    return slice(*[None if (isinstance(v, Sym) and v == "none") else int(v) for v in t])


def canon_slice(s):
    return [None if v is None else int(v) for v in (s.start, s.stop, s.step)]


def unsym(x):
    """decoded Lean answer -> plain JSON-able python (symbols `none/true/false` resolved)."""
    if isinstance(x, Sym):
        return {"none": None, "true": True, "false": False}.get(str(x), str(x))
    if isinstance(x, list):
        return [unsym(e) for e in x]
    return x


def exc_name(e):
    return type(e).__name__


def slice_values(n):
    return [None] + list(range(-n - 2, n + 3))


def slice_steps(n):
    st = {1, 2, 3, -1, -2, -3, None}
    if n:
        st |= {n, -n}
    return sorted(st, key=lambda v: (v is None, v or 0))
