"""C41 — known divisions always describe the partitions truthfully.

Model:    lean/DaskModel/Model/Divs.lean (`truthfulB`, `partitionOf`, LocSlice / Partitions / ToFewer division
          rules) + Model/SDL.lean (from_pandas) + Model/Repart.lean (RepartitionDivisions)
Theorems: lean/DaskModel/Props/C41.lean
Tie:      API level: random pipelines over every construction path that can report known divisions; the
          partitions the graph really produces (and the `get_partition(i)` view) are checked against
          `.divisions` by the Python oracle AND by the Lean `truthfulB`; function level: LocSlice /
          Partitions division rules.
Extension: Model/LocList.lean + Props/C41xLocList.lean (LocList / LocElement), sections in _c41x_loclist.py.
"""
from __future__ import annotations

from sexp import Sym

from props import _dfpart_util as U

PROP = "C41"
READY = True
DRIVER = "dm_dfpart"
LEAN_MODULES = ["DaskModel.Props.C41", "DaskModel.Props.C41xLocList"]
CASE_TIMEOUT_S = 90
LEVEL_TEXT = ("Lean 4: the statement's predicate Truthful (npartitions = len(divisions)-1, divisions sorted, every key of "
              "partition i in [d_i, d_i+1), last closed) and one theorem per construction path over executable "
              "transliterations, for all inputs: from_pandas_truthful (partitions cut at the locations planned by "
              "sorted_division_locations - every sorted frame, npartitions and chunksize mode; built on the C45 theorems, which "
              "now include totality), loc_slice_truthful_full (the FULL .loc statement: closed slices, .loc[x:], .loc[:y], .loc[:], "
              "one or several touched partitions; window_truthful; uses the proved spec of _partition_of_index_value), "
              "partitions_truthful (partitions[...] in increasing order), tofewer_truthful (RepartitionToFewer / concatenation of "
              "contiguous partitions), from_pandas_divisions_truthful (dd.repartition(pandas_frame, divisions): FromPandasDivisions cuts the "
              "sorted frame at the first position at or after each division; after the fix 4f4a63b), repartition_divisions_truthful (repartition(divisions=b): both walks of "
              "RepartitionDivisions._layer proved, see C44; for frames with partitions in index order), set_index_truthful "
              "(set_partitions_pre + staged task shuffle + per-partition sort, divisions spanning the data; proved in C40, also "
              "for the presorted shortcut), concat_monotonic_truthful (concat of frames with ordered, non-overlapping ranges: "
              "divisions d1[:-1] + d2), aligned_binary_truthful (index merges / concat(axis=1) / arithmetic on co-aligned frames), "
              "filter_preserves, blockwise_preserves, partitionwise_subset_preserves, truthfulB_decides (the executable oracle of "
              "the tie is exactly the predicate). VALIDATED on every run: random pipelines over from_pandas / from_map sources, "
              "loc (slice, list, element), filter, assign, projection, repartition (npartitions, divisions), partitions[...] "
              "selection, set_index (computed / given divisions / npartitions=), interleaved concat, index merges, head/tail, "
              "map_partitions: the partitions the graph produces and the get_partition(i) view are checked against .divisions by "
              "the Python oracle and by the Lean truthfulB; Concat._divisions for ordered frames and LocSlice / Partitions "
              "division rules at function level. EXTENSION (Props/C41xLocList, Model/LocList): .loc[[labels]] (LocList) and .loc[x] "
              "(LocElement) as they are in the code - _partitions_of_index_values (the loop routeLoop = the closed form routeItems: "
              "route_loop_is_closed_form; route_items_wf: increasing partition order, no empty item, labels in order of appearance with "
              "duplicates, none dropped), the reported divisions (min of every item, max of the last), pandas df.loc[[..]] on one "
              "partition (KeyError for a missing label), LocList._lower / LocElement._lower. loc_list_truthful (full statement: on a "
              "truthful frame the reported divisions are truthful for the output partitions, every label fetched ALL rows of the frame "
              "carrying it in the order the code defines, and the computation only succeeds when every label is in the frame), "
              "loc_list_divisions_truthful (truthful + legal divisions with NO hypothesis on frame, divisions or labels), "
              "loc_list_label_found (a row of partition j is routed to j), loc_list_total, loc_list_missing_raises, "
              "loc_list_outside_raises (labels beyond the divisions), route_label_at_division (interior division -> right-hand "
              "partition, last / duplicated last division -> last partition), route_label_outside, loc_list_lower_routing (the second "
              "routing by the divisions of Partitions(frame, used) sends every label to the position of its partition), "
              "loc_list_lower_same_result, loc_element_truthful (divisions (x, x), every row labelled x, in order), "
              "loc_element_guard, loc_element_lower_routing. Tied on every run: the routing table label -> ORIGINAL partition read "
              "off the lowered LocList graph, _partitions_of_index_values, LocList._divisions/_lower, LocElement._divisions/_lower "
              "and the partition it reads vs the model on generated division vectors (duplicated last division, labels at "
              "divisions, outside the range, duplicated, unsorted; list / ndarray / Series); computed partitions row by row; oracles "
              "(truthful, all rows of every label, KeyError iff a label is absent). NOT covered by a theorem: interleaved concat, "
              ".loc[callable / boolean series] (validated by the pipelines). Optimizer rewrites after a set_index with computed divisions (filter, head/tail) "
              "violate the statement on the unchanged tree: known findings, classified by their exact symptom.")
LEVEL_NOTE = ("Trusted: Lean kernel + standard axioms; the differential tie (LocSlice.start/stop/_divisions, Partitions._divisions, "
              "Concat._divisions, _partitions_of_index_values, LocList/LocElement._divisions/_lower/_layer function level; pipelines API "
              "level); pandas label slicing and list selection (df.loc[[labels]]: label by label, KeyError when one is missing) on one "
              "partition; expression classes "
              "outside the generated pipelines (evidence lists the paths reached) are not covered.")
TECHNIQUE = "Lean 4 proof (closure of the Truthful predicate under each construction path; loop invariants for RepartitionDivisions) + differential correspondence + property oracle on the real code"
ASSUMPTIONS = ["index values are non-negative ints in the model; compared only through <, <=, ==",
               "pandas df.loc[[labels]] on one partition = for every label in the given order all rows carrying it in positional "
               "order, KeyError if a label is missing (pandasLocList; diffed against pandas on every run)",
               "the order of rows with EQUAL index values inside a partition after a shuffle is not promised (two graphs of the "
               "same expression differ): oracles never depend on it"]
TRUSTED = ["Lean 4 kernel, axioms propext / Classical.choice / Quot.sound", "harness/props/c41.py differential tie", "pandas as oracle"]


def _mk_source(inp):
    import pandas as pd
    dd = U.dd()
    src = inp["src"]
    if src["kind"] == "presorted_w":
        w = src["w"]
        df = pd.DataFrame({"v": list(range(len(w))), "w": w}, index=pd.Index(src["index"], dtype="int64"))
        return dd.from_pandas(df, npartitions=src["n"], sort=False), df
    if src["kind"] == "from_pandas":
        idx = src["index"]
        df = pd.DataFrame({"v": list(range(len(idx))), "w": [(7 * k + 3 * i) % 11 for i, k in enumerate(idx)]},
                          index=pd.Index(idx, dtype="int64"))
        d = dd.from_pandas(df, **src["kw"])
        if src["kw"].get("sort", True):
            df = df.sort_index(kind="stable")
        return d, df
    keys = src["parts"]
    flat = [k for p in keys for k in p]
    w = [(7 * k + 3 * i) % 11 for i, k in enumerate(flat)]
    d = U.frame_from_parts(keys, divisions=src["divs"], cols={"w": w})
    df = pd.DataFrame({"v": list(range(len(flat))), "w": w}, index=pd.Index(flat, dtype="int64"))
    return d, df


def _apply(op, d, p):
    """apply one pipeline step to the dask frame and to the pandas reference"""
    import pandas as pd
    dd = U.dd()
    k = op[0]
    if p is None and k not in ("filter", "assign", "project", "repartition_n", "repartition_d", "partitions",
                               "partitions_slice", "map_partitions", "tail", "index_shift", "reset_set", "clear", "loc_slice"):
        return d, None          # no pandas reference any more: only reference-free steps
    if k in ("loc_slice", "loc_list", "loc_elem") and not d.known_divisions:
        return d, p             # LocUnknown never reports divisions: not a C41 path
    if k in ("set_index", "set_index_sorted") and "w" not in d.columns:
        return d, p
    if k == "loc_slice":
        a, b = op[1], op[2]
        if p is None:
            return d.loc[a:b], None
        return d.loc[a:b], p.sort_index(kind="stable").loc[a:b] if not p.index.is_monotonic_increasing else p.loc[a:b]
    if k == "loc_list":
        keys = sorted({x for x in op[1] if x in set(p.index)})
        if not keys:
            return d, p
        return d.loc[keys], p[p.index.isin(keys)]
    if k == "loc_elem":
        if op[1] not in set(p.index):
            return d, p
        return d.loc[op[1]], p[p.index == op[1]]
    if k == "filter":
        return d[d.v % op[1] == op[2]], None if p is None else p[p.v % op[1] == op[2]]
    if k == "assign":
        return d.assign(z=d.v + 1), None if p is None else p.assign(z=p.v + 1)
    if k == "project":
        return d[["v", "w"]], None if p is None else p[["v", "w"]]
    if k == "repartition_n":
        return d.repartition(npartitions=op[1]), p
    if k == "repartition_d":
        if not d.known_divisions:
            return d, p
        lo, hi = d.divisions[0], d.divisions[-1]
        inner = sorted({x for x in op[1] if lo < x < hi})
        b = [lo] + inner + [hi] + ([hi] if op[2] and lo < hi else [])
        return d.repartition(divisions=b), p
    if k == "partitions":
        n = d.npartitions
        sel = sorted({x % n for x in op[1]})
        pp = None  # pandas reference unknown without the partitions; rows are checked through the graph
        return d.partitions[sel], pp
    if k == "partitions_slice":
        n = d.npartitions
        a, b = sorted((op[1] % (n + 1), op[2] % (n + 1)))
        if a == b:
            return d, p
        return d.partitions[a:b], None
    if k == "set_index":
        kw = {}
        if op[1] is not None:
            vals = sorted(set(op[1]) | {int(p.w.min()), int(p.w.max())}) if len(p) else sorted(set(op[1]))
            if len(vals) < 2:
                vals = vals + vals
            kw["divisions"] = vals
        elif len(op) > 2 and op[2]:
            kw["npartitions"] = op[2]      # requested count; repeated quantiles may collapse it
        return d.set_index("w", **kw), p.set_index("w")
    if k == "set_index_sorted":
        # the column is already ordered over the partitions: divisions from per-partition min/max, equal keys that
        # straddle a boundary are moved (fix_overlap); unsorted input is rejected with ValueError
        return d.set_index("w", sorted=True), p.set_index("w")
    if k == "concat":
        idx2 = op[1]
        df2 = pd.DataFrame({"v": [1000 + i for i in range(len(idx2))], "w": [k2 % 11 for k2 in idx2]},
                           index=pd.Index(sorted(idx2), dtype="int64"))
        d2 = dd.from_pandas(df2, npartitions=op[2])
        # partitions of an interleaved concat are not sorted inside; no positional pandas reference afterwards
        return dd.concat([d, d2], interleave_partitions=True), None
    if k == "merge_index":
        idx2 = sorted(set(op[1]))
        df2 = pd.DataFrame({"u": [k2 * 2 for k2 in idx2]}, index=pd.Index(idx2, dtype="int64"))
        d2 = dd.from_pandas(df2, npartitions=op[2])
        # NaN keys are outside the statement: keep v / w integral after right/outer merges
        fix = {"v": "int64", "w": "int64"}
        return (d.merge(d2, left_index=True, right_index=True, how=op[3]).fillna(-1).astype(fix),
                p.merge(df2, left_index=True, right_index=True, how=op[3]).fillna(-1).astype(fix))
    if k == "map_partitions":
        return d.map_partitions(lambda x: x.iloc[::2]), None
    if k == "cumsum":
        return d.cumsum(), None   # order of equal index values is not promised by from_pandas(sort=True)
    if k == "head":
        return d.head(op[1], npartitions=-1, compute=False), None
    if k == "tail":
        return d.tail(op[1], compute=False), None
    if k == "index_shift":
        return d.map_partitions(lambda x: x.rename(index=lambda i: i + 0)), p
    if k == "reset_set":
        return d.reset_index().set_index("index"), None
    if k == "clear":
        return d.clear_divisions(), p
    raise ValueError(k)


def _intern(divs, parts):
    """divisions / index values -> non-negative ints, order-preserving"""
    vals = sorted({x for x in divs} | {k for p in parts for k in p})
    m = {v: i for i, v in enumerate(vals)}
    return [m[x] for x in divs], [[m[k] for k in p] for p in parts]


def case_pipeline(ctx, inp):
    import dask
    import pandas as pd
    with dask.config.set(scheduler="sync"):
        try:
            d, p = _mk_source(inp)
        except Exception as e:  # noqa: BLE001
            ctx.fail("source construction raised: " + U.exc_name(e), observed=U.exc_name(e))
            return
        unsorted_inside = False
        for op in inp["ops"]:
            if op[0] in ("concat", "merge_index"):
                unsorted_inside = True      # pieces of several frames are concatenated inside a partition, not sorted
            elif op[0] in ("set_index", "reset_set", "set_index_sorted"):
                unsorted_inside = False
            if unsorted_inside and op[0] in ("loc_slice", "loc_list", "loc_elem"):
                # label slicing of a partition whose index is not monotonic is pandas-positional / raises KeyError:
                # a C36 matter (reported to dfrows), not a statement about divisions
                continue
            try:
                d, p = _apply(op, d, p)
            except (KeyError, ValueError, NotImplementedError) as e:
                # a rejected operation is allowed by the statement (it never reports divisions)
                ctx.branch("rejected-" + op[0])
                ctx.note("rejected:" + type(e).__name__)
                return
            except Exception as e:  # noqa: BLE001
                ctx.fail(f"{op[0]} raised {U.exc_name(e)}", sig=f"{op[0]}:{type(e).__name__}", observed=[op, U.exc_name(e)])
                return
        path = "+".join(o[0] for o in inp["ops"]) or inp["src"]["kind"]
        # known finding: a filter after a set_index whose divisions were computed from the data is pushed below the
        # set_index by the optimizer, which then recomputes (different) divisions on the filtered data
        si = [i for i, o in enumerate(inp["ops"]) if o[0] in ("set_index", "reset_set")]
        si_computed = [i for i in si if inp["ops"][i][0] == "reset_set" or inp["ops"][i][1] is None]
        pushed = bool(si_computed) and any(o[0] == "filter" for o in inp["ops"][si_computed[0] + 1:])
        cand = "set_index(computed divisions)+filter:optimizer-recomputes-divisions" if pushed else None
        # known finding: Head/Tail of such a set_index is rewritten to SetIndex(NFirst/NLast(...))
        if cand is None and si_computed and any(o[0] in ("head", "tail") for o in inp["ops"][si_computed[0] + 1:]):
            cand = "set_index(computed divisions)+head|tail:optimizer-rewrites-to-NFirst/NLast"
        # ... and the same rewrite (SetIndex._simplify_up) fires when the divisions were GIVEN by the user (they are discarded)
        si_given = [i for i in si if inp["ops"][i][0] == "set_index" and inp["ops"][i][1] is not None]
        if cand is None and si_given and any(o[0] in ("head", "tail") for o in inp["ops"][si_given[0] + 1:]):
            cand = "set_index(given divisions)+head|tail:optimizer-rewrites-to-NFirst/NLast"
        # the recorded symptom is exactly: the optimized expression reports OTHER divisions than the collection, and the
        # partitions of the graph are truthful for those; anything else in such a pipeline is reported as fresh
        fsig = None
        if cand is not None:
            try:
                odivs = list(d.optimize(fuse=False).divisions)
                if odivs != list(d.divisions):
                    fsig = cand
                    ctx.branch("optimizer-changes-divisions")
            except Exception:  # noqa: BLE001 - classified below, where the same failure surfaces at compute time
                pass
        last = inp["ops"][-1][0] if inp["ops"] else inp["src"]["kind"]
        # the order of rows with EQUAL index values inside a partition after a shuffle (set_index / index merge) is the
        # shuffle's arrival order - not promised, and different between two graphs of the same expression
        # (get_partition(i) vs to_delayed()[i]; seen with VERIF_SEED=7). A later positional step (iloc[::2], cumsum,
        # head, tail) then legitimately picks different rows among the ties: compare the index only in that case.
        shuf = [i for i, o in enumerate(inp["ops"]) if o[0] in ("set_index", "reset_set", "merge_index")]
        ties_unordered = bool(shuf) and any(o[0] in ("map_partitions", "cumsum", "head", "tail") for o in inp["ops"][shuf[0] + 1:])
        try:
            divs = list(d.divisions)
            n = d.npartitions
            parts = U.partitions(d)
        except Exception as e:  # noqa: BLE001
            # with the known optimizer rewrites the reported divisions and the graph disagree; a later step that
            # relies on the reported divisions (repartition(divisions=...)) then fails at compute time
            # (only for the rewrite candidates above; every other raising pipeline is a fresh failure)
            consumes = any(o[0] in ("repartition_d", "repartition_n", "loc_slice", "loc_list", "loc_elem", "partitions",
                                    "partitions_slice") for o in inp["ops"][(si_computed[0] + 1) if si_computed else 0:])
            ctx.fail("computing divisions/partitions raised: " + U.exc_name(e),
                     sig=(f"set_index(computed divisions)+later-step:compute-raises-{type(e).__name__}" if cand and consumes and si_computed
                          else f"{inp['ops'][-1][0] if inp['ops'] else 'source'}:compute:{type(e).__name__}"),
                     observed=[U.exc_name(e), path])
            return

        if len(divs) != n + 1 or n != len(parts):
            ctx.fail("npartitions / len(divisions)-1 / number of graph partitions disagree", sig=fsig,
                     observed=[n, len(divs) - 1, len(parts), path])
            return
        known = divs[0] is not None and all(x is not None for x in divs)
        if known and any(x != x for x in divs):
            ctx.branch("nan-divisions:" + last)     # set_index of an empty frame: divisions (nan, nan), nothing to describe
            known = False
        keys = [[k for k in pp.index] for pp in parts]
        if known:
            ctx.branch("known:" + last)
            why = U.truthful(divs, parts)
            try:
                idivs, ikeys = _intern(divs, keys)
                model = ctx.lean(Sym("truthful"), idivs, ikeys)
                ctx.eq("Truthful (Lean) vs python oracle", model, why is None)
            except TypeError:
                ctx.note("not-internable")
            if why:
                # with the recorded rewrite the partitions must at least be truthful for the divisions of the optimized expression
                tsig = fsig if (fsig and (any(x is None for x in odivs) or U.truthful(odivs, parts) is None)) else None
                ctx.fail("known divisions are not truthful: " + why, sig=tsig, observed=[divs, keys, path])
            # the public per-partition view must be the same partitions
            for i in sorted(set(ctx.rng.randrange(n) for _ in range(2))) if n else []:
                try:
                    gp = d.get_partition(i)
                    got = gp.compute()
                    gd = list(gp.divisions)
                except Exception as e:  # noqa: BLE001
                    ctx.fail("get_partition raised: " + U.exc_name(e), observed=[i, path])
                    continue
                if list(got.index) != keys[i] or ("v" in got and not ties_unordered
                                                  and sorted(got.v.fillna(-1)) != sorted(parts[i].v.fillna(-1))):
                    ctx.fail("get_partition(i) is not partition i of the graph", sig=fsig, observed=[i, list(got.index), keys[i], path])
                if gd[0] is not None:
                    w2 = U.truthful(gd, [got])
                    if w2:
                        ctx.fail("get_partition(i) divisions not truthful: " + w2, sig=fsig, observed=[i, gd, list(got.index), path])
        else:
            ctx.branch("unknown:" + last)
        # rows: sanity against pandas where a reference exists (multiset of (index, v))
        if p is not None and parts and "v" in parts[0]:
            got = sorted((int(k), -1 if v != v else int(v)) for pp in parts for k, v in zip(pp.index, pp.v))
            exp = sorted((int(k), -1 if v != v else int(v)) for k, v in zip(p.index, p.v))
            if got != exp:
                ctx.fail("rows differ from the pandas reference", sig=f"rows:{last}", observed=[got[:12], exp[:12], path])
    del pd


def case_locslice_divs(ctx, inp):
    """function level: LocSlice.start/stop/_divisions vs the model"""
    U.dd()
    from dask.dataframe.dask_expr._indexing import LocSlice
    divs, a, b = inp["divs"], inp["a"], inp["b"]
    frame = U.frame_from_parts([[] for _ in range(len(divs) - 1)], divisions=divs)
    e = LocSlice(frame.expr, slice(a, b), None)
    try:
        impl = [Sym("ok"), int(e.start), int(e.stop), [int(x) for x in e._divisions()]]
    except Exception as ex:  # noqa: BLE001
        impl = [Sym("raised"), U.exc_name(ex)]
    model = ctx.lean(Sym("locslice-divs"), divs, Sym("none") if a is None else a, Sym("none") if b is None else b)
    ctx.eq("LocSlice start/stop/_divisions", model, impl if impl[0] == "ok" else impl[:1])
    ctx.branch("locslice-" + ("open" if a is None or b is None else "reversed" if a > b else "closed"))


def case_partitions_divs(ctx, inp):
    U.dd()
    from dask.dataframe.dask_expr._expr import Partitions
    divs, sel = inp["divs"], inp["sel"]
    frame = U.frame_from_parts([[] for _ in range(len(divs) - 1)], divisions=divs)
    e = Partitions(frame.expr, sel)
    got = list(e._divisions())
    model = ctx.lean(Sym("partitions-divs"), divs, sel)
    ctx.eq("Partitions._divisions", model, [Sym("ok"), [Sym("none") if x is None else int(x) for x in got]])
    ctx.branch("partitions-" + ("increasing" if all(x < y for x, y in zip(sel, sel[1:])) else "unordered"))


def case_concat_divs(ctx, inp):
    """function + API level: Concat._divisions of two frames with known divisions (ordered ranges: d1[:-1] + d2, else
    unknown) vs the model; the partitions really are the listed ones and truthful (concat_monotonic_truthful)"""
    import dask
    dd = U.dd()
    d1, d2, k1, k2 = inp["d1"], inp["d2"], inp["k1"], inp["k2"]
    f1 = U.frame_from_parts(k1, divisions=d1)
    f2 = U.frame_from_parts(k2, divisions=d2)
    model = ctx.lean(Sym("concat-divs"), d1, d2)
    with dask.config.set(scheduler="sync"):
        try:
            c = dd.concat([f1, f2])
            divs = list(c.divisions)
            parts = U.partitions(c)
        except ValueError as e:
            # overlapping known divisions are rejected as documented (interleave_partitions=True is required)
            ctx.eq("concat rejected only when the ranges overlap", model, [Sym("not-mono")])
            ctx.branch("concat-overlap-rejected")
            ctx.note(type(e).__name__)
            return
        except Exception as e:  # noqa: BLE001
            ctx.fail("concat raised: " + U.exc_name(e), observed=U.exc_name(e))
            return
    if model[0] == "mono":
        ctx.eq("Concat._divisions (ordered ranges)", model[1], [int(x) for x in divs])
        ctx.branch("concat-monotonic")
        why = U.truthful(divs, parts)
        if why:
            ctx.fail("concat of ordered frames: divisions not truthful: " + why, observed=[divs, [list(p.index) for p in parts]])
        if [list(p.index) for p in parts] != [list(k) for k in k1 + k2]:
            ctx.fail("concat of ordered frames: partitions are not the input partitions in order",
                     observed=[list(p.index) for p in parts], expected=k1 + k2)
    else:
        ctx.branch("concat-not-monotonic")
        if divs[0] is not None:
            ctx.fail("concat of frames with overlapping ranges reports known divisions without interleaving", observed=divs)


def case_pandas_divs(ctx, inp):
    """dd.repartition(pandas_frame, divisions) (FromPandasDivisions): partition lengths vs the model's locations,
    divisions as given, truthful, rows of the sorted frame in order (from_pandas_divisions_truthful)"""
    import dask
    import pandas as pd
    dd = U.dd()
    idx, b = inp["index"], inp["b"]
    df = pd.DataFrame({"v": list(range(len(idx)))}, index=pd.Index(idx, dtype="int64"))
    with dask.config.set(scheduler="sync"):
        try:
            r = dd.repartition(df, b)
            divs = [int(x) for x in r.divisions]
            parts = U.partitions(r)
        except Exception as e:  # noqa: BLE001
            ctx.fail("dd.repartition(pandas frame, divisions) raised: " + U.exc_name(e), observed=U.exc_name(e))
            return
    sdf = df.sort_index(kind="stable")
    ctx.eq("FromPandasDivisions divisions", divs, list(b))
    locs = ctx.lean(Sym("pandas-div-locs"), [int(k) for k in sdf.index], b)
    ctx.eq("FromPandasDivisions partition lengths", [y - x for x, y in zip(locs, locs[1:])], [len(p) for p in parts])
    ctx.branch("pandas-divs-" + ("unique" if len(set(idx)) == len(idx) else "duplicates")
               + ("-beyond" if any(x > max(idx) for x in b[1:-1]) else ""))
    why = U.truthful(divs, parts)
    if why:
        ctx.fail("dd.repartition(pandas frame, divisions): divisions not truthful: " + why,
                 observed=[divs, [list(p.index) for p in parts]])
    got = [int(k) for p in parts for k in p.index]
    if got != [int(k) for k in sdf.index] or sorted(int(v) for p in parts for v in p.v) != list(range(len(idx))):
        ctx.fail("dd.repartition(pandas frame, divisions) does not keep the rows (index order)", observed=got)


JOINT_OPS = ("loc_slice", "filter", "assign", "project", "repartition_n", "repartition_d", "partitions", "partitions_slice")


def case_joint(ctx, inp):
    """JOINT / HISTORY: two pipelines over ONE source, observed alone, then together in one graph (all partitions of both
    in one dask.compute), then alone again: the partitions (as multisets of (index, v)) and the reported divisions must
    not depend on what else is in the graph or was computed before, and every result stays truthful."""
    import dask
    with dask.config.set(scheduler="sync"):
        try:
            d, p = _mk_source(inp)
        except Exception as e:  # noqa: BLE001
            ctx.fail("source construction raised: " + U.exc_name(e), observed=U.exc_name(e))
            return
        rs = []
        for ops in inp["pipelines"]:
            x, px = d, p
            try:
                for op in ops:
                    x, px = _apply(op, x, px)
            except (KeyError, ValueError, NotImplementedError):
                ctx.branch("joint-rejected")
                return
            except Exception as e:  # noqa: BLE001
                ctx.fail(f"pipeline step raised {U.exc_name(e)}", observed=[ops, U.exc_name(e)])
                return
            rs.append(x)

        def canon(parts):
            return [sorted((int(k), -1 if v != v else int(v)) for k, v in zip(pp.index, pp.v)) if "v" in pp else sorted(map(int, pp.index))
                    for pp in parts]
        try:
            solo = [canon(U.partitions(r)) for r in rs]
            dls = [r.to_delayed() for r in rs]
            flat = dask.compute(*[x for dl in dls for x in dl])
            joint, pos = [], 0
            for dl in dls:
                joint.append(canon(flat[pos:pos + len(dl)]))
                pos += len(dl)
            again = [canon(U.partitions(r)) for r in rs]
        except Exception as e:  # noqa: BLE001
            ctx.fail("joint evaluation of two pipelines of one source raised: " + U.exc_name(e), observed=U.exc_name(e))
            return
        for i, r in enumerate(rs):
            if joint[i] != solo[i] or again[i] != solo[i]:
                ctx.fail("the partitions of a pipeline depend on what else is computed with / before it",
                         observed=[inp["pipelines"], i, joint[i][:6], solo[i][:6]])
            divs = list(r.divisions)
            if divs[0] is not None and not any(x != x for x in divs):
                why = U.truthful(divs, U.partitions(r))
                if why:
                    ctx.fail("known divisions are not truthful (joint stream): " + why, observed=[divs, inp["pipelines"][i]])
    ctx.branch("joint-" + "+".join(sorted({o[0] for ops in inp["pipelines"] for o in ops})[:3]))


CASES = {"joint": case_joint, "pandas_divs": case_pandas_divs, "pipeline": case_pipeline, "locslice_divs": case_locslice_divs, "partitions_divs": case_partitions_divs,
         "concat_divs": case_concat_divs}

# extension round: LocList / LocElement have a Lean model (Model/LocList.lean); sections loclist_route, loclist_api,
# locelem in _c41x_loclist.py
from props import _c41x_loclist as _ll   # noqa: E402
CASES.update(_ll.CASES)


def _rand_op(rng, first):
    t = rng.random()
    hi = 30
    if t < 0.22:
        a = rng.choice([None, rng.randint(-2, hi + 2)])
        b = rng.choice([None, rng.randint(-2, hi + 2)])
        if a is not None and b is not None and rng.random() < 0.8 and a > b:
            a, b = b, a
        return ["loc_slice", a, b]
    if t < 0.27:
        return ["loc_list", [rng.randint(0, hi) for _ in range(rng.randint(1, 4))]]
    if t < 0.30:
        return ["loc_elem", rng.randint(0, hi)]
    if t < 0.38:
        m = rng.randint(2, 3)
        return ["filter", m, rng.randrange(m)]
    if t < 0.42:
        return [rng.choice(["assign", "project", "cumsum", "index_shift"])]
    if t < 0.52:
        return ["repartition_n", rng.randint(1, 8)]
    if t < 0.62:
        return ["repartition_d", [rng.randint(0, hi) for _ in range(rng.randint(0, 4))], rng.random() < 0.2]
    if t < 0.68:
        return ["partitions", [rng.randint(0, 9) for _ in range(rng.randint(1, 3))]]
    if t < 0.72:
        return ["partitions_slice", rng.randint(0, 9), rng.randint(0, 9)]
    if t < 0.80:
        if rng.random() < 0.5:
            return ["set_index", None] + ([rng.randint(2, 6)] if rng.random() < 0.35 else [])
        return ["set_index", [rng.randint(0, 10) for _ in range(rng.randint(1, 4))]]
    if t < 0.86:
        return ["concat", [rng.randint(0, hi) for _ in range(rng.randint(1, 6))], rng.randint(1, 3)]
    if t < 0.92:
        return ["merge_index", [rng.randint(0, hi) for _ in range(rng.randint(1, 8))], rng.randint(1, 3),
                rng.choice(["inner", "left", "outer", "right"])]
    if t < 0.95:
        return [rng.choice(["head", "tail"]), rng.randint(1, 4)]
    return [rng.choice(["map_partitions", "reset_set", "clear"])]


def _rand_source(rng):
    if rng.random() < 0.12:
        # column `w` already ordered, equal keys straddling partition boundaries: set_index('w') may only skip the
        # shuffle if no run of equal keys crosses a boundary
        ln = rng.randint(2, 18)
        w = sorted(rng.randint(0, rng.choice([3, 6, 10])) for _ in range(ln))
        return {"kind": "presorted_w", "w": w, "index": [rng.randint(0, 30) for _ in range(ln)], "n": rng.randint(2, 5)}
    if rng.random() < 0.55:
        ln = rng.randint(1, 18)
        idx = [rng.randint(0, rng.choice([4, 10, 30])) for _ in range(ln)]
        if rng.random() < 0.7:
            idx.sort()
        kw = {rng.choice(["npartitions", "chunksize"]): rng.randint(1, min(ln, 6))}
        if rng.random() < 0.15:
            kw["sort"] = False
        return {"kind": "from_pandas", "index": idx, "kw": kw}
    nparts = rng.randint(1, 5)
    divs = U.rand_divisions(rng, nparts, 0, rng.choice([8, 14, 30]))
    return {"kind": "parts", "divs": divs, "parts": U.rand_truthful_parts(rng, divs, maxrows=rng.choice([2, 4]))}


def generate(ctx):
    rng = ctx.rng
    for _ in range(ctx.n(400, 6000)):
        divs = U.rand_divisions(rng, rng.randint(1, 5), 0, rng.choice([8, 20]))
        a = rng.choice([None, rng.randint(0, 22)])
        b = rng.choice([None, rng.randint(0, 22)])
        if a is not None and b is not None and a > b and rng.random() < 0.85:
            a, b = b, a
        yield "locslice_divs", {"divs": divs, "a": a, "b": b}
    for _ in range(ctx.n(200, 2000)):
        divs = U.rand_divisions(rng, rng.randint(1, 6), 0, 20)
        n = len(divs) - 1
        sel = sorted(rng.sample(range(n), rng.randint(1, n)))
        yield "partitions_divs", {"divs": divs, "sel": sel}
    for _ in range(ctx.n(40, 600)):
        d1 = U.rand_divisions(rng, rng.randint(1, 4), 0, 12)
        gap = rng.choice([-3, -1, 0, 0, 1, 1, 2, 5])
        lo2 = max(0, d1[-1] + gap)
        d2 = U.rand_divisions(rng, rng.randint(1, 3), lo2, lo2 + 12)
        d2[0] = lo2 if d2[0] > lo2 and rng.random() < 0.7 else d2[0]
        d2 = sorted(d2)
        if len(set(d2[:-1])) != len(d2[:-1]):
            continue
        yield "concat_divs", {"d1": d1, "d2": d2, "k1": U.rand_truthful_parts(rng, d1, maxrows=3),
                              "k2": U.rand_truthful_parts(rng, d2, maxrows=3)}
    for _ in range(ctx.n(60, 1500)):
        ln = rng.randint(1, 14)
        hi = rng.choice([6, 12, 30])
        idx = rng.sample(range(hi + 1), min(ln, hi + 1)) if rng.random() < 0.5 else [rng.randint(0, hi) for _ in range(ln)]
        lo_b = min(idx) - rng.choice([0, 0, 1, 3]) if min(idx) >= 3 else min(idx) * (rng.random() < 0.7)
        hi_b = max(idx) + rng.choice([0, 0, 2, 6])
        inner = sorted(set(rng.randint(lo_b, hi_b + 2) for _ in range(rng.randint(0, 4))) - {lo_b})
        b = [lo_b] + [x for x in inner if x < hi_b] + [x for x in inner if x > hi_b][:1]
        b = sorted(set(b))
        b = b + [max(b[-1], hi_b) if b[-1] < hi_b else b[-1] + rng.choice([0, 3])]
        if rng.random() < 0.2:
            b.append(b[-1])
        if len(b) < 2 or b != sorted(b) or len(set(b[:-1])) != len(b[:-1]) or b[0] > min(idx) or b[-1] < max(idx):
            continue
        yield "pandas_divs", {"index": idx, "b": [int(x) for x in b]}
    for _ in range(ctx.n(25, 400)):
        src = _rand_source(rng)
        pls = []
        for _k in range(2):
            ops = []
            while len(ops) < rng.choice([1, 1, 2]):
                o = _rand_op(rng, False)
                if o[0] in JOINT_OPS:
                    ops.append(o)
            pls.append(ops)
        yield "joint", {"src": src, "pipelines": pls}
    for _ in range(ctx.n(200, 3300)):
        nops = rng.choice([0, 1, 1, 1, 2, 2, 3])
        src = _rand_source(rng)
        ops = [_rand_op(rng, i == 0) for i in range(nops)]
        if src["kind"] == "presorted_w" and rng.random() < 0.85:
            # the interesting path: set_index on the already ordered column (must shuffle iff a run of equal keys
            # crosses a partition boundary), then at most one more step that relies on the published divisions
            first = (["set_index_sorted"] if rng.random() < 0.3
                     else ["set_index", None] + ([rng.randint(1, 6)] if rng.random() < 0.35 else []))
            ops = [first] + [o for o in ops[:1] if o[0] in ("loc_slice", "loc_list", "loc_elem", "partitions", "repartition_n", "assign")]
        yield "pipeline", {"src": src, "ops": ops}
    # extension round (appended last so that the older streams keep their inputs)
    yield from _ll.generate(ctx)
