"""C43 extension round — Merge / Concat / Len in the proved step checker.

Model:    lean/DaskModel/Model/RelExpr2.lean (E2 over several sources, value algebra, schemas, check2)
Theorems: lean/DaskModel/Props/C43x.lean (rMergeL/R_sound, rConcatL/R/Drop_sound, lenCands_sound, schema2_sound,
          check2_sound, checkTrace2_sound, oldOK_sound)
Sections: `xtrace` — real `simplify_once` traces of programs with merge / concat / len: every consecutive pair of
          translatable expressions goes to the compiled checker (`optcheck2`); model denotation of the first and the
          last expression vs pandas (rows as a multiset) and vs the dask result; static schema vs `.columns`.
          `xfn` — function level: `Merge._simplify_up` / `Concat._simplify_up` / `Len._simplify_down` called directly,
          their column computations vs `projectSides` / `concatCols` / `lenDown`, and the side conditions of the
          proved schemas evaluated on the REAL projections (`mergeok`).
All dataframe access goes through core.import_dd() (via _dfrows_util).
"""
from __future__ import annotations

from sexp import Sym

from props import _dfrows_util as U

BINOPS = {"Add": "add", "Sub": "sub", "Mul": "mul", "LT": "lt", "LE": "le", "GT": "gt", "GE": "ge", "EQ": "eq", "NE": "ne",
          "And": "and", "Or": "or"}
FUEL = 14


class Unmodelled(Exception):
    pass


def _src_index(e, frames):
    data = e.operand("frame")
    data = getattr(data, "_data", data)
    for j, f in enumerate(frames):
        if data is f:
            return j
    raise Unmodelled("FromPandas of an unknown frame")


def to_model2(e, frames):
    """dask expression -> E2 s-expression; raises Unmodelled outside the fragment"""
    import numbers
    from dask._expr import Expr
    if not isinstance(e, Expr):
        if isinstance(e, bool):
            raise Unmodelled("bool literal")
        if isinstance(e, numbers.Integral):
            return [Sym("lit"), int(e)]
        raise Unmodelled("literal " + type(e).__name__)
    cls = type(e).__name__
    if cls == "FromPandas":
        if e.operand("_partitions") is not None:
            raise Unmodelled("FromPandas with selected partitions")
        src = [Sym("src"), _src_index(e, frames)]
        cols = e.operand("columns")
        if e.operand("_series"):
            return [Sym("col"), src, str(list(cols)[0] if isinstance(cols, (list, tuple)) else cols)]
        if cols is None:
            return src
        return [Sym("proj"), [str(c) for c in cols], src]
    if cls == "Literal":
        v = e.operand("value")
        if isinstance(v, bool) or not isinstance(v, numbers.Integral):
            raise Unmodelled("Literal " + type(v).__name__)
        return [Sym("lit"), int(v)]
    if cls == "Projection":
        c = e.operand("columns")
        if e.frame.ndim < 2:
            raise Unmodelled("projection of a series")
        f = to_model2(e.frame, frames)
        if isinstance(c, list):
            return [Sym("proj"), [str(x) for x in c], f]
        if isinstance(c, str):
            return [Sym("col"), f, c]
        raise Unmodelled("projection key " + type(c).__name__)
    if cls == "Filter":
        return [Sym("filter"), to_model2(e.frame, frames), to_model2(e.predicate, frames)]
    if cls == "Assign":
        out = to_model2(e.frame, frames)
        for k, v in zip(e.keys, e.vals):
            out = [Sym("assign"), out, str(k), to_model2(v, frames)]
        return out
    if cls in BINOPS:
        return [Sym("bin"), Sym(BINOPS[cls]), to_model2(e.left, frames), to_model2(e.right, frames)]
    if cls == "Invert":
        return [Sym("not"), to_model2(e.frame, frames)]
    if cls == "Index":
        return [Sym("index"), to_model2(e.frame, frames)]
    if cls == "Len":
        return [Sym("len"), to_model2(e.frame, frames)]
    if cls == "Merge":
        how = e.operand("how")
        lo, ro = e.operand("left_on"), e.operand("right_on")
        lo = [lo] if isinstance(lo, str) else lo
        ro = [ro] if isinstance(ro, str) else ro
        if how not in ("inner", "left") or lo is None or list(lo) != list(ro or []) or e.operand("left_index") or e.operand("right_index") \
                or tuple(e.operand("suffixes")) != ("_x", "_y") or e.operand("indicator"):
            raise Unmodelled("Merge variant")
        if e.left.ndim < 2 or e.right.ndim < 2:
            raise Unmodelled("Merge of a series")
        return [Sym("merge"), Sym(how), [str(k) for k in lo], to_model2(e.left, frames), to_model2(e.right, frames)]
    if cls == "Concat":
        if e.operand("axis") != 0 or e.operand("join") != "outer" or e.operand("_kwargs"):
            raise Unmodelled("Concat variant")
        fs = e._frames
        if len(fs) < 2 or any(f.ndim < 2 for f in fs):
            raise Unmodelled("Concat of series / single frame")
        out = to_model2(fs[0], frames)
        for f in fs[1:]:
            out = [Sym("concat"), out, to_model2(f, frames)]
        return out
    raise Unmodelled(cls)


def sexp_to_py(x):
    """decoded driver answer -> plain nested lists / str (for comparing E2 terms)"""
    if isinstance(x, list):
        return [sexp_to_py(y) for y in x]
    return str(x) if isinstance(x, Sym) else x


# ------------------------------------------------------------------------------------------------
# programs (JSON trees) built on pandas and on dask
# ------------------------------------------------------------------------------------------------

_OPS = {"add": lambda a, b: a + b, "sub": lambda a, b: a - b, "mul": lambda a, b: a * b, "lt": lambda a, b: a < b,
        "le": lambda a, b: a <= b, "gt": lambda a, b: a > b, "ge": lambda a, b: a >= b, "eq": lambda a, b: a == b,
        "ne": lambda a, b: a != b, "and": lambda a, b: a & b, "or": lambda a, b: a | b}


def s_expr(f, e):
    k = e[0]
    if k == "col":
        return f[e[1]]
    if k == "lit":
        return e[1]
    if k == "not":
        return ~s_expr(f, e[1])
    return _OPS[k](s_expr(f, e[1]), s_expr(f, e[2]))


def build(t, frames, dask):
    """program tree -> pandas object / dask collection (`len` gives an int / a dask Scalar)"""
    import pandas as pd
    k = t[0]
    if k == "src":
        return frames[t[1]]
    if k == "sel":
        return build(t[2], frames, dask)[list(t[1])]
    if k == "col":
        return build(t[2], frames, dask)[t[1]]
    if k == "filt":
        f = build(t[2], frames, dask)
        return f[s_expr(f, t[1])]
    if k == "assign":
        f = build(t[3], frames, dask)
        return f.assign(**{t[1]: s_expr(f, t[2])})
    if k == "merge":
        l, r = build(t[3], frames, dask), build(t[4], frames, dask)
        if dask:
            return l.merge(r, how=t[1], on=list(t[2]))
        return pd.merge(l, r, how=t[1], on=list(t[2]))
    if k == "concat":
        parts = [build(x, frames, dask) for x in t[1]]
        if dask:
            return U.dd().concat(parts)
        return pd.concat(parts)
    if k == "len":
        f = build(t[1], frames, dask)
        if dask:
            from dask.dataframe.dask_expr._collection import new_collection
            from dask.dataframe.dask_expr._reductions import Len
            return new_collection(Len(f.expr))
        return len(f)
    raise KeyError(k)


def mk_frames(inp):
    import pandas as pd
    out = []
    for s in inp["srcs"]:
        n = len(next(iter(s["cols"].values()))) if s["cols"] else 0
        data = {c: U.mk_series(v, "int64" if None not in v else "float64", index=list(range(n))) for c, v in s["cols"].items()}
        out.append(pd.DataFrame(data, index=list(range(n))))
    return out


def src_sexp(df):
    return [[str(c) for c in df.columns], [U.cells_to_sexp([U.cell_of(v) for v in r]) for r in df.itertuples(index=False, name=None)]]


def _canon_val(x):
    """pandas object -> comparable value: frames as (cols, sorted rows), series as sorted cells, scalars as ints"""
    import pandas as pd
    if isinstance(x, pd.DataFrame):
        return ["frame", [str(c) for c in x.columns], sorted(([U.cell_of(v) for v in r] for r in x.itertuples(index=False, name=None)), key=repr)]
    if isinstance(x, pd.Series):
        return ["series", sorted((U.cell_of(v) for v in x), key=repr)]
    return ["scalar", int(x)]


def _canon_model(v):
    v = sexp_to_py(v)
    cell = lambda c: None if (c is None or c == "none") else int(c)
    if v[0] == "frame":
        return ["frame", v[1], sorted(([cell(c) for c in r] for r in v[2]), key=repr)]
    if v[0] == "series":
        return ["series", sorted((cell(c) for c in v[1]), key=repr)]
    if v[0] == "scalar":
        return ["scalar", cell(v[1])]
    return v


def record_simplify(expr):
    """the `simplify_once` rounds of the first simplify phase (the logical rewrite rules)"""
    from dask._expr import collect_dependents
    trace = [expr]
    seen = set()
    e = expr
    while True:
        new = e.simplify_once(dependents=collect_dependents(e), simplified={})
        if not hasattr(new, "_name") or new._name == e._name:
            return trace
        if new._name in seen:
            raise RuntimeError("Optimizer does not converge")
        seen.add(new._name)
        e = new
        trace.append(e)


def _bool_cols_to_int(x):
    import pandas as pd
    if isinstance(x, pd.DataFrame):
        return x.astype({c: "int64" for c in x.columns if str(x[c].dtype) == "bool"})
    if isinstance(x, pd.Series) and str(x.dtype) == "bool":
        return x.astype("int64")
    return x


def case_xtrace(ctx, inp):
    import pandas as pd
    frames = mk_frames(inp)
    try:
        expected = build(inp["prog"], frames, False)
    except Exception as e:
        ctx.note("pandas_rejected:" + type(e).__name__)
        return
    dd = U.dd()
    dframes = [dd.from_pandas(f, npartitions=max(1, s.get("nparts", 1)), sort=False) for f, s in zip(frames, inp["srcs"])]
    # the translator recognises a source by the identity of the pandas object held by FromPandas
    held = []
    for d in dframes:
        data = d.expr.operand("frame")
        held.append(getattr(data, "_data", data))
    try:
        coll = build(inp["prog"], dframes, True)
    except Exception as e:
        ctx.fail(f"building the program raised {type(e).__name__}", observed=f"{type(e).__name__}: {e}"[:300])
        return
    try:
        trace = record_simplify(coll.expr)
    except RuntimeError as e:
        ctx.fail("optimizer does not converge", observed=str(e)[:300])
        return
    except Exception as e:
        ctx.fail(f"simplify_once raised {type(e).__name__} on a well-formed program", observed=f"{type(e).__name__}: {e}"[:300])
        return
    sc = [[str(c) for c in f.columns] for f in frames]
    sl = [len(f) for f in frames]
    models = []
    for e in trace:
        try:
            models.append(to_model2(e, held))
        except Unmodelled as u:
            models.append(None)
            ctx.note("xunmodelled:" + str(u))
        except Exception as ex:        # e.g. KeyError from `.columns` of an expression the optimizer broke
            ctx.fail(f"an expression of the simplify trace cannot be inspected ({type(ex).__name__})", observed=f"{type(ex).__name__}: {ex}"[:300])
            return
    core = inp.get("klass") == "core"
    # (1) consecutive translatable pairs -> the proved checker
    for i in range(len(trace) - 1):
        a, b = models[i], models[i + 1]
        ctx.note("xsteps-total")
        if a is None or b is None:
            ctx.note("xsteps-outside-subset")
            continue
        if a == b:
            ctx.note("xsteps-identical-after-translation")     # e.g. FromPandas absorbing a projection: same model term
            continue
        v = str(ctx.lean(Sym("optcheck2"), Sym("old"), sc, sl, FUEL, [a, b])[0])
        v0 = str(ctx.lean(Sym("optcheck2"), Sym("noleaf"), sc, sl, FUEL, [a, b])[0])
        ctx.note("xsteps-" + ("accepted" if v == "ok" else "rejected"))
        if v == "ok" and v0 != "ok":
            ctx.note("xsteps-accepted-needing-old-checker")
        if v == "ok":
            ctx.branch("xtrace-accepted-step")
            ctx.branch("xtrace-accepted:" + inp.get("shape", "?"))
        elif core:
            ctx.disagree("a simplify_once step of a core merge/concat/len program is not accepted by the checker (%s)" % inp.get("shape"),
                         "ok", [sexp_to_py(a), sexp_to_py(b)])
        else:
            ctx.note("xrejected:" + inp.get("shape", "?"))
    # (2) model denotation of the first / last translatable expression vs pandas (rows as a multiset)
    srcs = [src_sexp(f) for f in frames]
    numeric = (not isinstance(expected, (pd.DataFrame, pd.Series))) or \
        all(str(t) in ("int64", "float64", "bool") for t in (expected.dtypes if isinstance(expected, pd.DataFrame) else [expected.dtype]))
    if numeric:
        want = _canon_val(_bool_cols_to_int(expected))
        for which in (0, -1):
            m = models[which]
            if m is None:
                continue
            got = _canon_model(ctx.lean(Sym("opteval2"), srcs, m))
            ctx.eq("den2 vs pandas (%s expression, %s)" % ("first" if which == 0 else "last", inp.get("shape")), got, want)
        # (3) static schema vs the real `.columns`
        for which in (0, -1):
            m, e = models[which], trace[which]
            if m is None:
                continue
            try:
                if getattr(e, "ndim", 0) != 2:
                    continue
                real_cols = [str(c) for c in e.columns]
            except Exception as ex:
                ctx.fail(f"`.columns` of a trace expression raised {type(ex).__name__}", observed=f"{type(ex).__name__}: {ex}"[:300])
                return
            got = sexp_to_py(ctx.lean(Sym("schema2"), sc, m))
            ctx.eq("schema2 vs .columns", got, real_cols)
    # (4) the real result (optimised) vs pandas
    try:
        got = coll.compute(scheduler="sync")
    except Exception as e:
        ctx.fail(f"optimised computation raised {type(e).__name__}", observed=f"{type(e).__name__}: {e}"[:300])
        return
    if _canon_val(_bool_cols_to_int(got)) != _canon_val(_bool_cols_to_int(expected)):
        ctx.fail("optimised result differs from pandas (rows as a multiset)", observed=str(_canon_val(got))[:300],
                 expected=str(_canon_val(expected))[:300])
        return
    ctx.branch("xtrace-" + inp.get("shape", "?"))


# ------------------------------------------------------------------------------------------------
# function level
# ------------------------------------------------------------------------------------------------

def case_xfn(ctx, inp):
    from dask._expr import collect_dependents
    frames = mk_frames(inp)
    dd = U.dd()
    dframes = [dd.from_pandas(f, npartitions=1, sort=False) for f in frames]
    held = []
    for d in dframes:
        data = d.expr.operand("frame")
        held.append(getattr(data, "_data", data))
    kind = inp["kind"]
    if kind == "merge":
        l, r = dframes[0], dframes[1]
        m = l.merge(r, how=inp["how"], on=list(inp["on"]))
        cs = list(inp["cs"])
        parent = m[cs] if not inp.get("scalar") else m[cs[0]]
        deps = collect_dependents(parent.expr)
        out = m.expr._simplify_up(parent.expr, deps)
        cl, cr = [str(c) for c in l.columns], [str(c) for c in r.columns]
        model = sexp_to_py(ctx.lean(Sym("mergeproj"), list(inp["on"]), cl, cr, cs if not inp.get("scalar") else cs[:1]))
        if out is None:
            # the rule fires only when a side really loses a column
            ctx.eq("Merge._simplify_up does nothing <-> projectSides keeps both sides", [set(model[0]) == set(cl), set(model[1]) == set(cr)], [True, True])
            ctx.branch("xfn-merge-noop")
            return
        mm = out.frame if type(out).__name__ == "Projection" else out
        if type(mm).__name__ != "Merge":
            ctx.disagree("Merge._simplify_up result shape", "Projection(Merge)", type(out).__name__)
            return
        pl, pr = [str(c) for c in mm.left.columns], [str(c) for c in mm.right.columns]
        ctx.eq("project_left / project_right", model, [pl, pr])
        ok = sexp_to_py(ctx.lean(Sym("mergeok"), list(inp["on"]), cs if not inp.get("scalar") else cs[:1], cl, cr, pl, pr))
        ctx.eq("side conditions of rMergeL / rMergeR hold for the real projections", [str(x).lower() for x in ok], ["true", "true"])
        ctx.branch("xfn-merge-pushed")
        if any(c.endswith("_x") or c.endswith("_y") for c in cs):
            ctx.branch("xfn-merge-suffixed-column")
        if len(pr) > len([c for c in cr if c in inp["on"] or c in cs or c + "_y" in cs]):
            ctx.branch("xfn-merge-kept-for-suffix")
        return
    if kind == "concat":
        c = dd.concat(dframes)
        cs = list(inp["cs"])
        parent = c[cs] if not inp.get("scalar") else c[cs[0]]
        out = c.expr._simplify_up(parent.expr, collect_dependents(parent.expr))
        want = [sexp_to_py(ctx.lean(Sym("concatcols"), [str(x) for x in f.columns], cs if not inp.get("scalar") else cs[:1])) for f in frames]
        if out is None:
            same = all(w == [str(x) for x in f.columns] for w, f in zip(want, frames))
            empty = any(len(w) == 0 for w in want)
            ctx.eq("Concat._simplify_up does nothing <-> nothing to drop, or a frame would lose every column", same or empty, True)
            ctx.branch("xfn-concat-noop" + ("-empty-frame" if empty and not same else ""))
            return
        cc = out
        while type(cc).__name__ in ("Projection", "ToFrame"):
            cc = cc.frame
        if type(cc).__name__ != "Concat":
            ctx.disagree("Concat._simplify_up result shape", "Concat", type(cc).__name__)
            return
        ctx.eq("columns_frame", want, [[str(x) for x in f.columns] for f in cc._frames])
        ctx.branch("xfn-concat-pushed")
        if type(out).__name__ == "Concat":
            ctx.branch("xfn-concat-projection-dropped")
        return
    if kind == "len":
        from dask.dataframe.dask_expr._reductions import Len
        x = build(inp["prog"], dframes, True)
        e = Len(x.expr)
        out = e._simplify_down()
        try:
            a = to_model2(e, held)
        except Unmodelled as u:
            ctx.note("xunmodelled:" + str(u))
            return
        model = sexp_to_py(ctx.lean(Sym("lendown"), a))
        if out is None or out is e or (hasattr(out, "_name") and out._name == e._name):
            ctx.eq("Len._simplify_down returns None", "none" if model is None else model, "none")
            ctx.branch("xfn-len-none")
            return
        try:
            got = sexp_to_py(to_model2(out, held))
        except Unmodelled as u:
            ctx.note("xunmodelled:" + str(u))
            return
        ctx.eq("Len._simplify_down", model, got)
        ctx.branch("xfn-len-" + inp.get("shape", "?"))
        return
    raise KeyError(kind)


# ------------------------------------------------------------------------------------------------
# generators
# ------------------------------------------------------------------------------------------------

_POOLS = [["k", "a", "b", "c"], ["k", "x", "y", "b"], ["k", "a", "x", "z"]]


def gen_srcs(rng, nsrc):
    srcs = []
    for j in range(nsrc):
        n = rng.randint(0, 7)
        pool = _POOLS[j % 3]
        cols = ["k"] + [c for c in pool[1:] if rng.random() < 0.8]
        if len(cols) < 2:
            cols.append(pool[1])
        if rng.random() < 0.3:
            rng.shuffle(cols)
        data = {}
        for c in cols:
            if c == "k":
                data[c] = [rng.randint(0, 3) for _ in range(n)]
            else:
                fl = rng.random() < 0.3
                data[c] = [None if (fl and rng.random() < 0.25) else rng.randint(-2, 5) for _ in range(n)]
        srcs.append({"cols": data, "nparts": rng.randint(1, 3)})
    return srcs


def merged_cols(on, cl, cr):
    out = [c + "_x" if (c not in on and c in cr) else c for c in cl]
    out += [c + "_y" if c in cl else c for c in cr if c not in on]
    return out


def union_cols(cols_list):
    out = []
    for cs in cols_list:
        out += [c for c in cs if c not in out]
    return out


def _cols_of(t, srcs):
    k = t[0]
    if k == "src":
        return list(srcs[t[1]]["cols"].keys())
    if k == "sel":
        return list(t[1])
    if k == "filt":
        return _cols_of(t[2], srcs)
    if k == "assign":
        c = _cols_of(t[3], srcs)
        return c if t[1] in c else c + [t[1]]
    if k == "merge":
        return merged_cols(t[2], _cols_of(t[3], srcs), _cols_of(t[4], srcs))
    if k == "concat":
        return union_cols([_cols_of(x, srcs) for x in t[1]])
    raise KeyError(k)


def _pick(rng, cols, lo=1):
    k = rng.randint(lo, max(lo, len(cols)))
    sel = rng.sample(cols, min(k, len(cols)))
    if rng.random() < 0.6:
        sel = [c for c in cols if c in sel]      # keep the frame's order
    return sel


def _leaf(rng, j, srcs, rich):
    """a merge / concat operand: a source, optionally projected / filtered / assigned (single-source old fragment)"""
    t = ["src", j]
    cols = _cols_of(t, srcs)
    r = rng.random()
    if rich and r < 0.35:
        c = rng.choice([x for x in cols if x != "k"] or cols)
        t = ["filt", [rng.choice(["gt", "le", "ne"]), ["col", c], ["lit", rng.randint(-1, 3)]], t]
    elif rich and r < 0.5:
        c = rng.choice(cols)
        t = ["assign", rng.choice(["w", c if c != "k" else "w"]), ["add", ["col", c], ["lit", 1]], t]
    if rng.random() < 0.3:
        keep = [c for c in _cols_of(t, srcs) if c == "k" or rng.random() < 0.7]
        if len(keep) >= 2:
            t = ["sel", keep, t]
    return t


def gen_xprog(rng):
    nsrc = rng.randint(2, 3)
    srcs = gen_srcs(rng, nsrc)
    shape = rng.choice(["proj-merge", "proj-merge", "col-merge", "proj-concat", "proj-concat", "col-concat", "len-concat",
                        "len-elemwise", "len-merge", "proj-merge-merge", "proj-concat-merge", "len-proj-concat",
                        "rich-proj-merge", "rich-proj-concat", "rich-len-concat", "len-filter",
                        "filter-after-merge", "assign-after-merge", "proj-proj-merge"])
    rich = shape.startswith("rich")
    how = rng.choice(["inner", "left"])
    klass = "core"

    def merge2(i, j):
        return ["merge", how, ["k"], _leaf(rng, i, srcs, rich), _leaf(rng, j, srcs, rich)]

    def concat_all():
        js = list(range(nsrc)) if rng.random() < 0.6 else [0, 1]
        return ["concat", [_leaf(rng, j, srcs, rich) for j in js]]
    if shape in ("proj-merge", "rich-proj-merge"):
        m = merge2(0, 1)
        prog = ["sel", _pick(rng, _cols_of(m, srcs)), m]
    elif shape == "col-merge":
        m = merge2(0, 1)
        prog = ["col", rng.choice(_cols_of(m, srcs)), m]
    elif shape in ("proj-concat", "rich-proj-concat"):
        c = concat_all()
        prog = ["sel", _pick(rng, _cols_of(c, srcs)), c]
    elif shape == "col-concat":
        c = concat_all()
        prog = ["col", rng.choice(_cols_of(c, srcs)), c]
    elif shape in ("len-concat", "rich-len-concat"):
        prog = ["len", concat_all()]
    elif shape == "len-proj-concat":
        c = concat_all()
        prog = ["len", ["sel", _pick(rng, _cols_of(c, srcs)), c]]
    elif shape == "len-elemwise":
        t = ["src", 0]
        cols = _cols_of(t, srcs)
        t = ["assign", "w", ["mul", ["col", rng.choice(cols)], ["lit", 2]], t]
        if rng.random() < 0.6:
            t = ["sel", _pick(rng, _cols_of(t, srcs)), t]
        if rng.random() < 0.3:
            t = ["col", rng.choice(_cols_of(t, srcs)), t]
        prog = ["len", t]
    elif shape == "len-merge":
        prog = ["len", merge2(0, 1)]
    elif shape == "len-filter":
        t = ["src", 0]
        c = rng.choice(_cols_of(t, srcs))
        prog = ["len", ["filt", ["gt", ["col", c], ["lit", rng.randint(-1, 2)]], t]]
    elif shape == "proj-merge-merge":
        m = ["merge", how, ["k"], merge2(0, 1), _leaf(rng, (2 if nsrc > 2 else 0), srcs, False)]
        prog = ["sel", _pick(rng, _cols_of(m, srcs)), m]
    elif shape == "proj-concat-merge":
        c = ["concat", [merge2(0, 1), _leaf(rng, nsrc - 1, srcs, False)]]
        prog = ["sel", _pick(rng, _cols_of(c, srcs)), c]
    elif shape == "filter-after-merge":
        klass = "extended"
        m = merge2(0, 1)
        cols = _cols_of(m, srcs)
        c = rng.choice(cols)
        f = ["filt", ["gt", ["col", c], ["lit", rng.randint(-1, 2)]], m]
        prog = ["sel", _pick(rng, cols), f]
    elif shape == "assign-after-merge":
        klass = "extended"
        m = merge2(0, 1)
        cols = _cols_of(m, srcs)
        a = ["assign", "w", ["add", ["col", rng.choice(cols)], ["lit", 1]], m]
        prog = ["sel", _pick(rng, _cols_of(a, srcs)), a]
    else:   # proj-proj-merge
        klass = "extended"
        m = merge2(0, 1)
        c1 = _pick(rng, _cols_of(m, srcs), lo=2)
        prog = ["sel", _pick(rng, c1), ["sel", c1, m]]
    if rich:
        klass = "core"
    return {"srcs": srcs, "prog": prog, "shape": shape, "klass": klass}


def gen_xfn(rng):
    kind = rng.choice(["merge", "merge", "concat", "len"])
    if kind == "merge":
        srcs = gen_srcs(rng, 2)
        cl, cr = list(srcs[0]["cols"]), list(srcs[1]["cols"])
        cols = merged_cols(["k"], cl, cr)
        scalar = rng.random() < 0.2
        return {"kind": kind, "srcs": srcs, "how": rng.choice(["inner", "left"]), "on": ["k"], "cs": _pick(rng, cols), "scalar": scalar}
    if kind == "concat":
        srcs = gen_srcs(rng, rng.randint(2, 3))
        cols = union_cols([list(s["cols"]) for s in srcs])
        return {"kind": kind, "srcs": srcs, "cs": _pick(rng, cols), "scalar": rng.random() < 0.2}
    srcs = gen_srcs(rng, 3)
    shape = rng.choice(["concat2", "concat3", "proj", "assign", "col", "binop", "src", "filter", "merge", "proj-concat", "filter-series"])
    t0 = ["src", 0]
    c0 = _cols_of(t0, srcs)
    prog = {"concat2": ["concat", [["src", 0], ["src", 1]]], "concat3": ["concat", [["src", 0], ["src", 1], ["src", 2]]],
            "proj": ["sel", _pick(rng, c0), t0], "assign": ["assign", "w", ["add", ["col", c0[0]], ["lit", 1]], t0],
            "col": ["col", rng.choice(c0), t0], "src": t0,
            "binop": ["col", "w", ["assign", "w", ["add", ["col", c0[0]], ["col", c0[-1]]], t0]],
            "filter": ["filt", ["gt", ["col", c0[0]], ["lit", 0]], t0],
            "filter-series": ["col", c0[0], ["filt", ["gt", ["col", c0[0]], ["lit", 0]], t0]],
            "merge": ["merge", "inner", ["k"], ["src", 0], ["src", 1]],
            "proj-concat": ["sel", ["k"], ["concat", [["src", 0], ["src", 1]]]]}[shape]
    return {"kind": kind, "srcs": srcs, "prog": prog, "shape": shape}


CASES = {"xtrace": case_xtrace, "xfn": case_xfn}


def generate(ctx):
    rng = ctx.rng
    for _ in range(ctx.n(110, 1500)):
        yield "xfn", gen_xfn(rng)
    for _ in range(ctx.n(100, 1200)):
        yield "xtrace", gen_xprog(rng)
