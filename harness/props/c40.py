"""C40 — sorting, shuffling and de-duplication keep exactly the right rows.

Model:    lean/DaskModel/Model/Shuffle.lean (digit/insert/inputs arithmetic of the staged task shuffle,
          shuffle_group's stage index, SimpleShuffle / TaskShuffle wiring evaluated on rows, set_partitions_pre)
Theorems: lean/DaskModel/Props/C40.lean
Tie:      function level: shuffle_group (both branches), TaskShuffle._layer wiring + stage/nsplits float glue,
          set_partitions_pre; API level: shuffle (tasks/disk, max_branch forcing several stages, npartitions
          in/out), sort_values, set_index, drop_duplicates/unique/nunique vs the model and pandas.
"""
from __future__ import annotations

import math

from sexp import Sym

from props import _dfpart_util as U

PROP = "C40"
READY = True
DRIVER = "dm_dfpart"
LEAN_MODULES = ["DaskModel.Props.C40"]
CASE_TIMEOUT_S = 90
LEVEL_TEXT = ("Lean 4 theorems over a transliteration of the task shuffles: staged_route / staged_position (for every "
              "starting partition, after all stages a row sits in staged partition target % npartitions_input, given "
              "nsplits**stages >= npartitions_input), task_shuffle_sound (frame level: every row found in output partition p of "
              "the whole staged shuffle - all stages, padding, optional final resize - has target p), task_shuffle_complete (unchanged partition count: every input row is found in the output "
              "partition named by its target - no row lost), task_shuffle_colocated, staged_colocated, stageIndex_is_digit / stageIndex_hashing "
              "(shuffle_group's digit arithmetic), simple_shuffle_exact (SimpleShuffle output p = the rows with target % n = p, "
              "in input order, with multiplicity) and simple_shuffle_colocated, set_partitions_pre_spec (value inside "
              "[d0, d_last) goes to the partition whose half-open interval contains it, out-of-range values to the nearest "
              "end) — all inputs, no size bound. Multiplicity of the STAGED shuffle at frame level (no row duplicated; completeness when the partition count changes), sort_values / "
              "set_index global order, drop_duplicates / unique / nunique and the disk shuffle are VALIDATED: the Lean "
              "frame-level model (taskShuffle: stages, padding, final shuffle_group_2) is diffed row-for-row and in order "
              "against real task shuffles with max_branch 2-3, npartitions in/out 1-14, int/str/float/categorical keys with "
              "NA; sort/set_index/dedup against pandas.")
LEVEL_NOTE = ("Trusted: Lean kernel + standard axioms; pandas hash_object as a function of the key cells (checked: equal keys "
              "colocate); the float glue stages/nsplits (checked against nsplits**stages >= npartitions); partd for the disk "
              "shuffle (order not preserved: known finding for drop_duplicates keep=first/last); null strings in sort keys "
              "are rejected by dask and not generated; object-dtype strings do not work in this sandbox.")
TECHNIQUE = "Lean 4 proof (digit arithmetic, list induction) over an executable transliteration + differential correspondence + property oracle on the real code"
ASSUMPTIONS = ["hash_object_dispatch is a function of the row's key cells (equal keys => equal hashes): checked per case",
               "stages/nsplits computed with math.log / ** (1/stages) satisfy nsplits**stages >= npartitions_input "
               "(checked for every generated (npartitions, max_branch) and exhaustively npartitions <= 400 x max_branch <= 32 in thorough)"]


def _stage_params(n_in, n_out_parts, max_branch):
    """copy of the float glue at the top of TaskShuffle._layer: None = not staged"""
    max_branch = max_branch or 32
    if n_out_parts <= max_branch or n_in <= max_branch:
        return None
    stages = int(math.ceil(math.log(n_in) / math.log(max_branch)))
    nsplits = int(math.ceil(n_in ** (1 / stages))) if stages > 1 else n_in
    return nsplits, stages


def case_shuffle_group(ctx, inp):
    """function level: shuffle_group's pieces (which rows, in which order) for both index branches"""
    import numpy as np
    import pandas as pd
    U.dd()
    from dask.dataframe.shuffle import shuffle_group
    from dask.dataframe.dispatch import hash_object_dispatch
    vals, stage, k, npart, nfinal, hashing = inp["vals"], inp["stage"], inp["k"], inp["npartitions"], inp["nfinal"], inp["hashing"]
    if hashing:
        df = pd.DataFrame({"key": vals, "v": range(len(vals))})
        inds = [int(x) for x in hash_object_dispatch(df[["key"]], index=False)]
        out = shuffle_group(df, ["key"], stage, k, npart, False, nfinal)
        ctx.branch("shuffle_group-hash" + ("-nfinal" if nfinal and nfinal != npart else ""))
    else:
        df = pd.DataFrame({"_partitions": np.array(vals, dtype="int64"), "v": range(len(vals))})
        inds = vals
        out = shuffle_group(df, "_partitions", stage, k, npart, False, nfinal)
        ctx.branch("shuffle_group-partitions" + (f"-stage{min(stage, 2)}"))
    model = ctx.lean(Sym("stage-index"), inds, stage, k, npart, nfinal, hashing)
    exp = {}
    for rid, j in enumerate(model):
        exp.setdefault(j, []).append(rid)
    got = {int(j): [int(v) for v in piece.v] for j, piece in out.items() if len(piece)}
    ctx.eq("shuffle_group pieces", exp, got)
    if sorted(v for p in got.values() for v in p) != list(range(len(vals))):
        ctx.fail("shuffle_group loses or duplicates rows", observed=got)
    if any(j >= k for j in got):
        ctx.fail("shuffle_group produced a piece index >= k", observed=sorted(got))


def _canon_task_layer(expr):
    """per stage: {position: (piece index, [source tuples])} read off the graph keys"""
    L = expr._layer()
    stages = {}
    for key, task in L.items():
        if isinstance(key, tuple) and len(key) == 2 and isinstance(key[0], str) and not key[0].startswith(("group-", "split-", "repartition-group-")):
            # (name, global_part) -> (_concat, [(split_name, idx, inp), ...], ignore_index)
            if not (isinstance(task, tuple) and len(task) == 3 and isinstance(task[1], list)):
                continue
            name = key[0]
            idxs = {t[1] for t in task[1]}
            assert len(idxs) == 1
            stages.setdefault(name, {})[int(key[1])] = [idxs.pop(), [list(t[2]) if isinstance(t[2], tuple) else t[2] for t in task[1]]]
    return stages


def case_task_layer(ctx, inp):
    """function level: number of stages / splits and the complete wiring of TaskShuffle._layer"""
    import pandas as pd
    dd = U.dd()
    from dask.dataframe.dask_expr._shuffle import TaskShuffle
    n_in, n_out, mb = inp["n_in"], inp["n_out"], inp["max_branch"]
    frame = dd.from_pandas(pd.DataFrame({"_partitions": [0] * n_in, "v": range(n_in)}), npartitions=n_in)
    assert frame.npartitions == n_in
    e = TaskShuffle(frame.expr, "_partitions", n_out, False, {"max_branch": mb})
    params = _stage_params(n_in, n_out, mb)
    stages = _canon_task_layer(e)
    if params is None:
        ctx.branch("layer-simple")
        # SimpleShuffle: one concat per output over all inputs
        name = e._name
        got = stages.get(name, {})
        ctx.eq("SimpleShuffle wiring", {p: [p, list(range(n_in))] for p in range(n_out)},
               {p: [v[0], v[1]] for p, v in got.items()})
        return
    k, S = params
    if k ** S < n_in:
        ctx.fail("nsplits ** stages < npartitions_input: some input partitions have no position", observed=[k, S, n_in])
    ctx.branch(f"layer-staged-{min(S, 4)}")
    if len(stages) != S:
        ctx.disagree("number of stages", S, len(stages))
        return
    # order the stage names: stage-0-…, stage-1-…, last one may be the expression's own name
    def order(nm):
        return int(nm.split("-")[1]) if nm.startswith("stage-") else S - 1
    for nm in sorted(stages, key=order):
        s = order(nm)
        model = ctx.lean(Sym("layer-wiring"), k, S, s)
        got = stages[nm]
        exp = {p: model[p] for p in got}          # last stage may only contain the requested outputs
        ctx.eq(f"TaskShuffle wiring stage {s}", exp, got)
        if s < S - 1 or n_out != n_in:
            if sorted(got) != list(range(k ** S)):
                ctx.disagree(f"stage {s} positions", list(range(k ** S)), sorted(got))


def _flat(srcs):
    return [s[0] if isinstance(s, list) and len(s) == 1 else s for s in srcs]


def case_spp(ctx, inp):
    """function level: set_partitions_pre"""
    import numpy as np
    import pandas as pd
    U.dd()
    from dask.dataframe.shuffle import set_partitions_pre
    divs, xs, asc, nal = inp["divs"], inp["xs"], inp["ascending"], inp["na_last"]
    s = pd.Series([np.nan if x is None else float(x) for x in xs])
    d = pd.Series([float(x) for x in divs])
    got = [int(v) for v in set_partitions_pre(s, d, ascending=asc, na_position="last" if nal else "first")]
    model = ctx.lean(Sym("set-partitions-pre"), divs, [Sym("none") if x is None else x for x in xs], asc, nal)
    ctx.eq("set_partitions_pre", model, got)
    n = len(divs)
    for x, p in zip(xs, got):
        if not (0 <= p <= n - 2):
            ctx.fail("set_partitions_pre: partition out of range", observed=[x, p])
        elif x is not None and asc:
            lo, hi = divs[p], divs[p + 1]
            inside = divs[0] <= x < divs[-1]
            if inside and not (lo <= x < hi):
                ctx.fail("set_partitions_pre: value not inside its partition's division interval", observed=[x, p, divs])
            if x >= divs[-1] and p != n - 2:
                ctx.fail("set_partitions_pre: value above the range not in the last partition", observed=[x, p, divs])
            if x < divs[0] and p != 0:
                ctx.fail("set_partitions_pre: value below the range not in the first partition", observed=[x, p, divs])
    ctx.branch("spp-" + ("asc" if asc else "desc") + ("-na" if any(x is None for x in xs) else ""))


def _expected_targets(df, cols, n_out):
    """the `_partitions` column AssignPartitioningIndex computes for every row of the whole frame"""
    from dask.dataframe.dask_expr._shuffle import AssignPartitioningIndex
    out = AssignPartitioningIndex.operation(df, cols, "_partitions", n_out, df.iloc[:0], False)
    return [int(x) for x in out["_partitions"]]


def _mk_keyframe(inp):
    import numpy as np
    import pandas as pd
    kind = inp["kind"]
    ks = inp["keys"]
    conv = {"int": lambda v: v, "str": lambda v: None if v is None else "s%d" % v,
            "float": lambda v: np.nan if v is None else v * 0.5, "cat": lambda v: "c%d" % v}[kind]
    col = [conv(k) for k in ks]
    df = pd.DataFrame({"k": col, "k2": [(k or 0) % 2 for k in ks], "k3": [(7 * i + 3) % 5 for i in range(len(ks))],
                       "v": range(len(ks))})
    if kind == "cat":
        df["k"] = df["k"].astype("category")
    # (object-dtype strings are not generated: dask's meta inference for `min` on an object column fails in this
    #  sandbox even on the pinned tests (test_set_index_string[object]); pandas' default `str` dtype is used)
    return df


def case_shuffle_api(ctx, inp):
    """API level: d.shuffle(on, npartitions, shuffle_method, max_branch)"""
    import dask
    dd = U.dd()
    df = _mk_keyframe(inp)
    n_in, n_out, method, mb, cols = inp["n_in"], inp["n_out"], inp["method"], inp["max_branch"], inp["on"]
    d = dd.from_pandas(df, npartitions=n_in, sort=False)
    n_in = d.npartitions
    kw = {"shuffle_method": method}
    if n_out is not None:
        kw["npartitions"] = n_out
    if mb is not None:
        kw["max_branch"] = mb
    nout = n_out or n_in
    try:
        with dask.config.set(scheduler="sync"):
            r = d.shuffle(on=cols, **kw)
            parts = U.partitions(r)
    except Exception as e:  # noqa: BLE001
        ctx.fail("shuffle raised: " + U.exc_name(e), observed=U.exc_name(e))
        return
    ids = [[int(v) for v in p.v] for p in parts]
    flat = sorted(v for p in ids for v in p)
    if flat != list(range(len(df))):
        ctx.fail("shuffle does not preserve the multiset of rows", observed=ids)
    if len(parts) != nout:
        ctx.fail("shuffle: wrong number of output partitions", observed=len(parts), expected=nout)
    where = {}
    for pi, p in enumerate(parts):
        for key in map(tuple, p[cols].astype(object).where(p[cols].notna(), None).itertuples(index=False)):
            where.setdefault(key, set()).add(pi)
    split = {k: sorted(v) for k, v in where.items() if len(v) > 1}
    if split:
        ctx.fail("rows with equal key values ended in different partitions", observed={repr(k): v for k, v in split.items()})
    # expected routing: partition = `_partitions` value; exact order for the task shuffle
    targets = _expected_targets(df, cols, nout)
    lens = [len(p) for p in U.partitions(d)]
    src, pos = [], 0
    for ln in lens:
        src.append(targets[pos:pos + ln])
        pos += ln
    params = _stage_params(n_in, nout, mb)
    if params is None:
        model = ctx.lean(Sym("simple-shuffle"), src, nout)
        ctx.branch(f"api-{method}-simple")
    else:
        model = ctx.lean(Sym("task-shuffle"), src, nout, params[0], params[1])
        ctx.branch(f"api-{method}-staged{min(params[1], 4)}" + ("-resize" if nout != n_in else ""))
    if method == "tasks":
        ctx.eq("task shuffle partitions (rows and order)", model, ids)
    else:
        ctx.eq("disk shuffle partitions (rows)", [sorted(p) for p in model], [sorted(p) for p in ids])
    ctx.branch("keys-" + inp["kind"] + ("-na" if any(k is None for k in inp["keys"]) else ""))


def _same_rows(got, exp):
    import pandas as pd
    g = got.reset_index(drop=True)
    e = exp.reset_index(drop=True)
    try:
        pd.testing.assert_frame_equal(g, e, check_dtype=False, check_categorical=False)
        return True
    except AssertionError:
        return False


def case_sort_api(ctx, inp):
    """API level: sort_values / set_index are globally ordered and a permutation of the input (equal to pandas
    where keys are distinct or as sorted multisets)"""
    import dask
    import pandas as pd
    dd = U.dd()
    df = _mk_keyframe(inp)
    d = dd.from_pandas(df, npartitions=inp["n_in"], sort=False)
    op = inp["op"]
    kw = {}
    if inp.get("method"):
        kw["shuffle_method"] = inp["method"]
    try:
        with dask.config.set(scheduler="sync"):
            if op == "sort_values":
                by = inp.get("by") or ["k"]
                r = d.sort_values(by if len(by) > 1 else by[0], ascending=inp["ascending"], na_position=inp["na_position"],
                                  npartitions=inp.get("n_out") or None, **kw)
                parts = U.partitions(r)      # the REAL partitions (a bare compute() may re-sort everything)
                got = pd.concat(parts) if parts else df.iloc[:0]
                exp = df.sort_values(by, ascending=inp["ascending"], na_position=inp["na_position"], kind="stable")

                def keyrows(f):
                    return [tuple(None if (isinstance(x, float) and x != x) else x for x in t)
                            for t in f[by].astype(object).where(f[by].notna(), None).itertuples(index=False)]
                keys_got, keys_exp = keyrows(got), keyrows(exp)
                if keys_got != keys_exp:
                    ctx.fail("sort_values is not globally ordered like pandas", observed=keys_got[:30], expected=keys_exp[:30])
                if sorted(got.v) != list(range(len(df))):
                    ctx.fail("sort_values does not keep exactly the input rows", observed=sorted(got.v)[:30])
                ctx.branch("sort_values-" + ("asc" if inp["ascending"] else "desc") + "-" + inp["na_position"]
                           + ("-multikey" if len(by) > 1 else "") + ("-presorted" if inp.get("presorted") else ""))
            else:
                sub = df[df.k.notna()] if inp["kind"] in ("float", "str") else df
                d2 = dd.from_pandas(sub, npartitions=inp["n_in"], sort=False) if len(sub) else None
                if d2 is None:
                    return
                kw2 = dict(kw)
                if inp.get("n_out"):
                    kw2["npartitions"] = inp["n_out"]
                r = d2.set_index("k", **kw2)
                divs = list(r.divisions)
                parts = U.partitions(r)
                got = pd.concat(parts)
                exp = sub.set_index("k").sort_index(kind="stable")
                if list(got.index) != list(exp.index):
                    ctx.fail("set_index is not globally ordered like pandas", observed=list(got.index)[:30], expected=list(exp.index)[:30])
                if sorted(got.v) != sorted(sub.v):
                    ctx.fail("set_index does not keep exactly the input rows", observed=sorted(got.v)[:30])
                if divs[0] is not None:
                    why = U.truthful(divs, parts)
                    if why:
                        ctx.fail("set_index result not truthful: " + why, observed=[divs, [list(p.index) for p in parts]])
                # .loc on the published divisions must find every row of a key
                if divs[0] is not None and len(sub):
                    probe = sub.k.iloc[len(sub) // 2]
                    hit = r.loc[probe].compute() if True else None
                    if len(hit) != int((sub.k == probe).sum()):
                        ctx.fail("set_index(...).loc[key] misses rows of that key", observed=[probe, len(hit)], expected=int((sub.k == probe).sum()))
                ctx.branch("set_index-" + inp["kind"] + ("-presorted" if inp.get("presorted") else ""))
    except NotImplementedError as e:
        if inp["kind"] == "str" and any(k is None for k in inp["keys"]) and "nulls" in str(e):
            ctx.branch("sort-rejected-null-strings")    # documented rejection, not a wrong result
        else:
            ctx.fail(f"{op} raised: " + U.exc_name(e), sig=None, observed=U.exc_name(e))
    except Exception as e:  # noqa: BLE001
        ctx.fail(f"{op} raised: " + U.exc_name(e), sig=None, observed=U.exc_name(e))


def case_dedup_api(ctx, inp):
    """API level: drop_duplicates / unique / nunique equal pandas for every partitioning, split_out, shuffle method"""
    import dask
    import pandas as pd
    dd = U.dd()
    df = _mk_keyframe(inp)
    d = dd.from_pandas(df, npartitions=inp["n_in"], sort=False)
    op, so, method = inp["op"], inp["split_out"], inp.get("method")
    kw = {}
    if so is not None:
        kw["split_out"] = so
    if method:
        kw["shuffle_method"] = method
    try:
        with dask.config.set(scheduler="sync"):
            if op == "drop_duplicates":
                keep = inp.get("keep", "first")
                got = d.drop_duplicates(subset=inp["subset"], keep=keep, **kw).compute()
                exp = df.drop_duplicates(subset=inp["subset"], keep=keep)
                cols = inp["subset"] or list(df.columns)
                same_keys = (sorted(map(repr, got[cols].itertuples(index=False))) == sorted(map(repr, exp[cols].itertuples(index=False))))
                same_rows = sorted(got.v) == sorted(exp.v)
                if not same_keys:
                    ctx.fail("drop_duplicates: set of distinct keys differs from pandas", observed=sorted(got.v)[:30], expected=sorted(exp.v)[:30])
                elif not same_rows:
                    # which duplicate survives depends on the row order inside the shuffled partition
                    sig = ("drop_duplicates:shuffle_method=disk:keep-first/last-picks-by-arrival-order"
                           if method == "disk" and inp["subset"] else None)
                    ctx.fail("drop_duplicates(keep=%s) keeps a different duplicate than pandas" % keep, sig=sig,
                             observed=sorted(got.v)[:30], expected=sorted(exp.v)[:30])
            elif op == "unique":
                got = d.k.unique(**kw).compute()
                exp = pd.Series(df.k.unique())
                if sorted(map(repr, got)) != sorted(map(repr, exp)):
                    ctx.fail("unique differs from pandas", observed=sorted(map(repr, got)), expected=sorted(map(repr, exp)))
            else:
                got = d.k.nunique(**({"split_every": inp.get("split_every")} if inp.get("split_every") else {})).compute()
                exp = df.k.nunique()
                if int(got) != int(exp):
                    ctx.fail("nunique differs from pandas", observed=int(got), expected=int(exp))
    except Exception as e:  # noqa: BLE001
        ctx.fail(f"{op} raised: " + U.exc_name(e), observed=U.exc_name(e))
        return
    ctx.branch(f"{op}-split{so}-{method or 'default'}")


CASES = {"shuffle_group": case_shuffle_group, "task_layer": case_task_layer, "spp": case_spp,
         "shuffle_api": case_shuffle_api, "sort_api": case_sort_api, "dedup_api": case_dedup_api}


def _rand_keys(rng, n, kind):
    hi = rng.choice([2, 5, 12, 40])
    ks = [rng.randint(0, hi) for _ in range(n)]
    if kind in ("float", "str") and rng.random() < 0.4:
        ks = [None if rng.random() < 0.2 else k for k in ks]
    return ks


def generate(ctx):
    rng = ctx.rng
    # stage/nsplits float glue + wiring
    pairs = [(n, mb) for n in range(2, 401) for mb in range(2, 33)] if ctx.thorough() else []
    for n, mb in pairs:
        p = _stage_params(n, n, mb)
        if p and p[0] ** p[1] < n:
            yield "task_layer", {"n_in": n, "n_out": n, "max_branch": mb}
    for _ in range(ctx.n(40, 300)):
        mb = rng.choice([2, 2, 3, 4, 5])
        n_in = rng.randint(2, 30 if mb > 2 else 20)
        n_out = n_in if rng.random() < 0.5 else rng.randint(2, 30)
        yield "task_layer", {"n_in": n_in, "n_out": n_out, "max_branch": mb}
    for _ in range(ctx.n(500, 5000)):
        k = rng.randint(1, 6)
        stage = rng.randint(0, 3)
        npart = rng.randint(1, 60)
        hashing = rng.random() < 0.3
        nfinal = rng.choice([0, npart, rng.randint(1, 70)])
        n = rng.randint(0, 12)
        vals = [rng.randint(0, 200) for _ in range(n)] if not hashing else [rng.randint(0, 8) for _ in range(n)]
        if not hashing and rng.random() < 0.1:
            vals = [v * 1000003 for v in vals]
        yield "shuffle_group", {"vals": vals, "stage": stage, "k": k, "npartitions": npart, "nfinal": nfinal, "hashing": hashing}
    for _ in range(ctx.n(500, 5000)):
        nd = rng.randint(2, 7)
        divs = sorted(rng.randint(0, 20) for _ in range(nd))
        xs = [None if rng.random() < 0.1 else rng.randint(0, 22) for _ in range(rng.randint(1, 10))]
        yield "spp", {"divs": divs, "xs": xs, "ascending": rng.random() < 0.7, "na_last": rng.random() < 0.6}
    for _ in range(ctx.n(150, 1500)):
        kind = rng.choice(["int", "int", "str", "float", "cat"])
        n = rng.randint(1, 50)
        mb = rng.choice([None, 2, 2, 3])
        n_in = rng.randint(1, 12)
        yield "shuffle_api", {"keys": _rand_keys(rng, n, kind), "kind": kind, "n_in": n_in,
                              "n_out": rng.choice([None, None, rng.randint(1, 14)]), "method": rng.choice(["tasks", "tasks", "disk"]),
                              "max_branch": mb, "on": rng.choice([["k"], ["k"], ["k", "k2"]])}
    for _ in range(ctx.n(70, 700)):
        kind = rng.choice(["int", "str", "float"])
        n = rng.randint(1, 40)
        keys = _rand_keys(rng, n, kind)
        if kind == "str":
            keys = [k if k is not None else 0 for k in keys]    # null strings: dask rejects / limited support (documented)
        yield "sort_api", {"keys": keys, "kind": kind, "n_in": rng.randint(1, 6),
                           "op": rng.choice(["sort_values", "set_index"]), "ascending": rng.random() < 0.6,
                           "na_position": rng.choice(["last", "first"]), "n_out": rng.choice([None, None, rng.randint(1, 6)]),
                           "method": rng.choice([None, "tasks", "disk"])}
    # frames ALREADY ordered by the key (no shuffle needed unless equal keys straddle a partition boundary or NaN keys
    # sit inside a partition): the "presorted" shortcut of _calculate_divisions
    for _ in range(ctx.n(60, 600)):
        kind = rng.choice(["int", "int", "float"])
        n = rng.randint(2, 30)
        keys = sorted(rng.randint(0, rng.choice([3, 6, 15])) for _ in range(n))
        asc = rng.random() < 0.75
        if not asc:
            keys.reverse()
        if kind == "float" and rng.random() < 0.6:
            for _k in range(rng.randint(1, 3)):
                keys[rng.randrange(n)] = None
        yield "sort_api", {"keys": keys, "kind": kind, "n_in": rng.randint(2, 6), "presorted": True,
                           "op": rng.choice(["sort_values", "sort_values", "set_index"]), "ascending": asc,
                           "na_position": rng.choice(["last", "first"]), "n_out": None,
                           "by": rng.choice([["k"], ["k", "k3"]]), "method": rng.choice([None, "tasks"])}
    for _ in range(ctx.n(70, 700)):
        kind = rng.choice(["int", "str", "float", "cat"])
        n = rng.randint(1, 40)
        yield "dedup_api", {"keys": _rand_keys(rng, n, kind), "kind": kind, "n_in": rng.randint(1, 6),
                            "op": rng.choice(["drop_duplicates", "drop_duplicates", "unique", "nunique"]),
                            "split_out": rng.choice([None, 1, 2, 3, True]), "method": rng.choice([None, "tasks", "disk"]),
                            "subset": rng.choice([None, ["k"], ["k", "k2"]]), "keep": rng.choice(["first", "last"])}
