"""C40 — sorting, shuffling and de-duplication keep exactly the right rows.

Model:    lean/DaskModel/Model/Shuffle.lean (digit/insert/inputs arithmetic of the staged task shuffle,
          shuffle_group's stage index, SimpleShuffle / TaskShuffle wiring evaluated on rows, set_partitions_pre),
          lean/DaskModel/Model/SortValues.lean (sort_values / set_index pipeline, the presorted test of
          _calculate_divisions, drop_duplicates through TreeReduce / ShuffleReduce)
Theorems: lean/DaskModel/Props/C40.lean (helpers: Lemmas/Shuffle, ShuffleExact, ShufflePerm, SortValues, Dedup)
Tie:      function level: shuffle_group (both branches), TaskShuffle._layer wiring + stage/nsplits float glue,
          set_partitions_pre, _calculate_divisions (mins, maxes, presorted), pandas drop_duplicates vs the specification;
          expression level: TaskShuffle on arbitrary _partitions columns (count unchanged / grown / shrunk, selections);
          pipeline level: real partitions of sort_values / set_index(divisions=) / drop_duplicates vs the Lean pipelines
          evaluated with the divisions / hash classes the lowered graph really uses;
          API level: shuffle (tasks/disk, max_branch forcing several stages, npartitions in/out, partitions[sel]),
          sort_values, set_index, drop_duplicates/unique/nunique vs the model and pandas.
"""
from __future__ import annotations

import math

from sexp import Sym

from props import _dfpart_util as U

PROP = "C40"
READY = True
DRIVER = "dm_dfpart"
LEAN_MODULES = ["DaskModel.Props.C40"]
CASE_TIMEOUT_S = 90
LEVEL_TEXT = ("Lean 4 theorems (all frames / partitionings / hash functions / k >= 1, stages with k**stages >= npartitions_input "
              ">= 1; no size bound) over transliterations of dask/dataframe/shuffle.py and dask_expr/_shuffle.py. "
              "SHUFFLE: task_shuffle_exact - the whole TaskShuffle._layer (every stage over k**stages positions, empty padding, "
              "last stage, shuffle_group_2/shuffle_group_get resize) returns exactly nOut partitions and output p is the "
              "ordered sub-sequence of the concatenated input (same relative order, same multiplicity) of the rows with "
              "target % n = p (count unchanged) / target = p (count changed); corollaries task_shuffle_perm(_same_count/_resize) "
              "(multiset of rows preserved; rows whose target names no output are dropped only on the resize path), "
              "task_shuffle_eq_simple (staging is invisible), task_shuffle_mem_iff / _sound / _complete / _colocated (equal keys "
              "end in one partition), task_shuffle_order; simple_shuffle_exact / _perm / _colocated; digit arithmetic "
              "(staged_route, staged_position, staged_colocated, stageIndex_is_digit, stageIndex_hashing); "
              "set_partitions_pre_spec. SORT: for the pipeline set_partitions_pre -> shuffle on _partitions -> per-partition "
              "sort, any divisions with >= 2 entries, ascending/descending, na_position first/last, ANY shuffle that only "
              "delivers input rows to the partition named by _partitions and ANY per-partition sort returning a sorted "
              "permutation: sort_values_globally_ordered (NaN placement included), sort_values_rows (multiset), "
              "sort_values_keys_eq_reference (key column = that of any sorted arrangement of the rows, i.e. pandas'), "
              "sort_values_multikey_globally_ordered (several sort columns / one direction per column: routing by the first "
              "column, per-partition sort by any total order refining it, e.g. the lexicographic one), "
              "set_partitions_pre_monotone / _nan (valid partition number, monotone in the sort order in every mode), "
              "sort_values_tasks (all hypotheses discharged for the staged task shuffle), set_index_truthful / "
              "set_index_tasks_truthful (C41's Truthful predicate for non-decreasing divisions spanning the data), "
              "presorted_shortcut_sorted / presorted_shortcut_eq_full_path / set_index_presorted_truthful (the presorted test "
              "of _calculate_divisions, after b29bf66, implies the shortcut's result is ordered, equals the full path's key "
              "column and rows, and mins+[maxes[-1]] are truthful divisions). DEDUP: drop_duplicates_tree_eq (split_out=1: "
              "exactly pandas, rows and order, keep first/last), drop_duplicates_tasks_perm (chunk + staged task shuffle + "
              "aggregate: output p = pandas' result restricted to the keys hashing to p; whole result = pandas' as a "
              "multiset), drop_duplicates_keys_any_shuffle (unique / nunique / distinct keys right for ANY row order inside "
              "the shuffled partitions), drop_duplicates_arrival_order_refuted (which duplicate survives is NOT pandas' for "
              "arrival-order shuffles: the recorded finding for shuffle_method='disk'). DISK: the partd shuffle is modelled as "
              "diskShuffle arrival (whole per-partition pieces collected in the order `arrival` in which the scheduler "
              "appended the partitions); for EVERY permutation `arrival`: disk_shuffle_spec (nOut outputs, output p = the rows "
              "with target p in some order, multiset preserved), sort_values_disk (globally ordered permutation), "
              "drop_duplicates_disk_keys (distinct keys right). VALIDATED ONLY (differential tie, no theorem): that the real "
              "disk shuffle IS diskShuffle for some arrival order (every real output is diffed, rows and order, against the "
              "model for the arrival order read off the outputs); pandas' per-partition behaviour for multi-column keys and "
              "non-numeric keys (strings, categoricals: API level vs pandas); the quantile divisions (any division vector is covered by the theorems, "
              "that they balance partitions is not claimed); the optimizer rewrites around these expressions.")
LEVEL_NOTE = ("Trusted: Lean kernel + standard axioms; pandas on ONE partition (hash_object as a function of the key cells; "
              "sort_values/sort_index returning a sorted permutation - no tie order is assumed, pandas' default sort is not "
              "stable; drop_duplicates(keep) = the specification dedupFirst/dedupLast, diffed exhaustively on short frames; "
              "Series.min/max skipping NaN; searchsorted(side='right') on sorted divisions = number of leading entries <= x); "
              "the float glue stages/nsplits (checked against nsplits**stages >= npartitions); partd (order of collected "
              "pieces = arrival order: finding for drop_duplicates keep=first/last). Null strings in sort keys are rejected by "
              "dask and not generated; object-dtype strings do not work in this sandbox. Keys are interned as naturals: only "
              "<=, == of key values are used.")
TECHNIQUE = ("Lean 4 proof (digit arithmetic, strictly-sorted-list extensionality, List.Perm, pairwise-order arguments) over "
             "executable transliterations + differential correspondence at function, expression, pipeline and API level + "
             "property oracles on the real code")
ASSUMPTIONS = ["hash_object_dispatch is a function of the row's key cells (equal keys => equal hashes): checked per case",
               "stages/nsplits computed with math.log / ** (1/stages) satisfy nsplits**stages >= npartitions_input "
               "(checked for every generated (npartitions, max_branch) and exhaustively npartitions <= 400 x max_branch <= 32 in thorough)",
               "per-partition pandas sort_values / sort_index return a sorted permutation of the partition (any tie order)",
               "per-partition pandas drop_duplicates(keep=first|last) keeps exactly the first|last row of every key, order kept "
               "(diffed against the Lean specification: exhaustive over key sequences of length <= 6 over 3 letters in thorough)",
               "partd returns the pieces of a partition in the order they were appended, each input partition is appended once "
               "(checked per case: the real outputs equal diskShuffle for the arrival order read off the outputs)",
               "divisions passed to set_partitions_pre are non-decreasing (SortValues._lower sorts them; check_divisions for user "
               "divisions): the model's bisectRight equals searchsorted(side='right') only then"]
TRUSTED = ["pandas group_split / hash_object / searchsorted / sort_values / drop_duplicates on a single partition",
           "partd (disk shuffle storage)"]


def _stage_params(n_in, n_out_parts, max_branch):
    """copy of the float glue at the top of TaskShuffle._layer: None = not staged"""
    max_branch = max_branch or 32
    if n_out_parts <= max_branch or n_in <= max_branch:
        return None
    stages = int(math.ceil(math.log(n_in) / math.log(max_branch)))
    nsplits = int(math.ceil(n_in ** (1 / stages))) if stages > 1 else n_in
    return nsplits, stages


def case_shuffle_group(ctx, inp):
    """function level: shuffle_group's pieces (which rows, in which order) for both index branches"""
    import numpy as np
    import pandas as pd
    U.dd()
    from dask.dataframe.shuffle import shuffle_group
    from dask.dataframe.dispatch import hash_object_dispatch
    vals, stage, k, npart, nfinal, hashing = inp["vals"], inp["stage"], inp["k"], inp["npartitions"], inp["nfinal"], inp["hashing"]
    if hashing:
        df = pd.DataFrame({"key": vals, "v": range(len(vals))})
        inds = [int(x) for x in hash_object_dispatch(df[["key"]], index=False)]
        out = shuffle_group(df, ["key"], stage, k, npart, False, nfinal)
        ctx.branch("shuffle_group-hash" + ("-nfinal" if nfinal and nfinal != npart else ""))
    else:
        df = pd.DataFrame({"_partitions": np.array(vals, dtype="int64"), "v": range(len(vals))})
        inds = vals
        out = shuffle_group(df, "_partitions", stage, k, npart, False, nfinal)
        ctx.branch("shuffle_group-partitions" + (f"-stage{min(stage, 2)}"))
    model = ctx.lean(Sym("stage-index"), inds, stage, k, npart, nfinal, hashing)
    exp = {}
    for rid, j in enumerate(model):
        exp.setdefault(j, []).append(rid)
    got = {int(j): [int(v) for v in piece.v] for j, piece in out.items() if len(piece)}
    ctx.eq("shuffle_group pieces", exp, got)
    if sorted(v for p in got.values() for v in p) != list(range(len(vals))):
        ctx.fail("shuffle_group loses or duplicates rows", observed=got)
    if any(j >= k for j in got):
        ctx.fail("shuffle_group produced a piece index >= k", observed=sorted(got))


def _canon_task_layer(expr):
    """per stage: {position: (piece index, [source tuples])} read off the graph keys"""
    L = expr._layer()
    stages = {}
    for key, task in L.items():
        if isinstance(key, tuple) and len(key) == 2 and isinstance(key[0], str) and not key[0].startswith(("group-", "split-", "repartition-group-")):
            # (name, global_part) -> (_concat, [(split_name, idx, inp), ...], ignore_index)
            if not (isinstance(task, tuple) and len(task) == 3 and isinstance(task[1], list)):
                continue
            name = key[0]
            idxs = {t[1] for t in task[1]}
            assert len(idxs) == 1
            stages.setdefault(name, {})[int(key[1])] = [idxs.pop(), [list(t[2]) if isinstance(t[2], tuple) else t[2] for t in task[1]]]
    return stages


def case_task_layer(ctx, inp):
    """function level: number of stages / splits and the complete wiring of TaskShuffle._layer"""
    import pandas as pd
    dd = U.dd()
    from dask.dataframe.dask_expr._shuffle import TaskShuffle
    n_in, n_out, mb = inp["n_in"], inp["n_out"], inp["max_branch"]
    frame = dd.from_pandas(pd.DataFrame({"_partitions": [0] * n_in, "v": range(n_in)}), npartitions=n_in)
    assert frame.npartitions == n_in
    e = TaskShuffle(frame.expr, "_partitions", n_out, False, {"max_branch": mb})
    params = _stage_params(n_in, n_out, mb)
    stages = _canon_task_layer(e)
    if params is None:
        ctx.branch("layer-simple")
        # SimpleShuffle: one concat per output over all inputs
        name = e._name
        got = stages.get(name, {})
        ctx.eq("SimpleShuffle wiring", {p: [p, list(range(n_in))] for p in range(n_out)},
               {p: [v[0], v[1]] for p, v in got.items()})
        return
    k, S = params
    if k ** S < n_in:
        ctx.fail("nsplits ** stages < npartitions_input: some input partitions have no position", observed=[k, S, n_in])
    ctx.branch(f"layer-staged-{min(S, 4)}")
    if len(stages) != S:
        ctx.disagree("number of stages", S, len(stages))
        return
    # order the stage names: stage-0-…, stage-1-…, last one may be the expression's own name
    def order(nm):
        return int(nm.split("-")[1]) if nm.startswith("stage-") else S - 1
    for nm in sorted(stages, key=order):
        s = order(nm)
        model = ctx.lean(Sym("layer-wiring"), k, S, s)
        got = stages[nm]
        exp = {p: model[p] for p in got}          # last stage may only contain the requested outputs
        ctx.eq(f"TaskShuffle wiring stage {s}", exp, got)
        if s < S - 1 or n_out != n_in:
            if sorted(got) != list(range(k ** S)):
                ctx.disagree(f"stage {s} positions", list(range(k ** S)), sorted(got))


def _flat(srcs):
    return [s[0] if isinstance(s, list) and len(s) == 1 else s for s in srcs]


def case_spp(ctx, inp):
    """function level: set_partitions_pre"""
    import numpy as np
    import pandas as pd
    U.dd()
    from dask.dataframe.shuffle import set_partitions_pre
    divs, xs, asc, nal = inp["divs"], inp["xs"], inp["ascending"], inp["na_last"]
    s = pd.Series([np.nan if x is None else float(x) for x in xs])
    d = pd.Series([float(x) for x in divs])
    got = [int(v) for v in set_partitions_pre(s, d, ascending=asc, na_position="last" if nal else "first")]
    model = ctx.lean(Sym("set-partitions-pre"), divs, [Sym("none") if x is None else x for x in xs], asc, nal)
    ctx.eq("set_partitions_pre", model, got)
    n = len(divs)
    for x, p in zip(xs, got):
        if not (0 <= p <= n - 2):
            ctx.fail("set_partitions_pre: partition out of range", observed=[x, p])
        elif x is not None and asc:
            lo, hi = divs[p], divs[p + 1]
            inside = divs[0] <= x < divs[-1]
            if inside and not (lo <= x < hi):
                ctx.fail("set_partitions_pre: value not inside its partition's division interval", observed=[x, p, divs])
            if x >= divs[-1] and p != n - 2:
                ctx.fail("set_partitions_pre: value above the range not in the last partition", observed=[x, p, divs])
            if x < divs[0] and p != 0:
                ctx.fail("set_partitions_pre: value below the range not in the first partition", observed=[x, p, divs])
    ctx.branch("spp-" + ("asc" if asc else "desc") + ("-na" if any(x is None for x in xs) else ""))


def _expected_targets(df, cols, n_out):
    """the `_partitions` column AssignPartitioningIndex computes for every row of the whole frame"""
    from dask.dataframe.dask_expr._shuffle import AssignPartitioningIndex
    out = AssignPartitioningIndex.operation(df, cols, "_partitions", n_out, df.iloc[:0], False)
    return [int(x) for x in out["_partitions"]]


def _mk_keyframe(inp):
    import numpy as np
    import pandas as pd
    kind = inp["kind"]
    ks = inp["keys"]
    conv = {"int": lambda v: v, "str": lambda v: None if v is None else "s%d" % v,
            "float": lambda v: np.nan if v is None else v * 0.5, "cat": lambda v: "c%d" % v}[kind]
    col = [conv(k) for k in ks]
    df = pd.DataFrame({"k": col, "k2": [(k or 0) % 2 for k in ks], "k3": [(7 * i + 3) % 5 for i in range(len(ks))],
                       "v": range(len(ks))})
    if kind == "cat":
        df["k"] = df["k"].astype("category")
    # (object-dtype strings are not generated: dask's meta inference for `min` on an object column fails in this
    #  sandbox even on the pinned tests (test_set_index_string[object]); pandas' default `str` dtype is used)
    return df


def case_shuffle_api(ctx, inp):
    """API level: d.shuffle(on, npartitions, shuffle_method, max_branch)"""
    import dask
    dd = U.dd()
    df = _mk_keyframe(inp)
    n_in, n_out, method, mb, cols = inp["n_in"], inp["n_out"], inp["method"], inp["max_branch"], inp["on"]
    d = dd.from_pandas(df, npartitions=n_in, sort=False)
    n_in = d.npartitions
    kw = {"shuffle_method": method}
    if n_out is not None:
        kw["npartitions"] = n_out
    if mb is not None:
        kw["max_branch"] = mb
    nout = n_out or n_in
    try:
        with dask.config.set(scheduler="sync"):
            r = d.shuffle(on=cols, **kw)
            parts = U.partitions(r)
    except Exception as e:  # noqa: BLE001
        ctx.fail("shuffle raised: " + U.exc_name(e), observed=U.exc_name(e))
        return
    ids = [[int(v) for v in p.v] for p in parts]
    flat = sorted(v for p in ids for v in p)
    if flat != list(range(len(df))):
        ctx.fail("shuffle does not preserve the multiset of rows", observed=ids)
    if len(parts) != nout:
        ctx.fail("shuffle: wrong number of output partitions", observed=len(parts), expected=nout)
    where = {}
    for pi, p in enumerate(parts):
        for key in map(tuple, p[cols].astype(object).where(p[cols].notna(), None).itertuples(index=False)):
            where.setdefault(key, set()).add(pi)
    split = {k: sorted(v) for k, v in where.items() if len(v) > 1}
    if split:
        ctx.fail("rows with equal key values ended in different partitions", observed={repr(k): v for k, v in split.items()})
    # expected routing: partition = `_partitions` value; exact order for the task shuffle
    targets = _expected_targets(df, cols, nout)
    # Shuffle._lower repartitions to npartitions_out first when that is smaller: the concrete shuffle sees those
    d_eff = d.repartition(npartitions=nout) if nout < n_in else d
    lens = [len(p) for p in U.partitions(d_eff)]
    n_eff = len(lens)
    src, pos = [], 0
    for ln in lens:
        src.append(targets[pos:pos + ln])
        pos += ln
    params = _stage_params(n_eff, nout, mb)
    if params is None:
        model = ctx.lean(Sym("simple-shuffle"), src, nout)
        ctx.branch(f"api-{method}-simple")
    else:
        model = ctx.lean(Sym("task-shuffle"), src, nout, params[0], params[1])
        ctx.branch(f"api-{method}-staged{min(params[1], 4)}" + ("-resize" if nout != n_eff else ""))
    if nout < n_in:
        ctx.branch("api-repartitioned-first")
    if method == "tasks":
        ctx.eq("task shuffle partitions (rows and order)", model, ids)
    else:
        ctx.eq("disk shuffle partitions (rows)", [sorted(p) for p in model], [sorted(p) for p in ids])
        # exact diff against the disk model: every output is a concatenation of WHOLE pieces (one per input partition,
        # row order kept) and ONE arrival order of the input partitions explains all outputs
        arrival = _infer_arrival(ids, lens)
        if arrival is None:
            ctx.disagree("disk shuffle outputs are not whole pieces in one common arrival order", "diskShuffle arrival", ids)
        else:
            ctx.eq("disk shuffle partitions (rows and order) for the inferred arrival order",
                   ctx.lean(Sym("disk-shuffle"), arrival, src, nout), ids)
            ctx.branch("disk-arrival-" + ("input-order" if arrival == sorted(arrival) else "permuted"))
    ctx.branch("keys-" + inp["kind"] + ("-na" if any(k is None for k in inp["keys"]) else ""))
    # a selection of output partitions (PartitionsFiltered: the `_filter` of the last stage)
    sel = inp.get("sel")
    if sel:
        sel = sorted({s % nout for s in sel})
        try:
            with dask.config.set(scheduler="sync"):
                sub = U.partitions(r.partitions[sel])
        except Exception as e:  # noqa: BLE001
            ctx.fail("shuffle(...).partitions[sel] raised: " + U.exc_name(e), observed=[sel, U.exc_name(e)])
            return
        got = [[int(v) for v in p.v] for p in sub]
        exp = [model[i] for i in sel]
        if method == "tasks":
            ctx.eq("selected partitions of the task shuffle", exp, got)
        else:
            ctx.eq("selected partitions of the disk shuffle (rows)", [sorted(p) for p in exp], [sorted(p) for p in got])
        psel = _stage_params(n_eff, len(sel), mb)
        ctx.branch("api-selection-" + ("simple" if psel is None else "staged"))


def _infer_arrival(ids, lens):
    """the order in which the input partitions were appended to partd, read off the outputs; None if some output is
    not a concatenation of whole per-partition pieces or no single order explains all outputs"""
    import bisect
    starts, pos = [], 0
    for ln in lens:
        starts.append(pos)
        pos += ln
    nonempty = [i for i, ln in enumerate(lens) if ln]

    def src_of(v):
        i = bisect.bisect_right(starts, v) - 1
        while lens[i] == 0:      # empty partitions share their start with the next one
            i += 1
        return i
    succ = {i: set() for i in range(len(lens))}
    for rows in ids:
        seq = []
        for v in rows:
            sp = src_of(v)
            if not seq or seq[-1] != sp:
                seq.append(sp)
        if len(set(seq)) != len(seq):
            return None
        for a, b in zip(seq, seq[1:]):
            succ[a].add(b)
    indeg = {i: 0 for i in succ}
    for a in succ:
        for b in succ[a]:
            indeg[b] += 1
    order, ready = [], sorted(i for i in succ if indeg[i] == 0)
    while ready:
        a = ready.pop(0)
        order.append(a)
        for b in sorted(succ[a]):
            indeg[b] -= 1
            if indeg[b] == 0:
                ready.append(b)
        ready.sort()
    del nonempty
    return order if len(order) == len(lens) else None


def case_task_expr(ctx, inp):
    """function level: a TaskShuffle expression evaluated on an arbitrary `_partitions` column (values that name no
    output included), count unchanged / grown / shrunk, optional selection of outputs — rows AND order vs the model"""
    import dask
    import numpy as np
    import pandas as pd
    U.dd()
    from dask.dataframe.dask_expr import new_collection
    from dask.dataframe.dask_expr._shuffle import TaskShuffle
    parts_t, n_out, mb, sel = inp["parts"], inp["n_out"], inp["max_branch"], inp.get("sel")
    flat = [t for p in parts_t for t in p]
    df = pd.DataFrame({"_partitions": np.array(flat, dtype="int64"), "v": np.arange(len(flat), dtype="int64")})
    cuts = [0]
    for p in parts_t:
        cuts.append(cuts[-1] + len(p))
    d = U.frame_from_cuts(df, cuts)
    n_in = len(parts_t)
    args = [d.expr, "_partitions", n_out, False, {"max_branch": mb}, None] + ([list(sel)] if sel is not None else [])
    try:
        with dask.config.set(scheduler="sync"):
            parts = U.partitions(new_collection(TaskShuffle(*args)))
    except Exception as e:  # noqa: BLE001
        ctx.fail("TaskShuffle expression raised: " + U.exc_name(e), observed=U.exc_name(e))
        return
    ids = [[int(v) for v in p.v] for p in parts]
    params = _stage_params(n_in, len(sel) if sel is not None else n_out, mb)
    if params is None:
        model = ctx.lean(Sym("simple-shuffle"), parts_t, n_out)
    else:
        model = ctx.lean(Sym("task-shuffle"), parts_t, n_out, params[0], params[1])
    outs = list(sel) if sel is not None else list(range(n_out))
    ctx.eq("TaskShuffle expression: partitions (rows and order)", [model[p] for p in outs], ids)
    valid = all(t < n_out for t in flat)
    if valid:
        for p, rows in zip(outs, ids):
            if any(flat[v] != p for v in rows):
                ctx.fail("TaskShuffle: a row is in a partition other than its `_partitions` value", observed=[p, rows])
        if sel is None and sorted(v for rows in ids for v in rows) != list(range(len(flat))):
            ctx.fail("TaskShuffle does not preserve the multiset of rows", observed=ids)
    ctx.branch("expr-" + ("simple" if params is None else f"staged{min(params[1], 4)}")
               + ("-grow" if n_out > n_in else "-shrink" if n_out < n_in else "-same")
               + ("-sel" if sel is not None else "") + ("" if valid else "-invalid-targets"))
    if any(len(p) == 0 for p in parts_t):
        ctx.branch("expr-empty-input-partition")


def _keyframe_cuts(keys, cuts):
    """frame with column k (int64, or float64 when a key is missing) and v = row number, partitions df.iloc[cuts]"""
    import numpy as np
    import pandas as pd
    if any(k is None for k in keys):
        col = np.array([np.nan if k is None else float(k) for k in keys], dtype="float64")
    else:
        col = np.array(keys, dtype="int64")
    df = pd.DataFrame({"k": col, "v": np.arange(len(keys), dtype="int64")})
    return df, U.frame_from_cuts(df, cuts)


def _parts_of(keys, cuts):
    return [keys[a:b] for a, b in zip(cuts, cuts[1:])]


def _lean_keys(part):
    return [Sym("none") if k is None else k for k in part]


def _nan_none(x):
    return None if x is None or x != x else int(x)


def case_presorted_fn(ctx, inp):
    """function level: `_calculate_divisions` (mins, maxes, presorted) vs the model"""
    import dask
    U.dd()
    from dask.dataframe.dask_expr._shuffle import _calculate_divisions
    keys, cuts, asc = inp["keys"], inp["cuts"], inp["ascending"]
    df, d = _keyframe_cuts(keys, cuts)
    with dask.config.set(scheduler="sync"):
        _, mins, maxes, presorted = _calculate_divisions(d.expr, d.expr["k"], d.npartitions, asc)
    m_pre, m_mins, m_maxes = ctx.lean(Sym("calc-presorted"), asc, [_lean_keys(p) for p in _parts_of(keys, cuts)])
    ctx.eq("_calculate_divisions: presorted", m_pre, bool(presorted))
    ctx.eq("_calculate_divisions: mins", m_mins, [_nan_none(x) for x in mins])
    ctx.eq("_calculate_divisions: maxes", m_maxes, [_nan_none(x) for x in maxes])
    parts = _parts_of(keys, cuts)
    ctx.branch("presorted-" + ("asc" if asc else "desc") + ("-true" if presorted else "-false")
               + ("-na" if any(k is None for k in keys) else "") + ("-empty" if any(not p for p in parts) else ""))
    if presorted:
        # what the shortcut relies on: sorting every partition where it is gives a globally ordered frame
        flat = [k for p in parts for k in (sorted(p, reverse=not asc) if None not in p else p)]
        if any(k is None for k in flat) or flat != sorted(flat, reverse=not asc):
            ctx.fail("_calculate_divisions reports presorted for a frame whose partitions are not in order", observed=parts)


def _stage_of_shuffle(node, n_model_in):
    """(k, stages) for the model call: the real staging when the concrete shuffle is a TaskShuffle over the same
    input partitions, else 0, 0 (SimpleShuffle model; by task_shuffle_eq_simple the result does not depend on it)"""
    from dask.dataframe.dask_expr._shuffle import TaskShuffle
    if type(node) is TaskShuffle and node.frame.npartitions == n_model_in:
        p = _stage_params(node.frame.npartitions, node.npartitions_out, (node.options or {}).get("max_branch"))
        if p is not None:
            return p
    return 0, 0


def case_sort_model(ctx, inp):
    """API level vs the Lean PIPELINE model: the real output partitions of sort_values / set_index(divisions=…) —
    key sequence and row set of every partition — equal `sortValuesWith` evaluated with the divisions the lowered
    graph really uses (read off the `_SetPartitionsPreSetIndex` node); the presorted decision is diffed too."""
    import math

    import dask
    import pandas as pd
    U.dd()
    from dask.dataframe.dask_expr._shuffle import SimpleShuffle, _SetPartitionsPreSetIndex
    keys, cuts, op, asc, nap = inp["keys"], inp["cuts"], inp["op"], inp["ascending"], inp["na_position"]
    df, d = _keyframe_cuts(keys, cuts)
    kw = {}
    if inp.get("method"):
        kw["shuffle_method"] = inp["method"]
    if inp.get("max_branch"):
        kw["max_branch"] = inp["max_branch"]
    try:
        with dask.config.set(scheduler="sync"):
            if op == "sort_values":
                r = d.sort_values("k", ascending=asc, na_position=nap, **kw)
            else:
                asc, nap = True, "last"
                r = d.set_index("k", divisions=inp["divisions"], **kw)
            low = r.expr.optimize(fuse=False)
            parts = U.partitions(r)
    except Exception as e:  # noqa: BLE001
        ctx.fail(f"{op} raised: " + U.exc_name(e), observed=U.exc_name(e))
        return
    nodes = list(low.find_operations(_SetPartitionsPreSetIndex))
    shuffles = list(low.find_operations(SimpleShuffle))
    in_parts = [_lean_keys(p) for p in _parts_of(keys, cuts)]
    raw_divs = [float(x) for x in nodes[0].new_divisions] if nodes else []
    if any(x != x for x in raw_divs):
        # quantiles of a (nearly) all-NaN column: NaN divisions (numpy orders NaN last, every key goes to partition 0);
        # outside the model (divisions are naturals there) - the property oracles below still apply
        ctx.branch("sortmodel-nan-divisions")
        model = None
    elif nodes:
        divs = [math.ceil(x) for x in raw_divs]     # integer keys: d <= v  <=>  ceil(d) <= v
        if any(x < 0 for x in divs):
            return
        k, S = _stage_of_shuffle(shuffles[0], len(in_parts)) if shuffles else (0, 0)
        model = ctx.lean(Sym("sort-values"), in_parts, divs, asc, nap == "last", k, S)
        kind = "disk" if shuffles and type(shuffles[0]).__name__ == "DiskShuffle" else "tasks"
        ctx.branch(f"sortmodel-{op}-shuffled-{kind}" + (f"-staged{min(S, 4)}" if k else "-simple")
                   + ("" if asc else "-desc") + ("-nafirst" if nap == "first" else "")
                   + ("-na" if any(x is None for x in keys) else ""))
    else:
        model = ctx.lean(Sym("sort-values"), in_parts, [], asc, nap == "last", 0, 0)
        ctx.branch(f"sortmodel-{op}-" + ("single-partition" if len(in_parts) == 1 else "presorted-shortcut"))
    if op == "sort_values" and len(in_parts) > 1:
        m_pre = ctx.lean(Sym("calc-presorted"), asc, in_parts)[0]
        ctx.eq("sort_values: presorted shortcut taken", m_pre, not nodes)
    real = [[[_nan_none(x) for x in (p.k if op == "sort_values" else p.index)], sorted(int(v) for v in p.v)] for p in parts]
    if model is not None:
        exp = [[[kk for kk, _ in p], sorted(i for _, i in p)] for p in model]
        ctx.eq(f"{op}: partitions (key sequence, row set) vs the pipeline model", exp, real)
    # property oracles on the real output
    flat_keys = [kk for ks, _ in real for kk in ks]
    ref = df.sort_values("k", ascending=asc, na_position=nap, kind="stable")
    if flat_keys != [_nan_none(x) for x in ref.k]:
        ctx.fail(f"{op} is not globally ordered like pandas", observed=flat_keys[:40], expected=[_nan_none(x) for x in ref.k][:40])
    if sorted(i for _, ids in real for i in ids) != list(range(len(keys))):
        ctx.fail(f"{op} does not keep exactly the input rows", observed=real)
    if op == "set_index" and keys and inp["divisions"][0] <= min(keys) and max(keys) <= inp["divisions"][-1]:
        why = U.truthful(list(r.divisions), parts)
        if why:
            ctx.fail("set_index(divisions spanning the data) not truthful: " + why, observed=real)
        ctx.branch("sortmodel-set_index-spanning")
    elif op == "set_index":
        ctx.branch("sortmodel-set_index-not-spanning")


def case_dedup_fn(ctx, inp):
    """function level: pandas drop_duplicates(keep) on ONE frame vs the specification `dedup`"""
    import pandas as pd
    keys, keep = inp["keys"], inp["keep"]
    got = [int(v) for v in pd.DataFrame({"k": keys, "v": range(len(keys))}).drop_duplicates(subset=["k"], keep=keep).v]
    ctx.eq("pandas drop_duplicates vs dedup", ctx.lean(Sym("dedup"), keep == "first", keys), got)
    ctx.branch("dedup-fn-" + keep + ("-dups" if len(set(keys)) < len(keys) else ""))


def case_dedup_model(ctx, inp):
    """API level vs the Lean model: the real partitions of drop_duplicates(subset=['k'], keep, split_out, tasks) —
    rows AND order — equal `dedupTree` (no shuffle in the lowered graph) / `dedupShuffleWith taskShuffle`."""
    import dask
    U.dd()
    from dask.dataframe.dask_expr._shuffle import SimpleShuffle
    keys, cuts, keep, so = inp["keys"], inp["cuts"], inp["keep"], inp["split_out"]
    df, d = _keyframe_cuts(keys, cuts)
    kw = {"shuffle_method": inp["method"]} if inp.get("method") else {}
    if so is not None:
        kw["split_out"] = so
    try:
        with dask.config.set(scheduler="sync"):
            r = d.drop_duplicates(subset=["k"], keep=keep, **kw)
            low = r.expr.optimize(fuse=False)
            parts = U.partitions(r)
    except Exception as e:  # noqa: BLE001
        ctx.fail("drop_duplicates raised: " + U.exc_name(e), observed=U.exc_name(e))
        return
    real = [[int(v) for v in p.v] for p in parts]
    in_parts = _parts_of(keys, cuts)
    shuffles = list(low.find_operations(SimpleShuffle))
    first = keep == "first"
    if not shuffles:
        model = [ctx.lean(Sym("dedup-tree"), first, in_parts)]
        ctx.branch("dedupmodel-tree-" + keep)
    else:
        node = shuffles[0]
        n = node.npartitions_out
        targets = _expected_targets(df, ["k"], n)
        table = sorted({(int(kk), int(t)) for kk, t in zip(keys, targets)})
        k, S = _stage_of_shuffle(node, len(in_parts))
        model = ctx.lean(Sym("dedup-shuffle"), first, in_parts, [list(t) for t in table], n, k, S)
        ctx.branch(f"dedupmodel-shuffle-{keep}-" + (f"staged{min(S, 4)}" if k else "simple")
                   + ("-repartitioned" if node.frame.npartitions != len(in_parts) else ""))
    ctx.eq("drop_duplicates: partitions (rows and order) vs the model", model, real)
    exp = df.drop_duplicates(subset=["k"], keep=keep)
    if sorted(v for p in real for v in p) != sorted(int(v) for v in exp.v):
        ctx.fail("drop_duplicates(keep=%s) differs from pandas" % keep, observed=real, expected=sorted(int(v) for v in exp.v))


def _same_rows(got, exp):
    import pandas as pd
    g = got.reset_index(drop=True)
    e = exp.reset_index(drop=True)
    try:
        pd.testing.assert_frame_equal(g, e, check_dtype=False, check_categorical=False)
        return True
    except AssertionError:
        return False


def case_sort_api(ctx, inp):
    """API level: sort_values / set_index are globally ordered and a permutation of the input (equal to pandas
    where keys are distinct or as sorted multisets)"""
    import dask
    import pandas as pd
    dd = U.dd()
    df = _mk_keyframe(inp)
    d = dd.from_pandas(df, npartitions=inp["n_in"], sort=False)
    op = inp["op"]
    kw = {}
    if inp.get("method"):
        kw["shuffle_method"] = inp["method"]
    try:
        with dask.config.set(scheduler="sync"):
            if op == "sort_values":
                by = inp.get("by") or ["k"]
                r = d.sort_values(by if len(by) > 1 else by[0], ascending=inp["ascending"], na_position=inp["na_position"],
                                  npartitions=inp.get("n_out") or None, **kw)
                parts = U.partitions(r)      # the REAL partitions (a bare compute() may re-sort everything)
                got = pd.concat(parts) if parts else df.iloc[:0]
                exp = df.sort_values(by, ascending=inp["ascending"], na_position=inp["na_position"], kind="stable")

                def keyrows(f):
                    return [tuple(None if (isinstance(x, float) and x != x) else x for x in t)
                            for t in f[by].astype(object).where(f[by].notna(), None).itertuples(index=False)]
                keys_got, keys_exp = keyrows(got), keyrows(exp)
                if keys_got != keys_exp:
                    ctx.fail("sort_values is not globally ordered like pandas", observed=keys_got[:30], expected=keys_exp[:30])
                if sorted(got.v) != list(range(len(df))):
                    ctx.fail("sort_values does not keep exactly the input rows", observed=sorted(got.v)[:30])
                asc0 = inp["ascending"] if isinstance(inp["ascending"], bool) else inp["ascending"][0]
                ctx.branch("sort_values-" + ("asc" if asc0 else "desc") + ("-mixed" if isinstance(inp["ascending"], list) else "")
                           + "-" + inp["na_position"]
                           + ("-multikey" if len(by) > 1 else "") + ("-presorted" if inp.get("presorted") else ""))
            else:
                sub = df[df.k.notna()] if inp["kind"] in ("float", "str") else df
                d2 = dd.from_pandas(sub, npartitions=inp["n_in"], sort=False) if len(sub) else None
                if d2 is None:
                    return
                kw2 = dict(kw)
                if inp.get("n_out"):
                    kw2["npartitions"] = inp["n_out"]
                r = d2.set_index("k", **kw2)
                divs = list(r.divisions)
                parts = U.partitions(r)
                got = pd.concat(parts)
                exp = sub.set_index("k").sort_index(kind="stable")
                if list(got.index) != list(exp.index):
                    ctx.fail("set_index is not globally ordered like pandas", observed=list(got.index)[:30], expected=list(exp.index)[:30])
                if sorted(got.v) != sorted(sub.v):
                    ctx.fail("set_index does not keep exactly the input rows", observed=sorted(got.v)[:30])
                if divs[0] is not None:
                    why = U.truthful(divs, parts)
                    if why:
                        ctx.fail("set_index result not truthful: " + why, observed=[divs, [list(p.index) for p in parts]])
                # .loc on the published divisions must find every row of a key
                if divs[0] is not None and len(sub):
                    probe = sub.k.iloc[len(sub) // 2]
                    hit = r.loc[probe].compute() if True else None
                    if len(hit) != int((sub.k == probe).sum()):
                        ctx.fail("set_index(...).loc[key] misses rows of that key", observed=[probe, len(hit)], expected=int((sub.k == probe).sum()))
                ctx.branch("set_index-" + inp["kind"] + ("-presorted" if inp.get("presorted") else ""))
    except NotImplementedError as e:
        if inp["kind"] == "str" and any(k is None for k in inp["keys"]) and "nulls" in str(e):
            ctx.branch("sort-rejected-null-strings")    # documented rejection, not a wrong result
        else:
            ctx.fail(f"{op} raised: " + U.exc_name(e), sig=None, observed=U.exc_name(e))
    except Exception as e:  # noqa: BLE001
        ctx.fail(f"{op} raised: " + U.exc_name(e), sig=None, observed=U.exc_name(e))


def case_sort_history(ctx, inp):
    """HISTORY / JOINT: a sequence of sort_values / set_index calls on ONE frame in one process (module-level caches such
    as divisions_lru are shared between the calls), each observed on its REAL partitions, then all results together in one
    graph. Every step must be globally ordered in ITS direction, keep exactly the input rows and (set_index) be truthful —
    whatever was asked of the same frame before."""
    import dask
    import pandas as pd
    dd = U.dd()
    keys, cuts = inp["keys"], inp["cuts"]
    df, d = _keyframe_cuts(keys, cuts)
    before = df.copy()
    results = []
    with dask.config.set(scheduler="sync"):
        for step in inp["steps"]:
            op = step["op"]
            kw = {"npartitions": step["n_out"]} if step.get("n_out") else {}
            if step.get("method"):
                kw["shuffle_method"] = step["method"]
            try:
                if op == "sort_values":
                    r = d.sort_values("k", ascending=step["ascending"], **kw)
                    parts = U.partitions(r)
                    got = pd.concat(parts) if parts else df.iloc[:0]
                    exp = df.sort_values("k", ascending=step["ascending"], kind="stable")
                    if list(got.k) != list(exp.k):
                        ctx.fail("sort_values after other calls on the same frame is not globally ordered",
                                 observed=[inp["steps"], step, [list(p.k) for p in parts]], expected=list(exp.k)[:40])
                    if sorted(got.v) != list(range(len(df))):
                        ctx.fail("sort_values after other calls on the same frame does not keep the rows", observed=sorted(got.v)[:40])
                else:
                    r = d.set_index("k", **kw)
                    divs = list(r.divisions)
                    parts = U.partitions(r)
                    got = pd.concat(parts) if parts else df.iloc[:0]
                    if list(got.index) != sorted(df.k):
                        ctx.fail("set_index after other calls on the same frame is not globally ordered",
                                 observed=[inp["steps"], [list(p.index) for p in parts]], expected=sorted(df.k)[:40])
                    if sorted(got.v) != list(range(len(df))):
                        ctx.fail("set_index after other calls on the same frame does not keep the rows", observed=sorted(got.v)[:40])
                    if divs[0] is not None and not any(x != x for x in divs):
                        why = U.truthful(divs, parts)
                        if why:
                            ctx.fail("set_index after other calls on the same frame: divisions not truthful: " + why,
                                     observed=[inp["steps"], divs, [list(p.index) for p in parts]])
                results.append((step, r))
            except Exception as e:  # noqa: BLE001
                ctx.fail(f"{op} in a history of calls raised: " + U.exc_name(e), observed=[inp["steps"], U.exc_name(e)])
                return
        # all of them in one graph
        if len(results) > 1:
            try:
                outs = dask.compute(*[r for _, r in results])
            except Exception as e:  # noqa: BLE001
                ctx.fail("joint compute of several sorts of one frame raised: " + U.exc_name(e), observed=U.exc_name(e))
                return
            for (step, _), o in zip(results, outs):
                if step["op"] == "sort_values":
                    if list(o.k) != sorted(df.k, reverse=not step["ascending"]) or sorted(o.v) != list(range(len(df))):
                        ctx.fail("sort_values computed together with other results of the same frame is wrong",
                                 observed=[step, list(o.k)[:40]])
                elif list(o.index) != sorted(df.k) or sorted(o.v) != list(range(len(df))):
                    ctx.fail("set_index computed together with other results of the same frame is wrong", observed=[step, list(o.index)[:40]])
    if not df.equals(before):
        ctx.fail("the pandas source frame was modified by sort_values / set_index", observed=str(df)[:200])
    dirs = "".join(("A" if s["ascending"] else "D") if s["op"] == "sort_values" else "I" for s in inp["steps"])
    ctx.branch("history-" + dirs[:4] + ("-ordered-" + inp["order"] if inp.get("order") else ""))


def case_dedup_api(ctx, inp):
    """API level: drop_duplicates / unique / nunique equal pandas for every partitioning, split_out, shuffle method"""
    import dask
    import pandas as pd
    dd = U.dd()
    df = _mk_keyframe(inp)
    d = dd.from_pandas(df, npartitions=inp["n_in"], sort=False)
    op, so, method = inp["op"], inp["split_out"], inp.get("method")
    kw = {}
    if so is not None:
        kw["split_out"] = so
    if method:
        kw["shuffle_method"] = method
    try:
        with dask.config.set(scheduler="sync"):
            if op == "drop_duplicates":
                keep = inp.get("keep", "first")
                got = d.drop_duplicates(subset=inp["subset"], keep=keep, **kw).compute()
                exp = df.drop_duplicates(subset=inp["subset"], keep=keep)
                cols = inp["subset"] or list(df.columns)
                same_keys = (sorted(map(repr, got[cols].itertuples(index=False))) == sorted(map(repr, exp[cols].itertuples(index=False))))
                same_rows = sorted(got.v) == sorted(exp.v)
                if not same_keys:
                    ctx.fail("drop_duplicates: set of distinct keys differs from pandas", observed=sorted(got.v)[:30], expected=sorted(exp.v)[:30])
                elif not same_rows:
                    # which duplicate survives depends on the row order inside the shuffled partition. The recorded
                    # finding is exactly: an explicit disk shuffle really in the graph (>= 2 input partitions, not the
                    # tree path), and the result is still ONE input row per distinct key (a legal choice in another
                    # order). Anything else is a fresh failure.
                    by_key = {}
                    for kk, v in zip(map(repr, df[cols].itertuples(index=False)), df.v):
                        by_key.setdefault(kk, set()).add(int(v))
                    legal = all(int(v) in by_key.get(kk, ()) for kk, v in zip(map(repr, got[cols].itertuples(index=False)), got.v)) \
                        and len(got) == len(exp)
                    shuffled = d.npartitions >= 2 and not (so == 1 and so is not True)
                    sig = ("drop_duplicates:shuffle_method=disk:keep-first/last-picks-by-arrival-order"
                           if method == "disk" and inp["subset"] and legal and shuffled else None)
                    ctx.fail("drop_duplicates(keep=%s) keeps a different duplicate than pandas" % keep, sig=sig,
                             observed=sorted(got.v)[:30], expected=sorted(exp.v)[:30])
            elif op == "unique":
                got = d.k.unique(**kw).compute()
                exp = pd.Series(df.k.unique())
                if sorted(map(repr, got)) != sorted(map(repr, exp)):
                    ctx.fail("unique differs from pandas", observed=sorted(map(repr, got)), expected=sorted(map(repr, exp)))
            else:
                got = d.k.nunique(**({"split_every": inp.get("split_every")} if inp.get("split_every") else {})).compute()
                exp = df.k.nunique()
                if int(got) != int(exp):
                    ctx.fail("nunique differs from pandas", observed=int(got), expected=int(exp))
    except Exception as e:  # noqa: BLE001
        ctx.fail(f"{op} raised: " + U.exc_name(e), observed=U.exc_name(e))
        return
    ctx.branch(f"{op}-split{so}-{method or 'default'}")


CASES = {"sort_history": case_sort_history, "shuffle_group": case_shuffle_group, "task_layer": case_task_layer, "spp": case_spp,
         "shuffle_api": case_shuffle_api, "task_expr": case_task_expr, "presorted_fn": case_presorted_fn,
         "sort_model": case_sort_model, "dedup_fn": case_dedup_fn, "dedup_model": case_dedup_model,
         "sort_api": case_sort_api, "dedup_api": case_dedup_api}


def _rand_keys(rng, n, kind):
    hi = rng.choice([2, 5, 12, 40])
    ks = [rng.randint(0, hi) for _ in range(n)]
    if kind in ("float", "str") and rng.random() < 0.4:
        ks = [None if rng.random() < 0.2 else k for k in ks]
    return ks


def _interleave(gens):
    """weighted round robin over the streams, so that a deadline cuts all of them proportionally"""
    gens = [(iter(g), w) for g, w in gens]
    while gens:
        for g, w in list(gens):
            for _ in range(w):
                try:
                    yield next(g)
                except StopIteration:
                    gens = [x for x in gens if x[0] is not g]
                    break


def _gen_layer(ctx):
    rng = ctx.rng
    # stage/nsplits float glue + wiring
    pairs = [(n, mb) for n in range(2, 401) for mb in range(2, 33)] if ctx.thorough() else []
    for n, mb in pairs:
        p = _stage_params(n, n, mb)
        if p and p[0] ** p[1] < n:
            yield "task_layer", {"n_in": n, "n_out": n, "max_branch": mb}
    for _ in range(ctx.n(30, 300)):
        mb = rng.choice([2, 2, 3, 4, 5])
        n_in = rng.randint(2, 30 if mb > 2 else 20)
        n_out = n_in if rng.random() < 0.5 else rng.randint(2, 30)
        yield "task_layer", {"n_in": n_in, "n_out": n_out, "max_branch": mb}


def _gen_group(ctx):
    rng = ctx.rng
    for _ in range(ctx.n(300, 4000)):
        k = rng.randint(1, 6)
        stage = rng.randint(0, 3)
        npart = rng.randint(1, 60)
        hashing = rng.random() < 0.3
        nfinal = rng.choice([0, npart, rng.randint(1, 70)])
        n = rng.randint(0, 12)
        vals = [rng.randint(0, 200) for _ in range(n)] if not hashing else [rng.randint(0, 8) for _ in range(n)]
        if not hashing and rng.random() < 0.1:
            vals = [v * 1000003 for v in vals]
        yield "shuffle_group", {"vals": vals, "stage": stage, "k": k, "npartitions": npart, "nfinal": nfinal, "hashing": hashing}


def _sorted_lists(length, hi):
    """all non-decreasing lists of `length` values in 0..hi"""
    def rec(prefix, lo):
        if len(prefix) == length:
            yield list(prefix)
            return
        for v in range(lo, hi + 1):
            yield from rec(prefix + [v], v)
    yield from rec([], 0)


def _gen_spp(ctx):
    rng = ctx.rng
    if ctx.thorough():
        # exhaustive small space: every non-decreasing division vector of 2..4 entries over 0..4, every value 0..5
        # and NaN, both directions, both na_position
        for nd in (2, 3, 4):
            for divs in _sorted_lists(nd, 4):
                for asc in (True, False):
                    for nal in (True, False):
                        yield "spp", {"divs": divs, "xs": [None, 0, 1, 2, 3, 4, 5], "ascending": asc, "na_last": nal}
    for _ in range(ctx.n(300, 3000)):
        nd = rng.randint(2, 7)
        divs = sorted(rng.randint(0, 20) for _ in range(nd))
        xs = [None if rng.random() < 0.1 else rng.randint(0, 22) for _ in range(rng.randint(1, 10))]
        yield "spp", {"divs": divs, "xs": xs, "ascending": rng.random() < 0.7, "na_last": rng.random() < 0.6}


def _gen_shuffle_api(ctx):
    rng = ctx.rng
    for _ in range(ctx.n(100, 1000)):
        kind = rng.choice(["int", "int", "str", "float", "cat"])
        n = rng.randint(1, 50)
        mb = rng.choice([None, 2, 2, 3])
        n_in = rng.randint(1, 12)
        yield "shuffle_api", {"keys": _rand_keys(rng, n, kind), "kind": kind, "n_in": n_in,
                              "n_out": rng.choice([None, None, rng.randint(1, 14)]), "method": rng.choice(["tasks", "tasks", "disk"]),
                              "max_branch": mb, "on": rng.choice([["k"], ["k"], ["k", "k2"]]),
                              "sel": [rng.randint(0, 13) for _ in range(rng.randint(1, 6))] if rng.random() < 0.3 else None}


def _gen_task_expr(ctx):
    rng = ctx.rng
    for _ in range(ctx.n(50, 600)):
        mb = rng.choice([2, 2, 3])
        n_in = rng.randint(1, 10)
        n_out = n_in if rng.random() < 0.4 else rng.randint(1, 12)
        invalid = rng.random() < 0.25
        parts = []
        for _p in range(n_in):
            ln = 0 if rng.random() < 0.2 else rng.randint(1, 5)
            parts.append([rng.randrange(n_out + (6 if invalid else 0)) for _r in range(ln)])
        sel = None
        if rng.random() < 0.3:
            sel = sorted(rng.sample(range(n_out), rng.randint(1, n_out)))
        yield "task_expr", {"parts": parts, "n_out": n_out, "max_branch": mb, "sel": sel}


def _ordered_keys(rng, n, hi):
    return sorted(rng.randint(0, hi) for _ in range(n))


def _gen_presorted(ctx):
    rng = ctx.rng
    for _ in range(ctx.n(40, 500)):
        n = rng.randint(1, 14)
        asc = rng.random() < 0.6
        keys = _ordered_keys(rng, n, rng.choice([2, 4, 9]))
        if not asc:
            keys.reverse()
        r = rng.random()
        if r < 0.25 and n >= 2:                       # one inversion somewhere
            i, j = rng.sample(range(n), 2)
            keys[i], keys[j] = keys[j], keys[i]
        elif r < 0.35:                                # the other direction altogether
            keys.reverse()
        if rng.random() < 0.3:
            for _k in range(rng.randint(1, 2)):
                keys[rng.randrange(n)] = None
        if all(k is None for k in keys):
            keys[0] = 1
        yield "presorted_fn", {"keys": keys, "cuts": U.rand_cuts(rng, n, maxparts=5, p_empty=0.3), "ascending": asc}


def _gen_sort_model(ctx):
    rng = ctx.rng
    for _ in range(ctx.n(50, 500)):
        n = rng.randint(1, 30)
        hi = rng.choice([3, 8, 20])
        op = "sort_values" if rng.random() < 0.7 else "set_index"
        asc = rng.random() < 0.6
        if rng.random() < 0.3:
            keys = _ordered_keys(rng, n, hi)
            if not asc and op == "sort_values":
                keys.reverse()
        else:
            keys = [rng.randint(0, hi) for _ in range(n)]
        if op == "sort_values" and rng.random() < 0.35:
            for _k in range(rng.randint(1, 3)):
                keys[rng.randrange(n)] = None
            if all(k is None for k in keys):
                keys[0] = 1
        inp = {"keys": keys, "cuts": U.rand_cuts(rng, n, maxparts=6, p_empty=0.25), "op": op, "ascending": asc,
               "na_position": rng.choice(["last", "first"]), "method": rng.choice(["tasks", "tasks", "disk", None]),
               "max_branch": rng.choice([None, 2, 2, 3])}
        if op == "set_index":
            nd = rng.randint(2, 6)
            lo, top = (0, hi) if rng.random() < 0.5 else (rng.randint(0, 3), hi - rng.randint(0, 2) + 2)
            vals = sorted(rng.sample(range(lo, max(top, lo + nd) + 1), nd))
            if rng.random() < 0.5:
                vals[0] = min(vals[0], 0)
                vals[-1] = max(vals[-1], hi)
            inp["divisions"] = vals
        yield "sort_model", inp


def _gen_dedup_fn(ctx):
    rng = ctx.rng
    if ctx.thorough():
        # exhaustive small space: every key sequence of length <= 6 over 3 letters, both `keep`
        import itertools
        for ln in range(0, 7):
            for keys in itertools.product(range(3), repeat=ln):
                for keep in ("first", "last"):
                    yield "dedup_fn", {"keys": list(keys), "keep": keep}
    for _ in range(ctx.n(150, 1000)):
        hi = rng.choice([1, 3, 8])
        yield "dedup_fn", {"keys": [rng.randint(0, hi) for _ in range(rng.randint(0, 14))], "keep": rng.choice(["first", "last"])}


def _gen_dedup_model(ctx):
    rng = ctx.rng
    # more than 32 partitions: the shuffle inside drop_duplicates is staged (max_branch cannot be passed here)
    for _ in range(ctx.n(1, 8)):
        n = rng.randint(70, 90)
        keys = [rng.randint(0, 25) for _ in range(n)]
        cuts = [0] + sorted(rng.sample(range(1, n), rng.randint(33, 38))) + [n]
        yield "dedup_model", {"keys": keys, "cuts": cuts, "keep": rng.choice(["first", "last"]), "split_out": True, "method": "tasks"}
    for _ in range(ctx.n(40, 400)):
        n = rng.randint(1, 30)
        hi = rng.choice([2, 5, 12])
        yield "dedup_model", {"keys": [rng.randint(0, hi) for _ in range(n)], "cuts": U.rand_cuts(rng, n, maxparts=6, p_empty=0.25),
                              "keep": rng.choice(["first", "last"]), "split_out": rng.choice([None, 1, 2, 3, 5, True]),
                              "method": rng.choice([None, "tasks"])}


def _gen_sort_api(ctx):
    rng = ctx.rng
    for _ in range(ctx.n(50, 600)):
        kind = rng.choice(["int", "str", "float"])
        n = rng.randint(1, 40)
        keys = _rand_keys(rng, n, kind)
        if kind == "str":
            keys = [k if k is not None else 0 for k in keys]    # null strings: dask rejects / limited support (documented)
        inp = {"keys": keys, "kind": kind, "n_in": rng.randint(1, 6),
               "op": rng.choice(["sort_values", "set_index"]), "ascending": rng.random() < 0.6,
               "na_position": rng.choice(["last", "first"]), "n_out": rng.choice([None, None, rng.randint(1, 6)]),
               "method": rng.choice([None, "tasks", "disk"])}
        if inp["op"] == "sort_values" and rng.random() < 0.35:
            # several sort columns (routing uses the first one only), optionally with one direction per column
            inp["by"] = ["k", "k3"]
            if rng.random() < 0.5:
                inp["ascending"] = [rng.random() < 0.5, rng.random() < 0.5]
        yield "sort_api", inp


def _gen_sort_presorted_api(ctx):
    rng = ctx.rng
    # frames ALREADY ordered by the key (no shuffle needed unless equal keys straddle a partition boundary or NaN keys
    # sit inside a partition): the "presorted" shortcut of _calculate_divisions
    for _ in range(ctx.n(40, 500)):
        kind = rng.choice(["int", "int", "float"])
        n = rng.randint(2, 30)
        keys = sorted(rng.randint(0, rng.choice([3, 6, 15])) for _ in range(n))
        asc = rng.random() < 0.75
        if not asc:
            keys.reverse()
        if kind == "float" and rng.random() < 0.6:
            for _k in range(rng.randint(1, 3)):
                keys[rng.randrange(n)] = None
        yield "sort_api", {"keys": keys, "kind": kind, "n_in": rng.randint(2, 6), "presorted": True,
                           "op": rng.choice(["sort_values", "sort_values", "set_index"]), "ascending": asc,
                           "na_position": rng.choice(["last", "first"]), "n_out": None,
                           "by": rng.choice([["k"], ["k", "k3"]]), "method": rng.choice([None, "tasks"])}


def _gen_sort_history(ctx):
    rng = ctx.rng
    # one frame, several calls: the key column is (often) strictly ordered ACROSS the partitions in one direction, so that
    # one direction takes the presorted shortcut and the other must shuffle
    for _ in range(ctx.n(40, 600)):
        nparts = rng.randint(2, 5)
        order = rng.choice(["asc", "asc", "desc", "desc", "none"])
        blocks, lo = [], 0
        for _b in range(nparts):
            m = rng.randint(1, 5)
            vals = [lo + rng.randint(0, 6) for _ in range(m)]
            lo = max(vals) + rng.randint(1, 3)
            vals.sort(reverse=(order == "desc"))
            if rng.random() < 0.3:
                rng.shuffle(vals)
            blocks.append(vals)
        if order == "desc":
            blocks.reverse()
        if order == "none":
            flat = [v for b in blocks for v in b]
            rng.shuffle(flat)
            sizes = [len(b) for b in blocks]
            blocks, pos = [], 0
            for m in sizes:
                blocks.append(flat[pos:pos + m])
                pos += m
        keys = [v for b in blocks for v in b]
        cuts = [0]
        for b in blocks:
            cuts.append(cuts[-1] + len(b))
        steps = []
        for _k in range(rng.choice([2, 2, 3, 4])):
            if rng.random() < 0.7:
                steps.append({"op": "sort_values", "ascending": rng.random() < 0.5})
            else:
                steps.append({"op": "set_index"})
            if rng.random() < 0.25:
                steps[-1]["n_out"] = rng.randint(1, 5)
            if rng.random() < 0.3:
                steps[-1]["method"] = "tasks"
        # make sure both directions occur often
        if rng.random() < 0.6 and steps[0]["op"] == "sort_values":
            steps[1] = {"op": "sort_values", "ascending": not steps[0]["ascending"]}
        yield "sort_history", {"keys": keys, "cuts": cuts, "steps": steps, "order": order}


def _gen_dedup_api(ctx):
    rng = ctx.rng
    for _ in range(ctx.n(50, 600)):
        kind = rng.choice(["int", "str", "float", "cat"])
        n = rng.randint(1, 40)
        yield "dedup_api", {"keys": _rand_keys(rng, n, kind), "kind": kind, "n_in": rng.randint(1, 6),
                            "op": rng.choice(["drop_duplicates", "drop_duplicates", "unique", "nunique"]),
                            "split_out": rng.choice([None, 1, 2, 3, True]), "method": rng.choice([None, "tasks", "disk"]),
                            "subset": rng.choice([None, ["k"], ["k", "k2"]]), "keep": rng.choice(["first", "last"])}


def generate(ctx):
    # the cheap function-level streams (with the exhaustive small spaces at their head) get a larger share, so that
    # the exhaustive parts finish well inside the thorough budget
    t = ctx.thorough()
    yield from _interleave([(_gen_layer(ctx), 1), (_gen_group(ctx), 8 if t else 6), (_gen_spp(ctx), 8 if t else 6),
                            (_gen_shuffle_api(ctx), 2),
                            (_gen_task_expr(ctx), 1), (_gen_presorted(ctx), 1), (_gen_sort_model(ctx), 1),
                            (_gen_dedup_fn(ctx), 20 if t else 3), (_gen_dedup_model(ctx), 1), (_gen_sort_api(ctx), 1),
                            (_gen_sort_presorted_api(ctx), 1), (_gen_dedup_api(ctx), 1), (_gen_sort_history(ctx), 1)])
