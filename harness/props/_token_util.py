"""Helpers shared by the `token` group (C11–C15).

Value *specs* are JSON-able descriptions of Python values (inputs of cases must be JSON-able):

  ["int", 5] ["bool", true] ["float", "1.5"] ["str", "a"] ["bytes", [1, 2]] ["none"]
  ["list", [spec…]] ["tuple", [spec…]] ["set", [spec…]] ["dict", [[kspec, vspec]…]]
  ["nd", dtype_str, [base values…], [op…]]   1-d base array + view ops:
        ["reshape", [..]] ["T"] ["transpose", [axes]] ["slice", [[start, stop, step]|int|null…]]
        ["bcast", [..]] ["copy", "C"|"F"|"K"] ["view", dtype] ["newaxis", axis] ["squeeze"]
  ["obj", [shape…], [str | ["bytes", [..]] | ["none"] …]]   object array

`build(spec)` makes the Python value, `enc(obj, table)` the s-expression for the Lean driver
(`Val` of Model/NormalForm.lean), `resolve(pre, table)` replaces digest placeholders of the model's
pre-image string by real digests, `obs_eq(a, b)` is the independent structural equality oracle.
"""
from __future__ import annotations

import hashlib
import math
import re

from sexp import Sym


class Unsupported(Exception):
    pass


# ----------------------------------------------------------------------------------------------
# specs -> python values
# ----------------------------------------------------------------------------------------------

def build(spec):
    t = spec[0]
    if t == "int":
        return int(spec[1])
    if t == "bool":
        return bool(spec[1])
    if t == "float":
        return float(spec[1])
    if t == "str":
        return spec[1]
    if t == "bytes":
        return bytes(spec[1])
    if t == "none":
        return None
    if t == "list":
        return [build(s) for s in spec[1]]
    if t == "tuple":
        return tuple(build(s) for s in spec[1])
    if t == "set":
        return {build(s) for s in spec[1]}
    if t == "dict":
        return {build(k): build(v) for k, v in spec[1]}
    if t == "nd":
        return build_nd(spec)
    if t in _IDENTITY_BUILDERS:
        return _IDENTITY_BUILDERS[t](*spec[1:])
    if t == "obj":
        import numpy as np
        a = np.empty(len(spec[2]), dtype=object)
        for i, e in enumerate(spec[2]):
            a[i] = e if isinstance(e, str) else build(e)
        return a.reshape(spec[1])
    raise ValueError(f"bad spec {spec!r}")


def _mk_identity_builders():
    import datetime
    import decimal
    import pathlib
    return {
        "complex": lambda re, im: complex(float(re), float(im)),
        "slice": lambda a, b, c: slice(a, b, c),
        "ellipsis": lambda: Ellipsis,
        "decimal": lambda s: decimal.Decimal(s),
        "date": lambda y, m, d: datetime.date(y, m, d),
        "time": lambda h, m, sec, us: datetime.time(h, m, sec, us),
        "datetime": lambda y, m, d, h, mi, sec: datetime.datetime(y, m, d, h, mi, sec),
        "timedelta": lambda d, sec, us: datetime.timedelta(days=d, seconds=sec, microseconds=us),
        "path": lambda p: pathlib.PurePosixPath(p),
    }


# classes of dask.tokenize._IDENTITY_DISPATCH beyond int / float / str / bytes / None: their normal form is the value
# itself and it is printed with repr -> `Val.atom repr` in the model
_IDENTITY_BUILDERS = _mk_identity_builders()


def build_nd(spec):
    import numpy as np
    _, dtype, base, ops = spec
    if dtype[1] in "US":
        x = np.array(base, dtype=dtype).reshape(-1)
    else:
        x = np.array(base, dtype="i8" if dtype[1] != "b" else "?").reshape(-1).astype(dtype)
    for op in ops:
        k = op[0]
        if k == "reshape":
            x = x.reshape(op[1])
        elif k == "T":
            x = x.T
        elif k == "transpose":
            x = x.transpose(op[1])
        elif k == "slice":
            idx = tuple(slice(*i) if isinstance(i, list) else i for i in op[1])
            x = x[idx]
        elif k == "bcast":
            x = np.broadcast_to(x, op[1])
        elif k == "copy":
            x = x.copy(order=op[1])
        elif k == "view":
            x = x.view(op[1])
        elif k == "newaxis":
            x = np.expand_dims(x, op[1])
        elif k == "squeeze":
            x = x.squeeze()
        else:
            raise ValueError(op)
    return x


# ----------------------------------------------------------------------------------------------
# python values -> Lean `Val`
# ----------------------------------------------------------------------------------------------

class Table:
    """Interns array elements (their bytes) to small naturals, shared by all arrays of one case."""

    def __init__(self):
        self.codes = {}
        self.items = []

    def code(self, b: bytes) -> int:
        c = self.codes.get(b)
        if c is None:
            c = self.codes[b] = len(self.items)
            self.items.append(b)
        return c


def _root_memory(x):
    """(1-d view of the memory block that owns x's data, address of its first element) or None."""
    import numpy as np
    r = x
    while isinstance(r.base, np.ndarray):
        r = r.base
    if r.base is not None or r.size == 0:
        return None
    if r.flags.c_contiguous:
        mem = r.reshape(-1)
    elif r.flags.f_contiguous:
        mem = r.T.reshape(-1)
    else:
        return None
    if mem.dtype != x.dtype or not np.shares_memory(mem, r):
        return None
    return mem, r.__array_interface__["data"][0]


def enc_ndarray(x, table):
    import numpy as np
    if x.shape == ():
        return [Sym("arr0"), enc(x.item(), table), repr(x.dtype)]
    if x.dtype.hasobject:
        elems = list(x.flat)
        if all(type(e) is str for e in elems):
            return [Sym("objarr"), list(x.shape), [[ord(c) for c in e] for e in elems]]
        raise Unsupported("object array with non-str elements (pickle path)")
    isz = x.dtype.itemsize
    if isz == 0:
        raise Unsupported("zero itemsize")
    rm = _root_memory(x)
    if rm is not None and all(s % isz == 0 for s in x.strides):
        mem, addr = rm
        off = x.__array_interface__["data"][0] - addr
        if off % isz == 0:
            raw = mem.tobytes()
            buf = [table.code(raw[i * isz:(i + 1) * isz]) for i in range(mem.size)]
            return [Sym("ndarray"), repr(x.dtype), list(x.shape), [s // isz for s in x.strides], off // isz, buf]
    # fall back: describe a C-contiguous copy (the model's `logical` is then the identity)
    raw = np.ascontiguousarray(x).tobytes()
    buf = [table.code(raw[i * isz:(i + 1) * isz]) for i in range(x.size)]
    strides, acc = [], 1
    for n in reversed(x.shape):
        strides.append(acc)
        acc *= n
    return [Sym("ndarray"), repr(x.dtype), list(x.shape), strides[::-1], 0, buf]


def enc(obj, table):
    """Python value -> s-expression of `Val`."""
    t = type(obj)
    if t is bool:
        return [Sym("bool"), obj]
    if t is int:
        return [Sym("int"), obj]
    if t is float:
        return [Sym("float"), repr(obj)]
    if t is str:
        return [Sym("str"), obj]
    if t is bytes:
        return [Sym("bytes"), list(obj)]
    if obj is None:
        return [Sym("none")]
    import datetime
    import decimal
    import pathlib
    if t in (complex, slice, type(Ellipsis), decimal.Decimal, datetime.date, datetime.time, datetime.datetime,
             datetime.timedelta, pathlib.PurePosixPath):
        if t is slice and not all(type(x) in (int, type(None)) for x in (obj.start, obj.stop, obj.step)):
            raise Unsupported("slice of non-int members")
        return [Sym("atom"), repr(obj)]
    if t is list:
        return [Sym("list")] + [enc(e, table) for e in obj]
    if t is tuple:
        return [Sym("tuple")] + [enc(e, table) for e in obj]
    if t is set:
        return [Sym("set")] + [enc(e, table) for e in obj]   # iteration order: exactly what dask sees
    if t is dict:
        return [Sym("dict")] + [[enc(k, table), enc(v, table)] for k, v in obj.items()]
    try:
        import numpy as np
    except ImportError:  # pragma: no cover
        np = None
    if np is not None and t is np.ndarray:
        return enc_ndarray(obj, table)
    raise Unsupported(f"{t.__name__} is outside the modelled universe")


# innermost placeholder: \x01 <kind> <content without nested placeholders> \x02
_PLACEHOLDER = re.compile("\x01([HDSP])([^\x01\x02]*)\x02")


def _digest(b: bytes) -> str:
    import dask.hashing as dh
    if len(dh.hashers) == 1 and dh.hashers[0].__name__ == "_hash_sha1":
        return hashlib.sha1(b).hexdigest()
    return dh.hash_buffer_hex(b)


def _pickled(kind: str, payload: str, table) -> str:
    """`pik` of `_normalize_pickle(obj)`: digest of the pickle of the object the model describes."""
    import ast
    import pickle
    if kind == "TaskRef":
        from dask._task_spec import TaskRef
        obj = TaskRef(ast.literal_eval(payload))
    elif kind == "func":
        obj = FUNCS[int(payload)]
    else:
        raise ValueError(kind)
    return _digest(pickle.dumps(obj, protocol=5))


def resolve(pre: str, table) -> str:
    """Replace the model's placeholders (innermost first) by what the real code computes from them:
    H digest of a byte string, D md5 token of a pre-image, S sorted list of tokens, P pickle digest."""
    def sub(m):
        kind, body = m.group(1), m.group(2)
        if kind == "H":
            tag, _, rest = body.partition(":")
            payload = [int(c) for c in rest.split(",")] if rest else []
            if tag == "0":
                b = b"".join(table.items[c] for c in payload)
            elif tag == "1":
                b = "".join(chr(c) for c in payload).encode("utf-8", "surrogatepass")
            elif tag == "2":
                b = b"".join(int(c).to_bytes(8, "little", signed=True) for c in payload)
            elif tag == "3":
                b = bytes(payload)      # the bytes themselves (a bool array: the mask of a nullable pandas array)
            else:
                raise ValueError(tag)
            return _digest(b)
        if kind == "D":
            return hashlib.md5(body.encode(), usedforsecurity=False).hexdigest()
        if kind == "S":
            return "[" + ", ".join(sorted(body.split("\x03") if body else [])) + "]"
        k, _, payload = body.partition(":")
        return _pickled(k, payload, table)
    while True:
        new = _PLACEHOLDER.sub(sub, pre)
        if new == pre:
            return new
        pre = new


def model_token(ctx, values, kwargs=None):
    """(token, pre-image) according to the Lean model, or raises Unsupported."""
    table = Table()
    encs = [enc(v, table) for v in values]
    if kwargs:
        pre = ctx.lean(Sym("tokprekw"), encs, [[k, enc(v, table)] for k, v in kwargs.items()])
    else:
        pre = ctx.lean(Sym("tokpre"), *encs)
    if not isinstance(pre, str) or isinstance(pre, Sym):
        raise RuntimeError(f"model answered {pre!r}")
    pre = resolve(pre, table)
    return hashlib.md5(pre.encode(), usedforsecurity=False).hexdigest(), pre


# ----------------------------------------------------------------------------------------------
# recursive containers (C12): ["v", valspec] | ["back", up] | ["rlist", […]] | ["rtuple", […]] | ["rdict", [[keyspec, r]…]]
# `up` counts the enclosing list / tuple / dict frames (0 = innermost) and must point to a list or dict
# ----------------------------------------------------------------------------------------------

def build_rec(spec, stack=None):
    stack = [] if stack is None else stack
    t = spec[0]
    if t == "v":
        return build(spec[1])
    if t == "back":
        target = stack[-1 - spec[1]]
        if target is None:
            raise ValueError("reference to a tuple under construction")
        return target
    if t == "rlist":
        out = []
        stack.append(out)
        for s in spec[1]:
            out.append(build_rec(s, stack))
        stack.pop()
        return out
    if t == "rtuple":
        stack.append(None)
        out = tuple(build_rec(s, stack) for s in spec[1])
        stack.pop()
        return out
    if t == "rdict":
        out = {}
        stack.append(out)
        for k, v in spec[1]:
            out[build(k)] = build_rec(v, stack)
        stack.pop()
        return out
    raise ValueError(spec)


def enc_rec(spec, table):
    t = spec[0]
    if t == "v":
        return [Sym("rval"), enc(build(spec[1]), table)]
    if t == "back":
        return [Sym("back"), spec[1]]
    if t in ("rlist", "rtuple"):
        return [Sym(t)] + [enc_rec(s, table) for s in spec[1]]
    # the model needs the items in the order the real dict iterates them: insertion order of the spec (keys distinct)
    return [Sym("rdict")] + [[enc(build(k), table), enc_rec(v, table)] for k, v in spec[1]]


def gen_rec(rng, depth=0, kinds=()):
    """random recursive value; `kinds` = kinds of the enclosing frames, innermost last"""
    r = rng.random()
    targets = [i for i, k in enumerate(reversed(kinds)) if k in ("rlist", "rdict")]
    if targets and r < 0.3:
        return ["back", rng.choice(targets)]
    if depth >= 3 or r < 0.5:
        return ["v", gen_value(rng, 2, arrays=False)]
    k = rng.choice(["rlist", "rlist", "rtuple", "rdict"])
    if k == "rdict":
        keys = distinct_hashables(rng, rng.randint(1, 3))
        return ["rdict", [[kk, gen_rec(rng, depth + 1, kinds + (k,))] for kk in keys]]
    return [k, [gen_rec(rng, depth + 1, kinds + (k,)) for _ in range(rng.randint(1, 3))]]


def has_back(spec):
    if spec[0] == "back":
        return True
    if spec[0] in ("rlist", "rtuple"):
        return any(has_back(s) for s in spec[1])
    if spec[0] == "rdict":
        return any(has_back(v) for _, v in spec[1])
    return False


# ----------------------------------------------------------------------------------------------
# task-spec nodes (C11)
# ----------------------------------------------------------------------------------------------

def f_call(*args, **kwargs):
    return ("call", 0, args, tuple(sorted(kwargs.items())))


def g_call(*args, **kwargs):
    return ("call", 1, args, tuple(sorted(kwargs.items())))


def h_call(*args, **kwargs):
    return ("call", 2, args, tuple(sorted(kwargs.items())))


FUNCS = [f_call, g_call, h_call]


def build_node(spec):
    """Node spec -> real dask object.
    ["lit", valspec] ["ref", keyspec] ["alias", keyspec, targetspec] ["data", valspec]
    ["task", findex, [argspec…], [[name, argspec]…]] ["List"|"Tuple"|"Set", [argspec…]] ["Dict", [[k, v]…]]"""
    from dask import _task_spec as ts
    t = spec[0]
    if t == "lit":
        return build(spec[1])
    if t == "ref":
        return ts.TaskRef(build(spec[1]))
    if t == "alias":
        return ts.Alias(build(spec[1]), build(spec[2]))
    if t == "data":
        return ts.DataNode(spec[2] if len(spec) > 2 else "dkey", build(spec[1]))
    if t == "task":
        return ts.Task(spec[4] if len(spec) > 4 else "tkey", FUNCS[spec[1]], *[build_node(a) for a in spec[2]],
                       **{k: build_node(v) for k, v in spec[3]})
    if t in ("List", "Tuple", "Set"):
        cls = getattr(ts, t)
        args = [build_node(a) for a in spec[1]]
        if len(args) == 1 and isinstance(args[0], cls.klass) and t != "Set":
            return cls(cls.klass([args[0]]))   # the constructor unpacks a single argument of its own class
        return cls(*args)
    if t == "Dict":
        flat = []
        for k, v in spec[1]:
            flat += [build_node(k), build_node(v)]
        return ts.Dict(*flat)
    raise ValueError(spec)


def enc_node(obj, table):
    """real dask node / argument -> s-expression of the Lean `Node` (reads what the object really holds)."""
    from dask import _task_spec as ts
    if isinstance(obj, ts.Dict):
        a = obj.args
        return [Sym("dict"), [[enc_node(a[i], table), enc_node(a[i + 1], table)] for i in range(0, len(a), 2)]]
    if isinstance(obj, ts.NestedContainer):
        kind = {"List": "list", "Tuple": "tuple", "Set": "set"}[type(obj).__name__]
        return [Sym("cont"), Sym(kind), [enc_node(a, table) for a in obj.args]]
    if isinstance(obj, ts.Task):
        if type(obj) is not ts.Task:
            raise Unsupported(type(obj).__name__)
        if obj.func not in FUNCS:
            raise Unsupported("task with a function outside the modelled family (e.g. a fused subgraph)")
        return [Sym("task"), FUNCS.index(obj.func), [enc_node(a, table) for a in obj.args],
                [[k, enc_node(v, table)] for k, v in obj.kwargs.items()]]
    if isinstance(obj, ts.Alias):
        return [Sym("alias"), enc(obj.key, table), enc(obj.target, table)]
    if isinstance(obj, ts.DataNode):
        return [Sym("data"), enc(obj.value, table)]
    if isinstance(obj, ts.TaskRef):
        return [Sym("ref"), enc(obj.key, table)]
    return [Sym("lit"), enc(obj, table)]


def model_node_token(ctx, obj):
    table = Table()
    pre = ctx.lean(Sym("nodepre"), enc_node(obj, table))
    if not isinstance(pre, str) or isinstance(pre, Sym):
        raise RuntimeError(f"model answered {pre!r}")
    pre = resolve(pre, table)
    return hashlib.md5(pre.encode(), usedforsecurity=False).hexdigest(), pre


def canon_repr(v) -> str:
    """repr with set elements / dict items in a canonical order (sets sorted by repr, dicts by insertion)."""
    if isinstance(v, (set, frozenset)):
        items = sorted(canon_repr(e) for e in v)
        return "{" + ", ".join(items) + "}" if items else "set()"
    if isinstance(v, list):
        return "[" + ", ".join(canon_repr(e) for e in v) + "]"
    if isinstance(v, tuple):
        return "(" + ", ".join(canon_repr(e) for e in v) + ("," if len(v) == 1 else "") + ")"
    if isinstance(v, dict):
        return "{" + ", ".join(sorted(canon_repr(k) + ": " + canon_repr(x) for k, x in v.items())) + "}"
    return repr(v)


# ----------------------------------------------------------------------------------------------
# independent structural equality oracle
# ----------------------------------------------------------------------------------------------

def obs_eq(a, b) -> bool:
    """Type-aware structural equality: 1 != True != 1.0, list != tuple, 0.0 != -0.0, nan == nan,
    dict/set irrespective of order, arrays equal iff dtype, shape and all logical elements agree."""
    if type(a) is not type(b):
        return False
    if isinstance(a, float):
        return repr(a) == repr(b)
    if isinstance(a, (list, tuple)):
        return len(a) == len(b) and all(obs_eq(x, y) for x, y in zip(a, b))
    if isinstance(a, dict):
        if len(a) != len(b):
            return False
        rest = list(b.items())
        for k, v in a.items():
            for i, (k2, v2) in enumerate(rest):
                if obs_eq(k, k2) and obs_eq(v, v2):
                    del rest[i]
                    break
            else:
                return False
        return True
    if isinstance(a, (set, frozenset)):
        if len(a) != len(b):
            return False
        rest = list(b)
        for x in a:
            for i, y in enumerate(rest):
                if obs_eq(x, y):
                    del rest[i]
                    break
            else:
                return False
        return True
    try:
        import numpy as np
    except ImportError:  # pragma: no cover
        np = None
    if np is not None and isinstance(a, np.ndarray):
        if a.dtype != b.dtype or a.shape != b.shape:
            return False
        if a.dtype.hasobject:
            return all(obs_eq(x, y) for x, y in zip(a.flat, b.flat))
        return a.tobytes() == b.tobytes()
    import decimal
    if isinstance(a, (decimal.Decimal, complex)):
        return repr(a) == repr(b)          # Decimal('1.5') / Decimal('1.50'), 0j / -0j are observably different
    return a == b


# ----------------------------------------------------------------------------------------------
# generators
# ----------------------------------------------------------------------------------------------

# characters the Lean `pyReprStr` models (ASCII incl. control characters except \x01 \x02 which the
# placeholder protocol uses, plus a few printable non-ASCII code points)
CHARS = "ab'\"\\ -,()[]:1Tn\t\n\r\x00\x1f\x7fé日λ"


def gen_str(rng, maxlen=4):
    r = rng.random()
    if r < 0.25:
        return rng.choice(["", "a", "1", "True", "None", "a', 'b", "('list', (1,))", "a-b", "list", "tuple",
                           "dict", "set", "__seen", "b'a'", "1.0", "(1,)", "[1]", "a\\", "\\'", "'", '"', "'\""])
    return "".join(rng.choice(CHARS) for _ in range(rng.randint(0, maxlen)))


def gen_identity(rng):
    k = rng.randrange(9)
    if k == 0:
        return ["complex", rng.choice(["0.0", "1.0", "-0.0", "1.5"]), rng.choice(["0.0", "2.0", "-1.0"])]
    if k == 1:
        return ["slice", rng.choice([None, 0, 1]), rng.choice([None, 2, 5]), rng.choice([None, 1, 2, -1])]
    if k == 2:
        return ["ellipsis"]
    if k == 3:
        return ["decimal", rng.choice(["1.5", "1.50", "0", "-0", "1E+2", "100"])]
    if k == 4:
        return ["date", 2000 + rng.randint(0, 2), rng.randint(1, 3), rng.randint(1, 3)]
    if k == 5:
        return ["time", rng.randint(0, 2), rng.randint(0, 2), rng.randint(0, 1), rng.choice([0, 5])]
    if k == 6:
        return ["datetime", 2000 + rng.randint(0, 1), 1, rng.randint(1, 2), rng.randint(0, 1), 0, rng.randint(0, 1)]
    if k == 7:
        return ["timedelta", rng.randint(0, 1), rng.randint(0, 2), rng.choice([0, 1])]
    return ["path", rng.choice(["a", "a/b", "a/b/", "/a", "b"])]


def gen_scalar(rng, identity=True):
    r = rng.random()
    if r < 0.08 and identity:
        return gen_identity(rng)
    if r < 0.3:
        return ["int", rng.choice([0, 1, -1, 2, 10, 255, -7, 2 ** 64, rng.randint(-5, 5)])]
    if r < 0.4:
        return ["bool", rng.random() < 0.5]
    if r < 0.55:
        return ["float", rng.choice(["0.0", "-0.0", "1.0", "1.5", "nan", "inf", "-inf", "1e+22", "0.1", "-2.5", "1e-07"])]
    if r < 0.8:
        return ["str", gen_str(rng)]
    if r < 0.92:
        return ["bytes", [rng.choice([0, 39, 34, 92, 97, 45, 255, 127, 10, 9, 13, 65]) for _ in range(rng.randint(0, 3))]]
    return ["none"]


def gen_hashable(rng, depth=0):
    if depth < 2 and rng.random() < 0.2:
        return ["tuple", [gen_hashable(rng, depth + 1) for _ in range(rng.randint(0, 3))]]
    # dict keys / set elements: the model sorts them by (str, type name), which an opaque `atom` does not carry
    return gen_scalar(rng, identity=False)


def spec_key(spec):
    """canonical identity of a hashable spec under Python `==`/`hash` (1 == True == 1.0)."""
    v = build(spec)
    try:
        if isinstance(v, float) and v != v:
            return ("nan", id(spec))
        return ("v", v, hash(v))
    except TypeError:
        return ("u", repr(spec))


def distinct_hashables(rng, n, tricky=False):
    out, seen = [], []
    pool = [["int", 1], ["str", "1"], ["bool", True], ["float", "1.0"], ["str", "True"], ["str", "1.0"], ["int", 0],
            ["str", "0"], ["bytes", [97]], ["str", "b'a'"], ["tuple", [["str", "a"]]], ["str", "('a',)"],
            ["none"], ["str", "None"], ["int", 10], ["str", "10"], ["float", "10.0"]]
    tries = 0
    while len(out) < n and tries < 50:
        tries += 1
        s = rng.choice(pool) if tricky and rng.random() < 0.7 else gen_hashable(rng)
        v = build(s)
        if isinstance(v, float) and v != v:
            continue
        if any(v == w and hash(v) == hash(w) for w in seen):
            continue
        seen.append(v)
        out.append(s)
    return out


DTYPES = ["<i8", "<i4", "<i2", "|i1", "|u1", "<f8", "<f4", ">i4", "|b1", "<c8", "<U1", "|S2", "<M8[ns]"]


def gen_nd(rng, maxsize=12):
    dtype = rng.choice(DTYPES)
    shape = rng.choice([[2, 3], [3, 2], [6], [2, 2], [4], [2, 3, 2], [1, 4], [3], [0], [2, 0], [1], [3, 4], [2, 2, 3], []])
    n = 1
    for s in shape:
        n *= s
    base = _base_values(rng, dtype, max(n, 1) if shape == [] else n)
    ops = [["reshape", shape]]
    for _ in range(rng.choice([0, 0, 1, 1, 2, 3])):
        ops.append(gen_view_op(rng, ops))
    return ["nd", dtype, base, ops]


def _base_values(rng, dtype, n):
    if dtype in ("<U1",):
        return [rng.choice("abc-") for _ in range(n)]
    if dtype in ("|S2",):
        return [rng.choice(["a", "ab", "-", "b"]) for _ in range(n)]
    if dtype == "|b1":
        return [rng.random() < 0.5 for _ in range(n)]
    if rng.random() < 0.5:
        return list(range(n))
    return [rng.randint(0, 3) for _ in range(n)]


def _shape_after(spec_ops, dtype="<i8"):
    import numpy as np
    x = build_nd(["nd", "<i8", list(range(_count(spec_ops))), [o for o in spec_ops if o[0] != "view"]])
    return list(x.shape)


def _count(ops):
    n = 1
    for s in ops[0][1]:
        n *= s
    return n


def gen_view_op(rng, ops):
    shape = _shape_after(ops)
    nd = len(shape)
    r = rng.random()
    if nd == 0:
        return ["copy", "C"]
    if r < 0.25:
        return ["T"]
    if r < 0.4 and nd >= 2:
        ax = list(range(nd))
        rng.shuffle(ax)
        return ["transpose", ax]
    if r < 0.75:
        idx = []
        for n in shape:
            c = rng.random()
            if c < 0.35:
                idx.append([None, None, None])
            elif c < 0.6:
                idx.append([None, None, -1])
            elif c < 0.8:
                idx.append([rng.choice([None, 0, 1]), None, rng.choice([2, -2, 3])])
            elif c < 0.9 and n > 0 and nd > 1:
                idx.append(rng.randrange(n))
            else:
                idx.append([rng.choice([0, 1]), rng.choice([None, n, max(n - 1, 0)]), None])
        return ["slice", idx]
    if r < 0.85:
        return ["copy", rng.choice(["C", "F", "K"])]
    if r < 0.93:
        return ["newaxis", rng.randint(0, nd)]
    return ["bcast", [rng.choice([1, 2])] + shape]


def gen_obj(rng):
    n = rng.choice([1, 2, 2, 3, 4])
    elems = [rng.choice(["a", "b", "a-b", "-", "", "b-c", "c", "a-", "-b", "é", "ab"]) for _ in range(n)]
    shape = rng.choice([[n]] + ([[2, 2]] if n == 4 else []) + ([[1, n]] if n > 1 else []))
    return ["obj", shape, elems]


def gen_value(rng, depth=0, arrays=True):
    r = rng.random()
    if depth >= 3 or r < 0.35:
        return gen_scalar(rng)
    if r < 0.5:
        return ["list", [gen_value(rng, depth + 1, arrays) for _ in range(rng.randint(0, 3))]]
    if r < 0.62:
        return ["tuple", [gen_value(rng, depth + 1, arrays) for _ in range(rng.randint(0, 3))]]
    if r < 0.77:
        keys = distinct_hashables(rng, rng.randint(0, 3), tricky=rng.random() < 0.5)
        return ["dict", [[k, gen_value(rng, depth + 1, arrays)] for k in keys]]
    if r < 0.87:
        return ["set", distinct_hashables(rng, rng.randint(0, 4), tricky=rng.random() < 0.5)]
    if arrays and r < 0.96:
        return gen_nd(rng)
    if arrays:
        return gen_obj(rng)
    return gen_scalar(rng)


def mutate(rng, spec):
    """A near miss of `spec`: returns (new_spec, label). Labels starting with `same:` are intended to be
    observably EQUAL values built differently; the oracle decides in any case."""
    t = spec[0]
    if t in ("list", "tuple"):
        items = spec[1]
        c = rng.random()
        if items and c < 0.4:
            i = rng.randrange(len(items))
            m, lab = mutate(rng, items[i])
            return [t, items[:i] + [m] + items[i + 1:]], "elem:" + lab
        if len(items) >= 2 and c < 0.6:
            i, j = rng.sample(range(len(items)), 2)
            it = list(items)
            it[i], it[j] = it[j], it[i]
            return [t, it], "swap"
        if c < 0.75:
            return ["tuple" if t == "list" else "list", items], "list<->tuple"
        if c < 0.85:
            return [t, items + [rng.choice([["none"], ["int", 0], ["list", []]])]], "append"
        if c < 0.93 and items:
            return [t, [["list", items[:1]]] + items[1:]], "nest"
        return [t, [[t, items]]], "wrap"
    if t == "dict":
        items = spec[1]
        c = rng.random()
        if len(items) >= 2 and c < 0.4:
            it = list(items)
            rng.shuffle(it)
            return ["dict", it], "same:dict-reorder"
        if len(items) >= 2 and c < 0.6:
            i, j = rng.sample(range(len(items)), 2)
            it = [list(p) for p in items]
            it[i][1], it[j][1] = it[j][1], it[i][1]
            return ["dict", it], "dict-swap-values"
        if items and c < 0.8:
            i = rng.randrange(len(items))
            m, lab = mutate(rng, items[i][1])
            return ["dict", items[:i] + [[items[i][0], m]] + items[i + 1:]], "dict-value:" + lab
        if items:
            return ["list", [["tuple", [k, v]] for k, v in items]], "dict->items"
        return ["list", []], "dict->list"
    if t == "set":
        items = spec[1]
        if len(items) >= 2 and rng.random() < 0.5:
            it = list(items)
            rng.shuffle(it)
            return ["set", it], "same:set-reorder"
        if items and rng.random() < 0.5:
            return ["list", items], "set->list"
        return ["set", items + [["str", "zz"]]], "set-add"
    if t == "nd":
        return mutate_nd(rng, spec)
    if t == "obj":
        _, shape, elems = spec
        c = rng.random()
        joined = "-".join(e for e in elems if isinstance(e, str))
        if c < 0.5 and "-" in joined:
            parts = joined.split("-")
            # re-split the same joined text differently
            k = rng.randint(1, len(parts))
            cut = sorted(rng.sample(range(1, len(parts)), k - 1)) if k > 1 else []
            new = ["-".join(parts[a:b]) for a, b in zip([0] + cut, cut + [len(parts)])]
            return ["obj", [len(new)], new], "obj-resplit"
        if c < 0.7:
            return ["obj", [1, len(elems)] if shape == [len(elems)] else [len(elems)], elems], "obj-reshape"
        if c < 0.85:
            return ["list", [["str", e] for e in elems]], "obj->list"
        return ["obj", shape, elems[::-1]], "obj-reverse"
    if t == "int":
        v = spec[1]
        return rng.choice([(["bool", bool(v)], "int->bool"), (["float", repr(float(v))], "int->float"),
                           (["str", str(v)], "int->str"), (["int", v + 1], "int+1"), (["int", -v], "neg")])
    if t == "bool":
        return rng.choice([(["int", int(spec[1])], "bool->int"), (["str", str(spec[1])], "bool->str"),
                           (["bool", not spec[1]], "not")])
    if t == "float":
        f = float(spec[1])
        opts = [(["str", spec[1]], "float->str"), (["float", repr(-f)], "negate")]
        if f == f and abs(f) != math.inf and f == int(f):
            opts.append((["int", int(f)], "float->int"))
        return rng.choice(opts)
    if t == "str":
        s = spec[1]
        opts = [(["bytes", list(s.encode("utf-8", "surrogatepass"))], "str->bytes"), (["str", s + " "], "pad"),
                (["str", repr(s)], "str->repr"), (["list", [["str", c] for c in s]], "str->chars"),
                (["tuple", [["str", s]]], "str->1tuple")]
        if "', '" in s:
            opts.append((["list", [["str", p] for p in s.split("', '")]], "unquote-split"))
        return rng.choice(opts)
    if t == "bytes":
        b = bytes(spec[1])
        return rng.choice([(["str", repr(b)], "bytes->repr"), (["str", b.decode("latin1")], "bytes->str"),
                           (["bytes", spec[1] + [0]], "bytes+0"), (["list", [["int", x] for x in spec[1]]], "bytes->ints")])
    if t == "none":
        return rng.choice([(["str", "None"], "none->str"), (["int", 0], "none->0"), (["tuple", []], "none->()")])
    if t in _IDENTITY_BUILDERS:
        v = build(spec)
        c = rng.random()
        if c < 0.3:
            return ["str", repr(v)], t + "->repr"
        if c < 0.45:
            return ["str", str(v)], t + "->str"
        if c < 0.8:
            for _ in range(5):
                other = gen_identity(rng)
                if other[0] == t and other != spec:
                    return other, t + "-near"
        if t == "slice":
            return ["tuple", [["none"] if x is None else ["int", x] for x in spec[1:]]], "slice->tuple"
        if t == "timedelta":
            return ["timedelta", 0, spec[1] * 86400 + spec[2], spec[3]], "same:timedelta-normalised"
        return spec, "same:identity"
    return spec, "same:identity"


def mutate_nd(rng, spec):
    import numpy as np
    _, dtype, base, ops = spec
    c = rng.random()
    x = build_nd(spec)
    if c < 0.2:
        return ["nd", dtype, base, ops + [["copy", rng.choice(["C", "F"])]]], "same:nd-copy"
    if c < 0.35 and x.ndim >= 2:
        # same bytes in memory, other logical order
        if len(ops) == 1:
            return ["nd", dtype, base, [["reshape", list(x.shape[::-1])], ["T"]]], "nd-memory-alias"
        return ["nd", dtype, base, ops + [["T"], ["copy", "C"], ["reshape", list(x.shape)]]], "nd-memory-alias2"
    if c < 0.5:
        # materialise the logical values into a fresh base (same values, contiguous)
        if dtype.startswith(("<U", "|S", "<M", "<c")):
            return ["nd", dtype, base, ops + [["copy", "F"]]], "same:nd-copyF"
        vals = x.ravel(order="C").tolist()
        return ["nd", dtype, vals, [["reshape", list(x.shape)]]], "same:nd-rebuild"
    if c < 0.62 and x.size:
        if dtype.startswith(("<U", "|S", "<M", "<c", "|b")):
            return ["nd", dtype, base[::-1], ops], "nd-reverse-base"
        b2 = list(base)
        i = rng.randrange(len(b2))
        b2[i] = (b2[i] + 1) if not isinstance(b2[i], bool) else (not b2[i])
        return ["nd", dtype, b2, ops], "nd-change-elem"
    if c < 0.75:
        other = rng.choice([d for d in DTYPES if d != dtype and d[1] in "iuf" and dtype[1] in "iuf"] or [dtype])
        if other == dtype:
            return ["nd", dtype, base, ops + [["T"]]], "nd-T"
        return ["nd", other, base, ops], "nd-dtype"
    if c < 0.87 and x.ndim >= 1 and x.size:
        shp = [x.size] if x.ndim > 1 else [1, x.size]
        return ["nd", dtype, base, ops + [["copy", "C"], ["reshape", shp]]], "nd-reshape"
    if x.ndim >= 2:
        return ["nd", dtype, base, ops + [["T"]]], "nd-T"
    return ["list", [["int", int(v)] if dtype[1] in "iu" else ["str", str(v)] for v in x.ravel().tolist()]], "nd->list"


# ----------------------------------------------------------------------------------------------
# functions with long descriptive names (C13 / C14)
# ----------------------------------------------------------------------------------------------
# The prefixes of the keys they produce add up to more than the length limit of `default_fused_keys_renamer`, so the
# name of the fused task is cut and only its digest suffix tells two pipelines over different data apart.
# (`funcname` keeps 50 characters: the four names differ within them.)
_LONG_NAMES = [
    "normalise_the_incoming_customer_record_fields_and_strip_the_whitespace_from_every_column",
    "compute_the_weighted_moving_average_of_the_sensor_readings_over_the_sliding_window",
    "convert_the_measured_temperature_from_fahrenheit_to_celsius_and_round_to_two_digits",
    "discard_the_records_whose_quality_flag_marks_them_as_invalid_or_incomplete_samples",
]


def _mk_long_map(i):
    k = i + 2

    def f(x):
        return x * k + i
    f.__name__ = f.__qualname__ = _LONG_NAMES[i]
    return f


def _mk_long_pred(i):
    def p(x):
        return (x + i) % 3 != 0
    p.__name__ = p.__qualname__ = "keep_" + _LONG_NAMES[i]
    return p


LONG_MAPS = [_mk_long_map(i) for i in range(len(_LONG_NAMES))]
LONG_PREDS = [_mk_long_pred(i) for i in range(len(_LONG_NAMES))]
for _f in LONG_MAPS + LONG_PREDS:
    globals()[_f.__name__] = _f      # importable by name: pickled by reference, deterministic token
