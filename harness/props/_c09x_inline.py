"""C09 extension round: the legacy `inline` / `inline_functions` of dask/optimization.py against their Lean
transliterations (Model/LegacyInline.lean; theorems Props/C09xInline.lean).

Function level (structural equality of the returned graph, compared as dicts):
  * `inline(dsk, keys, inline_constants, dependencies)` vs `Dask.TaskTerm.inline` with the model's two set-iteration orders
    (as listed / reversed) -- the real set order is a third one; the three graphs must coincide;
  * the loops of `inline` run by the model on the replace order OBSERVED on the real `toposort` call (`inlineWith`), and the
    hypotheses the theorems put on that order (`TopoOK`: duplicate-free, dependencies first, holds every key to inline);
  * `inline_functions(dsk, output, fast_functions, inline_constants, dependencies)` vs `inlineFunctions` (graph + the set
    of inlined keys), `functions_of` vs `functionsOf`.
Property level: every key of the input is a key of `inline`'s result, every `output` key of `inline_functions`'s, and
they evaluate (dask.core.get) as before.
"""
from __future__ import annotations

import json

from sexp import Sym
from props._graph_terms import FUNCS, build, jsexp, to_sexp


def _canon(x):
    return json.dumps(x, sort_keys=True, default=str)


def _canon_items(entries):
    return sorted((_canon(k), _canon(v)) for k, v in entries)


def _canon_dict(d):
    return sorted((_canon(to_sexp(k)), _canon(to_sexp(v))) for k, v in d.items())


def _vals(dsk, keys):
    from dask.core import get
    out = []
    for k in keys:
        try:
            out.append(to_sexp(get(dsk, k)))
        except Exception as e:
            out.append(["raised", type(e).__name__])
    return out


class _RecordToposort:
    """observe the `toposort` call made by `dask.optimization.inline` (the module-level name is rebound for the duration
    of one call; /repo is untouched)"""

    def __enter__(self):
        import dask.optimization as O
        self.O, self.orig, self.calls = O, O.toposort, []

        def rec(dsk, dependencies=None):
            r = self.orig(dsk, dependencies=dependencies)
            self.calls.append((list(dsk), list(r)))
            return r
        O.toposort = rec
        return self

    def __exit__(self, *a):
        self.O.toposort = self.orig
        return False


def _topo_ok(order, dsk, S, deps):
    """the hypotheses of `inlineWith_preserves_eval` on a replace order"""
    if len(set(order)) != len(order):
        return "an entry twice"
    pos = {k: i for i, k in enumerate(order)}
    for k in order:
        if k not in dsk:
            return "an entry that is not a key"
        for d in deps[k]:
            if d not in pos or pos[d] > pos[k]:
                return "a dependency after its dependent"
    for k in S:
        if k in dsk and k not in pos:
            return "a key to inline is missing"
    return None


def case_inl(ctx, inp):
    from dask.core import get_dependencies, ishashable, istask
    from dask.optimization import functions_of, inline, inline_functions
    items = inp["graph"]
    dsk = {build(k): build(v) for k, v in items}
    if len(dsk) != len(items):
        return
    allkeys = [build(k) for k, _ in items]
    gs = [[jsexp(k), jsexp(v)] for k, v in items]
    req = [allkeys[i] for i in inp["keys"]]
    sdeps = {k: get_dependencies(dsk, k) for k in dsk}
    ldeps = {k: get_dependencies(dsk, k, as_list=True) for k in dsk}
    cyclic = bool(inp.get("cyclic"))
    want_all = None if cyclic else _vals(dsk, allkeys)
    if want_all is not None and any(isinstance(w, list) and w and w[0] == "raised" for w in want_all):
        ctx.note("input-graph-raises")
        want_all = None
    consts = {k for k, v in dsk.items() if (ishashable(v) and v in dsk) or (not sdeps[k] and not istask(v))}
    sel = [allkeys[i] for i in inp["sel"]]
    extra = [build(x) for x in inp.get("extra", [])]        # keys that are not keys of the graph
    variants = [(sel, False, None), (sel, True, None), (sel + extra, True, sdeps), (allkeys, False, ldeps), ([], True, None),
                (set(sel), False, sdeps)]
    for vi, (ks, const, dp) in enumerate(variants):
        ks_list = list(ks)
        S = set(ks_list) | (consts if const else set())
        # ---- the real call, with the toposort call observed
        try:
            with _RecordToposort() as rec:
                out = inline(dsk, ks, inline_constants=const, dependencies=dp)
            impl = ["ok", _canon_dict(out)]
        except RuntimeError:
            out, impl = None, ["raised"]
        except Exception as e:
            ctx.fail(f"inline raised {type(e).__name__}: {e}")
            continue
        mkeys = [to_sexp(k) for k in ks_list]
        for rev in (False, True):
            m = ctx.lean(Sym("legacy_inline"), gs, mkeys, const, rev)
            mm = ["ok", _canon_items(m[1])] if m[0] == "ok" else ["raised"]
            ctx.eq("inline: returned graph (model vs code)" + (" [reversed set iteration]" if rev else ""), mm, impl)
        if out is None:
            ctx.branch("inl-inline-raises-cycle")
            if not cyclic:
                ctx.fail("inline raised RuntimeError on an acyclic graph")
            continue
        # ---- the observed replace order: hypotheses of the theorem + the model's loops on that very order
        if len(rec.calls) != 1:
            ctx.disagree("inline calls toposort exactly once", 1, len(rec.calls))
        else:
            start, order = rec.calls[0]
            ctx.eq("inline: start keys of the toposort call = keys to inline that are keys of the graph",
                   sorted(_canon(to_sexp(k)) for k in start), sorted(_canon(to_sexp(k)) for k in S if k in dsk))
            bad = _topo_ok(order, dsk, S, sdeps)
            if bad:
                ctx.disagree("the observed replace order satisfies TopoOK (C07)", "ok", bad)
            m = ctx.lean(Sym("legacy_inline_with"), [to_sexp(k) for k in order], gs, mkeys, const, vi % 2 == 1)
            ctx.eq("inline: the model's loops on the observed replace order", ["ok", _canon_items(m[1])] if m[0] == "ok" else ["raised"], impl)
            mo = ctx.lean(Sym("legacy_replace_order"), gs, mkeys, const, False)
            if mo[0] != "ok":
                ctx.disagree("replaceOrder: the model raises, the code does not", mo, "ok")
            else:
                ctx.eq("replace order: same members (model vs code)", sorted(_canon(k) for k in mo[1]),
                       sorted(_canon(to_sexp(k)) for k in order))
            if len(order) > len([k for k in S if k in dsk]):
                ctx.branch("inl-order-has-uninlined-keys")
        # ---- the statement on the real output
        missing = [k for k in dsk if k not in out]
        if missing or len(out) != len(dsk):
            ctx.fail("inline: the key set of the returned graph differs from the input's", observed=repr(missing))
        elif want_all is not None:
            got = _vals(out, allkeys)
            if got != want_all:
                ctx.fail("inline: value of a key changed", observed=got, expected=want_all)
        # complete inlining: no entry refers to an inlined key any more
        left = [(k, d) for k in out for d in get_dependencies(out, k) if d in S]
        if left and not cyclic:
            ctx.fail("inline: an entry of the result still refers to an inlined key", observed=repr(left[:3]))
        # ---- coverage
        inl = [k for k in S if k in dsk and any(k in sdeps[p] for p in dsk)]
        if inl:
            ctx.branch("inl-inline-substitutes")
            if any(S & sdeps[k] for k in inl):
                ctx.branch("inl-nested-inlining(dependency-order-matters)")
            if any(not istask(dsk[k]) and ishashable(dsk[k]) and dsk[k] in dsk for k in inl):
                ctx.branch("inl-alias-inlined")
            if any(k in (0, "", ()) for k in inl):
                ctx.branch("inl-falsy-key-inlined")
            if any(_holds(dsk[p], dict) for p in dsk if S & sdeps[p]):
                ctx.branch("inl-into-dict-argument")
            if any(_holds(dsk[p], list) for p in dsk if S & sdeps[p]):
                ctx.branch("inl-into-list-argument")
            if any(isinstance(k, tuple) for k in inl):
                ctx.branch("inl-tuple-key-inlined")
        if const and consts:
            ctx.branch("inl-inline_constants")
        if extra and vi == 2:
            ctx.branch("inl-keys-outside-the-graph")
    # ---- functions_of
    for kj, vj in items[:4]:
        v = build(vj)
        try:
            fo = functions_of(v)
        except TypeError:
            continue
        m = ctx.lean(Sym("legacy_functions_of"), jsexp(vj))
        try:
            ctx.eq("functions_of (as a set)", sorted(set(_canon(x) for x in m)), sorted(_canon(to_sexp(f)) for f in fo))
        except TypeError:
            pass
    # ---- inline_functions
    if cyclic:
        return
    want = _vals(dsk, req)
    for fi, fastidx in enumerate(inp.get("fast", [[0], [0, 1, 2], [0, 1, 2, 3, 4, 5], []])):
        fast = [FUNCS[i] for i in fastidx]
        for const in (False, True):
            outp = set(req) if (fi + const) % 2 else req
            dp = sdeps if (fi + const) % 3 == 0 else None
            try:
                out = inline_functions(dsk, outp, fast, inline_constants=const, dependencies=dp)
            except Exception as e:
                ctx.fail(f"inline_functions raised {type(e).__name__}: {e}")
                continue
            for rev in ((False, True) if fi == 1 else (False,)):
                m = ctx.lean(Sym("legacy_inline_functions"), gs, [to_sexp(k) for k in req], [to_sexp(f) for f in fast], const, rev)
                mm = ["ok", _canon_items(m[0][1])] if m[0][0] == "ok" else ["raised"]
                ctx.eq("inline_functions: returned graph (model vs code)", mm, ["ok", _canon_dict(out)])
                if fast:
                    ctx.eq("inline_functions: the inlined keys (model) = the keys deleted by the code",
                           sorted(_canon(k) for k in m[1]), sorted(_canon(to_sexp(k)) for k in dsk if k not in out))
            missing = [k for k in req if k not in out]
            if missing:
                ctx.fail("inline_functions: requested key missing from the returned graph", observed=repr(missing))
                continue
            if not (isinstance(want, list) and any(isinstance(w, list) and w and w[0] == "raised" for w in want)):
                got = _vals(out, req)
                if got != want:
                    ctx.fail("inline_functions: value of a requested key changed", observed=got, expected=want)
            if len(out) < len(dsk):
                ctx.branch("inl-inline_functions-removes" + ("-inline_constants" if const else ""))
                if len(dsk) - len(out) > 1:
                    ctx.branch("inl-inline_functions-removes>=2")
            elif not fast:
                ctx.branch("inl-inline_functions-no-fast-functions")


def _holds(o, typ):
    if isinstance(o, typ):
        return True
    if isinstance(o, (list, tuple)):
        return any(_holds(x, typ) for x in o)
    if isinstance(o, dict):
        return any(_holds(x, typ) for x in o.values())
    return False


def gen_inl(ctx, rng, count):
    from props._graph_terms import gen_legacy_graph
    # the doc-string examples of inline / inline_functions
    yield "inl", {"graph": [["x", 1], ["y", {"t": [{"fn": 1}, "x"]}], ["z", {"t": [{"fn": 0}, "x", "y"]}]], "keys": [2], "sel": [1]}
    yield "inl", {"graph": [["out", {"t": [{"fn": 0}, "i", "d"]}], ["i", {"t": [{"fn": 1}, "x"]}], ["d", {"t": [{"fn": 2}, "y"]}],
                            ["x", 1], ["y", 1]], "keys": [0], "sel": [1, 2], "fast": [[1], [1, 2], []]}
    # falsy keys, aliases of aliases, a dict and a list argument, a chain of inlined keys
    yield "inl", {"graph": [["", 7], [0, ""], [{"t": []}, {"t": [{"fn": 1}, 0]}],
                            ["top", {"t": [{"fn": 0}, {"d": [["a", {"t": []}]]}, {"l": [0, ""]}, {"t": [3, ""]}]}]],
                  "keys": [3], "sel": [0, 1, 2], "fast": [[1], [0, 1]]}
    for _ in range(count):
        n = rng.randint(1, 7)
        g = gen_legacy_graph(rng, n, rng.choice([(), ("dictref",), ("dictref", "tupleref")]), depth=rng.choice([2, 3]))
        inp = {"graph": g, "keys": sorted(rng.sample(range(n), rng.randint(1, n if rng.random() < 0.4 else max(1, n // 3)))),
               "sel": rng.sample(range(n), rng.randint(0, n))}
        if rng.random() < 0.3:
            inp["extra"] = rng.sample(["nokey", 99, {"t": ["x", 77]}], rng.randint(1, 2))
        if rng.random() < 0.08 and n >= 2:
            # a cycle through keys that are inlined: toposort raises
            a, b = rng.sample(range(n), 2)
            g[a][1] = {"t": [{"fn": 0}, g[b][0]]}
            g[b][1] = {"t": [{"fn": 1}, g[a][0], 5]}
            inp["cyclic"] = True
            inp["sel"] = sorted(set(inp["sel"]) | {a})
        yield "inl", inp


# ---------------------------------------------------------------------------------------------
# finding of the extension round: a fused chain stored under a NEW name that occurs as a literal in some task
# ---------------------------------------------------------------------------------------------

def _atoms(o, out):
    """hashable str / tuple literals in reference position (task arguments, list elements, dict values)"""
    if type(o) is tuple and o and callable(o[0]):
        for a in o[1:]:
            _atoms(a, out)
    elif isinstance(o, list):
        for a in o:
            _atoms(a, out)
    elif isinstance(o, dict):
        for a in o.values():
            _atoms(a, out)
    else:
        try:
            hash(o)
            out.add(o)
        except TypeError:
            pass


def case_renlit(ctx, inp):
    """legacy `fuse_linear` / `fuse` with key renaming: in a legacy graph a hashable value equal to a key IS a reference, so
    storing the fused chain under a new name turns every literal equal to that name into a reference to the fused task.
    Known finding (sig per pass); anything else is a fresh failure."""
    from dask.optimization import default_fused_keys_renamer, default_fused_linear_keys_renamer, fuse, fuse_linear
    items = inp["graph"]
    dsk = {build(k): build(v) for k, v in items}
    allkeys = [build(k) for k, _ in items]
    req = [allkeys[i] for i in inp["keys"]]
    want = _vals(dsk, req)
    atoms = set()
    for v in dsk.values():
        _atoms(v, atoms)
    for op in ("fuse_linear", "fuse"):
        rec = []

        def renamer(chain, _op=op, _rec=rec):
            new_ = (default_fused_linear_keys_renamer if _op == "fuse_linear" else default_fused_keys_renamer)(list(chain))
            _rec.append(new_)
            return new_
        try:
            out, _ = (fuse_linear(dsk, keys=req, rename_keys=renamer) if op == "fuse_linear"
                      else fuse(dsk, keys=req, rename_keys=renamer, ave_width=2))
        except Exception as e:
            ctx.fail(f"{op} raised {type(e).__name__}: {e}")
            continue
        got = _vals(out, req)
        collide = [n for n in rec if n is not None and n in atoms and n not in dsk]
        if got != want:
            sig = f"{op}:value-changed:renamed-key-occurs-as-literal-in-a-task" if collide else None
            ctx.fail(f"{op}(rename_keys=True): value of a requested key changed", sig=sig, observed=got, expected=want)
            ctx.branch(f"renlit-{op}-" + ("cycle" if any(isinstance(g, list) and g and g[0] == "raised" for g in got) else "silent"))
        elif collide:
            ctx.branch(f"renlit-{op}-collision-harmless")


def gen_renlit(ctx, rng):
    """chains a <- b <- c whose default fused name is put, as a string literal, into the top task or into another task"""
    for tup in (False, True):
        for where in ("top", "other"):
            for n in (2, 3):
                base = ["a", "b", "c"][:n]
                key = (lambda s: {"t": [s, 0]}) if tup else (lambda s: s)
                name = "-".join(base)
                lit = {"t": [name, 0]} if tup else name
                g = [[key(base[0]), 1]]
                for i in range(1, n):
                    args = [key(base[i - 1])]
                    if where == "top" and i == n - 1:
                        args.append(lit)
                    g.append([key(base[i]), {"t": [{"fn": i}] + args}])
                keys = [n - 1]
                if where == "other":
                    # `d` refers to the chain's top twice (so the chain ends there) and holds the literal
                    g.append([key("d"), {"t": [{"fn": 4}, key(base[-1]), lit, key(base[-1])]}])
                    keys = [n]
                order = list(range(len(g)))
                rng.shuffle(order)
                yield "renlit", {"graph": [g[i] for i in order], "keys": [order.index(k) for k in keys]}
