"""Helpers shared by the `sched` group (C01-C05, C52).

* abstract DAGs by topological numbering (JSON-able), rendered into real dask graphs in several
  concrete spellings (legacy tuples with nested list/tuple arguments, `Task/Alias/DataNode/List`
  objects, mixed), with three key flavours (str, tuple, int);
* the *controlled executor*: `submit` parks the future, and whenever `get_async` would block on its
  queue one parked batch - chosen by the caller - is executed and completed.  This makes the order
  in which batches complete an input of the test (adversary), exactly as in `Model/Sched.lean`;
* serialisation of the real scheduler `state` dict into the canonical form the Lean driver prints;
* the call of the Lean model on the same (graph, request, priorities, num_workers, chunksize,
  failing tasks, adversary choices).
"""
from __future__ import annotations

import itertools
import re
import threading
import time
from concurrent.futures import Future

from sexp import Sym

MOD = 1000000007


def mix(k, vals):
    """The task function (same definition as `SchedDrv.mix` in lean/Drivers/sched.lean)."""
    acc = k * 1000003 + 7
    for v in vals:
        acc = (acc * 31 + v) % MOD
    return acc % MOD


# ----------------------------------------------------------------------------------------------
# exceptions raised by failing tasks
# ----------------------------------------------------------------------------------------------
class Boom(Exception):
    pass


class BaseBoom(BaseException):
    """A BaseException subclass that is not an Exception (KeyboardInterrupt-like)."""


class UnpicklableBoom(Exception):
    def __init__(self, msg):
        super().__init__(msg)
        self.handle = lambda: None  # a lambda attribute: plain pickle cannot serialise it

    def __reduce__(self):
        raise TypeError("cannot pickle UnpicklableBoom")


class TwoArgBoom(Exception):
    """`__init__` signature differs from `args`: unpickling calls TwoArgBoom('boom-3 x') and fails"""

    def __init__(self, kid, extra):
        super().__init__(f"boom-{kid} {extra}")
        self.kid, self.extra = kid, extra


class KwOnlyBoom(Exception):
    def __init__(self, *, code):
        super().__init__(f"boom-{code} kw")
        self.code = code


class LockAttrBoom(Exception):
    """carries an attribute that cannot be serialised"""

    def __init__(self, msg):
        super().__init__(msg)
        self.lock = threading.Lock()


class LockArgBoom(Exception):
    """carries an ARGUMENT that cannot be serialised"""


class SlotsBoom(Exception):
    __slots__ = ("x",)

    def __init__(self, msg):
        super().__init__(msg)
        self.x = 3


FAIL_KINDS = {"Boom": Boom, "BaseBoom": BaseBoom, "ValueError": ValueError, "ZeroDivisionError": ZeroDivisionError,
              "Unpicklable": UnpicklableBoom, "TwoArg": TwoArgBoom, "KwOnly": KwOnlyBoom, "LockAttr": LockAttrBoom,
              "LockArg": LockArgBoom, "Slots": SlotsBoom, "OSError": FileNotFoundError, "StopIteration": StopIteration,
              "Group": ExceptionGroup}
EXOTIC_KINDS = ("Unpicklable", "TwoArg", "KwOnly", "LockAttr", "LockArg", "Slots", "OSError", "StopIteration", "Group")


def make_exc(kind, kid):
    """the exception a failing task of kind `kind` raises; its message always contains `boom-<kid>`"""
    if kind == "TwoArg":
        return TwoArgBoom(kid, "x")
    if kind == "KwOnly":
        return KwOnlyBoom(code=kid)
    if kind == "LockArg":
        return LockArgBoom(f"boom-{kid}", threading.Lock())
    if kind == "OSError":
        return FileNotFoundError(2, f"boom-{kid}", "nofile.txt")
    if kind == "Group":
        return ExceptionGroup(f"boom-{kid}", [ValueError("inner")])
    return FAIL_KINDS[kind](f"boom-{kid}")


def _flatten(args):
    for a in args:
        if isinstance(a, (list, tuple)):
            yield from _flatten(a)
        else:
            yield a


EXEC_LOG = []          # (kid, tuple(selected dependency values), t_start, t_stop, thread id, run id)   in-process only
EXEC_LOCK = threading.Lock()
RUN = [0]              # id of the latest `render`; tasks of earlier calls may still be running in a shared pool
                       # after their call raised (dask does not cancel them) - their log entries are filtered out


def exec_log(run=None):
    run = RUN[0] if run is None else run
    with EXEC_LOCK:
        return [e[:5] for e in EXEC_LOG if e[5] == run]


class TaskFn:
    """Callable put into the graph for task node `kid`.  `sel` = positions (in the flattened argument
    list) of the first occurrence of every dependency, in dependency order; literals are skipped."""

    def __init__(self, kid, sel, fail=None, delay=0.0, run=0):
        self.kid, self.sel, self.fail, self.delay, self.run = kid, tuple(sel), fail, delay, run

    def __call__(self, *args):
        t0 = time.perf_counter()
        if self.delay:
            time.sleep(self.delay)
        flat = list(_flatten(args))
        vals = tuple(flat[i] for i in self.sel)
        if self.fail:
            with EXEC_LOCK:
                EXEC_LOG.append((self.kid, vals, t0, time.perf_counter(), threading.get_ident(), self.run))
            raise make_exc(self.fail, self.kid)
        out = mix(self.kid, vals)
        with EXEC_LOCK:
            EXEC_LOG.append((self.kid, vals, t0, time.perf_counter(), threading.get_ident(), self.run))
        return out

    def __repr__(self):
        return f"TaskFn({self.kid})"


# ----------------------------------------------------------------------------------------------
# abstract DAGs
# ----------------------------------------------------------------------------------------------
# dag = {"nodes": [node, ...], "keys": "str"|"tuple"|"int", "style": "legacy"|"spec"|"mixed"}
# node = ["d", v] | ["a", dep] | ["t", [deps...], argspec] | ["x"]   (absent: referenced but not in the graph)
# argspec = nested list of ints (positions in deps) and ["lit", v] literals; every dep position occurs at least once


FALSY = [0, "", (), b""]   # distinct hashable keys that are false in a boolean context (False and 0.0 equal 0)


def key_of(i, kind, n=None):
    """key of node `i`; kind "falsy": the LAST four nodes of an n-node graph (the sinks, which are requested most
    often; the first four when n is unknown) get the falsy keys 0, '', (), b'' and the others a mixture of the
    three ordinary flavours"""
    if kind == "falsy":
        pos = (n - 1 - i) if n is not None else i
        if 0 <= pos < len(FALSY):
            return FALSY[pos]
        return [f"k{i}", ("x", i), 100000 + i][i % 3]
    if kind == "str":
        return f"k{i}"
    if kind == "tuple":
        return ("x", i)
    return 100000 + i


def gen_argspec(rng, ndeps):
    """Arguments of a task over `ndeps` dependencies: each at least once, sometimes nested in
    lists, sometimes repeated, sometimes with literals in between."""
    items = list(range(ndeps))
    if ndeps and rng.random() < 0.25:
        items.append(rng.randrange(ndeps))        # a dependency used twice
    if rng.random() < 0.2:
        items.insert(rng.randrange(len(items) + 1), ["lit", rng.randint(-3, 50)])
    if len(items) >= 2 and rng.random() < 0.5:
        a = rng.randrange(len(items) - 1)
        b = rng.randint(a + 1, len(items))
        items[a:b] = [items[a:b]]                 # nest a run of arguments in a list
        if rng.random() < 0.3 and isinstance(items[a], list) and len(items[a]) >= 2:
            items[a][:1] = [[items[a][0]]]        # and one level deeper
    return items


def gen_dag(rng, n, p_data=0.25, p_alias=0.1, max_deps=3, keys=None, style=None, missing=False, shape="chain"):
    """shape: 'chain' prefers recent nodes as dependencies (deep graphs), 'wide' picks dependencies
    uniformly and has many dependency-free tasks (many tasks ready/running at once)"""
    nodes = []
    p_free = 0.15 if shape == "chain" else 0.6
    for i in range(n):
        r = rng.random()
        if i == 0 or r < p_data:
            if rng.random() < p_free:
                nodes.append(["t", [], gen_argspec(rng, 0)])       # a task without dependencies
            else:
                nodes.append(["d", rng.choice([0, 1, 2, 3, 5, 8, 13, 21, 34, 55, 89])])
        elif r < p_data + p_alias:
            nodes.append(["a", rng.randrange(i)])
        else:
            k = rng.randint(1, min(max_deps, i))
            # prefer recent nodes so that chains and diamonds are common
            pool = list(range(i))
            deps = []
            while len(deps) < k:
                d = pool[-1 - min(int(rng.expovariate(0.6)), len(pool) - 1)] if shape == "chain" else rng.choice(pool)
                if d not in deps:
                    deps.append(d)
            nodes.append(["t", deps, gen_argspec(rng, len(deps))])
    dag = {"nodes": nodes, "keys": keys or rng.choice(["str", "tuple", "int", "falsy"]),
           "style": style or rng.choice(["legacy", "spec", "mixed"])}
    if missing and n >= 1:
        # a task that refers to a key that is not in the graph (only expressible with TaskRef)
        nodes.append(["x"])
        nodes.append(["t", [len(nodes) - 1] + ([rng.randrange(n)] if rng.random() < 0.5 else []), None])
        nodes[-1][2] = list(range(len(nodes[-1][1])))
        dag["style"] = "spec"
    return dag


def first_positions(argspec, ndeps):
    """positions in the flattened argument list of the first occurrence of each dep index"""
    flat = []

    def walk(a):
        for x in a:
            if isinstance(x, list) and x and x[0] == "lit":
                flat.append(None)
            elif isinstance(x, list):
                walk(x)
            else:
                flat.append(x)
    walk(argspec)
    return [flat.index(j) for j in range(ndeps)]


def render(dag, fails=None, delays=None):
    """abstract dag -> (real dask graph, key list by id).  `fails`: {id: kind}; `delays`: {id: seconds}."""
    from dask._task_spec import Alias, DataNode, List, Task, TaskRef
    fails = {int(k): v for k, v in (fails or {}).items()}
    delays = {int(k): v for k, v in (delays or {}).items()}
    kind, style = dag["keys"], dag["style"]
    if kind == "falsy":
        # in a legacy graph the literal 0 / '' / () / b'' would BE a reference to the key of that name
        style = "spec"
    keys = [key_of(i, kind, len(dag["nodes"])) for i in range(len(dag["nodes"]))]
    dsk = {}
    RUN[0] += 1
    run = RUN[0]
    if len(EXEC_LOG) > 20000:
        with EXEC_LOCK:
            del EXEC_LOG[:-2000]
    for i, node in enumerate(dag["nodes"]):
        st = style if style != "mixed" else ("legacy", "spec")[(i * 7 + len(dag["nodes"])) % 2]
        if node[0] == "x":
            continue
        if node[0] == "d":
            dsk[keys[i]] = node[1] if st == "legacy" else DataNode(keys[i], node[1])
        elif node[0] == "a":
            dsk[keys[i]] = keys[node[1]] if st == "legacy" else Alias(keys[i], keys[node[1]])
        else:
            deps, spec = node[1], node[2]
            fn = TaskFn(i, first_positions(spec, len(deps)), fails.get(i), delays.get(i, 0.0), run)

            def legacy(a):
                if isinstance(a, list) and a and a[0] == "lit":
                    return a[1]
                if isinstance(a, list):
                    return [legacy(x) for x in a]
                return keys[deps[a]]

            def spec_arg(a):
                if isinstance(a, list) and a and a[0] == "lit":
                    return a[1]
                if isinstance(a, list):
                    return List(*[spec_arg(x) for x in a])
                return TaskRef(keys[deps[a]])

            if st == "legacy":
                dsk[keys[i]] = (fn,) + tuple(legacy(a) for a in spec)
            else:
                dsk[keys[i]] = Task(keys[i], fn, *[spec_arg(a) for a in spec])
    return dsk, keys


def reference_eval(dag, fails=None, cache0=None):
    """Plain recursive evaluation of the abstract dag: id -> value | ("raise", id) .
    cache0: values the caller supplies through `cache=` (they stand for the keys they name)."""
    fails = {int(k) for k in (fails or {})}
    memo = {int(k): v for k, v in (cache0 or {}).items()}

    def ev(i):
        if i in memo:
            return memo[i]
        node = dag["nodes"][i]
        if node[0] == "d":
            r = node[1]
        elif node[0] == "x":
            r = ("missing", i)
        elif node[0] == "a":
            r = ev(node[1])
        else:
            vals = [ev(d) for d in node[1]]
            bad = next((v for v in vals if isinstance(v, tuple)), None)
            r = bad if bad is not None else (("raise", i) if i in fails else mix(i, vals))
        memo[i] = r
        return r
    return ev


def needed_ids(dag, req_ids, cache0=None):
    """ids reachable from the request; keys supplied through `cache=` are reached but not expanded"""
    stop = {int(k) for k in (cache0 or {})}
    seen, st = set(), list(req_ids)
    while st:
        i = st.pop()
        if i in seen:
            continue
        seen.add(i)
        if i in stop:
            continue
        node = dag["nodes"][i]
        if node[0] == "a":
            st.append(node[1])
        elif node[0] == "t":
            st.extend(node[1])
    return seen


def node_deps(dag, i):
    node = dag["nodes"][i]
    return [node[1]] if node[0] == "a" else list(node[1]) if node[0] == "t" else []


def flatten_req(req):
    if isinstance(req, list):
        for r in req:
            yield from flatten_req(r)
    else:
        yield req


def map_req(req, f):
    return [map_req(r, f) for r in req] if isinstance(req, list) else f(req)


def gen_req(rng, n):
    """a requested key or nested list of keys (ids); later nodes (the sinks) are preferred so that most
    of the graph is needed"""
    k = rng.randint(1, min(n, 4))
    ids = []
    while len(ids) < k:
        i = n - 1 - min(int(rng.expovariate(0.5)), n - 1) if rng.random() < 0.7 else rng.randrange(n)
        if i not in ids:
            ids.append(i)
    if rng.random() < 0.15:
        ids.append(ids[0])                         # the same key requested twice
    r = rng.random()
    if r < 0.3:
        return ids[0]
    if r < 0.75 or len(ids) < 2:
        return ids
    cut = rng.randint(1, len(ids) - 1)
    return [ids[:cut], ids[cut:]] if rng.random() < 0.7 else [ids[:cut], [ids[cut:]]]


def all_dags(n, kinds=("d", "t", "a")):
    """every dag over n nodes by topological numbering (node 0 data or dependency-free task);
    tasks take every non-empty subset of the earlier nodes as dependencies."""
    def node_choices(i):
        out = [["d", i + 1]]
        if "t" in kinds:
            subsets = itertools.chain.from_iterable(itertools.combinations(range(i), r) for r in range(0, i + 1))
            for s in subsets:
                out.append(["t", list(s), list(range(len(s)))])
        if "a" in kinds:
            for d in range(i):
                out.append(["a", d])
        return out
    for combo in itertools.product(*[node_choices(i) for i in range(n)]):
        yield [list(c) for c in combo]


# ----------------------------------------------------------------------------------------------
# serialisation of the real scheduler state
# ----------------------------------------------------------------------------------------------
def ser_state(state, idof):
    if not state:
        return [[], [], [], [], [], [], [], [], []]

    def sm(d):
        return sorted([idof[k], sorted(idof[x] for x in v)] for k, v in d.items())

    def val(v):
        return int(v) if isinstance(v, int) and not isinstance(v, bool) else repr(v)
    return [sm(state["dependencies"]), sm(state["dependents"]), sm(state["waiting"]), sm(state["waiting_data"]),
            sorted([idof[k], val(v)] for k, v in state["cache"].items()),
            [idof[k] for k in state["ready"]],
            sorted(idof[k] for k in state["running"]), sorted(idof[k] for k in state["finished"]),
            sorted(idof[k] for k in state["released"])]


STATE_FIELDS = ["dependencies", "dependents", "waiting", "waiting_data", "cache", "ready", "running", "finished", "released"]


def unser_state(ser, keys):
    """canonical form -> a real state dict (for function-level calls of finish_task / release_data)"""
    d = {}
    for name, part in zip(STATE_FIELDS, ser):
        if name in ("dependencies", "dependents", "waiting", "waiting_data"):
            d[name] = {keys[k]: {keys[x] for x in v} for k, v in part}
        elif name == "cache":
            d[name] = {keys[k]: v for k, v in part}
        elif name == "ready":
            d[name] = [keys[k] for k in part]
        else:
            d[name] = {keys[k] for k in part}
    return d


# ----------------------------------------------------------------------------------------------
# controlled executor
# ----------------------------------------------------------------------------------------------
class Hang(Exception):
    """get_async would block for ever: nothing is outstanding and the loop condition still holds."""


_PATCH_LOCK = threading.Lock()


def controlled_run(dsk, req, nw, cs, chooser, idof, extra_callbacks=(), want_states=True, **kw):
    """Run `dask.local.get_async` under the controlled executor.

    chooser(npending) -> index of the outstanding batch to complete next.
    Returns dict(result=…, error=exception|None, events=[[ev, state]], choices=[…], submits=[[ids]]).
    """
    import dask.local as L
    pending, choices, events, submits = [], [], [], []
    live = {"state": None}

    def snap():
        return ser_state(live["state"], idof) if want_states else None

    def submit(fn, *a, **k):
        fut = Future()
        pending.append((fut, fn, a, k))
        ids = [idof[x[0]] for x in a[0]]
        submits.append(ids)
        events.append([["submit", ids], snap()])
        return fut

    orig = L.queue_get

    def qget(q):
        if q.empty():
            if not pending:
                raise Hang("nothing outstanding")
            i = chooser(len(pending))
            choices.append(i)
            fut, fn, a, k = pending.pop(i)
            try:
                fut.set_result(fn(*a, **k))
            except BaseException as e:  # batch_execute_tasks itself never raises with threaded pack_exception
                fut.set_exception(e)
        return orig(q)

    def cb_start(d):
        events.append([["start"], ser_state(None, idof)])

    def cb_start_state(d, state):
        live["state"] = state
        events.append([["start_state"], snap()])

    def cb_pre(key, d, state):
        events.append([["pretask", idof[key]], snap()])

    def cb_post(key, res, d, state, wid):
        events.append([["posttask", idof[key]], snap()])

    def cb_finish(d, state, failed):
        events.append([["finish", bool(failed)], ser_state(state, idof) if want_states else None])

    cbs = [(cb_start, cb_start_state, cb_pre, cb_post, cb_finish)] + list(extra_callbacks)
    from dask.threaded import pack_exception
    out = {"result": None, "error": None}
    with _PATCH_LOCK:
        L.queue_get = qget
        try:
            out["result"] = L.get_async(submit, nw, dsk, req, chunksize=cs, callbacks=cbs,
                                        pack_exception=pack_exception, **kw)
        except BaseException as e:
            if isinstance(e, (KeyboardInterrupt, SystemExit)) or type(e).__name__ == "CaseTimeout":
                raise
            out["error"] = e
        finally:
            L.queue_get = orig
    out.update(events=events, choices=choices, submits=submits, left_pending=len(pending))
    return out


def rng_chooser(rng, bias=None):
    """bias: None uniform, 'fifo', 'lifo' (mostly) - different adversaries reach different states"""
    def choose(n):
        if bias == "fifo" and rng.random() < 0.8:
            return 0
        if bias == "lifo" and rng.random() < 0.8:
            return n - 1
        return rng.randrange(n)
    return choose


def list_chooser(lst, branching=None):
    """follow `lst`, then 0; records the branching factor seen at every step (for enumeration)"""
    it = iter(lst)

    def choose(n):
        if branching is not None:
            branching.append(n)
        c = next(it, 0)
        return c if c < n else n - 1
    return choose


def enumerate_schedules(run_with, limit=None):
    """Stateless exhaustive exploration: run_with(choice_prefix, branching_out) is called for every
    completion order. Yields nothing; the callback does the checking."""
    prefix, count = [], 0
    while True:
        branching = []
        run_with(list(prefix), branching)
        count += 1
        if limit and count >= limit:
            return count
        # next sequence in odometer order over the branching factors actually seen
        seq = (prefix + [0] * len(branching))[:len(branching)]
        i = len(seq) - 1
        while i >= 0 and seq[i] + 1 >= branching[i]:
            i -= 1
        if i < 0:
            return count
        prefix = seq[:i] + [seq[i] + 1]


# ----------------------------------------------------------------------------------------------
# model calls
# ----------------------------------------------------------------------------------------------
def enc_nodes(dag):
    out = []
    for i, node in enumerate(dag["nodes"]):
        if node[0] == "d":
            out.append([i, Sym("d"), node[1]])
        elif node[0] == "a":
            out.append([i, Sym("a"), node[1]])
        elif node[0] == "t":
            out.append([i, Sym("t")] + list(node[1]))
    return out


def priorities(dsk, idof):
    """what get_async uses as sortkey: order(converted graph).  Returns ([[id, prio]], has_ties)."""
    from dask._task_spec import convert_legacy_graph
    from dask.order import order
    o = order(convert_legacy_graph(dsk))
    pr = sorted([idof[k], int(v)] for k, v in o.items())
    vals = [p for _, p in pr]
    return pr, len(set(vals)) != len(vals)


def model_run(ctx, dag, results_ids, prio, nw, cs, fail_ids, choices, req=None, cache0=None):
    args = [enc_nodes(dag), list(results_ids), prio, nw, cs, sorted(fail_ids), list(choices)]
    if req is not None:
        args.append(req)
        if cache0:
            args.append(sorted([int(k), v] for k, v in cache0.items()))
    ans = ctx.lean(Sym("run"), *args)
    outcome, log, final, result = ans[:4]
    return {"outcome": outcome, "log": log, "final": final, "result": result, "packed": ans[4] if req is not None else None}


def classify_error(e):
    """real exception of a get_async call -> the model's outcome vocabulary"""
    if e is None:
        return ["done"]
    if isinstance(e, Hang):
        return ["raised", ["hang"]]
    msg = str(e)
    m = re.search(r"boom-(\d+)", msg.split("\n")[0])
    if m and (isinstance(e, tuple(FAIL_KINDS.values())) or msg.startswith("boom-")):
        return ["failed", int(m.group(1))]
    if isinstance(e, ValueError) and msg.startswith("Missing dependency"):
        return ["raised", ["missingDep"]]
    if isinstance(e, ValueError) and "no accessible jobs" in msg:
        return ["raised", ["noAccessibleJobs"]]
    if isinstance(e, ZeroDivisionError):
        return ["raised", ["zeroDivision"]]
    if isinstance(e, KeyError):
        return ["raised", ["keyError"]]
    if isinstance(e, AssertionError):
        return ["raised", ["assertion"]]
    if isinstance(e, IndexError):
        return ["raised", ["indexError"]]
    return ["raised", [type(e).__name__, msg[:80]]]


def norm_outcome(o):
    """model outcome -> comparable form (drop the KeyError location and the missing key id)"""
    o = [str(o[0])] + list(o[1:])
    if o[0] == "raised":
        inner = o[1]
        return ["raised", [str(inner[0])]]
    return o


# ----------------------------------------------------------------------------------------------
# one controlled run of the real scheduler, diffed against the model
# ----------------------------------------------------------------------------------------------
def _ev_norm(ev):
    return [str(ev[0])] + [x for x in ev[1:]]


def run_trace(ctx, inp, diff=True):
    """inp: {"dag", "req", "nw", "cs", "fails": {id: kind}, "choices": [..]|None, "seed": int, "bias": str|None}

    Runs get_async under the controlled executor, then the Lean model on the same adversary choices,
    and records every difference (outcome, event sequence, state at every callback, batches, result).
    Returns a dict the property oracles work on."""
    import random
    dag, req, nw, cs = inp["dag"], inp["req"], inp["nw"], inp["cs"]
    fails = {int(k): v for k, v in (inp.get("fails") or {}).items()}
    dsk, keys = render(dag, fails)
    idof = {k: i for i, k in enumerate(keys)}
    real_req = map_req(req, lambda i: keys[i])
    flat_ids = list(flatten_req(req))
    branching = []
    if inp.get("choices") is not None:
        chooser = list_chooser(inp["choices"], branching)
    else:
        chooser = rng_chooser(random.Random(inp.get("seed", 0)), inp.get("bias"))
    kw = {"rerun_exceptions_locally": True} if inp.get("rerun") else {}
    cache0 = {int(k): v for k, v in (inp.get("cache0") or {}).items()}
    if cache0:
        kw["cache"] = {keys[i]: v for i, v in cache0.items()}       # a caller-supplied (warm) cache
    elif inp.get("empty_cache_arg"):
        kw["cache"] = {}                                            # an explicitly EMPTY caller-supplied cache (cache={})
    real = controlled_run(dsk, real_req, nw, cs, chooser, idof, **kw)
    real["exec_log"] = exec_log()
    real["branching"] = branching
    out = {"real": real, "dag": dag, "keys": keys, "idof": idof, "flat_ids": flat_ids, "fails": fails,
           "model": None, "ties": False}
    try:
        prio, ties = priorities(dsk, idof)
    except Exception as e:  # order() itself failed (e.g. missing dependency): no model run
        ctx.note("order_raised:" + type(e).__name__)
        out["order_error"] = e
        return out
    out["ties"] = ties
    model = model_run(ctx, dag, flat_ids, prio, nw, cs, sorted(fails), real["choices"], req=req, cache0=cache0)
    out["model"] = model
    if not diff:
        return out
    if ties:
        ctx.note("priority_ties_state_diff_skipped")
        return out
    r_out, m_out = classify_error(real["error"]), norm_outcome(model["outcome"])
    if r_out[0] == "failed" and m_out[0] == "failed":
        pass
    ok = ctx.eq("outcome of get_async", m_out, r_out)
    m_events = [[_ev_norm(e), s] for e, s in model["log"]]
    r_events = real["events"]
    if ok and m_out[0] in ("done", "failed"):
        if [e for e, _ in m_events] != [e for e, _ in r_events]:
            ctx.disagree("callback/submit event sequence", [e for e, _ in m_events], [e for e, _ in r_events])
        else:
            for (me, ms), (re_, rs) in zip(m_events, r_events):
                if me[0] == "start":
                    continue
                if ms != rs:
                    bad = [STATE_FIELDS[j] for j in range(9) if ms[j] != rs[j]]
                    ctx.disagree(f"scheduler state at {me} differs in {bad}", ms, rs)
                    break
    if ok and m_out[0] == "raised":
        # start_state_from_dask raised (missing dependency): the callbacks that were started still get `finish`, with
        # failed=True, and nothing else
        if [e for e, _ in m_events] != [e for e, _ in r_events]:
            ctx.disagree("callback events of a call whose start state could not be built", [e for e, _ in m_events],
                         [e for e, _ in r_events])
    if ok and m_out[0] == "done":
        r_flat = list(flatten_req(_tuple_to_list(real["result"]))) if isinstance(real_req, list) else [real["result"]]
        ctx.eq("result values", [x if isinstance(x, int) else str(x) for x in model["result"]], r_flat)
        # the whole packed result: nested_get(result, cache) of the model vs what the real call returned
        ctx.eq("packed result (nested_get)", _sym_to_str(model["packed"]), _tuple_to_list(real["result"]))
    return out


def _sym_to_str(x):
    return [_sym_to_str(e) for e in x] if isinstance(x, list) else (x if isinstance(x, int) else str(x))


def _tuple_to_list(x):
    return [_tuple_to_list(e) for e in x] if isinstance(x, (tuple, list)) else x


def same_nesting(req, res):
    """nested_get packs lists as tuples with the same shape"""
    if isinstance(req, list):
        return isinstance(res, tuple) and len(res) == len(req) and all(same_nesting(a, b) for a, b in zip(req, res))
    return not isinstance(res, tuple)


def gen_trace_input(rng, max_n=9, fail_p=0.0, missing_p=0.0):
    n = rng.randint(max(1, max_n // 3), max_n)
    dag = gen_dag(rng, n, p_data=rng.choice([0.05, 0.15, 0.3]), p_alias=rng.choice([0.0, 0.1, 0.2]),
                  missing=rng.random() < missing_p, shape=rng.choice(["chain", "wide", "wide"]))
    nn = len(dag["nodes"])
    req = gen_req(rng, nn)
    r0 = rng.random()
    if r0 < 0.07:
        # the empty request and nested requests made of / containing empty lists: nothing (or little) is needed
        some = rng.randrange(nn)
        req = rng.choice([[], [], [[], []], [[]], [[], [some]], [[some], []], [[[]], []]])
    elif r0 < 0.13 and any(nd[0] == "d" for nd in dag["nodes"]):
        # only data (literal) keys requested: no task may run
        datas = [i for i, nd in enumerate(dag["nodes"]) if nd[0] == "d"]
        pick = rng.sample(datas, rng.randint(1, min(3, len(datas))))
        req = rng.choice([pick[0], pick, [pick, []]])
    elif r0 < 0.55:
        # request every sink: the whole graph is needed and many tasks are ready at the same time
        used = {d for i in range(nn) for d in node_deps(dag, i)}
        sinks = [i for i in range(nn) if i not in used and dag["nodes"][i][0] != "x"]
        rng.shuffle(sinks)
        req = sinks[:8] or req
    if any(dag["nodes"][i][0] == "x" for i in flatten_req(req)):
        req = [i for i in flatten_req(req) if dag["nodes"][i][0] != "x"]
    fails = {}
    tasks = [i for i, nd in enumerate(dag["nodes"]) if nd[0] == "t"]
    if tasks and rng.random() < fail_p:
        for i in rng.sample(tasks, rng.randint(1, min(2, len(tasks)))):
            fails[str(i)] = rng.choice(["Boom", "Boom", "ValueError", "BaseBoom"])
    return {"dag": dag, "req": req, "nw": rng.choice([1, 1, 2, 2, 3, 4, 8]), "cs": rng.choice([1, 1, 2, 3, -1, -1, 6]),
            "fails": fails, "choices": None, "seed": rng.randrange(1 << 30), "bias": rng.choice([None, None, "fifo", "lifo"])}
