"""C04 — a failing task surfaces its exception and the scheduler terminates cleanly.

Model/theorems: lean/DaskModel/Model/Sched.lean (failure exit of the main loop, `finally:` finish callbacks),
lean/DaskModel/Props/C04.lean.
Tie: failure injection under the controlled executor (which task(s) fail, when the failing batch is delivered
relative to the others = adversary), outcome / event sequence / states diffed against the model; on the real
run: exception type and message, executed set vs dependents of the failed task, finish callback arguments,
no hang; API level on dask.get, threaded.get, get_async+ThreadPoolExecutor, dask.multiprocessing.get with
Exception / BaseException subclasses / unpicklable exceptions, rerun_exceptions_locally both ways.
"""
from __future__ import annotations

import random
import threading

from props import _sched_util as U

PROP = "C04"
READY = True
DRIVER = "dm_sched"
LEAN_MODULES = ["DaskModel.Props.C04"]
CASE_TIMEOUT_S = 40
LEVEL_TEXT = (
    "Lean 4 theorems over the get_async model, for every acyclic graph, every set of failing tasks, worker count, "
    "batch size and completion order: the loop stops with `failed k` only for a task that raised, that task (and "
    "everything after it in its batch) is never recorded finished (fail_propagates); a call that returns normally "
    "executed no failing task (success_means_no_failure); nothing depending directly or transitively on the failed "
    "task - or on any unfinished task, at any moment - is ever fired (no_dependent_of_failed_runs, "
    "no_dependent_of_unfinished_runs); the loop never waits on an empty queue, never raises an internal error and "
    "ends within #keys iterations (no_hang); every call emits exactly one finish event, last, with failed=true iff "
    "it does not return normally, also when start_state_from_dask raises (finish_cb_exactly_once, "
    "finish_cb_when_start_raises); when the failure is seen every input of the failed task is still in the scheduler's "
    "cache with its denoted value, so rerun_exceptions_locally=True re-executes it on the worker's inputs and cannot "
    "raise KeyError (rerun_locally_inputs_cached). VALIDATED ONLY: the exception object is opaque to the model - type, "
    "message and wrapping are checked on the real code: under the controlled executor, on get_sync / threaded / "
    "ThreadPoolExecutor / multiprocessing at API level, and at function level for the whole transport chain of the "
    "multiprocessing scheduler (pack_exception -> dumps -> loads -> reraise/remote_exception) over a zoo of exception "
    "classes (custom __init__ signatures, keyword-only, unpicklable attribute / argument, __reduce__ raising, __slots__, "
    "OSError with filename, StopIteration, ExceptionGroup, BaseException subclasses, classes built at run time).")
LEVEL_NOTE = (
    "Not modelled: OS thread/process timing (adversarial completion order is), the exception object, tracebacks, "
    "`remote_exception` dynamic subclassing in dask/multiprocessing.py (checked by oracle: isinstance of the original "
    "type, message contained), futures still running in the pool after the raise (dask does not cancel them; they "
    "are not dependents). Review round: the multiprocessing transport lost type and message of exceptions that pickle "
    "cannot rebuild or serialise (the former finding, and the much more common custom-__init__ case); repaired in /repo "
    "(ea4f7f4), finding retired. Remaining limit of that repair: an exception CLASS that cannot be pickled at all.")
TECHNIQUE = "Lean 4 invariant proof over an adversarial state machine with failure injection + differential correspondence"
ASSUMPTIONS = ["a task either returns its value or raises, deterministically per task (`fails`)"]
TRUSTED = ["concurrent.futures / multiprocessing deliver completions and exceptions"]


def _dependents_closure(dag, roots):
    n = len(dag["nodes"])
    out = set()
    changed = True
    while changed:
        changed = False
        for i in range(n):
            if i not in out and any(d in out or d in roots for d in U.node_deps(dag, i)):
                out.add(i)
                changed = True
    return out


def oracle_failure(ctx, out, inp, what="controlled"):
    real, dag, fails = out["real"], out["dag"], out["fails"]
    nodes = dag["nodes"]
    if any(nd[0] == "x" for nd in nodes):
        # a graph that lacks a dependency: whatever the call does, the finish callback runs once, last, and says
        # failed exactly when the call raised
        evs = real.get("events") or []
        fin0 = [e for e, _ in evs if e[0] == "finish"]
        if what == "controlled" and evs and not isinstance(real["error"], U.Hang):
            if len(fin0) != 1 or evs[-1][0][0] != "finish":
                ctx.fail(f"{what}: finish callback did not run exactly once as the last event (malformed graph)",
                         observed=[e for e, _ in evs][-4:])
            elif fin0[0][1] != (real["error"] is not None):
                ctx.fail(f"{what}: finish callback got the wrong `failed` flag (malformed graph)", observed=fin0[0],
                         expected=real["error"] is not None)
            if real["error"] is not None:
                ctx.branch("malformed-graph-raises")
        return
    flat = out["flat_ids"]
    needed = U.needed_ids(dag, flat)
    needed_fail = {i for i in fails if i in needed}
    err = real["error"]
    events = real.get("events") or []
    fin = [e for e, _ in events if e[0] == "finish"]
    execs = {k for k, *_ in real["exec_log"]}
    if isinstance(err, U.Hang):
        ctx.fail(f"{what}: the call hangs (loop condition true, nothing outstanding)", observed="hang")
        return
    if events is not None and what == "controlled":
        if len(fin) != 1 or events[-1][0][0] != "finish":
            ctx.fail(f"{what}: finish callback did not run exactly once as the last event", observed=[e for e, _ in events][-4:])
        elif fin[0][1] != (err is not None):
            ctx.fail(f"{what}: finish callback got the wrong `failed` flag", observed=fin[0], expected=err is not None)
    # a needed failing task whose own dependencies do not fail must make the call raise
    ev = U.reference_eval(dag, fails)
    must_raise = any(isinstance(ev(i), tuple) for i in flat)
    if must_raise and err is None:
        ctx.fail(f"{what}: a needed task raises but the call returned", observed=repr(real.get("result"))[:100])
        return
    if not must_raise:
        if err is not None:
            ctx.fail(f"{what}: the call raised although no needed task fails: {type(err).__name__}: {err}",
                     observed=str(err)[:200])
        return
    cls = U.classify_error(err)
    if cls[0] != "failed":
        ctx.fail(f"{what}: the call raised {type(err).__name__}: {err} instead of the task's exception",
                 observed=f"{type(err).__name__}: {str(err)[:150]}")
        return
    k = cls[1]
    if k not in needed_fail:
        ctx.fail(f"{what}: the surfaced exception does not come from a needed failing task", observed=k, expected=sorted(needed_fail))
        return
    typ = U.FAIL_KINDS[fails[k]]
    if not isinstance(err, typ):
        ctx.fail(f"{what}: exception type changed", observed=type(err).__name__, expected=typ.__name__)
    if f"boom-{k}" not in str(err):
        ctx.fail(f"{what}: exception message lost", observed=str(err)[:100], expected=f"boom-{k}")
    # no dependent of ANY failing task was executed
    blocked = _dependents_closure(dag, set(fails))
    ran = sorted(execs & blocked)
    pre = {e[1] for e, _ in events if e[0] == "pretask"}
    if ran or (pre & blocked):
        ctx.fail(f"{what}: a task depending on a failed task was executed", observed=[ran, sorted(pre & blocked)])
    post = {e[1] for e, _ in events if e[0] == "posttask"}
    if post & set(fails):
        ctx.fail(f"{what}: a failed task got a posttask callback", observed=sorted(post & set(fails)))


def case_trace(ctx, inp):
    out = U.run_trace(ctx, inp)
    oracle_failure(ctx, out, inp)
    real = out["real"]
    cls = U.classify_error(real["error"])
    if cls[0] == "failed" and inp.get("rerun"):
        # rerun_exceptions_locally=True: the failed task is executed a second time, in the scheduler's thread, on
        # inputs read from the scheduler's cache - they must be the values the worker got
        runs = [e for e in real["exec_log"] if e[0] == cls[1]]
        if len(runs) != 2:
            ctx.fail("rerun_exceptions_locally: the failed task was not executed exactly twice (worker + local rerun)",
                     observed=len(runs), expected=2)
        elif runs[0][1] != runs[1][1]:
            ctx.fail("rerun_exceptions_locally: the local rerun got other input values than the worker",
                     observed=list(runs[1][1]), expected=list(runs[0][1]))
        ctx.branch("rerun_exceptions_locally")
    if cls[0] == "failed":
        ctx.branch("failed")
        if len(inp["fails"]) > 1:
            ctx.branch("several-failing-tasks")
        if real["left_pending"]:
            ctx.branch("raised-with-batches-outstanding")
        if any(len(b) > 1 and cls[1] in b and b.index(cls[1]) > 0 for b in real["submits"]):
            ctx.branch("failure-not-first-in-batch")
        if any(e[0] == "posttask" for e, _ in real["events"]):
            ctx.branch("failed-after-some-finished")
        k = inp["fails"].get(str(cls[1])) or inp["fails"].get(cls[1])
        if k:
            ctx.branch("kind:" + k)
    elif inp.get("fails"):
        ctx.branch("failing-task-not-needed")


def case_exh(ctx, inp):
    def run_with(prefix, branching):
        sub = dict(inp, choices=prefix)
        out = U.run_trace(ctx, sub)
        branching.extend(out["real"]["branching"])
        oracle_failure(ctx, out, sub)
    n = U.enumerate_schedules(run_with, limit=inp.get("limit", 300))
    ctx.note("schedules_enumerated", n)
    ctx.branch("exh")
    if n > 1:
        ctx.branch("exh:several-orders")


def case_api(ctx, inp):
    import dask
    from dask.local import get_async, get_sync
    dag, req, sched, nw, cs, fails = inp["dag"], inp["req"], inp["sched"], inp["nw"], inp["cs"], inp["fails"]
    fails_i = {int(k): v for k, v in fails.items()}
    rng = random.Random(inp.get("seed", 0))
    tasks = [i for i, nd in enumerate(dag["nodes"]) if nd[0] == "t"]
    delays = {i: rng.choice([0, 0, 0.0005, 0.002]) for i in tasks} if sched not in ("sync", "mp") else {}
    dsk, keys = U.render(dag, fails_i, delays)
    real_req = U.map_req(req, lambda i: keys[i])
    fin = []

    def finish(d, state, failed):
        fin.append(bool(failed))
    kw = {"callbacks": [(None, None, None, None, finish)]}
    if inp.get("rerun") is not None:
        kw["rerun_exceptions_locally"] = inp["rerun"]
    err, res = None, None
    try:
        if sched == "sync":
            res = get_sync(dsk, real_req, chunksize=cs, **kw)
        elif sched == "threaded":
            from dask.threaded import get as tget
            res = tget(dsk, real_req, num_workers=nw, chunksize=cs, **kw)
        elif sched == "threadpool":
            from dask.threaded import pack_exception
            from props.c01 import _pool
            res = get_async(_pool(nw).submit, nw, dsk, real_req, chunksize=cs, pack_exception=pack_exception, **kw)
        elif sched == "mp":
            from dask.multiprocessing import get as mget
            res = mget(dsk, real_req, num_workers=nw, chunksize=cs, **kw)
        elif sched in ("threaded-in-thread", "pool-arg", "apply_async"):
            from props.c01 import run_custom
            res = run_custom(sched, dsk, real_req, nw, cs, **kw)
    except BaseException as e:
        if isinstance(e, (KeyboardInterrupt, SystemExit)) or type(e).__name__ == "CaseTimeout":
            raise
        err = e
    execs = U.exec_log() if sched != "mp" else []
    out = {"real": {"error": err, "result": res, "exec_log": execs, "events": [], "submits": []},
           "dag": dag, "fails": fails_i, "flat_ids": list(U.flatten_req(req))}
    if inp.get("rerun") and sched != "mp":
        # the failing task is re-executed locally: count it once for the dependents check only
        pass
    oracle_failure(ctx, out, inp, what=sched)
    if len(fin) != 1:
        ctx.fail(f"{sched}: finish callback ran {len(fin)} times", observed=fin)
    elif fin[0] != (err is not None):
        ctx.fail(f"{sched}: finish callback `failed` flag wrong", observed=fin[0], expected=err is not None)
    ctx.branch("api:" + sched)
    if err is not None:
        ctx.branch("api:raised:" + sched)
        if sched == "mp" and type(err) is not U.FAIL_KINDS.get(next(iter(fails_i.values()), "Boom")):
            ctx.branch("api:mp-wrapped-subclass")
    if inp.get("rerun"):
        ctx.branch("api:rerun_exceptions_locally")


def _dyn_exc_class(spec):
    """an exception class built at run time from a small spec (cloudpickle serialises such classes by value)"""
    base = {"Exception": Exception, "BaseException": BaseException, "ValueError": ValueError, "KeyError": KeyError,
            "OSError": OSError, "multi": (ValueError, KeyError)}[spec["base"]]
    bases = base if isinstance(base, tuple) else (base,)
    ns = {}
    arity = spec["arity"]

    if arity != "args":
        def __init__(self, *a, **kw):
            # the message never equals the constructor arguments: rebuilding by `cls(*self.args)` breaks
            if arity == "two":
                x, y = a
                BaseException.__init__(self, f"boom-{x} {y}")
            elif arity == "kw":
                BaseException.__init__(self, f"boom-{kw['code']} kw")
            else:                                   # "none": no argument at all
                assert not a and not kw
                BaseException.__init__(self, "boom-0 fixed")
            for k, v in spec.get("attrs", {}).items():
                setattr(self, k, threading.Lock() if v == "lock" else v)
        ns["__init__"] = __init__
    elif spec.get("attrs"):
        def __init__(self, *a):
            BaseException.__init__(self, *a)
            for k, v in spec.get("attrs", {}).items():
                setattr(self, k, threading.Lock() if v == "lock" else v)
        ns["__init__"] = __init__
    if spec.get("reduce_raises"):
        def __reduce__(self):
            raise TypeError("cannot pickle this exception")
        ns["__reduce__"] = __reduce__
    return type("Dyn" + spec["base"].title(), bases, ns)



def case_remote(ctx, inp):
    """what the multiprocessing scheduler does with a task's exception, in one process: worker side
    `pack_exception(e, dumps)`, parent side `loads(...)` then `raise_exception(exc, tb)` (= `reraise` -> `remote_exception`).
    The statement: the parent raises an exception of the same type (possibly a subclass) carrying the original message."""
    import dask.multiprocessing as M
    kid = inp.get("kid", 3)
    if "spec" in inp:
        cls = _dyn_exc_class(inp["spec"])
        ar = inp["spec"]["arity"]
        exc = cls(kid, "y") if ar == "two" else cls(code=kid) if ar == "kw" else cls() if ar == "none" else cls(f"boom-{kid}")
        want = f"boom-{kid}" if ar != "none" else "boom-0"
        sig = None
    else:
        exc = U.make_exc(inp["kind"], kid)
        cls = type(exc)
        want = f"boom-{kid}"
    got = None
    # twice: the second time `remote_exception` finds the wrapper type it built the first time in its table
    for attempt in (1, 2):
        got = None
        try:
            try:
                raise exc
            except BaseException as e:
                packed = M.pack_exception(e, M._dumps)
            exc2, tb = M._loads(packed)
            try:
                M.reraise(exc2, tb)
            except BaseException as e3:
                if isinstance(e3, (KeyboardInterrupt, SystemExit)) or type(e3).__name__ == "CaseTimeout":
                    raise
                got = e3
        except Exception as e4:
            ctx.fail("multiprocessing: transporting a task exception to the parent raised instead of yielding it "
                     f"({type(e4).__name__}: {str(e4)[:80]})" + (" [second exception of this type]" if attempt == 2 else ""),
                     observed=f"{type(e4).__name__}: {str(e4)[:100]}", expected=f"{cls.__name__}: {want}")
            return
        if attempt == 1 and (got is None or not isinstance(got, cls) or want not in str(got)):
            break
    if got is None:
        ctx.fail("multiprocessing: raise_exception did not raise", observed="no exception")
        return
    if not isinstance(got, cls):
        ctx.fail("multiprocessing: the exception raised in the parent is not of the task exception's type "
                 "(type and message lost)", observed=f"{type(got).__name__}: {str(got)[:100]}", expected=f"{cls.__name__}: {want}")
    elif want not in str(got):
        ctx.fail("multiprocessing: the exception raised in the parent lost the original message",
                 observed=str(got)[:120], expected=want)
    if type(got) is not cls:
        ctx.branch("remote:wrapped-in-subclass")
    else:
        ctx.branch("remote:same-object-type")
    ctx.branch("remote:" + (inp.get("kind") or "dyn:" + inp["spec"]["arity"]))
    if "spec" in inp:
        if inp["spec"].get("reduce_raises"):
            ctx.branch("remote:dyn:reduce-raises")
        if "lock" in inp["spec"].get("attrs", {}).values():
            ctx.branch("remote:dyn:unpicklable-attribute")


CASES = {"trace": case_trace, "exh": case_exh, "api": case_api, "remote": case_remote}


def _with_fail(rng, max_n, kinds=("Boom", "Boom", "ValueError", "BaseBoom", "ZeroDivisionError"), nfail=(1, 1, 2, 3)):
    inp = U.gen_trace_input(rng, max_n=max_n)
    dag = inp["dag"]
    needed = U.needed_ids(dag, list(U.flatten_req(inp["req"])))
    tasks = [i for i, nd in enumerate(dag["nodes"]) if nd[0] == "t"]
    pool = [i for i in tasks if i in needed] or tasks
    fails = {}
    if pool:
        for i in rng.sample(pool, min(len(pool), rng.choice(nfail))):
            fails[str(i)] = rng.choice(kinds)
        if rng.random() < 0.15 and len(tasks) > len(pool):
            fails[str(rng.choice([t for t in tasks if t not in pool]))] = "Boom"   # a failing task that is not needed
    inp["fails"] = fails
    return inp


def generate(ctx):
    rng = ctx.rng
    for _ in range(ctx.n(40, 400)):
        # graphs that lack a dependency: start_state_from_dask raises, the `finally:` still calls finish(failed=True)
        yield "trace", U.gen_trace_input(rng, max_n=rng.choice([3, 6]), missing_p=1.0)
    for _ in range(ctx.n(1200, 8000)):
        inp = _with_fail(rng, rng.choice([4, 7, 10, 14, 18]))
        if rng.random() < 0.2:
            inp["rerun"] = True
        yield "trace", inp
    scheds = ["sync", "threaded", "threaded", "threadpool", "threaded-in-thread", "pool-arg", "apply_async"]
    for _ in range(ctx.n(80, 1200)):
        inp = _with_fail(rng, rng.choice([6, 12, 25]), kinds=("Boom", "Boom", "ValueError", "BaseBoom", "ZeroDivisionError") + U.EXOTIC_KINDS)
        yield "api", {"dag": inp["dag"], "req": inp["req"], "sched": rng.choice(scheds), "nw": rng.choice([1, 2, 4, 8]),
                      "cs": rng.choice([1, 2, 5, -1]), "fails": inp["fails"], "seed": rng.randrange(1 << 30),
                      "rerun": rng.choice([None, None, False, True])}
    # the transport of a task exception from the worker process to the parent, function level, every kind
    for kind in U.FAIL_KINDS:
        yield "remote", {"kind": kind, "kid": rng.randrange(1, 50)}
    for _ in range(ctx.n(60, 600)):
        spec = {"base": rng.choice(["Exception", "Exception", "BaseException", "ValueError", "KeyError", "OSError", "multi"]),
                "arity": rng.choice(["args", "two", "kw", "none"]), "reduce_raises": rng.random() < 0.2,
                "attrs": {k: rng.choice([1, "s", [1, 2], "lock"]) for k in rng.sample(["a", "b", "c"], rng.randint(0, 2))}}
        yield "remote", {"spec": spec, "kid": rng.randrange(1, 50)}
    for i in range(ctx.n(3, 12)):
        inp = _with_fail(rng, rng.choice([5, 8]), kinds=("Boom", "ValueError") + U.EXOTIC_KINDS, nfail=(1,))
        inp["dag"]["keys"] = rng.choice(["str", "tuple", "falsy"])
        yield "api", {"dag": inp["dag"], "req": inp["req"], "sched": "mp", "nw": 2, "cs": rng.choice([1, 6]),
                      "fails": inp["fails"], "seed": 0, "rerun": None}
    # every single failing task of every small dag, every completion order
    for n in range(1, 5 if ctx.thorough() else 4):
        dags = list(U.all_dags(n, kinds=("d", "t")))
        if n == 4:
            dags = rng.sample(dags, 250)
        for nodes in dags:
            tasks = [i for i, nd in enumerate(nodes) if nd[0] == "t"]
            for f in tasks:
                dag = {"nodes": nodes, "keys": rng.choice(["str", "tuple", "int", "falsy"]), "style": rng.choice(["legacy", "spec", "mixed"])}
                yield "exh", {"dag": dag, "req": list(range(n)), "nw": rng.choice([1, 2, 3]), "cs": rng.choice([1, 2, -1]),
                              "fails": {str(f): "Boom"}, "seed": 0, "bias": None, "limit": 200}


def search(ctx):
    rng = ctx.rng
    for _ in range(ctx.n(2000, 8000)):
        yield "trace", _with_fail(rng, rng.choice([4, 7, 10]))
