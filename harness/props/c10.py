"""C10 — high-level graph culling and blockwise fusion are sound.

Model:    lean/DaskModel/Model/Blockwise.lean (coordinate map, _cull_dependencies, task dependencies),
          lean/DaskModel/Model/HLG.lean (HighLevelGraph.cull), lean/DaskModel/Model/Annot.lean (_fuse_annotations,
          rule table extracted into lean/DaskModel/Generated/FuseRules.lean)
Theorems: lean/DaskModel/Props/C10.lean
Tie:      function level: broadcast_dimensions/_make_dims, _get_coord_mapping, _lol_product, Blockwise._cull_dependencies,
          the dependencies of the tasks `_make_blockwise_graph` emits, get_output_keys, _fuse_annotations,
          HighLevelGraph.cull key sets;  API level: random stacks of blockwise-family array operations, culled to random
          block subsets with optimize_blockwise on/off, evaluated with the synchronous scheduler, against NumPy.
"""
from __future__ import annotations

import itertools

from sexp import Sym

from props import _hlg_util as U
from props import _hlg_optbw as OB

PROP = "C10"
READY = True
DRIVER = "dm_hlg"
LEAN_MODULES = ["DaskModel.Props.C10", "DaskModel.Props.C10xOptBW"]
TABLES = ["FuseRules"]
CASE_TIMEOUT_S = 60   # the first case of a run also pays the import of dask.array (slow on a loaded machine)
LEVEL_TEXT = ("Lean 4 theorems over a transliteration of dask/blockwise.py's coordinate logic, HighLevelGraph.cull and "
              "_fuse_annotations: `coordmap_spec` (the position arithmetic of _get_coord_mapping resolves, for every "
              "enumeration of the dummy-index set, to: output coordinate / 0 when numblocks == 1 / the whole range of a "
              "contracted index / a single 0 under concatenate), `cull_deps_eq_materialised` (Blockwise._cull_dependencies "
              "= dependencies of the task _make_blockwise_graph emits, as sets, for every layer and block), "
              "`hlg_cull_sound` (the layer-by-layer loop of HighLevelGraph.cull, including its keys_set quirks, keeps the "
              "requested keys, only original tasks, and is closed under dependencies, hence evaluates requested keys to "
              "the same value trees), `fuse_annotations_tighten` over the rule table EXTRACTED from the source on every run "
              "(retries/priority >= every input, resources per key >=, workers subset of every input, allow_other_workers "
              "implies every input's), `fresh_names_distinct` (in the transliterated index bookkeeping of rewrite_blockwise — "
              "live-list for-loop, substitution dicts, one name supply — the generator names given to the contracted indices "
              "of all fused producers are pairwise distinct: sibling contraction layers never share a contracted index), "
              "`rewrite_coord_sound` (+`_contracted`: per index, the coordinate the fused layer hands an input of a fused "
              "producer equals the coordinate the producer would use for the block the consumer reads, under numblocks "
              "consistency), and over a model of the DRIVER loop `_optimize_blockwise` (stack walk over layer dependencies, "
              "the worklist that gathers producers, its six guards): `fusion_group_sound` (every layer fused into a group "
              "is a Blockwise layer, is not a requested output, and all its dependents lie inside the group), "
              "`all_layers_grouped` / `optimize_blockwise_keeps_outputs` (on a topologically numbered graph every layer "
              "lands in some group and every requested layer name is the root of one, i.e. survives), for the runs on "
              "which the fuelled model terminates (`optimizeGroups_fuel_mono`: more fuel never changes a result); the groups of EVERY real pass (wrapped `rewrite_blockwise`) and the "
              "layers `fuse_roots` merges are diffed against the model on generated layer DAGs. "
              "Fusion VALUES (`rewrite_blockwise`/`optimize_blockwise`) are validated, not proved: the fused index table of "
              "every rewrite_blockwise call is diffed against the model, fused and unfused graphs are evaluated on random "
              "stacks (incl. a stream of consumers of sibling contraction producers with unequal block counts, diamonds) and "
              "block subsets and compared with NumPy, and every fused layer is re-checked against the coordinate model.")
LEVEL_NOTE = ("Trusted: Lean kernel + standard axioms; the hand-written model, tied by function-level differential tests "
              "(_get_coord_mapping, _cull_dependencies, _make_blockwise_graph, broadcast_dimensions, _lol_product, "
              "_fuse_annotations, HighLevelGraph.cull) and by the AST extractor for the annotation rule table; NumPy and "
              "the synchronous scheduler as oracles. Python set iteration order is modelled as an arbitrary enumeration. "
              "The grouping loop is modelled with one fixed traversal order (Python: set order) and fuel; that the result "
              "does not depend on the order, and that the fuel suffices, are validated by the diff, not proved. "
              "`fuse_roots`: the merge condition is modelled (with the mutation of the copied dicts) and diffed; theorem "
              "`fuse_roots_merges_sound` (merged roots are used by their consumer only). Not modelled: the `dependencies` dict "
              "`_optimize_blockwise` returns, BlockwiseDep.produces_keys.")
TECHNIQUE = "Lean 4 proof (induction over index strings / layer lists; extracted rule table) + differential correspondence + NumPy oracle"
ASSUMPTIONS = [
    "index symbols and collection names are compared only by equality (interned to Nat)",
    "iteration order of a Python set is an arbitrary duplicate-free enumeration (theorems quantify over it)",
    "tasks inside a materialized layer are listed dependents-first for the model (the real worklist computes the same set)",
    "annotation values are well typed (ints, dict of ints, collections of worker names, bools)",
    "layer names are numbered topologically for the grouping model (dependencies first; names that are not layers get numbers "
    "beyond the layer list); the hypotheses `topoOK`/`selfOK` of the coverage theorems are evaluated on every real graph",
]
TRUSTED = ["dask.local.get_sync as evaluator of materialised graphs", "NumPy as reference for array values"]


# ------------------------------------------------------------------------------------------------
# helpers
# ------------------------------------------------------------------------------------------------

def _exc(e):
    return [Sym("raised"), type(e).__name__]


def _model_ok(ans):
    return isinstance(ans, list) and ans and ans[0] == "ok"


def _coord_json(c):
    return list(c) if isinstance(c, (list, tuple)) else int(c)


# ------------------------------------------------------------------------------------------------
# function level: broadcast_dimensions / _make_dims / _get_coord_mapping
# ------------------------------------------------------------------------------------------------

def case_coordmap(ctx, inp):
    from dask.blockwise import _get_coord_mapping, _make_dims, broadcast_dimensions
    spec = inp["spec"]
    args, _ = U.spec_args_sexp(spec)
    out = spec["out"]
    conc = spec["conc"] is True
    names = {}
    argpairs, numblocks = [], {}
    for a in args:
        nm = "a%d" % a[0]
        argpairs.append((nm, tuple(a[1])))
        numblocks[nm] = tuple(a[2])
    argpairs_l = list(argpairs)
    for i in range(spec["lits"]):
        argpairs_l.insert(min(i, len(argpairs_l)), (("lit", i), None))
    new_axes = {int(k): (1 if v == 1 else (2,) * v) for k, v in spec["new_axes"].items()}
    # broadcast_dimensions
    try:
        bd = broadcast_dimensions(argpairs_l, numblocks)
        impl = [Sym("ok"), sorted([int(k), int(v)] for k, v in bd.items())]
    except ValueError as e:
        impl = [Sym("raised")]
    m = ctx.lean(Sym("bdims"), args)
    if _model_ok(m):
        m = [Sym("ok"), sorted(m[1])]
    ctx.eq("broadcast_dimensions", m, impl)
    if impl[0] == "raised":
        ctx.branch("shapes-do-not-align")
        return
    dims = _make_dims(argpairs_l, numblocks, new_axes)
    md = ctx.lean(Sym("makedims"), args, [[int(k), v] for k, v in spec["new_axes"].items()])
    if _model_ok(md):
        md = [Sym("ok"), sorted(dict((k, v) for k, v in reversed(md[1])).items())]  # newest binding first
        md[1] = [list(p) for p in md[1]]
    ctx.eq("_make_dims", md, [Sym("ok"), sorted([int(k), int(v)] for k, v in dims.items())])
    if any(int(k) in {s for a in args for s in a[1]} for k in spec["new_axes"]):
        ctx.branch("new_axes-on-input-index")
    dims_l = sorted([int(k), int(v)] for k, v in dims.items())
    # _get_coord_mapping (the real function asserts set(numblocks) == names with an index)
    try:
        cmaps, caxes, dummies = _get_coord_mapping(dims, tuple(out), numblocks, argpairs_l, conc)
    except KeyError:
        ctx.branch("keyerror")
        # an index without dims (an output/dummy symbol no input or new axis determines): the model must fail too
        m = ctx.lean(Sym("argcoords"), out, _dummy_enum(out, argpairs_l), dims_l, conc, [0] * len(out), args)
        ctx.eq("_get_coord_mapping KeyError", m[0] if isinstance(m, list) else m, Sym("raised"))
        return
    dums = _dummy_enum(out, argpairs_l)
    # raw positions, for the same enumeration of the dummy set as CPython produced
    mraw = ctx.lean(Sym("coordmap"), out, dums, args)
    real_maps = [list(map(int, c)) for c in cmaps if c is not None]
    real_axes = [list(map(int, c)) for c in caxes if c is not None]
    ctx.eq("coord_maps/concat_axes", mraw, [Sym("ok"), [real_maps, real_axes]])
    mdum = ctx.lean(Sym("dummies"), dims_l, conc, dums)
    ctx.eq("dummies", mdum, [Sym("ok"), [_coord_json(c) for c in dummies]])
    if dums:
        ctx.branch("dummy-indices")
    if any(n == 1 and dict(map(tuple, dims_l)).get(s, 1) > 1 for a in args for s, n in zip(a[1], a[2])):
        ctx.branch("broadcast-numblocks-1")
    if any(len(set(a[1])) < len(a[1]) for a in args):
        ctx.branch("repeated-symbol-in-arg")
    if conc and dums:
        ctx.branch("concatenate")
    # resolved coordinates for some output blocks: order independent, against model with ITS OWN enumeration
    # (first-seen) and against the specification function (the proved `coordmap_spec`, cross-checked at run time)
    try:
        blocks = list(itertools.product(*[range(dims[i]) for i in out]))
    except KeyError:
        return
    rng = ctx.rng
    for o in (blocks if len(blocks) <= 4 else rng.sample(blocks, 4)):
        coords = tuple(o) + tuple(dummies)
        real = [[_coord_json(coords[c]) for c in cm] for cm in cmaps if cm is not None]
        rev = list(reversed(dums))
        m1 = ctx.lean(Sym("argcoords"), out, rev, dims_l, conc, list(o), args)
        m2 = ctx.lean(Sym("argcoordsspec"), out, dims_l, conc, list(o), args)
        ctx.eq("arg_coords (reversed dummy enumeration)", m1, [Sym("ok"), real])
        ctx.eq("arg_coords (specification)", m2, [Sym("ok"), real])


def _dummy_enum(out, argpairs):
    """the enumeration of `all_indices - set(out_indices)` CPython produces (same construction as the code)"""
    all_indices = set()
    for name, ind in argpairs:
        if ind is not None:
            for x in ind:
                all_indices.add(x)
    return [int(s) for s in (all_indices - set(out))]


# ------------------------------------------------------------------------------------------------
# function level: _lol_product
# ------------------------------------------------------------------------------------------------

def _lol_json(x):
    if isinstance(x, list):
        return [Sym("L")] + [_lol_json(e) for e in x]
    return [7] + [int(i) for i in x[1:]]


def case_lol(ctx, inp):
    from dask.blockwise import _lol_product
    from dask.core import flatten
    vals = inp["values"]
    real = _lol_product(("x",), tuple(vals))
    flat = [[7] + [int(i) for i in k[1:]] for k in (flatten(real) if isinstance(real, list) else [real])]
    m = ctx.lean(Sym("lol"), 7, vals)
    ctx.eq("_lol_product", m, [_lol_json(real), flat])
    if any(isinstance(v, list) for v in vals):
        ctx.branch("nested")
    if any(isinstance(v, list) and len(v) == 0 for v in vals):
        ctx.branch("empty-range")
    # as_taskref variant: same dependencies
    t = _lol_product(("x",), tuple(vals), as_taskref=True)
    deps = sorted([7] + [int(i) for i in k[1:]] for k in t.dependencies) if hasattr(t, "dependencies") else [[7] + list(t.key[1:])]
    if deps != sorted({tuple(k) for k in flat}) and deps != [list(k) for k in sorted({tuple(k) for k in flat})]:
        ctx.fail("_lol_product(as_taskref=True) dependencies differ from flatten(_lol_product)", observed=deps, expected=flat)


# ------------------------------------------------------------------------------------------------
# function level: a real Blockwise layer: dims, output keys, _cull_dependencies, materialised task dependencies
# ------------------------------------------------------------------------------------------------

def case_layer(ctx, inp):
    spec = inp["spec"]
    msexp = U.spec_layer_sexp(spec)
    try:
        layer = U.build_real_layer(spec)
        dims = layer.dims
        okeys = layer.get_output_keys()
    except (ValueError, KeyError, AssertionError) as e:
        m = ctx.lean(Sym("blocks"), msexp)
        ctx.eq("Blockwise.dims / get_output_keys raises", m[0], Sym("raised"))
        ctx.branch("layer-raises-" + type(e).__name__)
        return
    mb = ctx.lean(Sym("blocks"), msexp)
    real_blocks = sorted(list(map(int, k[1:])) for k in okeys)
    ctx.eq("get_output_keys", [mb[0], sorted(mb[1]) if _model_ok(mb) else None], [Sym("ok"), real_blocks])
    if not real_blocks:
        ctx.branch("empty-layer")
        return
    rng = ctx.rng
    sel = [tuple(b) for b in real_blocks if rng.random() < inp.get("p", 0.5)] or [tuple(real_blocks[0])]
    try:
        kd = layer._cull_dependencies(set(sel))
    except TypeError as e:
        # a dummy index with no concat axis cannot occur; any TypeError is unexpected
        ctx.fail("_cull_dependencies raised " + repr(e)[:100])
        return
    culled = layer._cull(set(sel))
    mat = dict(culled)
    if set(mat) != {("z",) + b for b in sel}:
        ctx.fail("culled Blockwise layer does not materialise exactly the requested blocks",
                 observed=sorted(map(str, mat)), expected=sorted(map(str, sel)))
    for b in sel:
        key = ("z",) + b
        real_cd = U.canon_keys(U.real_key_to_model(k) for k in kd[key])
        real_td = U.canon_keys(U.real_key_to_model(k) for k in mat[key].dependencies)
        # property clause on the real code
        if real_cd != real_td:
            ctx.fail("Blockwise._cull_dependencies differs from the dependencies of the materialised task",
                     observed={"culled": real_cd, "task": real_td})
        mc = ctx.lean(Sym("culldeps"), msexp, list(b))
        mt = ctx.lean(Sym("task"), msexp, list(b))
        ctx.eq("_cull_dependencies", [mc[0], U.canon_keys(mc[1]) if _model_ok(mc) else None], [Sym("ok"), real_cd])
        ctx.eq("task.dependencies", [mt[0], U.canon_keys(mt[1][1]) if _model_ok(mt) else None], [Sym("ok"), real_td])
    used = {s for a in spec["args"] for s in a["ind"]}
    if used - set(spec["out"]):
        ctx.branch("contraction" + ("-concatenate" if spec["conc"] is True else ""))
    if any(a["io"] for a in spec["args"]):
        ctx.branch("io_deps")
    if spec["consts"]:
        ctx.branch("taskref-constants")
    if spec["lits"]:
        ctx.branch("literals")
    if spec["new_axes"]:
        ctx.branch("new_axes")
    if any(n == 1 and dims.get(s, 1) > 1 for a in spec["args"] for s, n in zip(a["ind"], a["nb"])):
        ctx.branch("broadcast")
    # Blockwise.cull: returns self when every block is requested
    lay2, deps2 = layer.cull({("z",) + b for b in sel} | {("other", 0)}, [])
    if set(deps2) != {("z",) + b for b in sel}:
        ctx.fail("Blockwise.cull returned dependencies for other keys than the requested blocks", observed=sorted(map(str, deps2)))
    if set(lay2.get_output_keys()) != {("z",) + b for b in sel}:
        ctx.fail("Blockwise.cull: culled layer's output keys are not the requested blocks",
                 observed=sorted(map(str, lay2.get_output_keys())), expected=sorted(map(str, sel)))


# ------------------------------------------------------------------------------------------------
# function level: _fuse_annotations (+ the tightening oracle on the real output)
# ------------------------------------------------------------------------------------------------

def _ann_real(a):
    out = {}
    for k, v in a:
        if v[0] == "int":
            out[k] = v[1]
        elif v[0] == "res":
            out[k] = {rk: rv for rk, rv in v[1]}
        elif v[0] == "set":
            out[k] = ["w%d" % i for i in v[1]]
        elif v[0] == "bool":
            out[k] = bool(v[1])
        else:
            out[k] = ("other", v[1])
    return out


def _ann_canon(d):
    """real fused dict -> canonical JSON-able"""
    out = {}
    for k, v in d.items():
        if isinstance(v, bool):
            out[k] = ["bool", v]
        elif isinstance(v, int):
            out[k] = ["int", v]
        elif isinstance(v, dict):
            out[k] = ["res", sorted([rk, rv] for rk, rv in v.items())]
        elif isinstance(v, list):
            out[k] = ["set", sorted(int(w[1:]) for w in v)]
        elif isinstance(v, tuple) and v and v[0] == "other":
            out[k] = ["other", v[1]]
        else:
            out[k] = ["?", repr(v)]
    return out


def _ann_model_canon(ans):
    out = {}
    for k, v in ans:
        tag = str(v[0])
        if tag == "res":
            out[k] = ["res", sorted([rk, rv] for rk, rv in v[1])]
        elif tag == "set":
            out[k] = ["set", sorted(v[1])]
        else:
            out[k] = [tag, v[1]]
    return out


def _tighten_violation(fused, inputs):
    """the statement's clause, evaluated on real dicts"""
    for a in inputs:
        for k in ("retries", "priority"):
            if k in a and not (k in fused and fused[k] >= a[k]):
                return f"{k} loosened: {fused.get(k)!r} < {a[k]!r}"
        if "resources" in a:
            for rk, rv in a["resources"].items():
                if not ("resources" in fused and fused["resources"].get(rk, float("-inf")) >= rv):
                    return f"resources[{rk}] loosened"
        if "workers" in a:
            if not ("workers" in fused and set(fused["workers"]) <= set(a["workers"])):
                return "workers not a subset of an input's workers"
        if "allow_other_workers" in a:
            if not ("allow_other_workers" in fused and (not fused["allow_other_workers"] or a["allow_other_workers"])):
                return "allow_other_workers loosened"
    return None


def _ann_sexp(a):
    out = []
    for k, v in a:
        tag = v[0]
        if tag == "res":
            out.append([k, [Sym("res"), [[rk, rv] for rk, rv in v[1]]]])
        elif tag == "set":
            out.append([k, [Sym("set"), list(v[1])]])
        elif tag == "bool":
            out.append([k, [Sym("bool"), bool(v[1])]])
        else:
            out.append([k, [Sym(tag), v[1]]])
    return out


def case_fuseann(ctx, inp):
    from dask.blockwise import _fuse_annotations
    anns = inp["anns"]
    real_in = [_ann_real(a) for a in anns]
    try:
        fused = _fuse_annotations(*real_in)
    except Exception as e:
        ctx.fail("_fuse_annotations raised on well-typed annotations: " + repr(e)[:120])
        return
    m = ctx.lean(Sym("fuseann"), [_ann_sexp(a) for a in anns])
    ctx.eq("_fuse_annotations", [m[0], _ann_model_canon(m[1]) if _model_ok(m) else None], [Sym("ok"), _ann_canon(fused)])
    why = _tighten_violation(fused, real_in)
    if why:
        ctx.fail("fused annotations loosen a constraint: " + why, observed=_ann_canon(fused), expected=None)
    ks = {k for a in anns for k, _ in a}
    for k in ks & {"retries", "priority", "resources", "workers", "allow_other_workers"}:
        if sum(1 for a in anns if any(kk == k for kk, _ in a)) > 1:
            ctx.branch("combine-" + k)
    if len(anns) > 2:
        ctx.branch("three-or-more")


# ------------------------------------------------------------------------------------------------
# function level: HighLevelGraph.cull key sets on random high-level graphs (materialized + blockwise layers)
# ------------------------------------------------------------------------------------------------

def _build_hlg(spec):
    """spec: {"layers": [{"name": "L0", "kind": "mat"|"bw", "tasks": [[key_id, [dep key ids]], …]}], "keys": {...}}
    key ids are ints; key id k of a blockwise layer 'Li' is ('Li', k), of a materialized layer the string 'k<k>'."""
    from dask._task_spec import Task, TaskRef, DataNode
    from dask.blockwise import Blockwise, blockwise_token
    from dask.highlevelgraph import HighLevelGraph, MaterializedLayer
    keyobj = {}
    for L in spec["layers"]:
        for j, (k, _) in enumerate(L["tasks"]):
            keyobj[k] = (L["name"], j)
    layers, deps = {}, {}
    owner = {k: L["name"] for L in spec["layers"] for k, _ in L["tasks"]}
    for L in spec["layers"]:
        nm = L["name"]
        deps[nm] = {owner[d] for _, ds in L["tasks"] for d in ds if owner[d] != nm}
        if L["kind"] == "mat" and L.get("legacy"):
            # legacy tuple tasks: Layer.cull takes its `has_legacy_tasks` branch (get_dependencies via keys_in_tasks)
            layers[nm] = MaterializedLayer({keyobj[k]: (_mk_node, k) + tuple(keyobj[d] for d in ds) for k, ds in L["tasks"]})
        elif L["kind"] == "mat":
            layers[nm] = MaterializedLayer({keyobj[k]: Task(keyobj[k], _mk_node, k, *[TaskRef(keyobj[d]) for d in ds])
                                            for k, ds in L["tasks"]})
        else:
            # a 1-d blockwise layer over ONE 1-d producer layer 'src' with as many blocks: z_i = f(src_i, consts…)
            src = L["src"]
            n = len(L["tasks"])
            layers[nm] = Blockwise(nm, ("i",), Task(nm, _mk_node_bw, TaskRef(blockwise_token(0))), [(src, ("i",))], {src: (n,)})
    return HighLevelGraph(layers, deps), keyobj


def _mk_node(k, *children):
    return ("n", k, tuple(children))


def _mk_node_bw(child):
    return ("b", child)


def case_hlgcull(ctx, inp):
    from dask.core import flatten
    from dask.local import get_sync
    spec = inp
    hlg, keyobj = _build_hlg(spec)
    inv = {v: k for k, v in keyobj.items()}
    req = [keyobj[k] for k in spec["keys"]]
    extra = [("nosuchlayer", 0)] if spec.get("stray") else []
    seen_order = {}
    for nm, lay in hlg.layers.items():
        def wrapped(keys, all_keys, _orig=lay.cull, _nm=nm):
            r = _orig(keys, all_keys)
            seen_order[_nm] = [inv[k] for k in r[1].keys()]   # iteration order of culled_deps (set-pop order: unspecified)
            return r
        lay.cull = wrapped
    culled = hlg.cull(set(req + extra))
    # real result: keys kept per layer, in the order the layers were produced
    order = list(reversed(hlg._toposort_layers()))
    real_layers = []
    for nm, lay in culled.layers.items():
        real_layers.append(sorted(inv[k] for k in lay.keys()))
    # the model gets the materialised view of every layer in the order of the real loop, tasks dependents-first
    tasks_of = {L["name"]: L for L in spec["layers"]}
    mlayers = []
    for nm in order:
        L = tasks_of[nm]
        mlayers.append([L["kind"] == "mat", [[k, list(ds)] for k, ds in _dependents_first(L["tasks"])], seen_order.get(nm, [])])
    m = ctx.lean(Sym("hlgcull"), mlayers, [k for k in spec["keys"]] + ([999999] if extra else []))
    ctx.eq("HighLevelGraph.cull kept keys per layer", [sorted(l) for l in m], real_layers)
    # property oracle on the real result: requested keys present, closed under dependencies, same values
    full = dict(hlg)
    cd = dict(culled)
    missing = [k for k in req if k not in cd]
    if missing:
        ctx.fail("culled graph lacks a requested key", observed=list(map(str, missing)))
        return
    depmap = {keyobj[k]: [keyobj[x] for x in ds] for L in spec["layers"] for k, ds in L["tasks"]}
    for k, t in cd.items():
        for d in depmap.get(k, ()):
            if d in full and d not in cd:
                ctx.fail("culled graph not closed under dependencies", observed=[str(k), str(d)])
                return
    want = get_sync(full, req)
    got = get_sync(cd, req)
    if want != got:
        ctx.fail("culled graph computes different values", observed=repr(got)[:300], expected=repr(want)[:300])
    if len(cd) < len(full):
        ctx.branch("culled-something")
    if any(L["kind"] == "bw" for L in spec["layers"]):
        ctx.branch("blockwise-layer")
    if any(L.get("legacy") for L in spec["layers"]):
        ctx.branch("legacy-task-layer")
    if any(len(l) == 0 for l in real_layers) or len(real_layers) < len(spec["layers"]):
        ctx.branch("layer-dropped")
    if any(any(owner_same(L, d) for _, ds in L["tasks"] for d in ds) for L in spec["layers"]):
        ctx.branch("intra-layer-deps")


def owner_same(L, d):
    return any(k == d for k, _ in L["tasks"])


def _dependents_first(tasks):
    """tasks of one layer ordered so that every task precedes its intra-layer dependencies"""
    ids = {k for k, _ in tasks}
    dep = {k: [d for d in ds if d in ids] for k, ds in tasks}
    full = dict((k, ds) for k, ds in tasks)
    done, out = set(), []

    def visit(k):
        if k in done:
            return
        done.add(k)
        for d in dep[k]:
            visit(d)
        out.append(k)
    for k, _ in tasks:
        visit(k)
    return [(k, full[k]) for k in reversed(out)]


def gen_hlg(rng):
    nl = rng.randint(1, 5)
    layers, allkeys, nxt = [], [], 1
    for i in range(nl):
        if i > 0 and rng.random() < 0.4:
            # a 1-d blockwise layer over one earlier layer: z_j = f(src_j)
            P = layers[rng.randrange(i)]
            tasks = [[nxt + j, [P["tasks"][j][0]]] for j in range(len(P["tasks"]))]
            nxt += len(tasks)
            layers.append({"name": "L%d" % i, "kind": "bw", "src": P["name"], "tasks": tasks})
        else:
            n = rng.randint(1, 5)
            ks = list(range(nxt, nxt + n))
            nxt += n
            tasks = []
            for j, k in enumerate(ks):
                pool = allkeys + ks[:j]  # earlier layers or earlier tasks of this layer
                ds = rng.sample(pool, min(len(pool), rng.choice([0, 1, 1, 2, 3]))) if pool else []
                tasks.append([k, ds])
            layers.append({"name": "L%d" % i, "kind": "mat", "tasks": tasks, "legacy": rng.random() < 0.3})
        allkeys += [k for k, _ in layers[-1]["tasks"]]
    nk = rng.randint(0, min(4, len(allkeys)))
    t = rng.random()
    keys = rng.sample(allkeys, nk) if t < 0.8 else ([k for k, _ in layers[-1]["tasks"]])
    return {"layers": layers, "keys": sorted(keys), "stray": rng.random() < 0.2}


# ------------------------------------------------------------------------------------------------
# API level: stacks of blockwise-family array operations; cull to block subsets; optimize_blockwise on/off
# ------------------------------------------------------------------------------------------------

STACK_W = {"un": 3, "bin": 5, "T": 3, "bwsum": 2, "bwlist": 2, "mb": 2, "mb_new": 3, "mb_drop": 2, "dot": 2, "bw2": 4, "bwc": 4,
           "bwself": 5,
           "where": 1, "sum": 1, "astype": 1, "expand": 1, "bcast": 1}


def _close(a, b):
    import numpy as np
    a, b = np.asarray(a), np.asarray(b)
    if a.shape != b.shape:
        return False
    if a.dtype.kind in "fc" or b.dtype.kind in "fc":
        return bool(np.allclose(a, b, rtol=1e-9, atol=1e-9, equal_nan=True))
    return bool(np.array_equal(a, b))


def case_stack(ctx, inp):
    import numpy as np
    import dask
    from dask.blockwise import Blockwise, optimize_blockwise
    from dask.core import flatten
    from dask.local import get_sync
    prog = inp["prog"]
    with np.errstate(all="ignore"):
        try:
            x = U.run_prog(prog, "np")
        except Exception:
            ctx.note("numpy-invalid-program")
            return
        d = U.run_prog(prog, "da")
        keys = list(flatten(d.__dask_keys__()))
        idx = inp.get("blocks")
        sub = [keys[i % len(keys)] for i in idx] if idx else keys
        sub = list(dict.fromkeys(sub))
        g = d.__dask_graph__()
        expected = {}

        def add_expected(arr, val, ks):
            starts = [U.cumsum0(c) for c in arr.chunks]
            for k in ks:
                expected[k] = val[tuple(slice(st[i], st[i + 1]) for st, i in zip(starts, k[1:]))]
        add_expected(d, x, sub)
        # a second requested collection: an INNER node of the same program (same deterministic names), so that a
        # layer that is itself an output must not be fused away (`keep` of optimize_blockwise)
        inner = inp.get("inner")
        if inner is not None:
            q = prog
            for step in inner:
                q = q[step] if isinstance(q, dict) and step in q and isinstance(q[step], dict) else None
                if q is None:
                    break
            if q is not None and q.get("op") not in ("scalar", "npleaf"):
                d2 = U.run_prog(q, "da")
                x2 = U.run_prog(q, "np")
                k2 = list(flatten(d2.__dask_keys__()))
                if d2.name in g.layers:
                    ks2 = [k2[i % len(k2)] for i in (idx or [0])][:2]
                    add_expected(d2, x2, ks2)
                    sub = list(dict.fromkeys(sub + ks2))
                    ctx.branch("inner-node-also-requested")

        def expect(k):
            return expected[k]
        names, syms = U.Interner(), U.Interner()
        for opt in (False, True):
            h = optimize_blockwise(g, keys=sub) if opt else g
            if opt and len(h.layers) < len(g.layers):
                ctx.branch("fused-layers")
            try:
                c = h.cull(set(sub))
                cd = dict(c)
            except Exception as e:
                ctx.fail(("fused " if opt else "") + "graph cannot be culled/materialised: " + type(e).__name__ + ": " + str(e)[:160],
                         observed={"opt": opt, "keys": list(map(str, sub))})
                continue
            try:
                got = get_sync(cd, sub)
            except Exception as e:
                ctx.fail(("fused+" if opt else "") + "culled graph does not evaluate: " + repr(e)[:200],
                         observed={"opt": opt, "keys": list(map(str, sub))})
                continue
            for k, v in zip(sub, got):
                if not _close(v, expect(k)):
                    ctx.fail(("fused+" if opt else "") + "culled graph computes a wrong block", observed=[str(k), np.asarray(v).tolist()],
                             expected=np.asarray(expect(k)).tolist())
                    break
            if len(cd) < len(dict(h)):
                ctx.branch("culled-opt" if opt else "culled")
            # every blockwise layer (fused or not): model vs real culled dependencies / task dependencies on a block subset
            for name, layer in h.layers.items():
                if not isinstance(layer, Blockwise):
                    continue
                try:
                    layer.dims
                except ValueError as e:
                    ctx.fail(("fused " if opt else "") + "Blockwise layer is inconsistent: " + str(e)[:160], observed=str(name))
                    continue
                _check_real_layer(ctx, layer, names, syms, fused=opt)
        # full result through the public entry point (default optimisation pipeline)
        try:
            r = d.compute(scheduler="sync")
        except Exception as e:
            ctx.fail("compute() raised on a program NumPy evaluates: " + type(e).__name__ + ": " + str(e)[:160])
            r = x
        # single blocks through the public pipeline (optimize_blockwise + fuse_roots + cull + low-level fusion)
        if d.ndim:
            starts = [U.cumsum0(c) for c in d.chunks]
            allidx = list(itertools.product(*[range(n) for n in d.numblocks]))
            for bidx in (allidx if len(allidx) <= 3 else ctx.rng.sample(allidx, 3)):
                try:
                    bv = d.blocks[bidx].compute(scheduler="sync")
                except Exception as e:
                    ctx.fail(".blocks[idx].compute() raised: " + type(e).__name__ + ": " + str(e)[:160], observed=list(bidx))
                    break
                sl = tuple(slice(st[i], st[i + 1]) for st, i in zip(starts, bidx))
                if not _close(bv, x[sl]):
                    ctx.fail(".blocks[idx].compute() (public optimisation pipeline) returns a wrong block", observed=list(bidx))
                    break
        if not _close(r, x):
            ctx.fail("dask result differs from NumPy", observed=np.asarray(r).tolist(), expected=np.asarray(x).tolist())
    for o in set(U.prog_ops(prog)):
        ctx.note("op:" + o.split(":")[0])


def _bl_sexp(layer, litnames):
    """a real Blockwise layer as the `rewrite` model sees it (strings; literal arguments get a name per object)"""
    from dask._task_spec import TaskRef
    ents = []
    for nm, ind in layer.indices:
        if ind is None:
            key = id(nm)
            litnames.setdefault(key, "lit%d" % len(litnames))
            ents.append([litnames[key], None])
        else:
            ents.append([str(nm), [str(s) for s in ind]])
    na = [[str(k), (len(v) if isinstance(v, tuple) else 1)] for k, v in layer.new_axes.items()]
    return [str(layer.output), [str(s) for s in layer.output_indices], ents, na]


def _canon_fused(out_ind, ents, new_axes, known):
    """rename the fresh contracted names (symbols not in `known`) by first appearance: the assignment of generator names to
    the members of the Python set `contracted` is unspecified"""
    ren = {}

    def r(s):
        if s in known:
            return s
        if s not in ren:
            ren[s] = "#%d" % len(ren)
        return ren[s]
    e2 = [[n, None if ind is None else [r(s) for s in ind]] for n, ind in ents]
    return [[r(s) for s in out_ind], e2, sorted([r(k), v] for k, v in new_axes)], len(ren)


def case_rewrite(ctx, inp):
    """function level: every rewrite_blockwise call that optimize_blockwise makes for a program, against the model"""
    import numpy as np
    import dask.blockwise as dbw
    from dask.core import flatten
    prog = inp["prog"]
    with np.errstate(all="ignore"):
        try:
            U.run_prog(prog, "np")
        except Exception:
            ctx.note("numpy-invalid-program")
            return
        d = U.run_prog(prog, "da")
    calls = []
    orig = dbw.rewrite_blockwise

    def spy(inputs):
        inputs = list(inputs)
        pre = [(l, dict(l.new_axes)) for l in inputs]   # the root's new_axes dict is mutated in place by the call
        out = orig(inputs)
        calls.append((pre, out))
        return out
    dbw.rewrite_blockwise = spy
    try:
        dbw.optimize_blockwise(d.__dask_graph__(), keys=list(flatten(d.__dask_keys__())))
    finally:
        dbw.rewrite_blockwise = orig
    for pre, out in calls:
        if len(pre) < 2:
            continue
        lit = {}
        layers = []
        known = set()
        for l, na in pre:
            s = _bl_sexp(l, lit)
            s[3] = [[str(k), (len(v) if isinstance(v, tuple) else 1)] for k, v in na.items()]
            layers.append(s)
            known |= set(s[1]) | {x for _, ind in s[2] if ind is not None for x in ind}
        m = ctx.lean(Sym("rewrite"), layers, str(out.output))
        real = _bl_sexp(out, lit)
        if not _model_ok(m):
            ctx.disagree("rewrite_blockwise (model failed)", m, real)
            continue
        m_out, m_ents, m_na, m_allocs = m[1]
        mc, m_nfresh = _canon_fused(m_out, m_ents, m_na, known)
        rc, r_nfresh = _canon_fused(real[1], real[2], real[3], known)
        ctx.eq("rewrite_blockwise fused index table (fresh names up to renaming)", mc, rc)
        total = sum(len(a) for a in m_allocs)
        if total >= 2:
            ctx.branch("rewrite-several-fresh-names")
        if len([a for a in m_allocs if a]) >= 2:
            ctx.branch("rewrite-several-contracting-producers")
        # every producer with at most one contracted index: the generator names themselves must agree
        if all(len(a) <= 1 for a in m_allocs):
            ctx.eq("rewrite_blockwise fused index table (exact names)", [m_out, m_ents, sorted(m_na)], [real[1], real[2], sorted(real[3])])
        ctx.branch("rewrite-call")
        if len(pre) >= 3:
            ctx.branch("rewrite-three-or-more-layers")
    if not calls:
        ctx.note("no-rewrite-call")


def _check_real_layer(ctx, layer, names, syms, fused=False):
    rng = ctx.rng
    if any(getattr(dep, "produces_keys", False) for dep in layer.io_deps.values()):
        ctx.note("skipped-produces_keys")
        return
    msexp = U.real_layer_sexp(layer, names, syms)
    okeys = sorted(layer.get_output_keys(), key=str)
    mb = ctx.lean(Sym("blocks"), msexp)
    if layer.output_blocks is None:
        ctx.eq("get_output_keys (real layer)", [mb[0], sorted(mb[1]) if _model_ok(mb) else None],
               [Sym("ok"), sorted(list(map(int, k[1:])) for k in okeys)])
    sel = [k for k in okeys if rng.random() < 0.4] or okeys[:1]
    sel = sel[:6]
    kd = layer._cull_dependencies({k[1:] for k in sel})
    mat = dict(layer._cull({k[1:] for k in sel}))
    for k in sel:
        real_cd = U.canon_keys(U.model_key(x, names) for x in kd[k])
        real_td = U.canon_keys(U.model_key(x, names) for x in mat[k].dependencies)
        if real_cd != real_td:
            ctx.fail("Blockwise._cull_dependencies differs from the dependencies of the materialised task"
                     + (" (fused layer)" if fused else ""), observed={"culled": real_cd, "task": real_td, "key": str(k)})
        mc = ctx.lean(Sym("culldeps"), msexp, list(k[1:]))
        ctx.eq("_cull_dependencies (real layer)", [mc[0], U.canon_keys(mc[1]) if _model_ok(mc) else None], [Sym("ok"), real_cd])
    contracted = {s for _, ind in layer.indices if ind is not None for s in ind} - set(layer.output_indices)
    if fused and len(contracted) >= 2:
        ctx.branch("fused-layer-with-several-contracted-indices")
        nbs = {layer.dims.get(s) for s in contracted}
        if len(nbs) >= 2:
            ctx.branch("fused-sibling-contractions-with-unequal-block-counts")
    if layer.concatenate:
        ctx.branch("real-layer-concatenate")
    if len({a for a, i in layer.indices if i is not None}) < sum(1 for a, i in layer.indices if i is not None):
        ctx.branch("real-layer-same-input-twice")
    if layer.new_axes:
        ctx.branch("real-layer-new_axes")


# ------------------------------------------------------------------------------------------------
# API level: annotations through dask.annotate + optimize_blockwise
# ------------------------------------------------------------------------------------------------

def case_annot(ctx, inp):
    import numpy as np
    import dask
    import dask.array as da
    from dask.blockwise import Blockwise, optimize_blockwise
    n = inp["n"]
    x = np.arange(n)
    d = da.from_array(x, chunks=tuple(inp["chunks"]), name="src-%d" % n)
    exp = x
    anns = []
    for step in inp["steps"]:
        a = _ann_real(step["ann"])
        if step["op"] == "diamond":
            # d -> (d*2 [annL], d*3 [annR]) -> sum [ann]: `d` has two dependents, so optimize_blockwise needs a second
            # pass to fuse it — _fuse_annotations is applied to the OUTPUT of an earlier fusion
            aL, aR = _ann_real(step["annL"]), _ann_real(step["annR"])
            with dask.annotate(**aL) if aL else _nullctx():
                left = d * 2
            with dask.annotate(**aR) if aR else _nullctx():
                right = d * 3
            with dask.annotate(**a) if a else _nullctx():
                d = left + right
            exp = exp * 2 + exp * 3
            anns.append(a)
            ctx.branch("annotated-diamond")
            continue
        with dask.annotate(**a) if a else _nullctx():
            if step["op"] == "neg":
                d, exp = -d, -exp
            elif step["op"] == "inc":
                d, exp = d + 1, exp + 1
            elif step["op"] == "dbl":
                d, exp = d * 2, exp * 2
            else:
                d, exp = d + d, exp + exp
        anns.append(a)
    g = d.__dask_graph__()
    with dask.config.set({"optimization.annotations.fuse": inp.get("fuse", True)}):
        h = optimize_blockwise(g, keys=list(d.__dask_keys__()))
    bw_before = {k: v for k, v in g.layers.items() if isinstance(v, Blockwise)}
    fused_layers = [v for v in h.layers.values() if isinstance(v, Blockwise)]
    if len(h.layers) < len(g.layers):
        ctx.branch("annotated-layers-fused")
    # which original layers went into which fused layer: those that disappeared are reachable from the surviving name
    for name, lay in h.layers.items():
        if not isinstance(lay, Blockwise) or name not in g.layers:
            continue
        members = [name]
        stack = [name]
        while stack:
            cur = stack.pop()
            for dep in g.dependencies.get(cur, ()):
                if dep not in h.layers and dep in bw_before and dep not in members:
                    members.append(dep)
                    stack.append(dep)
        if len(members) < 2:
            continue
        ins = [dict(bw_before[m].annotations or {}) for m in members]
        fused = dict(lay.annotations or {})
        why = _tighten_violation(fused, ins)
        if why:
            ctx.fail("fused layer annotations loosen a constraint: " + why,
                     observed={"fused": _ann_canon(fused), "inputs": [_ann_canon(i) for i in ins]})
        # `optimization.annotations.fuse = False`: only layers with EQUAL annotations may be fused
        if inp.get("fuse", True) is False and any(i != ins[0] for i in ins):
            ctx.fail("layers with different annotations were fused although optimization.annotations.fuse is False",
                     observed=[_ann_canon(i) for i in ins])
        if any(k not in ("retries", "priority", "resources", "workers", "allow_other_workers") for i in ins for k in i):
            ctx.branch("fused-group-with-non-fusable-key")
        # non-fusable keys must never be merged across different values — a layer WITHOUT the key counts as different
        FUS = ("retries", "priority", "resources", "workers", "allow_other_workers")
        for k in {k for i in ins for k in i if k not in FUS}:
            vals = {repr(i.get(k, "<absent>")) for i in ins}
            if len(vals) > 1:
                ctx.fail("layers that differ in a non-fusable annotation were fused", observed=[k, sorted(vals)])
        for i in ins:
            for k, v in i.items():
                if k not in ("retries", "priority", "resources", "workers", "allow_other_workers") and fused.get(k) != v:
                    ctx.fail("layers with different non-fusable annotation were fused", observed=[k, repr(v), repr(fused.get(k))])
        # model
        m = ctx.lean(Sym("fuseann"), [_ann_sexp(_ann_unreal(i)) for i in ins if i])
        if _model_ok(m):
            mc, rc = _ann_model_canon(m[1]), _ann_canon(fused)
            ctx.eq("fused layer annotations (as a multiset-insensitive dict)", mc, rc)
        ctx.branch("checked-fused-annotations")
    r = dask.local.get_sync(dict(h), list(dask.core.flatten(d.__dask_keys__())))
    if not np.array_equal(np.concatenate([np.atleast_1d(b) for b in r]), exp):
        ctx.fail("optimize_blockwise under annotations changed values")


def _ann_unreal(d):
    out = []
    for k, v in d.items():
        if isinstance(v, bool):
            out.append([k, ["bool", v]])
        elif isinstance(v, int):
            out.append([k, ["int", v]])
        elif isinstance(v, dict):
            out.append([k, ["res", [[a, b] for a, b in v.items()]]])
        elif isinstance(v, (list, tuple, set)) and all(isinstance(w, str) and w.startswith("w") for w in v):
            out.append([k, ["set", [int(w[1:]) for w in v]]])
        else:
            out.append([k, ["other", v[1] if isinstance(v, tuple) else 0]])
    return out


class _nullctx:
    def __enter__(self):
        return self

    def __exit__(self, *a):
        return False


def gen_ann(rng, rich=True):
    a = []
    if rng.random() < 0.5:
        a.append(["retries", ["int", rng.randint(0, 5)]])
    if rng.random() < 0.5:
        a.append(["priority", ["int", rng.randint(-3, 3)]])
    if rng.random() < 0.45:
        ks = rng.sample(["GPU", "MEM", "CPU"], rng.randint(1, 3))
        a.append(["resources", ["res", [[k, rng.randint(0, 4)] for k in ks]]])
    if rng.random() < 0.45:
        a.append(["workers", ["set", sorted(rng.sample(range(5), rng.randint(0, 4)))]])
    if rng.random() < 0.4:
        a.append(["allow_other_workers", ["bool", rng.random() < 0.5]])
    if rich and rng.random() < 0.6:
        a.append([rng.choice(["foo", "foo", "bar"]), ["other", rng.randint(0, 1)]])
    rng.shuffle(a)
    return a


# ------------------------------------------------------------------------------------------------

CASES = {"coordmap": case_coordmap, "lol": case_lol, "layer": case_layer, "fuseann": case_fuseann,
         "hlgcull": case_hlgcull, "stack": case_stack, "annot": case_annot, "rewrite": case_rewrite,
         # extension round: the driver loop `_optimize_blockwise` (fusion groups) and `fuse_roots` (Model/OptBW.lean)
         "optbw": OB.case_optbw, "optbwprog": OB.case_optbwprog}


def gen_siblings(rng):
    """A consumer of several sibling contraction producers. All producers yield the same output shape with the SAME
    chunks on the kept axes (so that no rechunk layer separates them from the consumer) but their contracted axes have
    different lengths / block counts (1 block vs n blocks, m vs n)."""
    nd_out = rng.randint(0, 2)
    out_shape = [rng.randint(1, 3) for _ in range(nd_out)]
    out_chunks = U.rand_chunks(rng, out_shape)
    salt = [0]

    def producer():
        salt[0] += 1
        kind = rng.choice(["bwlist", "bwlist", "bwlist", "bwsum", "bwc", "mb_drop"])
        ax = rng.randint(0, nd_out)
        n = rng.randint(1, 5)
        t = rng.random()
        cax = [n] if t < 0.35 else ([1] * n if t < 0.6 else U.rand_comp(rng, n))
        shape = out_shape[:ax] + [n] + out_shape[ax:]
        chunks = out_chunks[:ax] + [cax] + out_chunks[ax:]
        leaf = {"op": "leaf", "shape": shape, "chunks": chunks, "dtype": "i8", "salt": salt[0] + rng.randint(0, 3)}
        if rng.random() < 0.3:
            leaf = {"op": "un", "f": rng.choice(["neg", "abs", "square"]), "a": leaf}
        if kind == "bwc":
            salt[0] += 1
            ib = [ax] if rng.random() < 0.7 else []
            q = {"op": "leaf", "shape": [n if rng.random() < 0.6 else 1 for _ in ib], "chunks": None, "dtype": "i8", "salt": salt[0]}
            q["chunks"] = [cax if s == n else [1] for s in q["shape"]] if rng.random() < 0.6 else U.rand_chunks(rng, q["shape"])
            p = {"op": "bwc", "a": leaf, "b": q, "axis": ax, "ib": ib, "conc": rng.random() < 0.3}
        else:
            p = {"op": kind, "a": leaf, "axis": ax}
        for _ in range(rng.choice([0, 0, 1, 2])):
            p = {"op": "un", "f": rng.choice(["neg", "abs", "square"]), "a": p} if rng.random() < 0.6 else \
                {"op": "bin", "f": rng.choice(["add", "mul"]), "a": p, "b": {"op": "scalar", "v": rng.choice([1, 2, 3])}}
        return p

    k = rng.choice([2, 2, 2, 3])
    prods = [producer() for _ in range(k)]
    if rng.random() < 0.35:
        # diamond: one producer reached through two different elementwise layers (same deterministic names)
        d = prods[0]
        prods[0] = {"op": "bin", "f": "add", "a": {"op": "un", "f": "neg", "a": d},
                    "b": {"op": "bin", "f": "mul", "a": d, "b": {"op": "scalar", "v": 2}}}
    rng.shuffle(prods)
    c = prods[0]
    for q in prods[1:]:
        c = {"op": "bin", "f": rng.choice(["add", "add", "mul", "sub", "maximum"]), "a": c, "b": q}
    for _ in range(rng.choice([0, 0, 1])):
        c = {"op": "un", "f": rng.choice(["neg", "abs"]), "a": c}
    return c


def generate(ctx):
    rng = ctx.rng
    # fixed regressions / hand-picked corners
    yield "lol", {"values": []}
    yield "lol", {"values": [1, [2, 3], 4, [5, 6]]}
    yield "lol", {"values": [[], 1]}
    yield "fuseann", {"anns": []}
    yield "fuseann", {"anns": [[["workers", ["set", [1, 2]]]], [["workers", ["set", [3]]]]]}
    for _ in range(ctx.n(450, 6000)):
        yield "coordmap", {"spec": U.gen_layer_spec(rng, malformed=rng.random() < 0.08)}
    for _ in range(ctx.n(150, 1500)):
        n = rng.randint(0, 4)
        yield "lol", {"values": [([rng.randint(0, 3) for _ in range(rng.randint(0, 3))] if rng.random() < 0.45 else rng.randint(0, 4))
                                 for _ in range(n)]}
    for _ in range(ctx.n(400, 5000)):
        yield "layer", {"spec": U.gen_layer_spec(rng, malformed=rng.random() < 0.05), "p": rng.choice([0.3, 0.6, 1.0])}
    for _ in range(ctx.n(350, 5000)):
        yield "fuseann", {"anns": [gen_ann(rng) for _ in range(rng.randint(1, 4))]}
    for _ in range(ctx.n(250, 3000)):
        yield "hlgcull", gen_hlg(rng)
    for _ in range(ctx.n(40, 400)):
        n = rng.randint(1, 6)
        rich = rng.random() < 0.5
        steps = [{"op": rng.choice(["neg", "inc", "dbl", "self"]), "ann": gen_ann(rng, rich=rich)}
                 for _ in range(rng.randint(2, 4))]
        if rng.random() < 0.3:
            # only a non-fusable key, equal or different between neighbours
            steps = [{"op": s["op"], "ann": [["foo", ["other", rng.randint(0, 1)]]] if rng.random() < 0.8 else []} for s in steps]
        yield "annot", {"n": n, "chunks": [U.rand_comp(rng, n)], "steps": steps, "fuse": rng.random() < 0.85}
    # diamonds: a layer with two dependents is fused in a SECOND pass, i.e. with the already fused annotations of the first
    # (half of them with worker sets drawn from few workers, so that the first fusion often leaves the empty intersection)
    for _ in range(ctx.n(40, 400)):
        n = rng.randint(1, 5)

        def wann():
            if rng.random() < 0.5:
                return gen_ann(rng, rich=False)
            a = [["workers", ["set", sorted(rng.sample(range(3), rng.randint(1, 2)))]]]
            if rng.random() < 0.3:
                a.append(["retries", ["int", rng.randint(0, 3)]])
            return a
        steps = [{"op": rng.choice(["neg", "inc"]), "ann": wann()} for _ in range(rng.randint(0, 2))]
        steps.append({"op": "diamond", "ann": wann(), "annL": wann(), "annR": wann()})
        steps += [{"op": rng.choice(["neg", "dbl"]), "ann": wann()} for _ in range(rng.randint(0, 1))]
        yield "annot", {"n": n, "chunks": [U.rand_comp(rng, n)], "steps": steps, "fuse": True}
    # function level: the grouping decision of every `_optimize_blockwise` pass and the condition of `fuse_roots` on
    # synthetic layer DAGs (chains, diamonds, fans, shared/output producers, mixed concatenate/annotations, io layers) …
    for i in range(ctx.n(360, 4000)):
        yield "optbw", (OB.gen_roots_graph(rng) if i % 4 == 0 else OB.gen_graph(rng))
    # … and on the graphs of array programs
    G3 = U.ProgGen(rng, STACK_W, leaf_dtypes=("i8", "f8"), maxdim=3, maxnd=3)
    for i in range(ctx.n(50, 600)):
        yield "optbwprog", {"prog": gen_siblings(rng) if i % 3 == 0 else G3.gen(rng.randint(2, 5))[0]}
    # function level: the rewrite_blockwise calls of optimize_blockwise for sibling-contraction programs and general stacks
    for _ in range(ctx.n(100, 1200)):
        yield "rewrite", {"prog": gen_siblings(rng)}
    G2 = U.ProgGen(rng, STACK_W, leaf_dtypes=("i8", "f8"), maxdim=3, maxnd=3)
    for _ in range(ctx.n(60, 800)):
        p, _x = G2.gen(rng.randint(2, 5))
        yield "rewrite", {"prog": p}
    # structured stream: one consumer of >= 2 SIBLING contraction producers (contracted axes with unequal block
    # counts, concatenate=None/True), diamonds (the same producer reached twice), second optimisation round
    for _ in range(ctx.n(60, 700)):
        p = gen_siblings(rng)
        nb = rng.randint(1, 3)
        yield "stack", {"prog": p, "blocks": [rng.randrange(64) for _ in range(nb)] if rng.random() < 0.7 else None,
                        "inner": None, "stream": "siblings"}
    G = U.ProgGen(rng, STACK_W, leaf_dtypes=("i8", "i4", "f8"), maxdim=4, maxnd=3)
    for _ in range(ctx.n(60, 700)):
        p, x = G.gen(rng.randint(1, 4))
        nb = rng.randint(1, 4)
        inner = (["a"] + [rng.choice(["a", "a", "b"]) for _ in range(rng.choice([0, 0, 1]))]) if rng.random() < 0.6 else None
        yield "stack", {"prog": p, "blocks": [rng.randrange(64) for _ in range(nb)] if rng.random() < 0.8 else None, "inner": inner}
