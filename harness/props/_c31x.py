"""C31 extension: the WIRING of dask.array.linalg.tsqr's task graph vs the Lean plan (Model/TsqrPlan.lean).

Section `tsqrwire`.  For row chunks (m_1 … m_N) and c columns the real `tsqr` is called (every recursive call recorded:
its `data.chunks[0]` and `_max_vchunk_size`), the returned graph is materialised and, level by level (token chain
`dot-T-q3` → `getitem-T-q2` → `dot-T'-q3` …), every task that carries block data is decoded from its key and arguments:
  qr-T (i,0) = _wrapped_qr(data (i,0));  getitem-T-q1 / -r1 (i,0) = qr-T (i,0) [0] / [1];
  stack-T-r1 (g,0) = vstack of which R blocks (the grouping `all_blocks`);
  single core: qr-T-qr2 = np.linalg.qr(stack (0,0)), getitem-T-q2-aux / -r2 = its [0] / [1];
  getitem-T-q2 (j,0) = <which block of which Q'> [start:stop, 0:n];  r-inner-T alias;  dot-T-q3 (i,0) = np.dot(q1 i, q2 i)
and compared with the Lean plan (levels, branch taken per level, chunks handed to the recursive call, groups, slices).
Independent of the model, the partition property is evaluated on the real slices against the shapes of the R factors
the real kernels return (computed from the graph): in every stacked block the slices are in order, disjoint and cover
its rows; R_i has min(m_i, c) rows; and Q·R = A.
"""
from __future__ import annotations

import operator

import numpy as np

from sexp import Sym


class Wiring(Exception):
    pass


def _need(cond, msg, obs=None):
    if not cond:
        raise Wiring(msg if obs is None else f"{msg}: {obs!r}"[:400])


def _getitem_task(t, what):
    _need(isinstance(t, tuple) and len(t) == 3 and t[0] is operator.getitem, f"{what} is not a getitem task", t)
    return t[1], t[2]


def _task(t, func, what):
    from dask._task_spec import Task, TaskRef
    _need(isinstance(t, Task), f"{what} is not a Task", t)
    _need(t.func is func, f"{what} calls {getattr(t.func, '__name__', t.func)}", None)
    keys = []
    for a in t.args:
        _need(isinstance(a, TaskRef), f"{what} has a non-key argument", a)
        keys.append(a.key)
    return keys


def real_wiring(q, r, data_name, n):
    """decode the levels of the graph behind the (q, r) returned by tsqr"""
    from dask.array import linalg as L
    layers = q.dask.layers
    levels = []
    name_q, name_r, src_name = q.name, r.name, data_name
    for _ in range(64):
        _need(name_q.startswith("dot-") and name_q.endswith("-q3"), "Q is not a dot-…-q3 layer", name_q)
        T = name_q[len("dot"):-len("-q3")]
        qr1 = dict(layers["qr" + T])
        nb = len(qr1)
        lvl = {"token": T, "nb": nb}
        for i in range(nb):
            k = _task(qr1.get(("qr" + T, i, 0)), L._wrapped_qr, f"qr block {i}")
            _need(k == [(src_name, i, 0)], f"qr block {i} does not read data block {i}", k)
        for suffix, pos in (("-q1", 0), ("-r1", 1)):
            lay = dict(layers["getitem" + T + suffix])
            _need(sorted(lay) == [("getitem" + T + suffix, i, 0) for i in range(nb)], f"keys of getitem{suffix}", sorted(lay)[:4])
            for i in range(nb):
                s, ix = _getitem_task(lay[("getitem" + T + suffix, i, 0)], f"getitem{suffix} {i}")
                _need(s == ("qr" + T, i, 0) and ix == pos and not isinstance(ix, bool), f"getitem{suffix} {i} wiring", (s, ix))
        stack = dict(layers["stack" + T + "-r1"])
        groups = []
        for g in range(len(stack)):
            t = stack.get(("stack" + T + "-r1", g, 0))
            _need(isinstance(t, tuple) and len(t) == 2 and t[0] is np.vstack and t[1][0] is tuple, f"stack block {g} is not vstack(tuple([...]))", t)
            members = []
            for k in t[1][1]:
                _need(isinstance(k, tuple) and len(k) == 3 and k[0] == "getitem" + T + "-r1" and k[2] == 0, f"stack block {g} member", k)
                members.append(k[1])
            groups.append(members)
        lvl["groups"] = groups
        q2 = dict(layers["getitem" + T + "-q2"])
        _need(sorted(q2) == [("getitem" + T + "-q2", j, 0) for j in range(nb)], "keys of getitem-q2", sorted(q2)[:4])
        recursive = ("r-inner" + T) in layers
        lvl["recursive"] = recursive
        slices, srcs = [], set()
        for j in range(nb):
            s, ix = _getitem_task(q2[("getitem" + T + "-q2", j, 0)], f"getitem-q2 {j}")
            _need(isinstance(ix, tuple) and len(ix) == 2 and all(isinstance(v, slice) for v in ix), f"getitem-q2 {j} index", ix)
            _need((ix[1].start, ix[1].stop, ix[1].step) == (0, n, None) and ix[0].step is None, f"getitem-q2 {j} column slice / step", ix)
            _need(isinstance(s, tuple) and len(s) == 3 and s[2] == 0, f"getitem-q2 {j} source", s)
            srcs.add(s[0])
            slices.append([j, s[1], ix[0].start, ix[0].stop])
        lvl["slices"] = slices
        _need(len(srcs) == 1, "getitem-q2 reads several source layers", sorted(srcs))
        lvl["q2src"] = srcs.pop()
        dot = dict(layers[name_q])
        _need(sorted(dot) == [(name_q, i, 0) for i in range(nb)], "keys of dot-q3", sorted(dot)[:4])
        for i in range(nb):
            k = _task(dot[(name_q, i, 0)], np.dot, f"dot block {i}")
            _need(k == [("getitem" + T + "-q1", i, 0), ("getitem" + T + "-q2", i, 0)], f"dot block {i} operands", k)
        lvl["stackname"] = "stack" + T + "-r1"
        if recursive:
            _need(name_r == "r-inner" + T, "R of a recursive level is not r-inner", name_r)
            al = dict(layers[name_r])
            _need(list(al) == [(name_r, 0, 0)], "keys of r-inner", list(al))
            tgt = al[(name_r, 0, 0)]
            _need(isinstance(tgt, tuple) and len(tgt) == 3 and tgt[1:] == (0, 0) and isinstance(tgt[0], str), "r-inner is not an alias of a block", tgt)
            levels.append(lvl)
            name_q, name_r, src_name = lvl["q2src"], tgt[0], lvl["stackname"]
            continue
        _need(name_r == "getitem" + T + "-r2", "R of a single-core level is not getitem-…-r2", name_r)
        _need(len(groups) == 1, "single-core level stacks into several blocks", groups)
        qr2 = dict(layers["qr" + T + "-qr2"])
        k = _task(qr2.get(("qr" + T + "-qr2", 0, 0)), np.linalg.qr, "in-core qr")
        _need(k == [("stack" + T + "-r1", 0, 0)], "in-core qr does not read the stacked R", k)
        for nm, pos in (("getitem" + T + "-q2-aux", 0), (name_r, 1)):
            lay = dict(layers[nm])
            _need(list(lay) == [(nm, 0, 0)], f"keys of {nm}", list(lay))
            s, ix = _getitem_task(lay[(nm, 0, 0)], nm)
            _need(s == ("qr" + T + "-qr2", 0, 0) and ix == pos, f"{nm} wiring", (s, ix))
        _need(lvl["q2src"] == "getitem" + T + "-q2-aux", "getitem-q2 does not slice the in-core Q", lvl["q2src"])
        _need(len(dict(layers["q-blocksizes" + T])) == 0, "q-blocksizes layer is not empty although all chunks are known")
        levels.append(lvl)
        return levels
    raise Wiring("more than 64 levels")


def partition_oracle(ctx, where, slices_of_block, rows, heights):
    """slices_of_block: [(blk, start, stop)] of ONE stacked block in block order; rows: its real number of rows;
    heights[blk]: real number of rows of R_blk"""
    pos = 0
    for blk, s, e in slices_of_block:
        if s != pos or e < s:
            ctx.fail(f"tsqr {where}: the Q' slices of a stacked block are not consecutive (overlap, gap or disorder)",
                     observed=[list(t) for t in slices_of_block], expected=f"start {pos} for block {blk}")
            return
        if e - s != heights[blk]:
            ctx.fail(f"tsqr {where}: the Q' slice of a block is not as tall as its R factor",
                     observed=[blk, s, e], expected=int(heights[blk]))
            return
        pos = e
    if pos != rows:
        ctx.fail(f"tsqr {where}: the Q' slices do not cover the rows of the stacked R", observed=pos, expected=int(rows))


def case_tsqrwire(ctx, inp):
    import dask
    import dask.array as da
    from dask.array import linalg as L
    dask.config.set(scheduler="sync")
    chunks, n = list(inp["chunks"]), inp["n"]
    m = sum(chunks)
    a = np.random.RandomState(inp["seed"]).randint(-4, 5, size=(m, n)).astype(float)
    a += np.random.RandomState(inp["seed"] + 1).rand(m, n) * 0.25
    x = da.from_array(a, chunks=(tuple(chunks), (n,)))
    calls = []
    orig = L.tsqr

    def recording(data, compute_svd=False, _max_vchunk_size=None):
        calls.append([list(data.chunks[0]), _max_vchunk_size, data.name])
        return orig(data, compute_svd, _max_vchunk_size)
    L.tsqr = recording
    try:
        try:
            q, r = L.tsqr(x)
            got = "ok"
        except ZeroDivisionError:
            got = "raised"
    finally:
        L.tsqr = orig
    model = ctx.lean(Sym("tsqrplan"), chunks, n)
    if model[0] == Sym("fuel"):
        ctx.disagree("the model's recursion budget (length + 2 calls) was exhausted", "fuel", calls)
        return
    ctx.eq("tsqr: ZeroDivisionError exactly when every block has 0 rows", "raised" if model[0] == Sym("raised") else "ok", got)
    if got == "raised" or model[0] == Sym("raised"):
        if max(chunks) != 0:
            ctx.fail("tsqr raised ZeroDivisionError although a block has rows", observed=chunks)
        ctx.branch("all blocks empty: ZeroDivisionError")
        return
    mlevels = model[1:]
    ctx.eq("tsqr: chunks and _max_vchunk_size of every (recursive) call", [[lv[0], lv[1]] for lv in mlevels], [c[:2] for c in calls])
    try:
        levels = real_wiring(q, r, x.name, n)
    except (Wiring, KeyError) as e:
        ctx.fail(f"tsqr graph is not wired as documented: {e}", observed=str(e)[:300])
        return
    ctx.eq("tsqr: branch taken at every level", [bool(lv[2]) for lv in mlevels], [lv["recursive"] for lv in levels])
    if len(levels) != len(mlevels) or len(calls) != len(levels):
        return
    graph = dict(q.dask)
    for d, (lv, ml, call) in enumerate(zip(levels, mlevels, calls)):
        where = f"level {d} ({'recursive' if lv['recursive'] else 'single-core'})"
        if lv["nb"] != len(call[0]):
            ctx.disagree(f"{where}: number of qr blocks vs chunks of the call", len(call[0]), lv["nb"])
            return
        ctx.eq(f"tsqr {where}: members of the stacked R blocks (all_blocks)", [[g[0] for g in grp] for grp in ml[3]], lv["groups"])
        ctx.eq(f"tsqr {where}: Q' slices (block, source block, start, stop)", [list(s) for s in ml[5]], lv["slices"])
        # the real factors' shapes
        T = lv["token"]
        nb = lv["nb"]
        keys = [("getitem" + T + "-r1", i, 0) for i in range(nb)] + [("getitem" + T + "-q1", i, 0) for i in range(nb)] \
            + [(lv["stackname"], g, 0) for g in range(len(lv["groups"]))] + [(lv["q2src"], g, 0) for g in range(len(lv["groups"]))]
        try:
            vals = dask.get(graph, keys)
        except Exception as e:
            ctx.fail(f"tsqr {where}: the graph fails at compute time: {type(e).__name__}", observed=str(e)[:200])
            return
        rs, qs = vals[:nb], vals[nb:2 * nb]
        st, qsrc = vals[2 * nb:2 * nb + len(lv["groups"])], vals[2 * nb + len(lv["groups"]):]
        heights = [v.shape[0] for v in rs]
        ctx.eq(f"tsqr {where}: rows of the R factors (min(m_i, c)) vs the real kernels", [g[1] for grp in ml[3] for g in grp], heights)
        if [v.shape for v in qs] != [(mi, h) for mi, h in zip(call[0], heights)] or any(v.shape[1] != n for v in rs):
            ctx.fail(f"tsqr {where}: per-block factor shapes", observed=[[list(v.shape) for v in qs], [list(v.shape) for v in rs]])
            return
        ctx.eq(f"tsqr {where}: rows of the stacked R blocks (vchunks)", list(ml[4]), [v.shape[0] for v in st])
        if lv["recursive"] and d + 1 < len(calls):
            ctx.eq(f"tsqr {where}: chunks handed to the recursive call", list(ml[4]), calls[d + 1][0])
            if calls[d + 1][2] != lv["stackname"]:
                ctx.fail("the recursive call does not receive the stacked R array", observed=calls[d + 1][2])
        flat = [i for g in lv["groups"] for i in g]
        if flat != list(range(nb)) or any(len(g) == 0 for g in lv["groups"]):
            ctx.fail(f"tsqr {where}: stacking loses, duplicates, reorders R blocks or makes an empty group", observed=lv["groups"])
            return
        for g, members in enumerate(lv["groups"]):
            sl = [(j, s, e) for (j, src, s, e) in lv["slices"] if src == g]
            if [j for j, _, _ in sl] != members:
                ctx.fail(f"tsqr {where}: the blocks slicing stacked block {g} are not its members", observed=[sl, members])
                return
            if qsrc[g].shape[0] != st[g].shape[0]:
                ctx.fail(f"tsqr {where}: block {g} of Q' has not the rows of stacked block {g}", observed=[list(qsrc[g].shape), list(st[g].shape)])
                return
            partition_oracle(ctx, where, sl, st[g].shape[0], heights)
        if any(c < n for c in call[0]):
            ctx.branch(("recursive" if lv["recursive"] else "single-core") + ": block shorter than wide")
        if any(c == 0 for c in call[0]):
            ctx.branch(("recursive" if lv["recursive"] else "single-core") + ": zero-row block")
        if len(lv["groups"]) > 1 and len(set(len(g) for g in lv["groups"])) > 1:
            ctx.branch("groups of different sizes")
    try:
        qv, rv = [np.asarray(v) for v in dask.compute(q, r, scheduler="sync")]
    except Exception as e:
        ctx.fail(f"tsqr: the graph fails at compute time: {type(e).__name__}", observed=str(e)[:200])
        return
    k = min(m, n)
    tol = 1e-8 * max(1.0, float(np.abs(a).max()) if a.size else 1.0)
    if qv.shape != (m, k) or rv.shape != (k, n):
        ctx.fail("tsqr: wrong factor shapes", observed=[list(qv.shape), list(rv.shape)], expected=[[m, k], [k, n]])
    elif not np.allclose(qv @ rv, a, atol=tol, rtol=1e-9):
        ctx.fail("tsqr: Q·R differs from the input", observed=float(np.abs(qv @ rv - a).max()))
    elif not np.allclose(qv.T @ qv, np.eye(k), atol=tol):
        ctx.fail("tsqr: Q does not have orthonormal columns", observed=float(np.abs(qv.T @ qv - np.eye(k)).max()))
    ctx.branch(f"levels={len(levels)}")


def gen_tsqrwire(ctx, count):
    rng = ctx.rng
    for _ in range(count):
        mode = rng.random()
        cc = rng.choice([0, 1, 1, 2, 2, 3, 3, 4, 5]) if rng.random() < 0.9 else rng.randint(6, 8)
        if mode < 0.08:         # every block empty
            chunks = [0] * rng.randint(1, 4)
        elif mode < 0.35:       # irregular, short, zero blocks: mostly the single-core branch
            chunks = [rng.choice([0, 0, 1, 1, 2, 3, rng.randint(0, 12)]) for _ in range(rng.randint(1, 9))]
        elif mode < 0.72:       # recursion: tall blocks (>= 2 cc) mixed with blocks shorter than cc and empty ones
            tall = rng.randint(2 * cc, 3 * cc + 2)
            nb = rng.randint(3, 14)
            chunks = [rng.choice([tall, tall, rng.randint(0, max(cc, 1)), 0, rng.randint(0, tall)]) for _ in range(nb)]
            chunks[rng.randrange(nb)] = tall
        elif mode < 0.82:       # tall blocks of exactly 2 cc alternating with short ones: the stacked chunks fall below 2 cc and
            cc = rng.randint(2, 4)  # the next call recurses only because of the inherited _max_vchunk_size
            short = rng.randint(1, cc - 1)
            zero_p = rng.choice([0.0, 0.0, 0.3])
            chunks = [2 * cc if i % 2 == 0 else (0 if rng.random() < zero_p else short) for i in range(rng.randint(5, 11))]
        elif mode < 0.9:        # deep recursion: many small blocks, cr_max = 2 cc (+ a little)
            cc = rng.randint(1, 2)
            nb = rng.randint(8, 40)
            top = 2 * cc + rng.randint(0, 1)
            chunks = [rng.randint(0 if rng.random() < 0.3 else 1, top) for _ in range(nb)]
            chunks[rng.randrange(nb)] = top
        else:                   # uniform
            chunks = [rng.randint(1, 9)] * rng.randint(1, 12)
        yield "tsqrwire", {"chunks": chunks, "n": cc, "seed": rng.randint(0, 10 ** 6)}


def exhaustive_tsqrwire(ctx):
    """all chunk tuples of length <= 4 over {0,1,2,4} for c in {1,2}"""
    import itertools
    for cc in (1, 2):
        for nb in (1, 2, 3, 4):
            for chunks in itertools.product((0, 1, 2, 4), repeat=nb):
                yield "tsqrwire", {"chunks": list(chunks), "n": cc, "seed": 7}
