"""C20 extension round: BlockView indexing (`x.blocks[...]` / `x.partitions[...]`) and 1-d dask integer-array indexers.

Model:    lean/DaskModel/Model/BlockView.lean, lean/DaskModel/Model/IntDaskIndex.lean
Theorems: lean/DaskModel/Props/C20x.lean (blocks_den, int_dask_index_den, …)
Tie:      `blockview`     real `BlockView.__getitem__`: accepted/rejected, `.chunks`, the graph (keys in dict order ->
                          old keys) vs the model; the computed value vs the NumPy region the model's selection describes
          `intdaskchunk`  real chunk function `chunk.slice_with_int_dask_array` on position-valued blocks vs `chunkFn`
          `intdaskagg`    real `chunk.slice_with_int_dask_array_aggregate` on arbitrary `chunk_outputs` vs `aggregate`
          `intdask`       real `slice_with_int_dask_array_on_axis` / `x[dask_idx]`: the offset array, lazy chunks
                          (incl. unknown sizes), every computed output block vs `plan`, whole value vs NumPy
Imported by c20.py (sections appended to its CASES / generate).
"""
from __future__ import annotations

import itertools

from sexp import Sym

from props._slicing_util import compositions, random_chunks, unsym


def _enc_entry(k, v):
    if k == "slice":
        return [Sym("sl"), list(v)]
    if k == "int":
        return [Sym("int"), int(v)]
    if k == "none":
        return [Sym("newaxis")]
    if k == "ellipsis":
        return [Sym("ellipsis")]
    if k == "bool":
        return [Sym("mask"), [bool(t) for t in v]]
    return [Sym("lst"), [int(t) for t in v]]      # list / array


def _py_index(spec):
    import numpy as np
    out = []
    for k, v in spec:
        if k == "slice":
            out.append(slice(*v))
        elif k == "int":
            out.append(int(v))
        elif k == "none":
            out.append(None)
        elif k == "ellipsis":
            out.append(Ellipsis)
        elif k == "bool":
            out.append([bool(t) for t in v])
        elif k == "array":
            out.append(np.array(v, dtype=int))
        else:
            out.append([int(t) for t in v])
    return tuple(out)


def _cum_before(lengths):
    out, acc = [], 0
    for l in lengths:
        out.append(acc)
        acc += l
    return out


# --------------------------------------------------------------------------------------
# (a) BlockView.__getitem__
# --------------------------------------------------------------------------------------
def case_blockview(ctx, inp):
    """x.blocks[index] / x.partitions[index]: accepted or rejected, chunks, graph (dict order) against the Lean model;
    the computed value against the region of the NumPy array that the model's selection describes."""
    import numpy as np
    import dask.array as da
    chunks = [list(c) for c in inp["chunks"]]
    shape = tuple(sum(c) for c in chunks)
    x = (np.arange(int(np.prod(shape))).reshape(shape) * 3 + 1) if shape else np.array(7)
    d = da.from_array(x, chunks=tuple(tuple(c) for c in chunks))
    spec = inp["index"]
    idx = _py_index(spec)
    if inp.get("bare") and len(idx) == 1:
        idx = idx[0]                                  # not wrapped in a tuple
    view = d.partitions if inp.get("partitions") else d.blocks
    model = unsym(ctx.lean(Sym("blockview"), chunks, [_enc_entry(k, v) for k, v in spec]))
    try:
        r = view[idx]
    except (ValueError, IndexError) as e:
        ctx.eq("BlockView.__getitem__ raises", model, ["raised"])
        ctx.branch("blockview-rejected-" + ("none" if any(k == "none" for k, _ in spec)
                                            else "two-lists" if sum(k in ("list", "array", "bool") for k, _ in spec) > 1
                                            else "empty-selection" if "Empty tuples" in str(e)
                                            else type(e).__name__))
        return
    layer = dict(r.dask.layers[r.name])
    graph = []
    for key, val in layer.items():
        if not (isinstance(key, tuple) and key[0] == r.name and isinstance(val, tuple) and val and val[0] == d.name
                and all(isinstance(t, int) for t in val[1:])):
            ctx.fail("blocks[]: a graph entry is not (new key) -> (key of the indexed array)",
                     observed=[repr(key)[:80], repr(val)[:80]])
            return
        graph.append([list(key[1:]), list(val[1:])])
    impl = ["ok", [list(c) for c in r.chunks], graph]
    ctx.eq("BlockView.__getitem__ (chunks, graph in dict order)", model, impl)
    if model[0] != "ok":
        # the model rejects what dask accepts: decide by NumPy on the grid of block numbers
        grid = np.zeros(tuple(len(c) for c in chunks), dtype="i1")
        try:
            grid[idx]
        except Exception:
            ctx.fail("blocks[] accepted an index NumPy rejects on the block grid", observed=impl)
        return
    # property oracle on the real output: blocks = the selected blocks in order, chunks = the selected chunk entries
    nd = len(chunks)
    sels = [dict() for _ in range(nd)]
    for key, old in graph:
        for a in range(nd):
            if sels[a].setdefault(key[a], old[a]) != old[a]:
                ctx.fail("blocks[]: the graph is not a per-axis selection of blocks", observed=graph)
                return
    sel = [[sels[a][k] for k in range(len(sels[a]))] for a in range(nd)]
    # NumPy drops integer axes; BlockView keeps them: compare the sequences of selected block numbers per axis
    try:
        exp_sel = _numpy_axis_selections(idx if isinstance(idx, tuple) else (idx,), [np.arange(len(c)) for c in chunks])
    except IndexError as e:
        ctx.fail("blocks[] accepted an index NumPy rejects on range(numblocks)", observed=repr(e)[:200])
        return
    if exp_sel is not None and exp_sel != sel:
        ctx.fail("blocks[]: selected block numbers differ from NumPy's selection on range(numblocks)",
                 observed=sel, expected=exp_sel)
        return
    if [list(c) for c in r.chunks] != [[chunks[a][b] for b in sel[a]] for a in range(nd)]:
        ctx.fail("blocks[]: chunks are not the selected entries of .chunks", observed=[list(c) for c in r.chunks])
        return
    pos = []
    for a in range(nd):
        cb = _cum_before(chunks[a])
        pos.append([p for b in sel[a] for p in range(cb[b], cb[b] + chunks[a][b])])
    exp = x[np.ix_(*pos)] if nd else x
    try:
        got = np.asarray(r.compute(scheduler="sync"))
    except Exception as e:
        ctx.fail("blocks[].compute() raised " + type(e).__name__, observed=repr(e)[:200])
        return
    if got.dtype != exp.dtype or got.shape != exp.shape or (got != exp).any():
        ctx.fail("blocks[] differs from the NumPy region of the selected blocks",
                 observed=[str(got.dtype), got.tolist()], expected=[str(exp.dtype), exp.tolist()])
        return
    if tuple(r.shape) != exp.shape:
        ctx.fail("blocks[] lazy shape differs from the computed value", observed=list(r.shape), expected=list(exp.shape))
        return
    kinds = {k for k, _ in spec}
    ctx.branch("blockview-ok")
    for k in sorted(kinds):
        ctx.branch("blockview-" + k)
    if nd == 0:
        ctx.branch("blockview-0d")
    if any(len(set(s)) < len(s) for s in sel):
        ctx.branch("blockview-duplicate-blocks")
    if any(0 in c for c in chunks):
        ctx.branch("blockview-zero-length-chunks")
    if inp.get("partitions"):
        ctx.branch("blockview-partitions")


def _numpy_axis_selections(idx, ranges):
    """per axis the block numbers NumPy selects (ints kept as length-one selections); None when the index uses
    Ellipsis in a way this helper does not expand"""
    import numpy as np
    nd = len(ranges)
    idx = list(idx)
    if sum(i is Ellipsis for i in idx) > 1:
        return None
    if any(i is Ellipsis for i in idx):
        p = [i is Ellipsis for i in idx].index(True)
        idx = idx[:p] + [slice(None)] * (nd - (len(idx) - 1)) + idx[p + 1:]
    idx = idx + [slice(None)] * (nd - len(idx))
    out = []
    for i, rg in zip(idx, ranges):
        out.append(np.atleast_1d(rg[i if not isinstance(i, list) else np.array(i)]).tolist()
                   if not (isinstance(i, list) and len(i) == 0) else [])
    return out


# --------------------------------------------------------------------------------------
# (b) dask integer-array index: chunk functions
# --------------------------------------------------------------------------------------
_DTYPES = ["int64", "int32", "int16", "int8", "uint8", "uint16", "uint64"]


def case_intdaskchunk(ctx, inp):
    """chunk.slice_with_int_dask_array on one position-valued block of x and one chunk of idx vs `chunkFn`."""
    import numpy as np
    from dask.array import chunk
    n, off, ln, idx = inp["xsize"], inp["off"], inp["len"], inp["idx"]
    dt = inp.get("dtype", "int64")
    before, after = inp.get("before", []), inp.get("after", [])
    axis = len(before)
    shape = tuple(before) + (ln,) + tuple(after)
    blk = np.broadcast_to(np.arange(ln).reshape((1,) * len(before) + (ln,) + (1,) * len(after)), shape).copy()
    ia = np.array(idx, dtype=dt)
    model = unsym(ctx.lean(Sym("intdaskchunk"), n, off, ln, [int(v) for v in idx]))
    try:
        out = chunk.slice_with_int_dask_array(blk, ia, np.array([off]), n, axis)
    except Exception as e:
        ctx.fail("chunk.slice_with_int_dask_array raised " + type(e).__name__, observed=repr(e)[:200])
        return
    out = np.asarray(out)
    lanes = np.moveaxis(out, axis, -1).reshape(int(np.prod(out.shape[:axis] + out.shape[axis + 1:])), out.shape[axis])
    if out.shape[:axis] != tuple(before) or out.shape[axis + 1:] != tuple(after):
        ctx.fail("chunk.slice_with_int_dask_array changed another axis", observed=list(out.shape))
        return
    for lane in lanes:
        if not ctx.eq("chunk.slice_with_int_dask_array (in-block positions read)", model, lane.tolist()):
            break
    if not lanes.shape[0]:
        ctx.eq("chunk.slice_with_int_dask_array (number of positions read)", len(model), out.shape[axis])
    # clause: exactly the entries of the normalised index inside [off, off+len), in order, shifted by off
    want = [v - off for v in (w + n if w < 0 else w for w in idx) if off <= v < off + ln]
    if model != want:
        ctx.fail("chunk function does not keep exactly the entries of its block", observed=model, expected=want)
    if model:
        ctx.branch("intdaskchunk-some-kept")
    if len(model) < len(idx):
        ctx.branch("intdaskchunk-some-dropped")
    if any(v < 0 for v in idx):
        ctx.branch("intdaskchunk-negative")
    if dt.startswith("u"):
        ctx.branch("intdaskchunk-unsigned")
    if before or after:
        ctx.branch("intdaskchunk-nd")
    if ln == 0:
        ctx.branch("intdaskchunk-empty-block")


def case_intdaskagg(ctx, inp):
    """chunk.slice_with_int_dask_array_aggregate on arbitrary chunk_outputs vs `aggregate`."""
    import numpy as np
    from dask.array import chunk
    lengths, idx, outs = inp["lengths"], inp["idx"], inp["outs"]
    dt = inp.get("dtype", "int64")
    n = sum(lengths)
    model = unsym(ctx.lean(Sym("intdaskagg"), lengths, [int(v) for v in idx], [int(v) for v in outs]))
    try:
        got = chunk.slice_with_int_dask_array_aggregate(np.array(idx, dtype=dt), np.array(outs, dtype="int64"),
                                                        tuple(lengths), 0)
        impl = ["ok", np.asarray(got).tolist()]
    except IndexError:
        impl = ["raised"]
    ctx.eq("chunk.slice_with_int_dask_array_aggregate", model, impl)
    oob = any(not (-n <= v < n) for v in idx)
    if oob:
        if impl != ["raised"]:
            ctx.fail("aggregate accepted an out-of-bounds index", observed=impl)
        ctx.branch("intdaskagg-out-of-bounds-rejected")
        return
    # with the outputs the chunk function really produces (block by block the entries inside the block), the result
    # is the normalised index itself
    norm = [v + n if v < 0 else v for v in idx]
    cb = _cum_before(lengths)
    real_outs = [v for o, l in zip(cb, lengths) for v in norm if o <= v < o + l]
    if list(outs) == real_outs:
        if impl != ["ok", norm]:
            ctx.fail("aggregate does not return idx[p] at position p", observed=impl, expected=norm)
        ctx.branch("intdaskagg-real-outputs")
    else:
        ctx.branch("intdaskagg-arbitrary-outputs" if impl[0] == "ok" else "intdaskagg-arbitrary-outputs-raise")


# --------------------------------------------------------------------------------------
# (b) dask integer-array index: the plan along the axis, API level
# --------------------------------------------------------------------------------------
def case_intdask(ctx, inp):
    """x[..., dask_idx, ...] with a 1-d dask integer array: offsets, lazy chunks, every computed output block vs the Lean
    plan; the whole value vs NumPy; out-of-bounds entries rejected like NumPy."""
    import numpy as np
    import dask
    import dask.array as da
    from dask.array.slicing import slice_with_int_dask_array_on_axis
    lengths = list(inp["lengths"])
    idx_chunks = [list(c) for c in inp["idx"]]
    before, after = inp.get("before", []), inp.get("after", [])        # chunkings of the other axes
    keep = inp.get("keep")                                             # per index chunk: boolean lists -> unknown chunk sizes
    dt = inp.get("dtype", "int64")
    axis = len(before)
    n = sum(lengths)
    shape = tuple(sum(c) for c in before) + (n,) + tuple(sum(c) for c in after)
    pos = np.arange(n).reshape((1,) * len(before) + (n,) + (1,) * len(after))
    lane = np.arange(int(np.prod(shape[:axis] + shape[axis + 1:]))).reshape(shape[:axis] + (1,) + shape[axis + 1:])
    xv = pos + 1000 * lane                                             # value = position along the axis + 1000 * lane id
    x = da.from_array(xv, chunks=tuple(tuple(c) for c in before) + (tuple(lengths),) + tuple(tuple(c) for c in after))
    flat = [v for c in idx_chunks for v in c]
    ia = np.array(flat, dtype=dt) if flat else np.array([], dtype=dt)
    i = da.from_array(ia, chunks=(tuple(len(c) for c in idx_chunks),))
    eff_chunks = idx_chunks
    if keep is not None:
        km = np.array([b for c in keep for b in c], dtype=bool)
        i = i[da.from_array(km, chunks=(tuple(len(c) for c in keep),))]
        eff_chunks = [[v for v, b in zip(c, kc) if b] for c, kc in zip(idx_chunks, keep)]
        ia = ia[km]
    model = unsym(ctx.lean(Sym("intdaskplan"), lengths, [[int(v) for v in c] for c in eff_chunks]))
    sl = (slice(None),) * axis
    try:
        exp = xv[sl + (ia.astype("int64"),)]
        np_ok = True
    except IndexError:
        np_ok = False
    # function level: the real slice_with_int_dask_array_on_axis — offset array, declared chunks
    try:
        y = slice_with_int_dask_array_on_axis(x, i, axis)
    except Exception as e:
        ctx.fail("slice_with_int_dask_array_on_axis raised " + type(e).__name__, observed=repr(e)[:200])
        return
    off_layers = [nm for nm in y.dask.layers if nm.startswith("slice-offset-")]
    if len(off_layers) != 1:
        ctx.fail("no single slice-offset layer in the graph", observed=off_layers)
        return
    od = dict(y.dask.layers[off_layers[0]])
    okeys = sorted(k for k in od if isinstance(k, tuple) and len(k) == 2)
    offs = [np.asarray(v).tolist() for v in dask.get(y.dask, okeys)]
    ctx.eq("offset of every block of x along the axis", [[o] for o in model[0]], offs)
    want_chunks = [len(c) for c in eff_chunks]
    lazy = [None if np.isnan(c) else int(c) for c in y.chunks[axis]]
    if keep is not None:
        if any(c is not None for c in lazy):
            ctx.fail("output chunks known although the index chunks are unknown", observed=lazy)
        ctx.branch("intdask-unknown-index-chunks")
    elif lazy != want_chunks:
        ctx.fail("lazy chunks along the axis are not the chunks of the index array", observed=lazy, expected=want_chunks)
        return
    other = [list(c) for a, c in enumerate(y.chunks) if a != axis]
    if other != [list(c) for c in before] + [list(c) for c in after]:
        ctx.fail("chunks of the other axes changed", observed=other)
        return
    # every computed output block against the plan
    try:
        blocks = {}
        dl = y.to_delayed()
        for co in itertools.product(*[range(s) for s in dl.shape]):
            blocks[co] = np.asarray(dl[co].compute(scheduler="sync"))
        raised = False
    except IndexError:
        raised = True
    except Exception as e:
        ctx.fail("computing x[dask_idx] raised " + type(e).__name__, observed=repr(e)[:200])
        return
    ctx.eq("x[dask int index] raises IndexError", model[1] == ["raised"], raised)
    if not np_ok:
        if not raised:
            ctx.fail("dask accepts a dask integer-array index that NumPy rejects with IndexError",
                     observed=[b.tolist() for b in blocks.values()][:6], expected="IndexError")
        ctx.branch("intdask-out-of-bounds-rejected")
        return
    if raised:
        ctx.fail("x[dask int index] raised IndexError where NumPy succeeds", observed=inp)
        return
    plan = model[1][1] if model[1][0] == "ok" else None
    for co, b in blocks.items():
        j = co[axis]
        lanes = np.moveaxis(b, axis, -1).reshape(int(np.prod(b.shape[:axis] + b.shape[axis + 1:])), b.shape[axis])
        if b.shape[axis] != want_chunks[j]:
            ctx.fail("computed block size along the axis differs from the index chunk", observed=[list(co), list(b.shape)],
                     expected=want_chunks[j])
            return
        for ln_ in lanes:
            if plan is not None and (ln_ % 1000).tolist() != plan[j]:
                ctx.disagree("global positions read by output block", plan[j], (ln_ % 1000).tolist())
                break
    # API level: the public getitem against NumPy
    try:
        r = x[sl + (i,)]
        got = np.asarray(r.compute(scheduler="sync"))
    except Exception as e:
        ctx.fail("x[dask int index] raised " + type(e).__name__ + " where NumPy succeeds", observed=repr(e)[:200])
        return
    if got.dtype != exp.dtype or got.shape != exp.shape or (got != exp).any():
        ctx.fail("x[dask int index] differs from NumPy", observed=got.tolist(), expected=exp.tolist())
        return
    if keep is None and tuple(r.shape) != exp.shape:
        ctx.fail("x[dask int index]: lazy shape differs", observed=list(r.shape), expected=list(exp.shape))
        return
    ctx.branch("intdask-ok")
    if any(v < 0 for v in flat):
        ctx.branch("intdask-negative")
    if len(set(v % n for v in ia.tolist())) < len(ia):
        ctx.branch("intdask-duplicates")
    norm = [int(v) % n for v in ia.tolist()] if n else []
    if norm != sorted(norm):
        ctx.branch("intdask-unsorted")
    if 0 in lengths:
        ctx.branch("intdask-zero-length-block")
    if any(len(c) == 0 for c in eff_chunks):
        ctx.branch("intdask-empty-index-chunk")
    if len(idx_chunks) > 1 and len(lengths) > 1:
        ctx.branch("intdask-many-x-many")
    if before or after:
        ctx.branch("intdask-nd")
    if dt != "int64":
        ctx.branch("intdask-dtype-" + ("unsigned" if dt.startswith("u") else "small"))


CASES = {"blockview": case_blockview, "intdaskchunk": case_intdaskchunk, "intdaskagg": case_intdaskagg,
         "intdask": case_intdask}


# --------------------------------------------------------------------------------------
# generators
# --------------------------------------------------------------------------------------
def _rand_bv_entry(rng, nb):
    t = rng.random()
    if t < 0.25:
        return ("int", rng.randrange(-nb - 1, nb + 1) if rng.random() < 0.1 else rng.randrange(-nb, nb))
    if t < 0.6:
        if rng.random() < 0.6:        # a non-empty stretch, either direction
            a = rng.randrange(nb)
            b = rng.randint(a + 1, nb)
            if rng.random() < 0.3:
                return ("slice", [b - 1, a - 1 if a else None, rng.choice([-1, -2])])
            return ("slice", [a if a or rng.random() < 0.5 else None, b if b < nb or rng.random() < 0.5 else None,
                              rng.choice([None, 1, 2])])
        v = [None] + list(range(-nb - 1, nb + 2))
        return ("slice", [rng.choice(v), rng.choice(v), rng.choice([None, None, 1, 2, -1, -2, 3])])
    if t < 0.88:
        lo = -nb if rng.random() < 0.5 else 0
        hi = nb + 1 if rng.random() < 0.07 else nb
        return (rng.choice(["list", "array"]), [rng.randrange(lo, hi) for _ in range(rng.randint(0 if rng.random() < 0.07 else 1, 4))])
    if t < 0.97:
        m = [rng.random() < 0.6 for _ in range(nb if rng.random() < 0.9 else nb + 1)]
        if not any(m) and rng.random() < 0.8:
            m[rng.randrange(len(m))] = True
        return ("bool", m)
    return ("none", None)


def _rand_bv(rng):
    nd = rng.choice([0] + [1] * 4 + [2] * 5 + [3] * 2)
    chunks = [list(random_chunks(rng, rng.randint(0, 6), zeros=0.15)) for _ in range(nd)]
    k = nd if rng.random() < 0.6 else rng.randint(0, nd) if rng.random() < 0.9 else nd + 1
    spec = [_rand_bv_entry(rng, len(chunks[a]) if a < nd else 1) for a in range(k)]
    if rng.random() < 0.9:            # at most one list-like entry most of the time
        seen = False
        for j, (kd, _) in enumerate(spec):
            if kd in ("list", "array", "bool"):
                if seen:
                    spec[j] = ("slice", [None, None, None])
                seen = True
    if rng.random() < 0.2 and len(spec) <= nd:
        spec.insert(rng.randint(0, len(spec)), ("ellipsis", None))
    inp = {"chunks": chunks, "index": spec, "partitions": rng.random() < 0.3}
    if len(spec) == 1 and rng.random() < 0.5:
        inp["bare"] = True
    return inp


def _rand_idx(rng, n, k, oob=0.0):
    out = []
    for _ in range(k):
        t = rng.random()
        if t < oob:
            out.append(rng.choice([n, n + 1, -n - 1, -n - 2, 2 * n + 1]))
        elif n == 0:
            continue
        elif t < 0.3:
            out.append(rng.randrange(-n, 0))
        else:
            out.append(rng.randrange(0, n))
    return out


def _split(rng, xs, empties=0.2):
    """split a list into consecutive chunks (some possibly empty)"""
    out, i = [], 0
    while i < len(xs):
        k = rng.randint(1, max(1, len(xs) - i))
        if rng.random() < 0.5:
            k = min(k, rng.randint(1, 3))
        out.append(xs[i:i + k])
        i += k
        if rng.random() < empties:
            out.append([])
    if not out:
        out = [[]]
    elif rng.random() < empties / 2:
        out.insert(0, [])
    return out


def _pick_dtype(rng, vals, n):
    if rng.random() < 0.6:
        return "int64"
    import numpy as np
    ok = []
    for dt in _DTYPES:
        info = np.iinfo(dt)
        if all(info.min <= v <= info.max for v in vals) and (not dt.startswith("u") or n <= np.iinfo("int64").max):
            ok.append(dt)
    return rng.choice(ok) if ok else "int64"


def generate(ctx):
    rng = ctx.rng
    thorough = ctx.thorough()
    # corpus-like fixed cases
    yield "blockview", {"chunks": [[3, 3, 4], [2, 5]], "index": [("list", [-1, 0]), ("int", 1)]}
    yield "blockview", {"chunks": [], "index": []}
    yield "blockview", {"chunks": [[3, 3, 4]], "index": [("slice", [2, 1, None])]}
    yield "blockview", {"chunks": [[3, 3, 4]], "index": [("none", None)]}
    yield "blockview", {"chunks": [[1, 2], [2, 2]], "index": [("list", [0]), ("list", [1])]}
    yield "intdask", {"lengths": [3, 3, 4], "idx": [[3, 12]]}
    yield "intdask", {"lengths": [3, 0, 3, 4], "idx": [[9, -1], [], [0, 3, 3, 5, -10]]}
    yield "intdaskagg", {"lengths": [3, 3, 4], "idx": [3, 12], "outs": [3]}
    for _ in range(ctx.n(260, 4000)):
        yield "blockview", _rand_bv(rng)
    if thorough:
        # every 1-d index over every chunking of n <= 4: ints, all slices with small bounds, all lists of <= 2 blocks
        for n in range(0, 5):
            for ch in compositions(n, zeros=True, maxparts=4):
                nb = len(ch)
                for i in range(-nb - 1, nb + 1):
                    yield "blockview", {"chunks": [list(ch)], "index": [("int", i)]}
                vals = [None] + list(range(-nb - 1, nb + 2))
                for a in vals:
                    for b in vals:
                        for st in (None, 1, 2, -1, -2):
                            if rng.random() < 0.3:
                                yield "blockview", {"chunks": [list(ch)], "index": [("slice", [a, b, st])]}
                for k in range(0, 3):
                    for l in itertools.product(range(-nb, nb), repeat=k):
                        yield "blockview", {"chunks": [list(ch)], "index": [("list", list(l))]}
    for _ in range(ctx.n(220, 4000)):
        n = rng.choice([0, 1, 2, 3, 5, 8, 12])
        ln = rng.randint(0, max(0, min(n, 5)))
        off = rng.randint(0, n - ln)
        idx = _rand_idx(rng, n, rng.randint(0, 7))
        inp = {"xsize": n, "off": off, "len": ln, "idx": idx, "dtype": _pick_dtype(rng, idx, n)}
        if rng.random() < 0.3:
            inp["before"] = [rng.randint(0, 2) for _ in range(rng.randint(0, 1))]
            inp["after"] = [rng.randint(1, 2) for _ in range(rng.randint(0, 2))]
        yield "intdaskchunk", inp
    for _ in range(ctx.n(220, 4000)):
        n = rng.randint(0, 9)
        lengths = list(random_chunks(rng, n, zeros=0.25))
        idx = _rand_idx(rng, n, rng.randint(0, 7), oob=0.04)
        norm = [v + n if v < 0 else v for v in idx]
        cb = _cum_before(lengths)
        outs = [v for o, l in zip(cb, lengths) for v in norm if o <= v < o + l]
        t = rng.random()
        if t < 0.25:
            outs = [rng.randrange(-50, 50) for _ in outs]
        elif t < 0.35:
            outs = outs[:-1] if outs and rng.random() < 0.5 else outs + [77]
        yield "intdaskagg", {"lengths": lengths, "idx": idx, "outs": outs, "dtype": _pick_dtype(rng, idx, n)}
    if thorough:
        # every chunking (zero-length chunks included) of n <= 3 x every index of <= 3 entries in [-n, n] x every split
        for n in range(0, 4):
            for ch in compositions(n, zeros=True, maxparts=3):
                for k in range(0, 4):
                    for l in itertools.product(range(-n, n + 1), repeat=k):
                        for cut in range(0, k + 1):
                            if rng.random() < 0.25:
                                yield "intdask", {"lengths": list(ch), "idx": [list(l[:cut]), list(l[cut:])]}
    for _ in range(ctx.n(90, 1500)):
        t = rng.random()
        n = rng.choice([1, 2, 3, 4, 5, 6, 8, 11]) if t > 0.06 else 0
        if rng.random() < 0.08:
            n = rng.choice([13, 26, 40])
            lengths = [1] * rng.randint(11, 13) + list(random_chunks(rng, n - 13, zeros=0.1)) if n > 13 else [1] * 13
        else:
            lengths = list(random_chunks(rng, n, zeros=0.2))
        n = sum(lengths)
        flat = _rand_idx(rng, n, rng.randint(0, 8), oob=0.03)
        style = rng.random()
        if style < 0.1:
            flat = sorted(v % n for v in flat) if n else flat
        elif style < 0.15 and n:
            flat = list(range(n))
        inp = {"lengths": lengths, "idx": _split(rng, flat)}
        inp["dtype"] = _pick_dtype(rng, flat, n)
        if rng.random() < 0.2:
            inp["keep"] = [[rng.random() < 0.7 for _ in c] for c in inp["idx"]]
        if rng.random() < 0.25:
            inp["before"] = [list(random_chunks(rng, rng.randint(1, 3))) for _ in range(rng.randint(0, 1))]
            inp["after"] = [list(random_chunks(rng, rng.randint(1, 3))) for _ in range(rng.randint(0 if inp["before"] else 1, 1))]
        yield "intdask", inp
