"""C29 — storing arrays writes exactly the array into the targets.

Model:    lean/DaskModel/Model/Store.lean (slices_from_chunks, optimization.fuse_slice, the index written by
          load_store_chunk, the chunks recorded by to_npy_stack)
Theorems: lean/DaskModel/Props/C29.lean
Tie:      function level  slices_from_chunks / fuse_slice / load_store_chunk vs the model, with the clauses
                          (partition of the index space; x[a][b] == x[fuse(a, b)]; written positions) evaluated on
                          the real outputs;
          API level       da.store with several sources, regions inside larger targets, lock in {True, False,
                          Lock, SerializableLock}, return_stored, compute=False then compute, Delayed targets,
                          sync/threaded schedulers; to_npy_stack -> from_npy_stack in a temporary directory.
"""
from __future__ import annotations

import itertools
import os
import shutil
import tempfile

from sexp import Sym

from props import _c29x
from props._slicing_util import canon_slice, compositions, random_chunks, unsym

PROP = "C29"
READY = True
DRIVER = "dm_slicing"
LEAN_MODULES = ["DaskModel.Props.C29", "DaskModel.Props.C29xNpy"]
CASE_TIMEOUT_S = 30
LEVEL_TEXT = (
    "Lean 4 theorems (no size bound) over transliterations of slices_from_chunks, optimization.fuse_slice and the "
    "index load_store_chunk writes to: per axis the block slices tile the axis and the N-d blocks are their product; "
    "fuse_slice(region, block) selects exactly the block's part of the region, so for every normalisable "
    "positive-step region the blocks write the consecutive pieces P[l0:l1] of the region's positions P, together "
    "P[:len(source)] (store_region_den, store_complete). N-d: a target position lies in target[region][:shape] on "
    "every axis iff some block writes it (store_nd_cover) and then exactly one block does (store_nd_exactly_once) — "
    "hence the stored values do not depend on write order, lock or scheduler. to_npy_stack keeps the chunks of the "
    "stacking axis and the extents of the others; its np.save tasks put block (0,..,i,..,0) of the rechunked array into "
    "file i, from_npy_stack pairs exactly that key with file i, and for every chunk tuple, stacking axis, prior content "
    "of the directory (stale files) and execution order of the saves every block of the loaded array is the block of "
    "the rechunked array with the same key (npy_stack_roundtrip, Props/C29xNpy; the tasks of both real graphs are "
    "diffed against the model). Validated end to end, not proved: the graph plumbing of store "
    "(layer names per source/target-identity/region, targets > 1 MB wrapped in delayed, compute=False stores computed "
    "together later, return_stored/load_stored, Delayed targets, one target with several regions), locks and the "
    "threaded scheduler, np.save/np.load and the file system, that rechunk keeps the values (C23/C24); negative-step "
    "regions raise NotImplementedError."
)
LEVEL_NOTE = (
    "Trusted: Lean kernel; the hand-written model (diffed against slices_from_chunks, fuse_slice and "
    "load_store_chunk on every run, the N-d write positions of every block against the per-axis product of the "
    "model's pieces); NumPy setitem on the target writes the per-axis product; the scheduler runs every store "
    "task once; np.save/np.load; the OS file system."
)
TECHNIQUE = "Lean 4 proof (tiling of ranges under an affine map) + differential correspondence with dask.array.core.store and NumPy targets"
ASSUMPTIONS = [
    "target[index] = block with a tuple of positive-step slices writes the per-axis product of the selected positions",
    "a target's positions not named by any write keep their value",
    "np.save / np.load round-trip an array",
    "x.rechunk(chunks) has the same values as x (C23/C24); '%d.npy' % i is injective in i; core.flatten(x.__dask_keys__()) "
    "is itertools.product order (diffed on every run of section npyplan)",
]
TRUSTED = ["NumPy basic-slice assignment on the target", "threading.Lock / SerializableLock (see C53)"]


def _sl(t):
    return slice(*t)


def _positions(s, n):
    return list(range(*s.indices(n)))


# --------------------------------------------------------------------------------------
# function level
# --------------------------------------------------------------------------------------

def case_sfc(ctx, inp):
    import numpy as np
    from dask.array.core import slices_from_chunks
    chunks = tuple(tuple(c) for c in inp["chunks"])
    real = slices_from_chunks(chunks)
    impl = [[[int(s.start), int(s.stop)] for s in blk] for blk in real]
    ctx.eq("slices_from_chunks", unsym(ctx.lean(Sym("slicesfromchunks"), [list(c) for c in chunks])), impl)
    shape = tuple(sum(c) for c in chunks)
    cnt = np.zeros(shape, dtype=int)
    for blk in real:
        if any(s.step is not None for s in blk):
            ctx.fail("slices_from_chunks produced a stepped slice", observed=[canon_slice(s) for s in blk])
        cnt[blk] += 1
    if (cnt != 1).any():
        ctx.fail("block slices do not partition the index space", observed=cnt.tolist())
    nblocks = 1
    for c in chunks:
        nblocks *= len(c)
    if len(real) != nblocks:
        ctx.fail("wrong number of block slices", observed=len(real), expected=nblocks)
    per_axis = []
    for c in chunks:
        acc, lst = 0, []
        for l in c:
            lst.append((acc, acc + l))
            acc += l
        per_axis.append(lst)
    order = [tuple((s.start, s.stop) for s in blk) for blk in real]
    if order != list(itertools.product(*per_axis)):
        ctx.fail("block slices not in product order", observed=order)
    if len(chunks) > 1:
        ctx.branch("sfc-nd")
    if any(0 in c for c in chunks):
        ctx.branch("sfc-zero-chunk")


def case_fuse(ctx, inp):
    import numpy as np
    from dask.array.optimization import fuse_slice
    a = _sl(inp["a"])
    n = inp["n"]
    x = np.arange(n)
    if inp["kind"] == "int":
        b = inp["b"]
        try:
            r = fuse_slice(a, b)
            impl = ["ok", int(r)]
        except NotImplementedError:
            r, impl = None, ["raised"]
        ctx.eq("fuse_slice(slice, int)", unsym(ctx.lean(Sym("fuseint"), inp["a"], b)), impl)
        if r is not None and b < len(x[a]):
            if x[a][b] != x[r]:
                ctx.fail("x[a][b] != x[fuse_slice(a, b)]", observed=int(x[r]), expected=int(x[a][b]))
            ctx.branch("fuse-int")
        return
    b = _sl(inp["b"])
    try:
        r = fuse_slice(a, b)
        impl = ["ok", canon_slice(r)]
    except NotImplementedError:
        r, impl = None, ["raised"]
    ctx.eq("fuse_slice(slice, slice)", unsym(ctx.lean(Sym("fuseslice"), inp["a"], inp["b"])), impl)
    if r is not None:
        got, exp = x[r], x[a][b]
        if got.shape != exp.shape or (got != exp).any():
            ctx.fail("x[a][b] != x[fuse_slice(a, b)]", observed=got.tolist(), expected=exp.tolist())
        if (a.step or 1) > 1 and len(exp) > 1:
            ctx.branch("fuse-strided-region")
        if len(exp):
            ctx.branch("fuse-nonempty")
        if b.stop is None or a.stop is None:
            ctx.branch("fuse-open-stop")
    else:
        ctx.branch("fuse-not-implemented")


def case_lsc(ctx, inp):
    """load_store_chunk on NumPy targets: written positions = the model's store plan, per axis."""
    import numpy as np
    from dask.array.core import load_store_chunk, slices_from_chunks
    tshape = tuple(inp["tshape"])
    chunks = tuple(tuple(c) for c in inp["chunks"])
    region = None if inp["region"] is None else tuple(_sl(r) for r in inp["region"])
    src = np.arange(int(np.prod([sum(c) for c in chunks]))).reshape([sum(c) for c in chunks]) + 1
    out = np.full(tshape, -1)
    plans = []
    for ax, c in enumerate(chunks):
        r = None if region is None else inp["region"][ax]
        p = unsym(ctx.lean(Sym("storeplan"), tshape[ax], r, list(c)))
        if p[0] != "ok":
            ctx.note("region-not-fusible")
            return
        plans.append(p[1])
    written = np.zeros(tshape, dtype=int)
    for bi, idx in zip(itertools.product(*[range(len(c)) for c in chunks]), slices_from_chunks(chunks)):
        blk = src[idx]
        ret = load_store_chunk(blk, out, idx, region, False, inp["return_stored"], inp["load_stored"])
        pos = [plans[ax][b] for ax, b in enumerate(bi)]
        if blk.size:
            sub = out[np.ix_(*pos)] if pos else out
            if sub.shape != blk.shape or (sub != blk).any():
                ctx.fail("load_store_chunk did not write the block at the planned positions",
                         observed=[list(bi), sub.tolist()], expected=blk.tolist())
                return
            written[np.ix_(*pos)] += 1
        if inp["return_stored"] and inp["load_stored"]:
            if not (np.asarray(ret).shape == blk.shape and (np.asarray(ret) == blk).all()):
                ctx.fail("load_store_chunk(return_stored, load_stored) did not return the stored block",
                         observed=np.asarray(ret).tolist(), expected=blk.tolist())
        elif inp["return_stored"]:
            if ret is not out:
                ctx.fail("load_store_chunk(return_stored, not load_stored) did not return the target")
        elif ret is not None:
            ctx.fail("load_store_chunk returned a value without return_stored")
    exp = np.full(tshape, -1)
    exp[region if region is not None else tuple(slice(0, sum(c)) for c in chunks)] = src
    if (out != exp).any():
        ctx.fail("after all blocks the target is not target[region] = source", observed=out.tolist(), expected=exp.tolist())
    if (written > 1).any():
        ctx.fail("two blocks wrote the same target position", observed=written.tolist())
    ctx.branch("lsc-region" if region is not None else "lsc-plain")
    if region is not None and any((r.step or 1) > 1 for r in region):
        ctx.branch("lsc-strided-region")


# --------------------------------------------------------------------------------------
# API level
# --------------------------------------------------------------------------------------

def _lock(kind):
    import threading
    from dask.utils import SerializableLock
    return {"true": True, "false": False, "lock": threading.Lock(), "slock": SerializableLock()}[kind]


def case_store(ctx, inp):
    import numpy as np
    import dask
    import dask.array as da
    from dask.delayed import Delayed, delayed
    srcs, tgts, regs, exps = [], [], [], []
    same = inp.get("same_source")   # the very same source stored into several targets that look alike
    for i, s in enumerate(inp["sources"]):
        shape = [sum(c) for c in s["chunks"]]
        a = (np.arange(int(np.prod(shape))).reshape(shape) + 1) * (1 if same else i + 1)
        if same == "object" and srcs:
            srcs.append(srcs[0])
        else:
            srcs.append(da.from_array(a, chunks=tuple(tuple(c) for c in s["chunks"])))
        shared = bool(inp.get("shared_target")) and len(tgts) > 0
        t = tgts[0] if shared else np.full(s["tshape"], -1)
        tgts.append(t)
        r = None if s["region"] is None else tuple(_sl(x) if isinstance(x, list) else int(x) for x in s["region"])
        regs.append(r)
        e = exps[0] if shared else np.full(s["tshape"], -1)
        e[r if r is not None else tuple(slice(0, n) for n in shape)] = a
        exps.append(e)
    single = inp["single"] and len(srcs) == 1
    use_regions = any(r is not None for r in regs)
    targets_arg = [delayed(t, pure=False, traverse=False) if inp["delayed_target"] else t for t in tgts]
    kw = dict(lock=_lock(inp["lock"]), compute=inp["compute"], return_stored=inp["return_stored"])
    if use_regions:
        kw["regions"] = regs[0] if single or inp.get("one_region_for_all") else regs
    if inp.get("one_region_for_all") and use_regions:
        # the same region tuple for every source: recompute the expectation
        for i, (s, e) in enumerate(zip(inp["sources"], exps)):
            shape = [sum(c) for c in s["chunks"]]
            a = (np.arange(int(np.prod(shape))).reshape(shape) + 1) * (1 if same else i + 1)
            e[...] = -1
            e[regs[0]] = a
    sched = inp["scheduler"]
    try:
        with dask.config.set(scheduler=sched):
            res = da.store(srcs[0] if single else srcs, targets_arg[0] if single else targets_arg, **kw)
            if not inp["compute"]:
                for t in tgts:
                    if (t != -1).any():
                        ctx.fail("store(compute=False) wrote before compute", observed=t.tolist())
                        return
                if inp["return_stored"]:
                    loaded = dask.compute(res)[0] if not isinstance(res, tuple) else dask.compute(*res)
                else:
                    if not isinstance(res, (Delayed, da.Array, tuple)):
                        ctx.fail("store(compute=False) did not return a lazy object", observed=type(res).__name__)
                        return
                    loaded = None
                    dask.compute(res)
            elif inp["return_stored"]:
                loaded = dask.compute(res)[0] if not isinstance(res, tuple) else dask.compute(*res)
            else:
                loaded = None
                if res is not None:
                    ctx.fail("store(compute=True, return_stored=False) returned a value", observed=type(res).__name__)
    except Exception as e:
        ctx.fail("da.store raised " + type(e).__name__, observed=repr(e)[:300])
        return
    for i, (t, e) in enumerate(zip(tgts, exps)):
        if (t != e).any():
            ctx.fail("target differs from target[region] = source after store", observed=[i, t.tolist()], expected=e.tolist())
            return
    if loaded is not None:
        loaded = [loaded] if not isinstance(loaded, (tuple, list)) else list(loaded)
        for i, l in enumerate(loaded):
            a = np.asarray(srcs[i].compute(scheduler="sync"))
            if np.asarray(l).shape != a.shape or (np.asarray(l) != a).any():
                ctx.fail("return_stored array differs from the source", observed=np.asarray(l).tolist(), expected=a.tolist())
                return
        if not isinstance(res, tuple):
            res = (res,)
        for r, s in zip(res, srcs):
            if r.chunks != s.chunks:
                ctx.fail("return_stored array has other chunks than the source", observed=[list(c) for c in r.chunks])
    ctx.branch("store-lock-" + inp["lock"])
    ctx.branch("store-" + sched)
    if use_regions:
        ctx.branch("store-regions")
    if len(srcs) > 1:
        ctx.branch("store-multi-source")
    if same and len(srcs) > 1:
        ctx.branch("store-same-source-equal-targets")
    if inp.get("shared_target") and len(srcs) > 1:
        ctx.branch("store-one-target-several-regions" + ("-same-source" if same else ""))
    if not inp["compute"]:
        ctx.branch("store-compute-false")
    if inp["return_stored"]:
        ctx.branch("store-return-stored")
    if inp["delayed_target"]:
        ctx.branch("store-delayed-target")
    if any(r is not None and any(isinstance(x, int) for x in r) for r in regs):
        ctx.branch("store-integer-in-region")
    if any(not s["chunks"] for s in inp["sources"]):
        ctx.branch("store-0d-source")


def case_bigstore(ctx, inp):
    """Targets larger than 1 MB (map_blocks then wraps the target in `delayed` and puts it into the graph under a key
    of its own) that hold IDENTICAL content: two such targets are two objects and both must be written. Modes: one
    store call for all sources; one call per source with compute=False and ONE dask.compute over all of them later;
    the same target object for all sources with pairwise disjoint regions. Locks, return_stored, sync/threads."""
    import numpy as np
    import dask
    import dask.array as da
    from dask.delayed import Delayed
    big = inp["big"]            # leading positions of axis 0 that make the target exceed 1 MB
    mode = inp["mode"]
    srcs, tgts, regs, exps = [], [], [], []
    shared = np.full([big] + inp["trest"], -1, dtype="int64") if mode == "shared-target" else None
    for i, s in enumerate(inp["sources"]):
        shape = [sum(c) for c in s["chunks"]]
        a = (np.arange(int(np.prod(shape)), dtype="int64").reshape(shape) + 1) * (i + 1)
        srcs.append(da.from_array(a, chunks=tuple(tuple(c) for c in s["chunks"])))
        t = shared if shared is not None else np.full([big] + inp["trest"], -1, dtype="int64")
        tgts.append(t)
        r = None if s["region"] is None else tuple(_sl(x) for x in s["region"])
        regs.append(r)
    for i, s in enumerate(inp["sources"]):
        if shared is not None and i:
            e = exps[0]
        else:
            e = np.full([big] + inp["trest"], -1, dtype="int64")
            exps.append(e)
        shape = [sum(c) for c in s["chunks"]]
        a = (np.arange(int(np.prod(shape)), dtype="int64").reshape(shape) + 1) * (i + 1)
        e[regs[i] if regs[i] is not None else tuple(slice(0, n) for n in shape)] = a
        if shared is not None and i:
            exps.append(e)
    if tgts[0].nbytes <= 1_000_000:
        ctx.fail("harness: the target is not larger than 1 MB", observed=tgts[0].nbytes)
        return
    use_regions = any(r is not None for r in regs)
    kw = dict(lock=_lock(inp["lock"]), return_stored=inp["return_stored"])
    sched = inp["scheduler"]
    loaded = None
    try:
        with dask.config.set(scheduler=sched):
            if mode == "separate-calls":
                pend = []
                for sr, t, r in zip(srcs, tgts, regs):
                    kw1 = dict(kw)
                    if r is not None:
                        kw1["regions"] = r
                    pend.append(da.store(sr, t, compute=False, **kw1))
                if any((t != -1).any() for t in tgts):
                    ctx.fail("store(compute=False) wrote before compute")
                    return
                out = dask.compute(*pend)
                if inp["return_stored"]:
                    loaded = list(out)
            else:
                kw1 = dict(kw, compute=inp["compute"])
                if use_regions:
                    kw1["regions"] = regs
                res = da.store(srcs, tgts, **kw1)
                if not inp["compute"]:
                    if any((t != -1).any() for t in tgts):
                        ctx.fail("store(compute=False) wrote before compute")
                        return
                    out = dask.compute(res)[0] if not isinstance(res, tuple) else dask.compute(*res)
                    if inp["return_stored"]:
                        loaded = list(out) if isinstance(out, (tuple, list)) else [out]
                elif inp["return_stored"]:
                    out = dask.compute(*res) if isinstance(res, tuple) else dask.compute(res)
                    loaded = list(out)
    except Exception as e:
        ctx.fail("da.store into large targets raised " + type(e).__name__, observed=repr(e)[:300])
        return
    for i, (t, e) in enumerate(zip(tgts, exps)):
        if not np.array_equal(t, e):
            bad = np.argwhere(t != e)
            ctx.fail("large target differs from target[region] = source after store (targets of identical content, > 1 MB)",
                     observed={"target": i, "differing_positions": int(len(bad)), "first": bad[:5].tolist(),
                               "got": t[tuple(bad[0])].item(), "expected": e[tuple(bad[0])].item()})
            return
    if loaded is not None:
        for i, l in enumerate(loaded):
            a = np.asarray(srcs[i].compute(scheduler="sync"))
            if np.asarray(l).shape != a.shape or (np.asarray(l) != a).any():
                ctx.fail("return_stored array of a large target differs from the source", observed=np.asarray(l).tolist(),
                         expected=a.tolist())
                return
    ctx.branch("bigstore-" + mode)
    ctx.branch("bigstore-" + sched)
    ctx.branch("bigstore-lock-" + inp["lock"])
    if inp["return_stored"]:
        ctx.branch("bigstore-return-stored")
    if use_regions:
        ctx.branch("bigstore-regions")


def case_npy(ctx, inp):
    import numpy as np
    import dask.array as da
    chunks = tuple(tuple(c) for c in inp["chunks"])
    shape = [sum(c) for c in chunks]
    a = (np.arange(int(np.prod(shape))).reshape(shape) * 1.5).astype(inp["dtype"])
    d = da.from_array(a, chunks=chunks)
    axis = inp["axis"]
    tmp = tempfile.mkdtemp(prefix="verif_c29_")
    try:
        dirname = os.path.join(tmp, "stack") if inp["fresh_dir"] else tmp
        if inp.get("stale"):
            # an earlier, larger stack in the same directory leaves higher-numbered files behind
            big = da.from_array(np.zeros((inp["stale"],) + tuple(shape[1:]), dtype=a.dtype) if axis == 0 else
                                np.zeros(tuple(shape), dtype=a.dtype), chunks=1 if axis == 0 else chunks)
            if axis == 0:
                da.to_npy_stack(dirname, big, axis=0)
        da.to_npy_stack(dirname, d, axis=axis)
        files = sorted(f for f in os.listdir(dirname) if f.endswith(".npy"))
        if not inp.get("stale") and len(files) != len(chunks[axis]):
            ctx.fail("to_npy_stack wrote a wrong number of files", observed=files, expected=len(chunks[axis]))
        try:
            b = da.from_npy_stack(dirname, mmap_mode=inp["mmap"])
            got = np.asarray(b.compute(scheduler="sync"))
        except Exception as e:   # a stack written by to_npy_stack must be readable
            ctx.fail("from_npy_stack(to_npy_stack(x)) raised " + type(e).__name__, observed=repr(e)[:300])
            return
        model = unsym(ctx.lean(Sym("npychunks"), axis, [list(c) for c in chunks]))
        ctx.eq("chunks of from_npy_stack", model, [[int(v) for v in c] for c in b.chunks])
        if got.shape != a.shape or got.dtype != a.dtype or (got != a).any():
            ctx.fail("to_npy_stack -> from_npy_stack does not reproduce the array", observed=got.tolist(), expected=a.tolist())
        if tuple(b.chunks[axis]) != chunks[axis]:
            ctx.fail("chunks along the stacking axis not preserved", observed=list(b.chunks[axis]), expected=list(chunks[axis]))
        # each file holds the corresponding slab
        off = 0
        for i, n in enumerate(chunks[axis]):
            slab = np.load(os.path.join(dirname, f"{i}.npy"))
            sl = [slice(None)] * len(shape)
            sl[axis] = slice(off, off + n)
            if slab.shape != a[tuple(sl)].shape or (slab != a[tuple(sl)]).any():
                ctx.fail("npy file does not hold its slab", observed=[i, slab.tolist()])
                break
            off += n
        del b, got
    finally:
        shutil.rmtree(tmp, ignore_errors=True)
    ctx.branch("npy-axis-%d" % axis)
    if len(chunks[axis]) > 10:
        ctx.branch("npy-more-than-10-files")
    if inp.get("stale"):
        ctx.branch("npy-stale-files-in-directory")
    if len(chunks[axis]) > 1:
        ctx.branch("npy-multi-file")
    if any(len(c) > 1 for i, c in enumerate(chunks) if i != axis):
        ctx.branch("npy-rechunked-other-axes")


CASES = {"sfc": case_sfc, "fuse": case_fuse, "lsc": case_lsc, "store": case_store, "bigstore": case_bigstore, "npy": case_npy}
CASES.update(_c29x.CASES)      # extension round: npyplan


# --------------------------------------------------------------------------------------
# generators
# --------------------------------------------------------------------------------------

def _rand_region(rng, n, tlen_extra=4, strided=0.3):
    """a positive-step region selecting exactly n positions, and a target length that contains it"""
    step = rng.choice([2, 3]) if rng.random() < strided else 1
    start = rng.randint(0, tlen_extra)
    stop_exact = start + step * n if n else start
    # any stop in (last, last+step] selects the same positions
    stop = stop_exact - rng.randint(0, step - 1) if n else start
    tlen = stop + rng.randint(0, tlen_extra)
    tlen = max(tlen, start + step * (n - 1) + 1 if n else 0)
    region = [start if rng.random() < 0.8 or start else None, stop, None if step == 1 and rng.random() < 0.5 else step]
    return region, max(tlen, 1)


def _rand_source(rng, maxd=3, maxn=5, region_p=0.6):
    nd = rng.randint(1, maxd)
    shape = [rng.randint(1, maxn) for _ in range(nd)]
    chunks = [list(random_chunks(rng, s, zeros=0.12)) for s in shape]
    if rng.random() < region_p:
        region, tshape = [], []
        for n in shape:
            r, t = _rand_region(rng, n)
            region.append(r)
            tshape.append(t)
    else:
        region, tshape = None, shape
    return {"chunks": chunks, "region": region, "tshape": tshape}


def generate(ctx):
    rng = ctx.rng
    thorough = ctx.thorough()
    # slices_from_chunks: all chunkings of small axes, products
    for n in range(0, 6):
        for c in compositions(n):
            yield "sfc", {"chunks": [list(c)]}
    for _ in range(ctx.n(150, 2000)):
        nd = rng.randint(1, 3)
        yield "sfc", {"chunks": [list(random_chunks(rng, rng.randint(0, 6), zeros=0.2)) for _ in range(nd)]}
    # fuse_slice
    vals = [None, 0, 1, 2, 3, 5, 8]
    for _ in range(ctx.n(1200, 20000)):
        n = rng.randint(0, 14)
        a = [rng.choice(vals), rng.choice(vals), rng.choice([None, 1, 2, 3])]
        if rng.random() < 0.08:
            a[rng.randrange(3)] = -rng.randint(1, 3)
        if rng.random() < 0.25:
            yield "fuse", {"n": n, "kind": "int", "a": a, "b": rng.randint(-1, 6)}
        else:
            b = [rng.choice(vals), rng.choice(vals), rng.choice([None, 1, 2, 3])]
            if rng.random() < 0.08:
                b[rng.randrange(3)] = -rng.randint(1, 3)
            yield "fuse", {"n": n, "kind": "slice", "a": a, "b": b}
    # load_store_chunk
    for n in range(1, 5 if not thorough else 6):
        for c in compositions(n):
            for _ in range(2):
                r, t = _rand_region(rng, n)
                yield "lsc", {"tshape": [t], "chunks": [list(c)], "region": [r], "return_stored": rng.random() < 0.5,
                              "load_stored": rng.random() < 0.5}
            yield "lsc", {"tshape": [n], "chunks": [list(c)], "region": None, "return_stored": False, "load_stored": False}
    for _ in range(ctx.n(150, 3000)):
        s = _rand_source(rng)
        yield "lsc", {"tshape": s["tshape"], "chunks": s["chunks"], "region": s["region"],
                      "return_stored": rng.random() < 0.5, "load_stored": rng.random() < 0.5}
    # da.store
    for _ in range(ctx.n(90, 1500)):
        k = rng.choice([1, 1, 2, 3])
        sources = [_rand_source(rng, maxn=4) for _ in range(k)]
        one = k > 1 and rng.random() < 0.15
        same = None
        if one:
            # same shape and region for all
            sources = [dict(sources[0], chunks=[list(random_chunks(rng, sum(c))) for c in sources[0]["chunks"]]) for _ in range(k)]
        elif k > 1 and rng.random() < 0.45:
            # the same source (same object, or an equal one) into several targets with identical content
            sources = [dict(sources[0]) for _ in range(k)]
            same = rng.choice(["object", "equal"])
        yield "store", {"same_source": same, "sources": sources, "single": rng.random() < 0.7, "lock": rng.choice(["true", "false", "lock", "slock"]),
                        "compute": rng.random() < 0.6, "return_stored": rng.random() < 0.4,
                        "scheduler": rng.choice(["sync", "sync", "threads"]), "delayed_target": rng.random() < 0.15,
                        "one_region_for_all": one}
    # regions with an integer entry (a source of lower rank stored into a row / plane of the target); 0-d sources
    for _ in range(ctx.n(24, 300)):
        nd = rng.randint(0, 2)
        shape = [rng.randint(1, 4) for _ in range(nd)]
        chunks = [list(random_chunks(rng, n, zeros=0.1)) for n in shape]
        region, tshape = [], []
        for n in shape:
            r, t = _rand_region(rng, n)
            region.append(r)
            tshape.append(t)
        k = rng.randint(0 if nd else 0, 2) if nd else rng.randint(0, 2)
        for _i in range(k):
            pos = rng.randint(0, len(region))
            tl = rng.randint(1, 4)
            region.insert(pos, rng.randrange(tl))
            tshape.insert(pos, tl)
        src = {"chunks": chunks, "region": region if region else None, "tshape": tshape}
        yield "store", {"same_source": None, "sources": [src], "single": True, "lock": rng.choice(["true", "false", "lock"]),
                        "compute": rng.random() < 0.6, "return_stored": rng.random() < 0.4,
                        "scheduler": rng.choice(["sync", "threads"]), "delayed_target": False, "one_region_for_all": False}
    # one target, several pairwise disjoint regions: the same source (same object / an equal one) or different sources
    for _ in range(ctx.n(30, 400)):
        k = rng.choice([2, 2, 3])
        nd = rng.randint(1, 2)
        shape = [rng.randint(1, 4) for _ in range(nd)]
        same = rng.choice([None, "object", "equal", "equal"])
        sources, off = [], 0
        tshape = None
        for i in range(k):
            chunks = [list(random_chunks(rng, n, zeros=0.1)) for n in shape]
            step = rng.choice([1, 1, 2])
            start = off + rng.randint(0, 2)
            stop = start + step * shape[0]
            off = stop + rng.randint(0, 2)
            region = [[start, stop, None if step == 1 else step]] + [[0, n, None] for n in shape[1:]]
            sources.append({"chunks": chunks, "region": region, "tshape": None})
        tshape = [off + rng.randint(0, 3)] + shape[1:]
        for src in sources:
            src["tshape"] = tshape
        yield "store", {"same_source": same, "shared_target": True, "sources": sources, "single": False,
                        "lock": rng.choice(["true", "false", "lock", "slock"]), "compute": rng.random() < 0.6,
                        "return_stored": rng.random() < 0.3, "scheduler": rng.choice(["sync", "sync", "threads"]),
                        "delayed_target": False, "one_region_for_all": False}
    # targets > 1 MB with identical content: several targets in one call, separate compute=False calls computed
    # together, one shared target with disjoint regions
    for _ in range(ctx.n(28, 300)):
        nd = rng.choice([1, 1, 2])
        trest = [rng.randint(2, 4)] if nd == 2 else []
        per_row = trest[0] if trest else 1
        big = 125001 // per_row + rng.randint(1, 4000)
        k = rng.choice([2, 2, 3])
        mode = rng.choice(["one-call", "separate-calls", "separate-calls", "shared-target"])
        sources, used = [], 0
        for i in range(k):
            n0 = rng.randint(1, 5)
            ch = [list(random_chunks(rng, n0, zeros=0.1))]
            if nd == 2:
                n1 = rng.randint(1, trest[0])
                ch.append(list(random_chunks(rng, n1)))
            want_region = mode == "shared-target" or rng.random() < 0.5
            if want_region:
                # axis 0: a region far inside the target (shared target: pairwise disjoint bands)
                step = rng.choice([1, 1, 2, 3])
                start = (used if mode == "shared-target" else rng.randint(0, 50)) + rng.choice([0, 1, big // 2 if mode != "shared-target" else 0])
                stop = start + step * n0
                used = stop + rng.randint(0, 3)
                region = [[start, stop, None if step == 1 else step]]
                if nd == 2:
                    o = rng.randint(0, trest[0] - n1)
                    region.append([o, o + n1, None])
            else:
                region = None
            sources.append({"chunks": ch, "region": region})
        yield "bigstore", {"big": big, "trest": trest, "mode": mode, "sources": sources,
                           "lock": rng.choice(["true", "false", "lock", "slock"]), "compute": rng.random() < 0.5,
                           "return_stored": rng.random() < 0.3, "scheduler": rng.choice(["sync", "sync", "threads"])}
    # npy stacks with many blocks along the stacking axis (file names 10.npy, 11.npy, ...) and stale files
    for _ in range(ctx.n(10, 120)):
        nd = rng.randint(1, 3)
        axis = rng.randrange(nd)
        chunks = [list(random_chunks(rng, rng.randint(1, 4))) for _ in range(nd)]
        nblocks = rng.randint(11, 24)
        chunks[axis] = [rng.choice([1, 1, 2, 3]) if rng.random() < 0.5 else 1 for _ in range(nblocks)]
        yield "npy", {"chunks": chunks, "axis": axis, "dtype": rng.choice(["int64", "float64"]), "mmap": rng.choice(["r", None]),
                      "fresh_dir": rng.random() < 0.5}
    for _ in range(ctx.n(6, 60)):
        nd = rng.randint(1, 2)
        chunks = [list(random_chunks(rng, rng.randint(2, 5))) for _ in range(nd)]
        yield "npy", {"chunks": chunks, "axis": 0, "dtype": "int64", "mmap": None, "fresh_dir": rng.random() < 0.5,
                      "stale": rng.randint(len(chunks[0]) + 1, 14)}
    # many blocks along an axis for store
    for _ in range(ctx.n(6, 60)):
        nb = rng.randint(11, 20)
        src = {"chunks": [[rng.choice([1, 2]) for _ in range(nb)], list(random_chunks(rng, rng.randint(1, 3)))], "region": None}
        shape = [sum(c) for c in src["chunks"]]
        if rng.random() < 0.5:
            region, tshape = [], []
            for n in shape:
                r, t = _rand_region(rng, n)
                region.append(r)
                tshape.append(t)
            src["region"], src["tshape"] = region, tshape
        else:
            src["tshape"] = shape
        yield "store", {"same_source": None, "sources": [src], "single": True, "lock": rng.choice(["true", "false"]),
                        "compute": True, "return_stored": rng.random() < 0.3, "scheduler": rng.choice(["sync", "threads"]),
                        "delayed_target": False, "one_region_for_all": False}
    # npy stacks
    for _ in range(ctx.n(25, 300)):
        nd = rng.randint(1, 3)
        chunks = [list(random_chunks(rng, rng.randint(1, 5))) for _ in range(nd)]
        yield "npy", {"chunks": chunks, "axis": rng.randrange(nd), "dtype": rng.choice(["int64", "float64", "int8"]),
                      "mmap": rng.choice(["r", None]), "fresh_dir": rng.random() < 0.5}
    # extension round: file plumbing of to_npy_stack / from_npy_stack (appended last: earlier rng streams unchanged)
    yield from _c29x.generate(ctx)
