"""Exhaustive small spaces of the token group (thorough tier).

`pv_cases()`: every argument of dask.delayed's unpack_collections up to depth 2 over the leaves {literal, Delayed k1, Delayed k2}:
all container kinds (list, tuple, set and their iterators, dict, slice, dataclass, namedtuple) with up to two children,
each placed as a positional argument and as a keyword argument — the space in which "which level restores its type" and
"which container is handed on unchanged" are decided."""
from __future__ import annotations

import itertools

LEAVES = [["lit", 1], ["del", 1], ["del", 2]]
HASHABLE_KINDS = ("tuple", "nt", "dc")


def _hashable(spec):
    t = spec[0]
    if t in ("lit", "del"):
        return True
    if t in ("tuple", "nt", "dc"):
        return all(_hashable(x) for x in (spec[2] if t in ("nt", "dc") else spec[1]))
    return False


def _level(children, pairs=True):
    """all containers whose children are drawn from `children` (0, 1 or 2 of them)"""
    out = []
    combos = [[]] + [[c] for c in children]
    if pairs:
        combos += [[a, b] for a, b in itertools.product(children[:6], children)]
    for kind in ("list", "tuple", "ilist", "ituple"):
        out += [[kind, list(c)] for c in combos]
    for kind in ("set", "iset"):
        out += [[kind, list(c)] for c in combos if all(_hashable(x) for x in c) and (len(c) < 2 or c[0] != c[1])]
    for c in combos:
        if 1 <= len(c) <= 2:
            out.append(["dc", 0, list(c)])
            out.append(["nt", 0, list(c)])
    hk = [c for c in children if _hashable(c)]
    for k in hk:
        for v in children:
            out.append(["dict", [[k, v]]])
    for k1, k2 in itertools.permutations(hk[:4], 2):
        out.append(["dict", [[k1, children[0]], [k2, children[1 % len(children)]]]])
    for a, b, c in itertools.product(children[:3], repeat=3):
        out.append(["slice", a, b, c])
    return out


def pv_specs():
    d1 = _level(LEAVES)
    yield from LEAVES
    yield from d1
    # depth 2: one or two children, at least one of them a depth-1 container
    small = [s for s in d1 if s[0] != "slice"][::3] + [s for s in d1 if s[0] == "slice"][:3]
    yield from _level(small + LEAVES[:2], pairs=False)
    for a in small[:40]:
        for kind in ("list", "tuple", "ituple"):
            yield [kind, [a, ["del", 1]]]
            yield [kind, [["lit", 1], a]]


def pv_cases():
    for i, spec in enumerate(pv_specs()):
        if i % 2 == 0:
            yield "unpackfn", {"args": [spec], "kwargs": [], "pure": False, "leafkind": "leaf", "how": "function"}
        else:
            yield "unpackfn", {"args": [], "kwargs": [["x", spec]], "pure": i % 4 == 1, "leafkind": "call" if i % 3 == 0 else "leaf",
                               "how": "function"}


# ----------------------------------------------------------------------------------------------
# C14: every argument structure of dask.base.unpack_collections up to depth 2
# ----------------------------------------------------------------------------------------------

T_LEAVES = [["coll", 1], ["coll", 2], ["leaf", 0], ["leaf", 6], ["leaf", 10]]      # two collections, a string, a list subclass, a frozenset
T_HASHABLE = [["coll", 1], ["coll", 2], ["leaf", 0], ["leaf", 10]]


def _tree_level(children, hashable_children):
    out = []
    combos = [[]] + [[c] for c in children] + [[a, b] for a in children[:5] for b in children[:5]]
    for kind in ("list", "tuple", "iter", "gen"):
        out += [[kind, list(c)] for c in combos]
    hc = [[]] + [[c] for c in hashable_children] + [[a, b] for a in hashable_children for b in hashable_children if a != b]
    out += [["set", list(c)] for c in hc]
    for c in combos:
        if 1 <= len(c) <= 2:
            out.append(["dc", 0, list(c)])
            out.append(["nt", 0, list(c)])
    for kind in ("dict", "odict"):
        out.append([kind, []])
        for k in hashable_children:
            for v in children[:5]:
                out.append([kind, [[k, v]]])
        for k1, k2 in itertools.permutations(hashable_children[:3], 2):
            out.append([kind, [[k1, children[0]], [k2, children[1]]]])
    return out


def tree_specs():
    d1 = _tree_level(T_LEAVES, T_HASHABLE)
    yield from T_LEAVES
    yield from d1
    inner = d1[::4]
    hashable_inner = [s for s in inner if s[0] == "tuple" and all(x in T_HASHABLE for x in s[1])]
    yield from _tree_level(inner[:30] + T_LEAVES[:2], hashable_inner[:3] + T_HASHABLE[:2])


def tree_cases():
    for i, spec in enumerate(tree_specs()):
        yield "unpack", {"args": [spec] if i % 3 else [spec, ["coll", 1]], "traverse": i % 7 != 0}
