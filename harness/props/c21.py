"""C21 — array item assignment equals NumPy assignment.

Model:    lean/DaskModel/Model/SetItem.lean (parse_assignment_indices slice branch, per-block planning of
          setitem_array: slice / integer-array / boolean helpers, value-slice reversal)
Theorems: lean/DaskModel/Props/C21.lean
Tie:      function level  parse_assignment_indices vs `parseSlice`; the plan built by the real setitem_array
                          (block indices + the value indices it requests, recorded through a proxy value) vs
                          the per-axis Lean plan; the recorded plan replayed on NumPy (property oracle);
          API level       x[idx] = v; x.compute() vs NumPy, chunks unchanged — all index kinds, broadcast
                          values, NumPy and dask values, dask masks.
Extension round (props/_c21x.py, Props/C21x.lean): sections maskplan / maskapi (the `where` path of __setitem__) and
vpieces (value pieces of setitem_array per block and axis).
"""
from __future__ import annotations

import itertools

from sexp import Sym

from props._slicing_util import canon_slice, compositions, enc_slice, random_chunks, slice_steps, slice_values, unsym
from props import _c21x

PROP = "C21"
READY = True
DRIVER = "dm_slicing"
LEAN_MODULES = ["DaskModel.Props.C21", "DaskModel.Props.C20Cache", "DaskModel.Props.C21x"]
CASE_TIMEOUT_S = 30
LEVEL_TEXT = (
    "Lean 4 theorems (no size bound) over transliterations of parse_assignment_indices (slice branch) and of "
    "setitem_array. Per axis: after normalisation the reformatted slice has a positive step and selects the "
    "original positions (reversed iff flagged), implied size = selection length (parse_spec); for every chunk list "
    "the per-block slices tile the parsed slice, block_index_size / n_preceding are the counts the value slices "
    "need, and over all blocks the assigned (position, value element) pairs are exactly zip(selected positions, "
    "value) (setitem1d_den); the same for integer-array indices (last write wins as in NumPy) and boolean pieces; a "
    "reversed value piece reads the mirrored positions. N-d: the per-block loop over the dimensions (with its "
    "overlaps=False/break) succeeds iff every axis overlaps and collects the per-axis block indices / sizes / "
    "n_preceding in axis order (nd_block_indices, nd_block_sizes); a vector of (array position, value position) "
    "pairs is assigned by some block iff it is NumPy's pair on every axis (setitem_nd_den). The value-index "
    "bookkeeping (offset between array and value axes, broadcast size-1 axes, extra leading axes, reversal, Ellipsis) "
    "is modelled (SetItemND.planND), diffed block by block against the real plan, and proved (Props/C21x): for every "
    "plan that does not raise and every touched block value_indices is [Ellipsis] (iff the value has extra leading "
    "axes) followed by one entry per common value axis i — slice(None) on a length-one value axis, else the slice "
    "[n_preceding, n_preceding+size) / the positions value_indices_from_1d_int_index of the non-integer array axis "
    "i+offset, mirrored iff i is in the renumbered reverse (plan_value_indices); evaluated with Python's slice "
    "semantics the positions a block reads are NumPy's for the ranks of its elements — 0 on a broadcast axis, the "
    "ranks, or the mirrored ranks (value_index_positions); over all blocks of a slice axis, in block order, the "
    "(array position, value position) pairs are zip(selected positions, NumPy's value positions): the pieces are "
    "disjoint, consecutive and cover the value axis once in selection order, a size-1 axis is read at 0 by every "
    "block (value_indices_partition_nd); N-d: a vector of per-axis pairs is assigned by some block iff it is NumPy's "
    "with broadcasting on every axis (setitem_nd_value_den). The `where` path for full-shape masks (dask masks, "
    "NumPy masks of rank > 1) is modelled (SetItemMask: dispatch, wherePlan = unify_chunks + one np.where task per "
    "block + rechunk back) and proved: for every chunking of array and mask and every value broadcastable in "
    "`where` the blocked result holds mask ? value[broadcast g] : x[g] at every position (where_blocked_den, the "
    "elementwise lemma over the N-d blocked denotation); the assignment keeps x's chunks, rechunks back exactly when "
    "the unified chunks differ and equals NumPy's x[mask] = v for a 0-d v (setitem_mask_den, np_mask_scalar: NumPy's "
    "C-order masked assignment with a broadcast scalar is that where); the path rejects a mask of another shape "
    "(IndexError) and every value of rank > 0 (ValueError: documented limitation, finding setitem:nd-mask+array-value) "
    "(setitem_mask_raises, dispatch_where_iff); under the assumptions that rechunking preserves the blocked denotation "
    "(C23/C24) and np.where on one block is elementwise. Validated only: "
    "dask-array indices in setitem_array, lower-rank N-d masks (rejected by dask, accepted by NumPy), the chunk function `setitem` (function level: equals "
    "NumPy on a copy, never writes into its input block, result does not alias it), values/masks/indices derived "
    "from the same array under the sync and threaded schedulers with the source re-computed afterwards. Histories on ONE Array object: the cached attributes "
    "(_cached_keys, _key_array, numblocks, npartitions, shape, ndim, size) are modelled as a state machine (ArrayCache: "
    "setters and cached reads of class Array); for every history of cached reads, __setitem__-style and out=-style "
    "in-place mutations and block-count-preserving _chunks assignments every read returns what a fresh array with the "
    "current name and chunks returns (history_reads_fresh; the invalidation in the _name setter is shown necessary); the "
    "machine is diffed step by step (answers and WHICH caches are filled) against real Array objects, and API-level "
    "histories (.blocks/.partitions/keys/to_delayed/vindex/getitem around x[i]=v, out=x, compute_chunk_sizes) are "
    "compared with NumPy with the invariant evaluated on the object after every step."
)
LEVEL_NOTE = (
    "Trusted: Lean kernel; the hand-written models SetItem / SetItemND, diffed on every run against "
    "parse_assignment_indices and against the complete plan the real setitem_array builds (block indices per block and "
    "the value indices it requests, recorded through a proxy value, no source hook); the recorded plan replayed on "
    "NumPy must equal NumPy's own assignment; NumPy assignment x_block[block_indices] = v_piece on one block is the "
    "per-axis product with a length-one piece axis broadcast (pairUp; probed against NumPy per block and axis in section "
    "vpieces); the scheduler runs each setitem task once with the blocks it names. Extension: SetItemMask.wherePlan is "
    "diffed against the graph the real __setitem__ builds (branch taken, chunks of the where layer, one np.where task per "
    "block and the blocks it reads, which inputs are rechunked, rechunk back, final chunks, every block's values); "
    "vixEval / axisBlockPairsV / axisSelectedV are diffed against NumPy's evaluation of the real recorded block and value "
    "indices; rechunk preserves the denotation (proved for rechunk in C23/C24, assumed here)."
)
TECHNIQUE = "Lean 4 proof (range splitting over the chunk list, counting lemmas) + differential correspondence (plan level and API level) with NumPy"
ASSUMPTIONS = [
    "divmod(a, b) for b > 0 is floor division / non-negative remainder (Int.ediv / Int.emod)",
    "np.where(cond)[0] lists the positions where cond holds in increasing order; np.sum of a bool array counts True",
    "NumPy assignment x_block[block_indices] = v_piece on one block",
    "np.where(mask_block, v, x_block) with a 0-d v is elementwise on one block",
    "Array.rechunk / unify_chunks preserve the blocked denotation (C23, C24)",
    "blockwise hands block b of every same-chunked argument to output block b (C35/C19)",
]
TRUSTED = ["NumPy assignment on a single block (the chunk function dask.array.slicing.setitem is checked at function level against it)"]

FANCY = ("list", "bool", "dalist", "dabool")


# --------------------------------------------------------------------------------------
# helpers
# --------------------------------------------------------------------------------------

def _to_index(spec, for_dask):
    import numpy as np
    import dask.array as da
    out = []
    for kind, v in spec:
        if kind == "slice":
            out.append(slice(*v))
        elif kind == "int":
            out.append(int(v))
        elif kind == "list":
            out.append(list(v))
        elif kind == "bool":
            out.append(np.array(v, dtype=bool))
        elif kind == "dalist":
            a = np.array(v, dtype=int)
            out.append(da.from_array(a, chunks=max(1, (len(v) + 1) // 2)) if for_dask else a)
        elif kind == "dabool":
            a = np.array(v, dtype=bool)
            out.append(da.from_array(a, chunks=max(1, (len(v) + 1) // 2)) if for_dask else a)
        elif kind == "ellipsis":
            out.append(Ellipsis)
    return tuple(out)


def _value(inp):
    """the assignment value; `vkind` varies its Python type / dtype (NumPy casts to the array's dtype on assignment)"""
    import numpy as np
    vs = inp["vshape"]
    kind = inp.get("vkind", "int")
    if vs is None:
        return {"int": -7, "float": -7.75, "npscalar": np.int16(-7), "bool": True, "zerod": np.array(-7), "list": -7}[kind]
    v = -(np.arange(int(np.prod(vs)), dtype=int).reshape(vs) + 1)
    if kind == "float":
        return v - 0.75
    if kind == "list":
        return v.tolist()
    if kind == "bool":
        return (v % 2).astype(bool)
    if kind == "npscalar":
        return v.astype("int8")
    return v


def _class(inp, x):
    """input class for known-finding signatures"""
    kinds = [k for k, _ in inp["index"]]
    if "int" in kinds and any(k in FANCY for k in kinds):
        # NumPy moves the broadcast dimension first when a slice separates the integer from the array index
        pos = [i for i, k in enumerate(kinds) if k == "int" or k in FANCY]
        if pos != list(range(pos[0], pos[-1] + 1)):
            return "int+fancy-split"
    return None


def _dask_convention(inp, x, val):
    """What dask's documented convention gives for an index in which a slice separates an integer from the array index:
    integers are basic indices, the array axis keeps its place (NumPy moves it first). Returns ("values", array) — the
    array after assigning `val` read in that axis order — or ("ValueError", None) when `val` does not broadcast to it."""
    import numpy as np
    kinds = inp["index"]
    nell = len(x.shape) - sum(1 for k, _ in kinds if k != "ellipsis")
    full = []
    for k, v in kinds:
        full += [("slice", [None, None, None])] * nell if k == "ellipsis" else [(k, v)]
    full += [("slice", [None, None, None])] * (len(x.shape) - len(full))
    idx2, keep = [], []
    for (k, v), n in zip(full, x.shape):
        if k == "int":
            idx2.append(slice(v % n, v % n + 1))
            keep.append(False)
        elif k == "slice":
            idx2.append(slice(*v))
            keep.append(True)
        else:
            idx2.append(np.array(v, dtype=bool if k in ("bool", "dabool") else int))
            keep.append(True)
    y = x.copy()
    with_ones = y[tuple(idx2)].shape
    implied = tuple(s for s, kp in zip(with_ones, keep) if kp)
    try:
        v = np.broadcast_to(np.asarray(val), implied).reshape(with_ones)
    except ValueError:
        return "ValueError", None
    y[tuple(idx2)] = v
    return "values", y


def _known_sig(inp, x, val, symptom, got=None):
    """signature of the known finding `int+fancy-split` — only when the observed behaviour is exactly dask's documented
    axis-order convention (another wrong result / another error in the same input class is a fresh violation)"""
    if _class(inp, x) != "int+fancy-split":
        return None
    kind, alt = _dask_convention(inp, x, val)
    if symptom == "wrong-values":
        ok = kind == "values" and got is not None and np_equal(alt, got)
    else:
        ok = symptom == "ValueError" and kind == "ValueError"
    return f"setitem:int+fancy-split:{symptom}" if ok else None


def np_equal(a, b):
    import numpy as np
    a, b = np.asarray(a), np.asarray(b)
    return a.shape == b.shape and bool((a == b).all())


class _Recorder:
    """Stands in for the assignment value inside setitem_array and records the value indices requested per block."""

    def __init__(self, v):
        self.v = v
        self.shape = v.shape
        self.calls = []

    def __getitem__(self, idx):
        self.calls.append(idx)
        return self.v[idx]


def _cum(lengths):
    out, acc = [], 0
    for l in lengths:
        out.append((acc, acc + l))
        acc += l
    return out


def _plain(i):
    import numpy as np
    if isinstance(i, slice):
        return ["slice"] + canon_slice(i)
    if isinstance(i, (int, np.integer)):
        return ["int", int(i)]
    if i is Ellipsis:
        return ["ellipsis"]
    if isinstance(i, np.ndarray):
        return ["array", [int(v) for v in i.tolist()]]
    return ["other", repr(i)[:40]]


# --------------------------------------------------------------------------------------
# function level
# --------------------------------------------------------------------------------------

def case_parse(ctx, inp):
    """parse_assignment_indices on one slice: model diff + reversal/implied-size clauses on the real output."""
    from dask.array.slicing import parse_assignment_indices
    n, s = inp["n"], slice(*inp["s"])
    from dask.array.slicing import normalize_slice
    try:
        parsed, implied, reverse, positions = parse_assignment_indices((s,), (n,))
    except ValueError:
        if s.step != 0:
            ctx.fail("parse_assignment_indices raised on a valid slice")
        ctx.eq("parse (step 0)", unsym(ctx.lean(Sym("parseslice"), n, enc_slice(slice(1, 2, 0)))), ["raised"])
        return
    p = parsed[0]
    impl = ["ok", canon_slice(p), int(implied[0]), bool(reverse)]
    ns = normalize_slice(s, n)
    ctx.eq("parse_assignment_indices(slice)", unsym(ctx.lean(Sym("parseslice"), n, enc_slice(ns))), impl)
    want = list(range(*s.indices(n)))
    got = list(range(*p.indices(n)))
    if p.step is None or p.step <= 0 or p.start is None or p.stop is None:
        ctx.fail("parsed slice is not an increasing slice with integer fields", observed=canon_slice(p))
        return
    if got != (want[::-1] if reverse else want):
        ctx.fail("parsed slice does not select the original positions" + (" reversed" if reverse else ""),
                 observed=got, expected=want)
    if int(implied[0]) != len(want):
        ctx.fail("implied shape is not the selection length", observed=int(implied[0]), expected=len(want))
    if bool(positions) != (len(want) > 0):
        ctx.fail("implied_shape_positions wrong", observed=positions)
    if reverse:
        ctx.branch("parse-reversed")
    if not want:
        ctx.branch("parse-empty" + ("-negstep" if (s.step or 1) < 0 else ""))
    if (s.step or 1) < -1 and len(want) > 1:
        ctx.branch("parse-reversed-strided")


def case_plan(ctx, inp):
    """The plan built by the real setitem_array, per block: block indices and the value indices requested."""
    import numpy as np
    import dask.array as da
    from dask.array.slicing import parse_assignment_indices, setitem_array
    from dask.core import flatten
    shape, chunks = tuple(inp["shape"]), tuple(tuple(c) for c in inp["chunks"])
    x = np.arange(int(np.prod(shape))).reshape(shape)
    d = da.from_array(x, chunks=chunks)
    idx = _to_index(inp["index"], True)
    np_idx = _to_index(inp["index"], False)
    val = _value(inp)
    y = x.copy()
    try:
        y[np_idx] = val
    except (IndexError, ValueError, TypeError):
        ctx.note("numpy-rejects")
        return
    v = da.asanyarray(val, dtype=x.dtype)
    rec = _Recorder(v)
    cls = _class(inp, x)
    try:
        dsk = setitem_array("out", d, idx, rec)
        parsed, implied, reverse, positions = parse_assignment_indices(idx, shape)
    except NotImplementedError:
        ctx.note("dask-not-implemented")
        return
    except Exception as e:
        ctx.fail("setitem_array raised " + type(e).__name__, sig=_known_sig(inp, x, val, type(e).__name__),
                 observed=repr(e)[:200])
        return
    # --- per-axis Lean plans
    axis_plans = []
    for ax, (ind, ch) in enumerate(zip(parsed, chunks)):
        locs = _cum(ch)
        if isinstance(ind, slice):
            bl = unsym(ctx.lean(Sym("blockslices"), list(ch), ind.start, ind.stop, ind.step))
            axis_plans.append(("slice", ind, bl))
        elif isinstance(ind, int):
            axis_plans.append(("int", ind, [(ind - l0) if l0 <= ind < l1 else None for l0, l1 in locs]))
        elif isinstance(ind, np.ndarray):
            bl = unsym(ctx.lean(Sym("blockint"), list(ch), [int(t) for t in ind.tolist()]))
            axis_plans.append(("array", ind, bl))
        else:
            axis_plans.append(("dask", ind, None))
    # --- the whole N-d plan against the Lean model `SetItemND.planND` (NumPy indices only)
    in_keys = list(flatten(d.__dask_keys__()))
    if all(isinstance(i, (slice, int)) or (isinstance(i, np.ndarray) and i.dtype != bool) for i in parsed):
        enc = []
        for i in parsed:
            if isinstance(i, slice):
                enc.append([Sym("sl"), int(i.start), int(i.stop), int(i.step)])
            elif isinstance(i, int):
                enc.append([Sym("int"), i])
            else:
                enc.append([Sym("arr"), [int(t) for t in i.tolist()]])
        model = unsym(ctx.lean(Sym("setitemplan"), [list(c) for c in chunks], enc, [int(t) for t in implied],
                               [int(t) for t in reverse], [int(t) for t in np.shape(val)]))

        def _bix(i):
            if isinstance(i, slice):
                return ["sl", int(i.start), int(i.stop), int(i.step)]
            if isinstance(i, (int, np.integer)):
                return ["int", int(i)]
            return ["arr", [int(t) for t in i.tolist()]]

        def _vix(i):
            if isinstance(i, slice):
                return ["sl", canon_slice(i)]
            if i is Ellipsis:
                return ["ellipsis"]
            return ["arr", [int(t) for t in np.asarray(i).tolist()]]

        impl, cit = [], iter(rec.calls)
        for in_key in in_keys:
            task = dsk[("out",) + in_key[1:]]
            if isinstance(task, tuple) and len(task) == 4 and callable(task[0]):
                impl.append([[_bix(i) for i in task[3]], [_vix(i) for i in next(cit)]])
            else:
                impl.append(None)
        ctx.eq("setitem_array N-d plan (block indices, value indices)", model, ["ok", impl])
        ctx.branch("plan-nd-model-diffed")
        if len(np.shape(val)) < len(implied) and np.ndim(val):
            ctx.branch("plan-nd-value-lower-rank")
        if len(np.shape(val)) > len(implied):
            ctx.branch("plan-nd-value-extra-leading-axes")
        if any(a != 1 and b == 1 for a, b in zip(reversed(implied), reversed(np.shape(val)))):
            ctx.branch("plan-nd-broadcast-value-axis")
        if reverse and np.ndim(val):
            ctx.branch("plan-nd-reversed-with-array-value")
    # --- walk the blocks in product order
    calls = iter(rec.calls)
    out = x.copy()
    nonint_axes = [ax for ax, (k, _, _) in enumerate(axis_plans) if k != "int"]
    simple = (np.ndim(val) == len(nonint_axes) and all(a == b for a, b in zip(implied, np.shape(val)))
              and all(k != "dask" for k, _, _ in axis_plans))
    rev_impl = [nonint_axes.index(r) for r in reverse]
    diffed = True   # keep diffing against the model until the first disagreement; always replay the real plan
    for in_key in in_keys:
        coords = in_key[1:]
        task = dsk[("out",) + coords]
        exp_overlap, exp_bi = True, []
        for ax, (kind, ind, bl) in enumerate(axis_plans):
            b = coords[ax]
            if kind == "slice":
                if bl[b] is None:
                    exp_overlap = False
                    break
                exp_bi.append(["slice", bl[b][0], bl[b][1], ind.step])
            elif kind == "int":
                if bl[b] is None:
                    exp_overlap = False
                    break
                exp_bi.append(["int", bl[b]])
            elif kind == "array":
                if not bl[b][0]:
                    exp_overlap = False
                    break
                exp_bi.append(["array", bl[b][0]])
            else:
                exp_bi.append(None)
        touched = isinstance(task, tuple) and len(task) == 4 and callable(task[0])
        if diffed and touched != exp_overlap:
            ctx.disagree("which blocks are touched", [list(coords), exp_overlap], [list(coords), touched])
            diffed = False
        if not touched:
            continue
        bi = task[3]
        vi = next(calls)
        got_bi = [_plain(i) for i in bi]
        for a, (e, g) in enumerate(zip(exp_bi, got_bi)):
            if diffed and e is not None and e != g:
                ctx.disagree("block index", [list(coords), a, e], [list(coords), a, g])
                diffed = False
        if simple and diffed:
            exp_vi = []
            for j, ax in enumerate(nonint_axes):
                kind, ind, bl = axis_plans[ax]
                b = coords[ax]
                if np.shape(val)[j] == 1:
                    # a value axis of length 1 is broadcast: slice(None) (mirrored when the axis is reversed)
                    if j in rev_impl:
                        exp_vi.append(["slice"] + unsym(ctx.lean(Sym("revvalue"), 1, 0, 1))[1])
                    else:
                        exp_vi.append(["slice", None, None, None])
                elif kind == "slice":
                    npre, size = bl[b][3], bl[b][2]
                    if j in rev_impl:
                        r = unsym(ctx.lean(Sym("revvalue"), np.shape(val)[j], npre, npre + size))
                        exp_vi.append(["slice"] + r[1])
                    else:
                        exp_vi.append(["slice", npre, npre + size, None])
                else:
                    exp_vi.append(["array", bl[b][1]])
            got_vi = [_plain(i) for i in vi]
            if exp_vi != got_vi:
                ctx.disagree("value indices", [list(coords), exp_vi], [list(coords), got_vi])
                diffed = False
        # --- replay the block assignment on NumPy (property oracle on the real plan)
        region = tuple(slice(*_cum(ch)[b]) for ch, b in zip(chunks, coords))
        blk = out[region].copy()
        try:
            if not all(isinstance(k, (slice, int, np.integer, np.ndarray)) for k in bi):
                ctx.note("plan-with-dask-index-not-replayed")
                return
            bi_np = tuple(bi)
            piece = np.asarray(rec.v[vi].compute(scheduler="sync"))
            if piece.size:
                blk[bi_np] = piece
        except Exception as e:
            ctx.fail("replaying the plan on NumPy raised " + type(e).__name__,
                     sig=_known_sig(inp, x, val, type(e).__name__), observed=repr(e)[:200])
            return
        out[region] = blk
    if (out != y).any():
        ctx.fail("the plan of setitem_array does not perform NumPy's assignment",
                 sig=_known_sig(inp, x, val, "wrong-values", out), observed=out.tolist(), expected=y.tolist())
    kinds = [k for k, _ in inp["index"]]
    for k in set(kinds):
        ctx.branch("plan-" + k)
    if reverse:
        ctx.branch("plan-reversed-axis")
    if simple:
        ctx.branch("plan-value-indices-diffed")
    if len(in_keys) > 1:
        ctx.branch("plan-multiblock")


# --------------------------------------------------------------------------------------
# API level
# --------------------------------------------------------------------------------------

def case_api(ctx, inp):
    import numpy as np
    import dask.array as da
    shape, chunks = tuple(inp["shape"]), tuple(tuple(c) for c in inp["chunks"])
    x = np.arange(int(np.prod(shape))).reshape(shape)
    np_idx = _to_index(inp["index"], False)
    val = _value(inp)
    y = x.copy()
    try:
        y[np_idx] = val
    except (IndexError, ValueError, TypeError):
        ctx.note("numpy-rejects")
        return
    cls = _class(inp, x)
    d = da.from_array(x.copy(), chunks=chunks)
    v = val
    if inp.get("dask_value") and inp["vshape"] is not None and isinstance(val, np.ndarray):
        v = da.from_array(val, chunks=tuple(max(1, (s + 1) // 2) for s in val.shape)) if val.ndim else da.from_array(val)
    try:
        d[_to_index(inp["index"], True)] = v
        got = d.compute(scheduler="sync")
    except NotImplementedError:
        ctx.note("dask-not-implemented")
        return
    except Exception as e:
        ctx.fail("x[index] = value raised " + type(e).__name__ + " where NumPy succeeds",
                 sig=_known_sig(inp, x, val, type(e).__name__), observed=repr(e)[:300])
        return
    if got.shape != y.shape or (got != y).any():
        ctx.fail("x[index] = value; x.compute() differs from NumPy",
                 sig=_known_sig(inp, x, val, "wrong-values", got), observed=got.tolist(), expected=y.tolist())
        return
    if d.chunks != chunks:
        ctx.fail("chunks changed by the assignment", observed=[list(c) for c in d.chunks], expected=[list(c) for c in chunks])
    if got.dtype != x.dtype:
        ctx.fail("dtype changed by the assignment", observed=str(got.dtype))
    for k in set(k for k, _ in inp["index"]):
        ctx.branch("api-" + k)
    if inp.get("dask_value"):
        ctx.branch("api-dask-value")
    if inp["vshape"] is not None and len(inp["vshape"]) and list(inp["vshape"]) != list(x[np_idx].shape):
        ctx.branch("api-broadcast-value")
    if any(k == "slice" and (v[2] or 1) < 0 for k, v in inp["index"]):
        ctx.branch("api-negstep")
    if not x[np_idx].size:
        ctx.branch("api-empty-selection")


def case_mask(ctx, inp):
    """x[mask] = value with a full-shape boolean mask (NumPy or dask): the `where` path."""
    import numpy as np
    import dask.array as da
    shape, chunks = tuple(inp["shape"]), tuple(tuple(c) for c in inp["chunks"])
    x = np.arange(int(np.prod(shape))).reshape(shape)
    m = np.array(inp["mask"], dtype=bool).reshape(shape)
    val = -7 if inp["vshape"] is None else _value(inp)
    y = x.copy()
    try:
        y[m] = val
    except (IndexError, ValueError, TypeError):
        ctx.note("numpy-rejects")
        return
    d = da.from_array(x.copy(), chunks=chunks)
    dm = da.from_array(m, chunks=inp.get("mchunks") and tuple(tuple(c) for c in inp["mchunks"]) or chunks) if inp["dask_mask"] else m
    try:
        d[dm] = val
        got = d.compute(scheduler="sync")
    except ValueError as e:
        # a full-shape mask goes through where(): a non-scalar value would have to be broadcast to x[mask].shape,
        # which is unknown -> rejected (documented in __setitem__)
        sig = "setitem:nd-mask+array-value:ValueError" if inp["vshape"] is not None else None
        ctx.fail("x[mask] = value raised ValueError", sig=sig, observed=repr(e)[:200])
        return
    if (got != y).any():
        ctx.fail("x[mask] = value differs from NumPy", observed=got.tolist(), expected=y.tolist())
    if d.chunks != chunks:
        ctx.fail("chunks changed by masked assignment", observed=[list(c) for c in d.chunks])
    ctx.branch("mask-dask" if inp["dask_mask"] else "mask-numpy")


def _owned_source(kind, x0, chunks):
    """A dask array with the values of x0 whose blocks, when computed, OWN their memory (are not views of a
    user array): the chunk function `setitem` may not rely on the copy NumPy made for it elsewhere."""
    import numpy as np
    import dask.array as da
    if kind == "arange":
        return da.arange(x0.shape[0], chunks=(tuple(chunks[0]),), dtype=x0.dtype)
    if kind == "from_array":      # blocks are views of x0 (the classical case)
        return da.from_array(x0, chunks=chunks)
    d = da.from_array(x0.copy(), chunks=chunks) + 0   # every block is the fresh result of an addition
    if kind == "persist":
        return d.persist(scheduler="sync")
    return d


def _self_op(a, op, is_np):
    """One assignment whose value / mask / index is derived from the array itself; the same expression is evaluated
    on NumPy (reference; right-hand sides copied first) and on dask."""
    k = op["kind"]
    if k == "shift":
        dst = tuple(slice(*s) for s in op["dst"])
        src = tuple(slice(*s) for s in op["src"])
        v = a[src]
        if op.get("affine"):
            v = v * 2 + 1
        a[dst] = v.copy() if is_np else v
    elif k == "mask":
        a[a > op["k"]] = op["c"]
    elif k == "maskrow":
        m = a[:, op["j"]] > op["k"]
        v = a[op["i"]]
        a[m] = v.copy() if is_np else v
    elif k == "idx":
        v = a[op["src"]]
        a[op["dst"]] = v.copy() if is_np else v
    else:
        raise AssertionError(k)


def case_selfref(ctx, inp):
    """x[index] = value where the value (or the mask / the index) is DERIVED FROM x ITSELF, on arrays whose blocks own
    their memory, under the synchronous and the threaded scheduler. NumPy semantics: the right-hand side is evaluated
    first. Clauses: result = NumPy's; chunks unchanged; computing twice gives the same; the source array (the same
    graph / the same persisted blocks) still computes to its original values afterwards (no input block mutated)."""
    import numpy as np
    import dask.array as da
    shape, chunks = tuple(inp["shape"]), tuple(tuple(c) for c in inp["chunks"])
    x0 = (np.arange(int(np.prod(shape))).reshape(shape) * 2 + 3)
    if inp["src"] == "arange":
        x0 = np.arange(shape[0])
    y = x0.copy()
    try:
        for op in inp["ops"]:
            _self_op(y, op, True)
    except (IndexError, ValueError, TypeError):
        ctx.note("numpy-rejects")
        return
    sched = inp["scheduler"]
    src = _owned_source(inp["src"], x0, chunks)
    d = src.copy()
    try:
        for op in inp["ops"]:
            _self_op(d, op, False)
        got = np.asarray(d.compute(scheduler=sched))
        got2 = np.asarray(d.compute(scheduler=sched))
        again = np.asarray(src.compute(scheduler=sched))
    except NotImplementedError:
        ctx.note("dask-not-implemented")
        return
    except Exception as e:
        ctx.fail("self-derived assignment raised " + type(e).__name__ + " where NumPy succeeds", observed=repr(e)[:300])
        return
    if got.shape != y.shape or (got != y).any():
        ctx.fail("x[index] = f(x); x.compute() differs from NumPy (value derived from the same array)",
                 observed=got.tolist(), expected=y.tolist())
        return
    if (got2 != got).any():
        ctx.fail("computing the assigned array twice gives different results", observed=got2.tolist(), expected=got.tolist())
        return
    if (again != x0).any():
        ctx.fail("the source array changed: an input block was mutated by the assignment", observed=again.tolist(),
                 expected=x0.tolist())
        return
    if d.chunks != chunks:
        ctx.fail("chunks changed by the assignment", observed=[list(c) for c in d.chunks])
    ctx.branch("selfref-" + inp["src"])
    ctx.branch("selfref-" + sched)
    for op in inp["ops"]:
        ctx.branch("selfref-op-" + op["kind"])
    if len(inp["ops"]) > 1:
        ctx.branch("selfref-chained")
    if any(len(c) > 1 for c in chunks):
        ctx.branch("selfref-multiblock")


def case_chunkfn(ctx, inp):
    """The per-block chunk function `setitem(x, v, indices)`: returns NumPy's assignment on a copy; never writes into
    its input block (whether the block owns its memory or is a view, whether or not v overlaps it); the result does
    not share memory with the input unless v is empty; place-holder entries (== block size) of integer index arrays
    are dropped; a masked value makes the result masked."""
    import numpy as np
    from dask.array.slicing import setitem
    shape = tuple(inp["shape"])
    base = np.arange(int(np.prod(shape)) + 4) * 2 + 3
    if inp["own"]:
        x = (np.arange(int(np.prod(shape))) * 2 + 3).reshape(shape) if shape else np.array(7)
        if shape and inp.get("fortran"):
            x = np.asfortranarray(x)
    else:
        x = base[2:2 + int(np.prod(shape))].reshape(shape)     # a view into a larger buffer
    if inp.get("readonly"):
        x.flags.writeable = False
    before = x.copy()
    base_before = base.copy()
    indices, np_indices = [], []
    for (kind, v), n in zip(inp["index"], shape):
        if kind == "slice":
            indices.append(slice(*v)); np_indices.append(slice(*v))
        elif kind == "int":
            indices.append(int(v)); np_indices.append(int(v))
        elif kind == "array":      # may contain the place-holder value n
            indices.append(np.array(v, dtype=int)); np_indices.append(np.array([t for t in v if t < n], dtype=int))
        elif kind == "bool":
            indices.append(np.array(v, dtype=bool)); np_indices.append(np.array(v, dtype=bool))
    target_shape = before[tuple(np_indices)].shape
    if inp["value"] == "overlap":
        # the value is a view of the very block that is assigned to (shifted along axis 0 when possible)
        sel = x[tuple(np_indices)]
        v = sel[::-1] if sel.ndim else sel
        v_ref = np.array(v, copy=True)
    elif inp["value"] == "scalar":
        v = np.array(-5); v_ref = v
    elif inp["value"] == "masked":
        v = np.ma.masked_array(-(np.arange(int(np.prod(target_shape))).reshape(target_shape) + 1),
                               mask=(np.arange(int(np.prod(target_shape))).reshape(target_shape) % 2 == 0))
        v_ref = v
    elif inp["value"] == "empty":
        v = np.zeros((0,), dtype=int); v_ref = v
    else:
        v = -(np.arange(int(np.prod(target_shape))).reshape(target_shape) + 1); v_ref = v
    exp = before.copy()
    if inp["value"] == "masked":
        exp = exp.view(np.ma.MaskedArray)
    if inp["value"] != "empty":
        try:
            exp[tuple(np_indices)] = v_ref
        except (ValueError, IndexError):
            ctx.note("numpy-rejects")
            return
    try:
        got = setitem(x, v, list(indices))
    except Exception as e:
        ctx.fail("chunk function setitem raised " + type(e).__name__, observed=repr(e)[:300])
        return
    if (np.asarray(x) != before).any() or (base != base_before).any():
        ctx.fail("chunk function setitem wrote into its input block", observed=np.asarray(x).tolist(), expected=before.tolist())
        return
    g, e = np.ma.getdata(got), np.ma.getdata(exp)
    if g.shape != e.shape or (np.ma.getmaskarray(got) != np.ma.getmaskarray(exp)).any() or \
            (g[~np.ma.getmaskarray(exp)] != e[~np.ma.getmaskarray(exp)]).any():
        ctx.fail("chunk function setitem differs from NumPy's assignment on a copy", observed=np.ma.filled(got, -99).tolist(),
                 expected=np.ma.filled(exp, -99).tolist())
        return
    if inp["value"] == "masked" and np.size(v) and not np.ma.isMA(got):
        ctx.fail("masked value assigned but the result is not a masked array")
    if np.size(v) == 0:
        # documented: an empty value leaves the block alone and the input itself is returned
        ctx.branch("chunkfn-empty-value-returns-input")
    elif isinstance(got, np.ndarray) and got.size and np.shares_memory(got, x):
        ctx.fail("the result of the chunk function shares memory with its input block")
        return
    ctx.branch("chunkfn-own" if inp["own"] else "chunkfn-view")
    ctx.branch("chunkfn-value-" + inp["value"])
    if any(k == "array" and any(t >= n for t in v_) for (k, v_), n in zip(inp["index"], shape)):
        ctx.branch("chunkfn-placeholders-dropped")
    if inp.get("readonly"):
        ctx.branch("chunkfn-readonly-input")


def case_hist(ctx, inp):
    """A history on ONE Array object (accessors that fill cached attributes — .blocks, .partitions, __dask_keys__,
    to_delayed, … — then x[idx] = v / out=x, then the accessors again); shared with C20 (props/c20.py::case_hist)."""
    from props.c20 import case_hist as _h
    _h(ctx, inp)


CASES = {"parse": case_parse, "plan": case_plan, "api": case_api, "mask": case_mask, "selfref": case_selfref,
         "chunkfn": case_chunkfn, "hist": case_hist}
CASES.update(_c21x.CASES)      # extension round: maskplan, maskapi, vpieces


# --------------------------------------------------------------------------------------
# generators
# --------------------------------------------------------------------------------------

def _ridx(rng, n, allow_fancy, dask_idx):
    t = rng.random()
    v = [None] + list(range(-n - 2, n + 3))
    if t < 0.4 or n == 0:
        return ("slice", [rng.choice(v), rng.choice(v), rng.choice([None, 1, 2, 3, -1, -2, -3])])
    if t < 0.55:
        return ("int", rng.randrange(-n, n))
    if not allow_fancy:
        return ("slice", [None, None, None])
    if t < 0.78:
        k = "dalist" if dask_idx and rng.random() < 0.4 else "list"
        return (k, [rng.randrange(-n, n) for _ in range(rng.randint(1, n + 1))])
    k = "dabool" if dask_idx and rng.random() < 0.6 else "bool"
    return (k, [rng.random() < 0.5 for _ in range(n)])


def _rand_case(rng, dask_idx=True, zeros=0.1, maxn=5):
    import numpy as np
    nd = rng.randint(1, 3)
    shape = [rng.randint(1, maxn) for _ in range(nd)]
    chunks = [list(random_chunks(rng, s, zeros=zeros)) for s in shape]
    spec, fancy = [], False
    for n in shape[: rng.randint(1, nd)]:
        k = _ridx(rng, n, not fancy, dask_idx)
        fancy = fancy or k[0] in FANCY
        spec.append(k)
    if rng.random() < 0.1 and len(spec) < nd:
        spec.insert(rng.randint(0, len(spec)), ("ellipsis", None))
    x = np.zeros(shape)
    idx = _to_index(spec, False)
    try:
        tshape = x[idx].shape
    except IndexError:
        return None
    if rng.random() < 0.25:
        vshape = None
    else:
        vs = list(tshape)
        for i in range(len(vs)):
            if rng.random() < 0.25:
                vs[i] = 1
        vs = vs[rng.randint(0, len(vs)):]
        if rng.random() < 0.15:
            vs = [1] * rng.randint(1, 2) + vs
        vshape = vs
    return {"shape": shape, "chunks": chunks, "index": spec, "vshape": vshape}


def _exact_slice(rng, n, L):
    """a slice (any step sign, |step| <= 3) selecting exactly L >= 1 positions of an axis of length n"""
    steps = [s for s in (1, 2, 3) if 1 + s * (L - 1) <= n]
    step = rng.choice(steps)
    span = 1 + step * (L - 1)
    a = rng.randint(0, n - span)
    last = a + step * (L - 1)
    if rng.random() < 0.3:
        stop = a - 1
        return [last, stop if stop >= 0 else None, -step]
    stop = last + 1
    if rng.random() < 0.3:
        return [a if a else None, stop if stop < n else None, step if step > 1 else None]
    if rng.random() < 0.3 and a > 0:
        return [a - n, stop, step]
    return [a, stop, step]


def _rand_self_op(rng, shape):
    n = shape[0]
    nvals = 1
    for s in shape:
        nvals *= s
    t = rng.random()
    if t < 0.55:
        dst, src = [], []
        for ax, m in enumerate(shape):
            if ax == 0 or rng.random() < 0.4:
                if ax == 0 and rng.random() < 0.5 and m > 1:
                    # the classical shifted self-slice x[k:] = x[:-k] / x[:-k] = x[k:]
                    k = rng.randint(1, m - 1)
                    pair = ([k, None, None], [None, -k, None])
                    if rng.random() < 0.5:
                        pair = (pair[1], pair[0])
                    dst.append(pair[0]); src.append(pair[1])
                else:
                    L = rng.randint(1, m)
                    dst.append(_exact_slice(rng, m, L)); src.append(_exact_slice(rng, m, L))
            else:
                dst.append([None, None, None]); src.append([None, None, None])
        return {"kind": "shift", "dst": dst, "src": src, "affine": rng.random() < 0.2}
    if t < 0.7:
        return {"kind": "mask", "k": rng.randint(0, 2 * nvals + 3), "c": -rng.randint(1, 9)}
    if t < 0.8 and len(shape) == 2:
        return {"kind": "maskrow", "j": rng.randrange(shape[1]), "k": rng.randint(0, 2 * nvals + 3), "i": rng.randrange(-n, n)}
    L = rng.randint(1, n)
    dst = rng.sample(range(n), L) if rng.random() < 0.8 else [rng.randrange(n) for _ in range(L)]
    if rng.random() < 0.3:
        dst = [i - n if rng.random() < 0.5 else i for i in dst]
    return {"kind": "idx", "dst": dst, "src": [rng.randrange(-n, n) for _ in range(L)]}


def _rand_selfref(rng):
    if rng.random() < 0.6:
        shape = [rng.randint(3, 14)]
        src = rng.choice(["arange", "arange", "arith", "persist", "from_array"])
    else:
        shape = [rng.randint(2, 6), rng.randint(1, 4)]
        src = rng.choice(["arith", "arith", "persist", "from_array"])
    chunks = [list(random_chunks(rng, s)) for s in shape]
    if len(chunks[0]) == 1 and rng.random() < 0.8:
        k = rng.randint(1, shape[0] - 1)
        chunks[0] = [k, shape[0] - k]
    ops = [_rand_self_op(rng, shape) for _ in range(1 if rng.random() < 0.75 else 2)]
    return {"shape": shape, "chunks": chunks, "src": src, "ops": ops, "scheduler": rng.choice(["sync", "threads"])}


def _rand_chunkfn(rng):
    nd = rng.choice([0, 1, 1, 2, 2, 3])
    shape = [rng.randint(1, 4) for _ in range(nd)]
    index, fancy = [], False
    for n in shape:
        t = rng.random()
        if t < 0.45:
            v = [None] + list(range(-n - 1, n + 2))
            index.append(("slice", [rng.choice(v), rng.choice(v), rng.choice([None, 1, 2, -1])]))
        elif t < 0.6:
            index.append(("int", rng.randrange(-n, n)))
        elif fancy:
            index.append(("slice", [None, None, None]))
        elif t < 0.85:
            # integer array; the value n is the place-holder that setitem drops
            index.append(("array", [rng.choice(list(range(n)) + [n]) for _ in range(rng.randint(1, n + 2))]))
            fancy = True
        else:
            index.append(("bool", [rng.random() < 0.6 for _ in range(n)]))
            fancy = True
    return {"shape": shape, "index": index, "own": rng.random() < 0.6, "fortran": rng.random() < 0.2,
            "readonly": rng.random() < 0.15, "value": rng.choice(["full", "full", "overlap", "overlap", "scalar", "masked", "empty"])}


def generate(ctx):
    rng = ctx.rng
    thorough = ctx.thorough()
    yield "parse", {"n": 3, "s": [None, None, 0]}
    # the motivating instance: x[2:] = x[:-2] on da.arange(12, chunks=3), both schedulers, every owning source
    for src in ("arange", "arith", "persist", "from_array"):
        for sched in ("sync", "threads"):
            for pair in (([2, None, None], [None, -2, None]), ([None, -2, None], [2, None, None])):
                yield "selfref", {"shape": [12], "chunks": [[3, 3, 3, 3]], "src": src, "scheduler": sched,
                                  "ops": [{"kind": "shift", "dst": [pair[0]], "src": [pair[1]]}]}
    # histories on one Array object: assignment between two accesses of cached attributes (.blocks / keys / to_delayed)
    from props.c20 import _rand_hist
    yield "hist", {"chunks": [[2, 2, 2]], "ops": [{"op": "blocks", "idx": [("int", 1)]}, {"op": "setitem", "idx": [2], "value": -1},
                                                  {"op": "blocks", "idx": [("int", 1)]}, {"op": "delayed"}, {"op": "keys"}]}
    for _ in range(ctx.n(60, 1200)):
        yield "hist", _rand_hist(rng, force_pattern=True)
    for _ in range(ctx.n(150, 2500)):
        yield "selfref", _rand_selfref(rng)
    if thorough:
        # exhaustive small space: every chunking of n <= 6, every shift, both directions, owning sources, both schedulers
        for n in range(2, 7):
            for lengths in compositions(n):
                for k in range(1, n):
                    for pair in (([k, None, None], [None, -k, None]), ([None, -k, None], [k, None, None])):
                        for src in ("arange", "persist"):
                            yield "selfref", {"shape": [n], "chunks": [list(lengths)], "src": src,
                                              "scheduler": "sync" if (k + len(lengths)) % 2 else "threads",
                                              "ops": [{"kind": "shift", "dst": [pair[0]], "src": [pair[1]]}]}
    for _ in range(ctx.n(250, 4000)):
        yield "chunkfn", _rand_chunkfn(rng)
    for n in range(0, 7):
        for st, sp, se in itertools.product(slice_values(n), slice_values(n), slice_steps(n)):
            if thorough or rng.random() < (0.35 if n <= 3 else 0.12):
                yield "parse", {"n": n, "s": [st, sp, se]}
    for _ in range(ctx.n(300, 6000)):
        n = rng.randint(5, 40)
        v = [None] + list(range(-n - 2, n + 3))
        yield "parse", {"n": n, "s": [rng.choice(v), rng.choice(v), rng.choice([None, 1, 2, 3, 5, n, -1, -2, -3, -5, -n])]}
    # all chunkings of a small 1-d array x all slices (plan level)
    for n in range(1, 6 if thorough else 5):
        for lengths in compositions(n):
            for st, sp, se in itertools.product(slice_values(n), slice_values(n), [None, 1, 2, 3, -1, -2, -3]):
                if rng.random() < (0.02 if not thorough else 0.3):
                    for vshape in (None, "full"):
                        yield "plan", {"shape": [n], "chunks": [list(lengths)], "index": [("slice", [st, sp, se])],
                                       "vshape": None if vshape is None else [len(range(*slice(st, sp, se).indices(n)))]}
    for _ in range(ctx.n(250, 4000)):
        c = _rand_case(rng, dask_idx=False, zeros=0.0)
        if c:
            yield "plan", c
    for _ in range(ctx.n(220, 4000)):
        c = _rand_case(rng)
        if c:
            c["dask_value"] = rng.random() < 0.4
            if rng.random() < 0.3:
                c["vkind"] = rng.choice(["float", "list", "npscalar", "bool", "zerod"])
            yield "api", c
    # broadcasting a size-1 value axis over an array / boolean index (NumPy and dask), every chunking of the indexed axis
    for n in range(2, 5):
        for lengths in compositions(n):
            for kind in ("list", "bool", "dalist", "dabool"):
                if not thorough and rng.random() > 0.45:
                    continue
                other = rng.randint(1, 3)
                och = list(random_chunks(rng, other))
                if kind in ("list", "dalist"):
                    ind = [rng.randrange(-n, n) for _ in range(rng.randint(1, n + 1))]
                    if rng.random() < 0.5:
                        ind = sorted(set(i % n for i in ind))
                else:
                    ind = [rng.random() < 0.7 for _ in range(n)]
                form = rng.randrange(3)
                if form == 0:
                    c = {"shape": [n, other], "chunks": [list(lengths), och], "index": [(kind, ind)], "vshape": [1, other]}
                elif form == 1:
                    c = {"shape": [other, n], "chunks": [och, list(lengths)], "index": [("int", rng.randrange(other)), (kind, ind)],
                         "vshape": [1]}
                else:
                    c = {"shape": [other, n], "chunks": [och, list(lengths)],
                         "index": [("slice", [None, None, rng.choice([None, -1])]), (kind, ind)], "vshape": [other, 1]}
                c["dask_value"] = rng.random() < 0.4
                yield "api", c
    # scale: more than 10 blocks along an axis, more than 128 blocks in total (lru_cache of the helpers), long index arrays
    for _ in range(ctx.n(6, 60)):
        nb = rng.randint(11, 15)
        lengths = [rng.choice([1, 2, 3]) for _ in range(nb)]
        n = sum(lengths)
        v = [None] + list(range(-n - 2, n + 3))
        sl = [rng.choice(v), rng.choice(v), rng.choice([None, 1, 2, 3, 4, -1, -2, -3, -5])]
        yield "api", {"shape": [n], "chunks": [lengths], "index": [("slice", sl)],
                      "vshape": [len(range(*slice(*sl).indices(n)))], "dask_value": rng.random() < 0.5}
        yield "plan", {"shape": [n], "chunks": [lengths], "index": [("slice", sl)], "vshape": [len(range(*slice(*sl).indices(n)))]}
    yield "api", {"shape": [12, 12], "chunks": [[1] * 12, [1] * 12], "index": [("slice", [None, None, -3]), ("slice", [1, None, 5])],
                  "vshape": [4, 3], "dask_value": False}
    for n in (300, 400):
        ind = [rng.randrange(-n, n) for _ in range(n)]
        yield "api", {"shape": [n], "chunks": [[n // 2, n - n // 2]], "index": [(rng.choice(["list", "dalist"]), ind)], "vshape": [n],
                      "dask_value": False}
    for _ in range(ctx.n(40, 600)):
        nd = rng.randint(1, 3)
        shape = [rng.randint(1, 4) for _ in range(nd)]
        chunks = [list(random_chunks(rng, s)) for s in shape]
        size = 1
        for s in shape:
            size *= s
        mask = [rng.random() < 0.5 for _ in range(size)]
        dm = rng.random() < 0.6
        vshape = None if rng.random() < 0.75 else [sum(mask)]
        yield "mask", {"shape": shape, "chunks": chunks, "mask": mask, "dask_mask": dm, "vshape": vshape,
                       "mchunks": [list(random_chunks(rng, s)) for s in shape] if rng.random() < 0.5 else None}
    yield from _c21x.generate(ctx)
