"""C42, last extension round — Series name, index name and index dtype of the lazy metadata.

Model:    lean/DaskModel/Model/MetaLabels.lean (`metaL` = what `._meta` composes without data; `denL` = the value semantics with the
          labels pandas gives every computed object), handlers lean/DaskModel/Model/MetaLabelsIO.lean
Theorems: lean/DaskModel/Props/C42xLabels.lean
Sections (hooked into c42.py):
  `labels`  programs of the relational fragment over frames whose index has a name (None / fresh / equal to a column name) and a
            dtype (int64 / float64 / datetime64 / str); tails: frame, series expression, `series[predicate]`:
            (a) `(labelsof …)` vs the labels of the real `._meta` of the LOGICAL and of the OPTIMISED expression,
            (b) `(labelsval …)` on the whole source and on EVERY source partition vs the labels (and row counts) of the really
                computed whole result and partitions,
            (c) oracle: computed labels vs `._meta` labels (property failure when they differ).
  `ltable`  the per-operation label rules vs pandas on EMPTY and non-empty operands (value independence), and `matchName` vs
            `pandas.core.ops.common._maybe_match_name`.
"""
from __future__ import annotations

from sexp import Sym

from props import _dfrows_util as U

IDX_NAMES = [None, "t", "a", "idx"]
IDX_KINDS = ["int64", "float64", "datetime", "str"]


def _name(x):
    return Sym("none") if x is None else str(x)


def _with_index(df, inp):
    """give the frame of a c43 input an index with the requested name / dtype (order preserved)"""
    import pandas as pd
    vals = list(df.index)
    k = inp["ixkind"]
    if k == "float64":
        idx = pd.Index([float(v) + 0.5 for v in vals], dtype="float64")
    elif k == "datetime":
        idx = pd.DatetimeIndex(pd.to_datetime([int(v) for v in vals], unit="s"))
    elif k == "str":
        idx = pd.Index(["k%03d" % int(v) for v in vals])
    else:
        idx = pd.Index([int(v) for v in vals], dtype="int64")
    idx = idx.rename(inp["ixname"])
    out = df.copy()
    out.index = idx
    return out


def labels_of(obj):
    """labels of a pandas object in the driver's answer format"""
    import pandas as pd
    if isinstance(obj, pd.DataFrame):
        return ["frame", [str(c) for c in obj.columns], None if obj.index.name is None else str(obj.index.name), str(obj.index.dtype)]
    if isinstance(obj, pd.Series):
        return ["series", None if obj.name is None else str(obj.name), None if obj.index.name is None else str(obj.index.name),
                str(obj.index.dtype)]
    if isinstance(obj, pd.Index):
        return ["index"]
    return ["scalar"]


def _norm(ans):
    """driver answer -> plain lists (symbols to str, `none` to None)"""
    if isinstance(ans, list):
        return [_norm(x) for x in ans]
    if isinstance(ans, Sym):
        s = str(ans)
        return None if s == "none" else s
    return ans


def _apply_tail(c43, f, tail):
    if not tail:
        return f
    if tail[0] == "sexpr":
        return c43.s_expr(f, tail[1])
    if tail[0] == "sfilter":
        return c43.s_expr(f, tail[1])[c43.s_expr(f, tail[2])]
    raise ValueError(tail)


def case_labels(ctx, inp):
    import pandas as pd
    from props import c43
    df = _with_index(c43._mk(inp), inp)
    if inp.get("from_pandas"):
        d = U.dd().from_pandas(df, npartitions=max(1, len(inp["lens"])), sort=False)
    else:
        d = U.from_parts(df, inp["lens"], known=inp.get("known", True))
    try:
        exp = _apply_tail(c43, c43.run_program(df, inp["prog"]), inp.get("tail"))
    except Exception as e:
        ctx.note("pandas_rejected:" + type(e).__name__)
        return
    coll = _apply_tail(c43, c43.run_program(d, inp["prog"]), inp.get("tail"))
    if not hasattr(coll, "expr"):
        ctx.note("plain-python-result")
        return
    cols = [str(c) for c in df.columns]
    ixname, ixdt = _name(df.index.name), str(df.index.dtype)
    # (a) lazy side: metaL vs the real ._meta, logical and optimised
    model_logical = None
    for label, e in (("logical", coll.expr), ("optimised", coll.expr.optimize(fuse=False))):
        try:
            m = c43.to_model(e, "")
        except c43.Unmodelled as u:
            ctx.note("unmodelled:" + str(u))
            continue
        model = _norm(ctx.lean(Sym("labelsof"), cols, ixname, ixdt, m))
        ctx.eq("metaL vs labels of ._meta (%s expression)" % label, model, labels_of(e._meta))
        if label == "logical":
            model_logical = m
        elif model_logical is not None and m != model_logical:
            ctx.branch("labels-optimiser-changed-expression")
    meta_labels = labels_of(coll._meta)
    # (c) oracle + (b) computed side
    try:
        whole = coll.compute(scheduler="sync")
    except Exception as e:
        ctx.note("compute_failed:" + type(e).__name__)     # value/exception behaviour belongs to C36/C43
        return
    if labels_of(whole) != meta_labels:
        ctx.fail("computed result disagrees with ._meta in its labels (kind / columns / Series name / index name / index dtype)",
                 observed=labels_of(whole), expected=meta_labels)
    if labels_of(whole) != labels_of(exp):
        ctx.fail("computed result disagrees with pandas in its labels", observed=labels_of(whole), expected=labels_of(exp))
    if model_logical is None:
        return
    rows_of = lambda f: [[U.cell_of(v) for v in row] for row in f.itertuples(index=False, name=None)]
    mv = _norm(ctx.lean(Sym("labelsval"), cols, rows_of(df), ixname, ixdt, model_logical))
    if mv is None:
        ctx.disagree("denL rejects a program that dask computes", mv, labels_of(whole))
        return
    ctx.eq("denL labels vs computed WHOLE result", mv[0], labels_of(whole))
    if meta_labels[0] != "scalar":
        ctx.eq("denL row count vs computed whole result", mv[1], len(whole))
    if meta_labels[0] in ("frame", "series"):
        try:
            parts = U.compute_parts(coll)
            sparts = U.compute_parts(d)
        except Exception as e:
            ctx.note("partitions_failed:" + type(e).__name__)
            return
        if len(parts) == len(sparts):
            for i, (p, sp) in enumerate(zip(parts, sparts)):
                if labels_of(p) != meta_labels:
                    ctx.fail("partition %d disagrees with ._meta in its labels" % i, observed=labels_of(p), expected=meta_labels)
                    break
                pm = _norm(ctx.lean(Sym("labelsval"), cols, rows_of(sp), ixname, ixdt, model_logical))
                if pm is None:
                    ctx.disagree("denL rejects a partition that dask computes", pm, labels_of(p))
                    break
                ctx.eq("denL labels vs computed partition %d" % i, pm[0], labels_of(p))
                ctx.eq("denL row count vs computed partition %d" % i, pm[1], len(p))
            if len(parts) > 1:
                ctx.branch("labels-partitions-checked")
            if any(len(p) == 0 for p in parts):
                ctx.branch("labels-empty-partition")
    ctx.branch("labels-" + meta_labels[0])
    if meta_labels[0] == "series":
        ctx.branch("labels-series-name-" + ("none" if meta_labels[1] is None else "kept"))
    ctx.branch("labels-index-" + inp["ixkind"] + ("-named" if inp["ixname"] is not None else "-unnamed"))
    if inp["ixname"] == "a":
        ctx.branch("labels-index-named-like-a-column")


def case_ltable(ctx, inp):
    """label rules of the single pandas operations on empty and non-empty operands"""
    import operator
    import pandas as pd
    from pandas.core.ops.common import _maybe_match_name
    a, b = inp["a"], inp["b"]
    model = _norm(ctx.lean(Sym("matchname"), _name(a), _name(b)))
    ctx.eq("matchName vs pandas _maybe_match_name", model, _maybe_match_name(pd.Series([], name=a, dtype="int64"), pd.Series([], name=b, dtype="int64")))
    ixname = inp["ixname"]
    for n in (0, 3):
        idx = pd.Index(list(range(n)), dtype="int64", name=ixname)
        sa = pd.Series([1, -2, 3][:n], index=idx, name=a, dtype="int64")
        sb = pd.Series([2, 2, 0][:n], index=idx, name=b, dtype="int64")
        tag = "EMPTY operands = what ._meta sees" if n == 0 else "non-empty operands"
        for opname in inp["ops"]:
            fn = getattr(operator, {"and": "and_", "or": "or_"}.get(opname, opname))
            x, y = (sa > 0, sb > 0) if opname in ("and", "or") else (sa, sb)
            r = fn(x, y)
            ctx.eq(f"name of {a!r} {opname} {b!r} ({tag})", model, r.name)
            ctx.eq(f"index labels of {a!r} {opname} {b!r} ({tag})", [ixname, "int64"], [r.index.name, str(r.index.dtype)])
            if opname not in ("and", "or"):
                ctx.eq(f"name of {a!r} {opname} 2 ({tag})", a, fn(sa, 2).name)
                ctx.eq(f"name of 2 {opname} {b!r} ({tag})", b, fn(2, sb).name)
        ctx.eq(f"name of ~{a!r} ({tag})", a, (~(sa > 0).rename(a)).name)
        ctx.eq(f"name of {a!r}[{b!r} > 0] ({tag})", a, sa[sb > 0].name)
        ctx.eq(f"index name of {a!r}[{b!r} > 0] ({tag})", ixname, sa[sb > 0].index.name)
        f = pd.DataFrame({"p": sa.rename(None), "q": sb.rename(None)}, index=idx)
        ctx.eq(f"name of df['p'] ({tag})", "p", f["p"].name)
        g = f.assign(z=sa)
        ctx.eq(f"assign(z=<series named {a!r}>) labels the column z ({tag})", ["p", "q", "z"], [str(c) for c in g.columns])
        ctx.eq(f"index name after assign / filter / projection ({tag})", [ixname] * 3,
               [g.index.name, f[f.p > 0].index.name, f[["q"]].index.name])
    ctx.branch("ltable-" + ("same" if a == b else "different") + "-names")


CASES = {"labels": case_labels, "ltable": case_ltable}


def generate(ctx):
    from props import c43
    rng = ctx.rng
    for a in (None, "a", "b"):
        for b in (None, "a", "b"):
            yield "ltable", {"a": a, "b": b, "ixname": rng.choice(IDX_NAMES),
                             "ops": ["add", "sub", "mul", "lt", "eq", "and", "or"]}
    for _ in range(ctx.n(40, 1200)):
        inp, names = c43.gen_frame(rng)
        inp["prog"] = c43.gen_assign_chain(rng, names) if rng.random() < 0.3 else c43.gen_prog(rng, names, rng.randint(0, 3))
        cur = list(names)
        for st in inp["prog"]:
            if st[0] == "sel":
                cur = list(st[1])
            elif st[0] == "assign" and st[1] not in cur:
                cur.append(st[1])
        t = rng.random()
        if t < 0.2 and len(cur) >= 2:
            # two DIFFERENT columns under one operator: the result has no name (`matchName`)
            x, y = rng.sample(cur, 2)
            op = rng.choice(["add", "sub", "mul", "lt", "ge", "eq", "ne"])
            e = [op, ["col", x], ["col", y] if rng.random() < 0.7 else ["mul", ["col", y], ["lit", 2]]]
            inp["tail"] = ["sexpr", e] if rng.random() < 0.7 else ["sfilter", e if op in ("add", "sub", "mul") else ["col", x],
                                                                   [rng.choice(["gt", "le"]), ["col", y], ["lit", 1]]]
        elif t < 0.3:
            # `~(x <cmp> k)`, `~(x <cmp> y)`: Invert keeps the name of its operand (a name or None)
            x = rng.choice(cur)
            rhs = ["lit", rng.randint(-1, 3)] if rng.random() < 0.6 else ["col", rng.choice(cur)]
            inp["tail"] = ["sexpr", ["not", [rng.choice(["lt", "ge", "eq"]), ["col", x], rhs]]]
        elif t < 0.45:
            inp["tail"] = ["sexpr", c43.gen_sexpr(rng, cur, 2, rng.random() < 0.35)]
        elif t < 0.65:
            inp["tail"] = ["sfilter", c43.gen_sexpr(rng, cur, 1, False), c43.gen_sexpr(rng, cur, 1, True)]
        inp["ixname"] = rng.choice(IDX_NAMES)
        inp["ixkind"] = rng.choice(IDX_KINDS)
        inp["from_pandas"] = rng.random() < 0.3
        yield "labels", inp
