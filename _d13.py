"""C13 demo: collections computed together must give the same values as computed alone.

Two structurally identical pipelines (same, descriptively named, functions) are
built over DIFFERENT input data and computed (a) each on its own and (b) in one
dask.compute call.  Property C13 says (a) == (b).

Run as:  cd <dask worktree> && python /path/to/demo.py
(the current directory is put first on sys.path so that the worktree's dask is used)
"""

import os
import sys

# str hashes are salted per process; pin the salt so that the run is reproducible
if os.environ.get("PYTHONHASHSEED") != "0":
    os.environ["PYTHONHASHSEED"] = "0"
    os.execv(sys.executable, [sys.executable] + sys.argv)

sys.path.insert(0, os.getcwd())

import numpy as np

import dask
import dask.array as da
import dask.bag as db

print("dask from", dask.__file__)

failures = []


def check(label, alone, joint, eq):
    ok = all(eq(x, y) for x, y in zip(alone, joint))
    print(f"[{'ok' if ok else 'MISMATCH'}] {label}")
    if not ok:
        for i, (x, y) in enumerate(zip(alone, joint)):
            print(f"    collection {i}: alone={x!r}")
            print(f"    collection {i}: joint={y!r}")
        failures.append(label)


# ---------------------------------------------------------------- bag pipelines
def strip_surrounding_whitespace(s):
    return s.strip()


def normalise_unicode_and_lowercase(s):
    return s.lower()


def drop_records_without_payload(s):
    return len(s) > 0


def split_record_into_token_list(s):
    return s.split()


def count_tokens_in_each_record(t):
    return len(t)


def text_pipeline(lines):
    b = db.from_sequence(lines, npartitions=2)
    b = b.map(strip_surrounding_whitespace).map(normalise_unicode_and_lowercase)
    b = b.filter(drop_records_without_payload).map(split_record_into_token_list)
    return b.map(count_tokens_in_each_record)


bags = [
    text_pipeline([" a b ", "c", "", "d e f"]),
    text_pipeline([" a ", "c c c c", "x", "d e"]),
    text_pipeline(["q r s t u", "", "v w", "x"]),
]
alone = [b.compute(scheduler="sync") for b in bags]
joint = dask.compute(*bags, scheduler="sync")
check("bag: 3 long-named map/filter pipelines over different data", alone, joint,
      lambda x, y: x == y)

# the same with short function names (common path)
inc = lambda v: v + 1  # noqa: E731
dbl = lambda v: v * 2  # noqa: E731
small = [db.from_sequence(seq, npartitions=2).map(inc).map(dbl) for seq in
         ([1, 2, 3, 4], [5, 6, 7, 8])]
alone = [b.compute(scheduler="sync") for b in small]
joint = dask.compute(*small, scheduler="sync")
check("bag: short-named pipelines", alone, joint, lambda x, y: x == y)


# -------------------------------------------------------------- array pipelines
def remove_detector_bias_and_dark_current(block):
    return block - 1.0


def apply_flat_field_gain_normalisation(block):
    return block * 0.5


def mask_saturated_and_hot_pixel_values(block):
    return np.where(block > 20, 0.0, block)


def image_pipeline(img):
    x = da.from_array(img, chunks=(2, 3))
    x = x.map_blocks(remove_detector_bias_and_dark_current)[:, ::-1]
    x = x.map_blocks(apply_flat_field_gain_normalisation)[::-1]
    return x.map_blocks(mask_saturated_and_hot_pixel_values)


img1 = np.arange(24, dtype="f8").reshape(4, 6)
img2 = img1 * 3 + 7  # same shape/dtype/chunks, other values
arrays = [image_pipeline(img1), image_pipeline(img2)]
alone = [a.compute(scheduler="sync") for a in arrays]
joint = dask.compute(*arrays, scheduler="sync")
check("array: 2 long-named map_blocks/slice pipelines over different data", alone,
      joint, lambda x, y: x.shape == y.shape and bool(np.array_equal(x, y)))

if failures:
    print("FAIL: joint compute differs from computing alone:", failures)
    sys.exit(1)
print("PASS")
sys.exit(0)
