import DaskModel.Model.Slice1D
/-! # C20 — array indexing equals NumPy indexing (theorems) -/
namespace Dask.C20
open Dask.Slice1D

/-- placeholder while the tie is brought up: colon selects everything of a 3-sequence -/
theorem colon_three : pySliceIdx 3 colon = some [0, 1, 2] := by decide

end Dask.C20
