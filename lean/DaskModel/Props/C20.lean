import DaskModel.Lemmas.SliceNorm
import DaskModel.Lemmas.TakePlan
import DaskModel.Lemmas.SliceInt
import DaskModel.Lemmas.SliceSize2
import DaskModel.Lemmas.SliceNDLemmas
import DaskModel.Lemmas.NormIndexLemmas
import DaskModel.Lemmas.VIndexLemmas
/-!
# C20 — array indexing equals NumPy indexing (theorems)

Statement (properties.jsonl): for any array, chunking and index — slices with any start/stop/step
sign, integers, None, Ellipsis, integer and boolean arrays, vindex — indexing a dask array computes
to exactly NumPy's result, and the lazy shape/chunks agree with the computed value.

What is proved here, for **every** list of chunk lengths (zero-length chunks included), **every**
slice and integer (no size bound), about the transliteration `Model/Slice1D.lean` of
`normalize_slice`, `_slice_1d`, `new_blockdim` and the output block order of
`slice_slices_and_integers`:

* `normalizeSlice_preserves`, `normalizeSlice_normal`  normalisation keeps Python's selection and
  yields the normal form `_slice_1d` relies on;
* `slice1d_correct`    concatenating, over the output blocks in output order, the positions each
  block's own slice reads gives exactly `range(*s.indices(n))` — Python's slice of the whole axis;
* `getitem1d_correct`  the two composed: what `x[s]` does on one axis, from the user's slice;
* `slice1dInt_correct` an integer index addresses the right block and offset;
* `newBlockdim_correct` the lazily reported block sizes are the lengths of those pieces and sum
  to the length of the selection;
* `take_identity_sound/complete`  the no-op shortcut of `take` fires exactly for the full `arange`;
* `take_den`, `take_chunks_sum`   the takers of the output chunks, concatenated, are the indexer itself
  (output position `p` reads `index[p]`), so the output chunks sum to `len(index)`.

Not proved (validated by the correspondence only): the per-source-block split / argsort / merge inside
`_shuffle` (the real graph is executed on position-valued blocks and compared with `np.take`), boolean
masks, dask-array indexers, `vindex`, `blocks[]`, the N-d product (`slice_slices_and_integers` applies the
per-axis plans independently; validated API-level), and NumPy's behaviour on one block.
-/
namespace Dask.C20
open Dask.Slice1D

/-! ## normalisation -/

/-- `normalize_slice` returns a slice exactly when the step is not 0 (otherwise `ValueError`). -/
theorem normalizeSlice_isSome_iff (s : PSlice) (n : Nat) :
    (normalizeSlice s n).isSome ↔ s.step ≠ some 0 := by
  have hpi : (pyIndices n s).isSome ↔ s.step ≠ some 0 := by
    unfold pyIndices
    cases hs : s.step with
    | none => simp [Option.getD]
    | some v => by_cases hv : v = 0 <;> simp [Option.getD, hv]
  rw [← hpi]
  unfold normalizeSlice
  cases pyIndices n s with
  | none => simp
  | some t =>
    rcases t with ⟨a, b, st⟩
    simp only
    split <;> (try split) <;> (try split) <;> simp

/-- The normalised slice selects exactly what Python selects with the original one. -/
theorem normalizeSlice_preserves {n : Nat} {s ns : PSlice} (h : normalizeSlice s n = some ns) :
    pySliceIdx n ns = pySliceIdx n s := (normalizeSlice_spec h).2

/-- …and it is in the normal form (`Normal`) that `_slice_1d` is written for. -/
theorem normalizeSlice_normal {n : Nat} {s ns : PSlice} (h : normalizeSlice s n = some ns) :
    Normal n ns := (normalizeSlice_spec h).1

/-- non-vacuity: the slice of §6 #13 (`[-7::-1]` on 5 elements) normalises, to the empty selection -/
example : normalizeSlice ⟨some (-7), none, some (-1)⟩ 5 = some (PSlice.ofInts 0 0 1) := by decide
example : pySliceIdx 5 ⟨some (-7), none, some (-1)⟩ = some [] := by decide

/-! ## `_slice_1d` -/

/-- The plan of `_slice_1d`, read block by block in insertion order, is Python's selection. -/
theorem slice1d_den (n : Nat) (lengths : List Nat) (s : PSlice) (hsum : lengths.sum = n) (hn : Normal n s) :
    some ((slice1d n lengths s).flatMap (blockDen lengths)) = pySliceIdx n s := by
  unfold slice1d
  by_cases hc : s = colon
  · subst hc
    simp only [if_true]
    rw [pySliceIdx_colon, List.range_eq_range']
    have := colonPlan_den lengths []
    simp only [List.length_nil, List.nil_append, List.sum_nil] at this
    rw [this, hsum]
    simp
  · simp only [hc, if_false]
    rw [← slice1dRaw_den n lengths s hsum hn]
    split
    · rename_i hempty
      have hraw : slice1dRaw n lengths s = [] := by
        cases hr : slice1dRaw n lengths s with
        | nil => rfl
        | cons p ps => rw [hr] at hempty; simp [tidy] at hempty
      rw [hraw]
      simp [blockDen_fallback]
    · rw [tidy_den]

/-- **Central theorem.** For every list of chunk lengths and every normal-form slice, concatenating
    over the output blocks — in the order `slice_slices_and_integers` numbers them — the global
    positions read by each block's own slice gives exactly Python's `range(*s.indices(n))`. -/
theorem slice1d_correct (lengths : List Nat) (s : PSlice) (hn : Normal lengths.sum s) :
    some (planDen lengths s (slice1d lengths.sum lengths s)) = pySliceIdx lengths.sum s := by
  unfold planDen
  rw [outputOrder_slice1d]
  exact slice1d_den _ lengths s rfl hn

/-- End to end on one axis: from the user's slice (any start/stop/step, `None`s, any sign) through
    `normalize_slice` and `_slice_1d` to the positions that the output blocks read. -/
theorem getitem1d_correct (lengths : List Nat) (s ns : PSlice)
    (h : normalizeSlice s lengths.sum = some ns) :
    some (planDen lengths ns (slice1d lengths.sum lengths ns)) = pySliceIdx lengths.sum s := by
  rw [slice1d_correct lengths ns (normalizeSlice_normal h), normalizeSlice_preserves h]

/-- non-vacuity: irregular chunks, negative step crossing three blocks -/
example : planDen [2, 1, 3] ⟨some 4, none, some (-2)⟩ (slice1d 6 [2, 1, 3] ⟨some 4, none, some (-2)⟩) = [4, 2, 0] := by
  decide
/-- non-vacuity: a zero-length chunk right after the block boundary the start sits on -/
example : planDen [2, 0, 2] ⟨some 2, none, some (-1)⟩ (slice1d 4 [2, 0, 2] ⟨some 2, none, some (-1)⟩) = [2, 1, 0] := by
  decide
example : Normal 6 ⟨some 4, none, some (-2)⟩ :=
  ⟨by decide, fun v h => by injection h with h; subst h; decide, fun v h => by cases h⟩

/-! ## `new_blockdim`: the lazy chunks -/

/-- **The lazily reported chunks agree with the computed blocks.** From the user's slice: `new_blockdim`
    returns, output block by output block, the number of positions that block's own slice reads, and these
    sizes sum to the length of Python's selection (the lazy shape along the axis). -/
theorem newBlockdim_correct (lengths : List Nat) (s ns : PSlice) (hne : lengths ≠ [])
    (h : normalizeSlice s lengths.sum = some ns) :
    ∃ sizes sel, newBlockdim lengths.sum lengths ns = some sizes ∧ pySliceIdx lengths.sum s = some sel ∧
      sizes = (outputOrder ns (slice1d lengths.sum lengths ns)).map (fun it => ((blockDen lengths it).length : Int)) ∧
      sizes.sum = (sel.length : Int) := by
  have hnorm := normalizeSlice_normal h
  have hspec := newBlockdim_spec lengths ns hne hnorm (normalizeSlice_clamp h)
  have hden := slice1d_den lengths.sum lengths ns rfl hnorm
  rw [normalizeSlice_preserves h] at hden
  refine ⟨_, _, hspec, hden.symm, by rw [outputOrder_slice1d], ?_⟩
  exact sum_map_length (blockDen lengths) _

example : newBlockdim 6 [2, 1, 3] ⟨some 4, none, some (-2)⟩ = some [1, 1, 1] := by decide
example : newBlockdim 100 [20, 10, 20, 10, 40] ⟨some 0, some 90, some 2⟩ = some [10, 5, 10, 5, 15] := by decide

/-! ## integer index -/

/-- `_slice_1d` with an (already posified, in-bounds) integer: block `i` and offset `off` with
    `0 ≤ off < lengths[i]` and `sum(lengths[:i]) + off = index`. -/
theorem slice1dInt_correct (lengths : List Nat) (index : Int) (h0 : 0 ≤ index)
    (h1 : index < ((lengths.sum : Nat) : Int)) :
    ∃ i off l, slice1dInt lengths index = some (i, off) ∧ lengths[i]? = some l ∧ 0 ≤ off ∧ off < l ∧
      (((lengths.take i).sum : Nat) : Int) + off = index :=
  slice1dInt_spec lengths index h0 h1

/-- `check_index` + `posify_index` for an integer: accepted exactly for `-n ≤ i < n`, and mapped into `[0, n)`. -/
theorem posify_correct (n : Nat) (i : Int) :
    (checkIntOOB n i = false ↔ (-(n : Int) ≤ i ∧ i < n)) ∧
    (checkIntOOB n i = false → 0 ≤ posifyInt n i ∧ posifyInt n i < n ∧ posifyInt n i = i % (n : Int)) := by
  unfold checkIntOOB posifyInt
  constructor
  · simp only [Bool.or_eq_false_iff, decide_eq_false_iff_not]; omega
  · simp only [Bool.or_eq_false_iff, decide_eq_false_iff_not]
    intro h
    by_cases hn : i < 0
    · simp only [hn, if_true]
      refine ⟨by omega, by omega, ?_⟩
      have : (i + n) % (n : Int) = i + n := Int.emod_eq_of_lt (by omega) (by omega)
      rw [← this, Int.add_emod_right]
    · simp only [hn, if_false]
      refine ⟨by omega, by omega, ?_⟩
      exact (Int.emod_eq_of_lt (by omega) (by omega)).symm

example : slice1dInt [2, 0, 3] 2 = some (2, 0) := by decide

/-! ## integer-list indexing (`take`) -/

open Dask.Take in
/-- The no-op shortcut of `take` is taken only when the indexer is the full `arange` of the axis
    (so returning the input blocks is right)… -/
theorem take_identity_sound (n : Nat) (index : List Int) (h : takeIsIdentity n index = some true) :
    index = (List.range n).map (fun (i : Nat) => (i : Int)) :=
  Dask.Take.takeIsIdentity_sound n index h

open Dask.Take in
/-- non-vacuity of the hypothesis: the full arange takes the shortcut, a permutation of it does not -/
example : takeIsIdentity 3 [0, 1, 2] = some true ∧ takeIsIdentity 3 [0, 2, 1] = some false := by decide

open Dask.Take in
/-- …and always then. -/
theorem take_identity_complete (n : Nat) (hn : 0 < n) :
    takeIsIdentity n ((List.range n).map (fun (i : Nat) => (i : Int))) = some true :=
  Dask.Take.takeIsIdentity_complete n hn

open Dask.Take in
/-- refutation witness for the weakened guard "sorted and ends at n-1": a sorted full-length indexer
    with a duplicate is not the identity, and the modelled shortcut does not fire on it -/
theorem take_shortcut_not_for_duplicates : takeIsIdentity 4 [0, 1, 1, 3] = some false := by decide

open Dask.Take in
/-- Whatever the chunking, the takers of the output chunks concatenate to the indexer: output
    position `p` reads global position `index[p]`. -/
theorem take_den (lengths : List Nat) (index : List Int) :
    (takeNewChunks lengths index).flatten = index := by
  unfold takeNewChunks
  rw [mergeGroups_flatten, List.nil_append, groupsOf_flatten _ (by unfold avgChunk; omega)]

open Dask.Take in
theorem take_chunks_sum (lengths : List Nat) (index : List Int) :
    (takeChunks lengths index).sum = index.length := by
  have h := congrArg List.length (take_den lengths index)
  rw [List.length_flatten] at h
  exact h

open Dask.Take in
example : takeNewChunks [2, 2] [3, 0, 0, 2, 1] = [[3, 0], [0, 2], [1]] := by decide

/-! ## N-d: `slice_slices_and_integers` combines the per-axis plans correctly -/

open Dask.SliceND Dask.Store in
/-- **The N-d graph is the product of the per-axis plans.** For every chunking and every index of slices and
    (in-bounds) integers, the dict comprehension `zip(out_names, in_names, all_slices)` over the three
    `itertools.product`s has exactly one task per combination of per-axis pairs (output coordinate, (input block,
    block index)); the output key is the combination's output coordinates with the integer axes dropped. -/
theorem sliceND_tasks (chunks : List (List Nat)) (index : List Idx) (hwf : WF chunks index) :
    tasks chunks index = (product (axisPairsAll chunks index)).map toTask :=
  tasks_eq chunks index hwf

open Dask.SliceND in
/-- **One slice axis of the N-d plan.** From the user's slice `s`: every pair of the axis is (output coordinate `o`,
    (block, in-block slice)) such that the lazy chunk `sizes[o]` is the number of positions the block reads, and
    the `q`-th position read is the element of NumPy's selection at offset `sum(sizes[:o]) + q` — i.e. exactly where
    the lazily declared chunks place it. With `sliceND_tasks`: the element of the output array at block coordinates
    `o` and in-block offsets `q` is `x[sel_1[off_1 + q_1], …, sel_n[off_n + q_n]]`, NumPy's `x[s_1, …, s_n]`. -/
theorem sliceND_axis_slice (lengths : List Nat) (s ns : PSlice) (hne : lengths ≠ [])
    (h : normalizeSlice s lengths.sum = some ns) (p : Option Nat × (Nat × BIdx))
    (hp : p ∈ axisPairs lengths (.sl ns)) :
    ∃ o blk bs sizes sel, p = (some o, (blk, BIdx.sl bs)) ∧ newBlockdim lengths.sum lengths ns = some sizes ∧
      pySliceIdx lengths.sum s = some sel ∧
      sizes[o]? = some ((axisDen lengths blk (.sl bs)).length : Int) ∧
      ∀ q b, (axisDen lengths blk (.sl bs))[q]? = some b → sel[((sizes.take o).sum).toNat + q]? = some b := by
  rw [mem_axisPairs_slice, mem_enumOut] at hp
  obtain ⟨o, kv, hi, rfl⟩ := hp
  have hnorm := normalizeSlice_normal h
  have hspec := newBlockdim_spec lengths ns hne hnorm (normalizeSlice_clamp h)
  have hden := getitem1d_correct lengths s ns h
  unfold planDen at hden
  rw [outputOrder_slice1d] at hden hi
  refine ⟨o, kv.1, kv.2, _, _, rfl, hspec, hden.symm, ?_, ?_⟩
  · rw [List.getElem?_map, hi]; rfl
  · intro q b hq
    have := flatMap_getElem (blockDen lengths) _ o q kv b hi hq
    have e : ((List.take o ((slice1d lengths.sum lengths ns).map
        (fun it => (((blockDen lengths it).length : Nat) : Int)))).sum).toNat
        = ((List.take o (slice1d lengths.sum lengths ns)).map (fun x => (blockDen lengths x).length)).sum := by
      rw [← List.map_take, sum_map_cast (fun it => (blockDen lengths it).length)]
      simp
    rw [e]
    exact this

open Dask.SliceND in
/-- an (in-bounds, posified) integer entry contributes the single pair "no output coordinate, the block holding the
    position, the offset in it", and reads exactly that position -/
theorem sliceND_axis_int (lengths : List Nat) (i : Int) (h0 : 0 ≤ i) (h1 : i < ((lengths.sum : Nat) : Int)) :
    ∃ blk off, axisPairs lengths (.int i) = [(none, (blk, BIdx.int off))] ∧ axisDen lengths blk (.int off) = [i] := by
  obtain ⟨blk, off, l, hs, _, _, _, hsum⟩ := sortedItems_int lengths i h0 h1
  refine ⟨blk, off, ?_, ?_⟩
  · simp [axisPairs, hs, axisOut]
  · simp [axisDen, hsum]

open Dask.SliceND in
/-- non-vacuity: `x[4::-2, 3]` on chunks ((2,1,3),(2,2)): three tasks, output blocks 0,1,2 read input blocks
    (2,1), (1,1), (0,1) -/
example : tasks [[2, 1, 3], [2, 2]] [.sl ⟨some 4, none, some (-2)⟩, .int 3] =
    [([2], [0, 1], [.sl (PSlice.ofInts (-2) (-3) (-2)), .int 1]),
     ([1], [1, 1], [.sl (PSlice.ofInts (-1) (-2) (-2)), .int 1]),
     ([0], [2, 1], [.sl (PSlice.ofInts (-2) (-4) (-2)), .int 1])] := by decide
open Dask.SliceND in
example : WF [[2, 1, 3], [2, 2]] [.sl ⟨some 4, none, some (-2)⟩, .int 3] := by simp [WF]
open Dask.SliceND in
example : axisPairs [2, 1, 3] (.sl ⟨some 4, none, some (-2)⟩) =
    [(some 2, (0, .sl (PSlice.ofInts (-2) (-3) (-2)))), (some 1, (1, .sl (PSlice.ofInts (-1) (-2) (-2)))),
     (some 0, (2, .sl (PSlice.ofInts (-2) (-4) (-2))))] := by decide

/-! ## `vindex`: point-wise selection -/

open Dask.VIndex in
/-- **`_vindex_array` delivers every point exactly once, from the right place.** `chunks` = the chunks of the indexed
    axes, `pts` = the (broadcast, flattened) points, all in bounds, `M` = the number of points per output block.
    The points are placed (`placeAll`) and grouped by (output block, input blocks) into the slice/merge tasks (`groups`).
    Then: (1) the tasks' points, all together, are a permutation of the placed points — none lost, none duplicated;
    (2) all points of a task share its output block and its input blocks; (3) the `i`-th point goes to output block
    `i / M` at index `i % M` (`outblock * M + outidx = i` for `M > 0`), and (4) the in-block indices it is read at address,
    in its input blocks, exactly its coordinates `pts[i]` (`sum(chunks[:block]) + inblock` on every axis). Hence cell `i`
    of the merged output holds `x[pts[i]]` — NumPy's point-wise selection; (5) the point-axis chunks sum to the number
    of points. -/
theorem vindex_den (M : Nat) (chunks : List (List Nat)) (pts : List (List Int))
    (hin : ∀ c ∈ pts, chunks.length = c.length ∧ ∀ p ∈ chunks.zip c, 0 ≤ p.2 ∧ p.2 < ((p.1.sum : Nat) : Int)) :
    ∃ placed, placeAll M chunks 0 pts = some placed ∧ placed.length = pts.length ∧
      ((groups placed).flatMap (·.2)).Perm placed ∧
      (∀ g ∈ groups placed, ∀ q ∈ g.2, q.outblock :: q.blocks = g.1) ∧
      (∀ (i : Nat) (q : Placed), placed[i]? = some q →
        q.pos = i ∧ q.outblock = i / M ∧ q.outidx = i % M ∧ (0 < M → q.outblock * M + q.outidx = i ∧ q.outidx < M) ∧
        pts[i]? = some (globalOf chunks q.blocks q.inblock)) ∧
      (pointChunks M pts.length).sum = pts.length := by
  -- placing succeeds because every point can be located
  have hplace : ∀ (pts : List (List Int)) (p0 : Nat),
      (∀ c ∈ pts, chunks.length = c.length ∧ ∀ p ∈ chunks.zip c, 0 ≤ p.2 ∧ p.2 < ((p.1.sum : Nat) : Int)) →
      ∃ placed, placeAll M chunks p0 pts = some placed := by
    intro pts
    induction pts with
    | nil => intro p0 _; exact ⟨[], rfl⟩
    | cons c rest ih =>
      intro p0 h
      obtain ⟨bs, os, hl, _⟩ := locate_spec chunks c (h c (by simp)).1 (h c (by simp)).2
      obtain ⟨r, hr⟩ := ih (p0 + 1) (fun c' hc' => h c' (by simp [hc']))
      exact ⟨⟨p0, p0 / M, p0 % M, bs, os⟩ :: r, by simp [placeAll, hl, hr]⟩
  obtain ⟨placed, hp⟩ := hplace pts 0 hin
  obtain ⟨hlen, hall⟩ := placeAll_spec M chunks pts 0 placed hp
  refine ⟨placed, hp, hlen, groups_perm placed, groups_keyed placed, ?_, pointChunks_sum M pts.length⟩
  intro i q hq
  obtain ⟨h1, h2, h3, c, hc, hloc⟩ := hall i q hq
  simp only [Nat.zero_add] at h1 h2 h3
  refine ⟨h1, h2, h3, ?_, ?_⟩
  · intro hM
    rw [h2, h3]
    exact ⟨by rw [Nat.mul_comm]; exact Nat.div_add_mod i M, Nat.mod_lt i hM⟩
  · have hcin := hin c (List.mem_of_getElem? hc)
    obtain ⟨bs, os, hl, hg⟩ := locate_spec chunks c hcin.1 hcin.2
    rw [hl] at hloc
    simp only [Option.some.injEq, Prod.mk.injEq] at hloc
    rw [hc, ← hloc.1, ← hloc.2, hg]

open Dask.VIndex in
/-- non-vacuity: chunks ((2,3),(2,2)), four points, two per output block -/
example : (placeAll 2 [[2, 3], [2, 2]] 0 [[0, 0], [4, 3], [1, 2], [4, 1]]).map groups =
    some [([0, 0, 0], [⟨0, 0, 0, [0, 0], [0, 0]⟩]), ([0, 1, 1], [⟨1, 0, 1, [1, 1], [2, 1]⟩]),
          ([1, 0, 1], [⟨2, 1, 0, [0, 1], [1, 0]⟩]), ([1, 1, 0], [⟨3, 1, 1, [1, 0], [2, 1]⟩])] := by decide
open Dask.VIndex in
example : maxPoints [[2, 3], [2, 2]] = 6 ∧ pointChunks 6 4 = [4] ∧ pointChunks 2 5 = [2, 2, 1] := by decide

/-! ## `normalize_index`: Ellipsis, padding, np.newaxis -/

open Dask.NormIndex in
/-- **`normalize_index`** (entries: slices, integers, `None`, `Ellipsis`, integer lists). Whenever it returns, the
    result has exactly one non-`None` entry per axis of the array (the first `Ellipsis` was replaced by the right
    number of full slices, missing trailing axes were padded), contains no `Ellipsis`, and keeps every `np.newaxis`
    (same number; `normEntries_kinds`: at the same places relative to the entries it had). -/
theorem normalize_index_spec (shape : List Nat) (index out : List Entry) (h : normalizeIndex shape index = some out) :
    (out.filter (fun e => !isNewaxis e)).length = shape.length ∧ (∀ e ∈ out, isEllipsis e = false) ∧
    (out.filter isNewaxis).length = (index.filter isNewaxis).length := by
  unfold normalizeIndex at h
  simp only at h
  by_cases hc : ((padded shape.length index).filter (fun e => !isNewaxis e)).length > shape.length
  · rw [if_pos hc] at h; cases h
  · rw [if_neg hc] at h
    obtain ⟨hk, hell⟩ := normEntries_kinds _ _ _ h
    obtain ⟨hn, hcn⟩ := filter_length_of_map_eq isNewaxis _ _ hk
    refine ⟨?_, hell, ?_⟩
    · rw [hcn]
      have hpad : ((padded shape.length index).filter (fun e => !isNewaxis e)).length ≥ shape.length := by
        unfold padded
        simp only [List.filter_append, List.length_append]
        have : ((List.replicate (shape.length - ((replaceEllipsis shape.length index).filter (fun e => !isNewaxis e)).length)
            (Entry.sl Dask.Slice1D.colon)).filter (fun e => !isNewaxis e)).length
            = shape.length - ((replaceEllipsis shape.length index).filter (fun e => !isNewaxis e)).length := by
          rw [List.filter_eq_self.mpr]
          · simp
          · intro a ha; rw [List.mem_replicate] at ha; rw [ha.2]; rfl
        rw [this]; omega
      omega
    · rw [hn]
      unfold padded
      simp only [List.filter_append, List.length_append]
      rw [replaceEllipsis_newaxes]
      have : (List.replicate (shape.length - ((replaceEllipsis shape.length index).filter (fun e => !isNewaxis e)).length)
          (Entry.sl Dask.Slice1D.colon)).filter isNewaxis = [] := by
        rw [List.filter_eq_nil_iff]
        intro a ha; rw [List.mem_replicate] at ha; rw [ha.2]; simp [isNewaxis]
      rw [this]; simp

open Dask.NormIndex in
/-- **Boolean masks** (`sanitize_index` turns a NumPy boolean index into `np.nonzero(mask)[0]`): indexing with the
    listed positions selects exactly the elements whose mask entry is `True`, in order — NumPy's `x[mask]`. -/
theorem mask_nonzero_den {α : Type} (m : List Bool) (x : List α) (h : x.length = m.length) :
    (nonzero m).filterMap (fun i => x[i.toNat]?) = (x.zip m).filterMap (fun p => if p.2 then some p.1 else none) := by
  have := nonzeroFrom_den m x [] h
  simpa [nonzero] using this

open Dask.NormIndex in
/-- …and those positions are in bounds for an axis of the mask's length (so `check_index` accepts them and
    `posify_index` leaves them unchanged) -/
theorem mask_nonzero_in_bounds (m : List Bool) : ∀ i ∈ nonzero m, 0 ≤ i ∧ i < (m.length : Int) := by
  intro i hi
  have := nonzeroFrom_bounds m 0 i hi
  simpa using this

open Dask.NormIndex in
example : nonzero [true, false, true, true] = [0, 2, 3] := by decide

open Dask.NormIndex in
/-- non-vacuity: `x[None, ..., -1]` on shape (4, 3, 5) -/
example : normalizeIndex [4, 3, 5] [.newaxis, .ellipsis, .int (-1)]
    = some [.newaxis, .sl Dask.Slice1D.colon, .sl Dask.Slice1D.colon, .int 4] := by decide
open Dask.NormIndex in
example : normalizeIndex [4, 3] [.int 0, .int 0, .int 0] = none := by decide

end Dask.C20
