import DaskModel.Lemmas.CumulativeLemmas
import DaskModel.Lemmas.OverlapLemmas
import DaskModel.Lemmas.OverlapReverse
/-!
# C46 — window, cumulative and shift operations are seamless across partitions

Full statement (for the modelled logic):

* `cum_eq_pandas`  — for every associative-commutative operation, both `skipna` settings and EVERY
  partitioning (empty partitions, all-NA partitions included) the concatenation of the partitions of
  the lowered `CumulativeAggregations` (Series path) is pandas' cumulative on the concatenation, and
  every partition keeps its length (so index and divisions are untouched).
* `overlap_local_eq_global` — for every row function that looks at most `b` rows back and `a` rows
  ahead (`winFn b a g`: shift, diff, ffill/bfill(limit), rolling with any min_periods / center …),
  `MapOverlap(before=b, after=a)` yields exactly that function of the concatenation, on every
  partitioning on which the code does not raise; and `mapOverlap_isSome_iff`: it raises
  (NotImplementedError) exactly when a partition is smaller than the overlap it has to lend.

* `ffill_unlimited` — `Series.ffill()` without limit (`FillnaCheck` + `FFill(before=1)`): whenever the
  code does not raise, the result is pandas' ffill of the concatenation.

* `overlap_reverse_symmetric` — `MapOverlap` commutes with reversing the frame (rows and partitions), `before` and
  `after` swapped, for EVERY per-block function, including which partitionings raise; `bfill_unlimited` —
  `Series.bfill()` without limit is pandas' bfill whenever the code does not raise (derived from `ffill_unlimited`
  through `daskBfill_reverse`).

Not covered by theorems (validated at API level only): time-based windows (`before` a Timedelta),
pandas' rolling kernels themselves, the DataFrame (2-d) path of the cumulative ops — see
`cum_df_refuted` / `cum_df_partial` for what the model says about one column of it.
-/
namespace Dask.C46

/-! ## cumulative -/
section cumulative
open Dask.Cumulative

theorem finalize_skip {f} (h : AC f) (ps : List (List Cell)) (acc : Option Int) :
    (finalize f true takeLast (acc.map some) ps).flatten = cumSkip f acc ps.flatten := by
  induction ps generalizing acc with
  | nil => simp [finalize, cumSkip]
  | cons p ps ih =>
    simp only [finalize, chunkCum, pandasCum, if_true, List.flatten_cons]
    rw [cumSkip_append, takeLast_true_cumSkip]
    have hnext : cumAggregateApply f (acc.map some) ((stateSkip f none p).map some)
        = (stateSkip f acc p).map some := by
      cases acc with
      | none => cases hs : stateSkip f none p <;> simp [cumAggregateApply, aggSS]
      | some a =>
        rw [stateSkip_some h a p]
        cases hs : stateSkip f none p with
        | none => simp [cumAggregateApply]
        | some s => simp [cumAggregateApply, aggSS, cellOp, h.comm a s]
    rw [hnext, ih]
    congr 1
    cases acc with
    | none => simp [aggVS]
    | some a => simp [aggVS, cumSkip_some h a p]

theorem finalize_no {f} (h : AC f) (ps : List (List Cell)) (st : Option Cell) :
    (finalize f false takeLast st ps).flatten = cumNo f st ps.flatten := by
  induction ps generalizing st with
  | nil => simp [finalize, cumNo]
  | cons p ps ih =>
    simp only [finalize, chunkCum, pandasCum, Bool.false_eq_true, if_false, List.flatten_cons]
    rw [cumNo_append, takeLast_false_cumNo]
    have hnext : cumAggregateApply f st (stateNo f none p) = stateNo f st p := by
      cases st with
      | none => cases hs : stateNo f none p <;> simp [cumAggregateApply, aggSS]
      | some c =>
        rw [stateNo_some h c p]
        cases hs : stateNo f none p with
        | none => simp [cumAggregateApply]
        | some s => simp [cumAggregateApply, aggSS, cellOp_comm h c s]
    rw [hnext, ih]
    congr 1
    cases st with
    | none => simp [aggVS]
    | some c => simp [aggVS, cumNo_some h c p]

/-- **C46 (cumulative)**: dask's partitioned cumulative aggregation (Series path) equals pandas on the
    unpartitioned series, for EVERY partitioning. -/
theorem cum_eq_pandas {f} (h : AC f) (skipna : Bool) (parts : List (List Cell)) :
    (daskCum f skipna parts).flatten = pandasCum f skipna parts.flatten := by
  cases parts with
  | nil => cases skipna <;> simp [daskCum, daskCumWith, pandasCum, cumSkip, cumNo]
  | cons p ps =>
    cases skipna with
    | true =>
      simp only [daskCum, daskCumWith, chunkCum, pandasCum, if_true, List.flatten_cons]
      rw [takeLast_true_cumSkip, finalize_skip h, cumSkip_append]
    | false =>
      simp only [daskCum, daskCumWith, chunkCum, pandasCum, Bool.false_eq_true, if_false, List.flatten_cons]
      rw [takeLast_false_cumNo, finalize_no h, cumNo_append]

theorem pandasCum_length (f) (skipna : Bool) (p : List Cell) : (pandasCum f skipna p).length = p.length := by
  cases skipna <;> simp [pandasCum, cumSkip_length, cumNo_length]

theorem aggVS_length (f) (x : List Cell) (y : Option Cell) : (aggVS f x y).length = x.length := by
  cases y <;> simp [aggVS]

theorem finalize_lengths (f) (skipna : Bool) (tl) (ps : List (List Cell)) (inter : Option Cell) :
    (finalize f skipna tl inter ps).map List.length = ps.map List.length := by
  induction ps generalizing inter with
  | nil => simp [finalize]
  | cons p ps ih => simp [finalize, ih, aggVS_length, chunkCum, pandasCum_length]

/-- every output partition has the length of its input partition (index/divisions are preserved) -/
theorem cum_partition_lengths (f) (skipna : Bool) (parts : List (List Cell)) :
    (daskCum f skipna parts).map List.length = parts.map List.length := by
  cases parts with
  | nil => simp [daskCum, daskCumWith]
  | cons p ps => simp [daskCum, daskCumWith, finalize_lengths, chunkCum, pandasCum_length]

/-- the four operations dask uses are associative and commutative -/
theorem op_ac (op : Op) : AC op.app := by
  cases op
  · exact ⟨fun a b c => by simp [Op.app]; omega, fun a b => by simp [Op.app]; omega⟩
  · exact ⟨fun a b c => by simp [Op.app, Int.mul_assoc], fun a b => by simp [Op.app, Int.mul_comm]⟩
  · constructor
    · intro a b c; simp only [Op.app]; repeat' split
      all_goals omega
    · intro a b; simp only [Op.app]; repeat' split
      all_goals omega
  · constructor
    · intro a b c; simp only [Op.app]; repeat' split
      all_goals omega
    · intro a b; simp only [Op.app]; repeat' split
      all_goals omega

/-- `cum_eq_pandas` for cumsum / cumprod / cummax / cummin -/
theorem cum_eq_pandas_ops (op : Op) (skipna : Bool) (parts : List (List Cell)) :
    (daskCum op.app skipna parts).flatten = pandasCum op.app skipna parts.flatten :=
  cum_eq_pandas (op_ac op) skipna parts

/-- non-vacuity / regression witnesses: the inputs of DESIGN.md §6 #24 and of the two follow-up fixes -/
example : daskCum Op.max.app true [[none], [some 3]] = [[none], [some 3]] := by decide
example : daskCum Op.max.app true [[none], [none], [some 3], [some 2]] = [[none], [none], [some 3], [some 3]] := by decide
example : daskCum Op.max.app false [[some 1], [none], [some 2]] = [[some 1], [none], [none]] := by decide
example : daskCum Op.sum.app false [[], [some 1], [some 2], [some 3]] = [[], [some 1], [some 3], [some 6]] := by decide

/-! ### one column of the DataFrame path (no `None` rule in `TakeLast`) -/

/-- refuted: a column that is all-NA in an earlier partition poisons the rest (skipna=True) -/
theorem cum_df_refuted :
    ¬ ∀ (parts : List (List Cell)),
        (daskCumDF Op.sum.app true parts).flatten = pandasCum Op.sum.app true parts.flatten := by
  intro h
  have := h [[none], [some 1]]
  revert this
  decide

theorem finalize_congr (f) (skipna : Bool) (tl tl' : Bool → List Cell → Option Cell) (ps : List (List Cell))
    (inter : Option Cell) (h : ∀ p ∈ ps, tl skipna (chunkCum f skipna p) = tl' skipna (chunkCum f skipna p)) :
    finalize f skipna tl inter ps = finalize f skipna tl' inter ps := by
  induction ps generalizing inter with
  | nil => simp [finalize]
  | cons p ps ih =>
    simp only [finalize]
    rw [h p (by simp), ih _ (fun q hq => h q (by simp [hq]))]

/-- partial: the DataFrame column path agrees with pandas when, for skipna=True, no non-empty
    partition is all-NA in the column — the complement of finding `cumdf:allna-column-partition-skipna`. -/
theorem cum_df_partial {f} (h : AC f) (skipna : Bool) (parts : List (List Cell))
    (hv : ∀ p ∈ parts, skipna = true → p ≠ [] → lastValid p ≠ none) :
    (daskCumDF f skipna parts).flatten = pandasCum f skipna parts.flatten := by
  have key : ∀ p ∈ parts, takeLastDF skipna (chunkCum f skipna p) = takeLast skipna (chunkCum f skipna p) := by
    intro p hp
    by_cases hne : p = []
    · subst hne
      cases skipna <;> simp [takeLastDF, takeLast, chunkCum, pandasCum, cumSkip, cumNo]
    have hval := hv p hp
    have hlen : (chunkCum f skipna p) ≠ [] := by
      intro he
      have := pandasCum_length f skipna p
      simp only [chunkCum] at he
      rw [he] at this
      exact hne (List.length_eq_zero_iff.mp this.symm)
    have hemp : (chunkCum f skipna p).isEmpty = false := by
      cases hc : chunkCum f skipna p with
      | nil => exact absurd hc hlen
      | cons _ _ => rfl
    cases skipna with
    | false => simp [takeLastDF, takeLast, hemp]
    | true =>
      have hlv : lastValid (chunkCum f true p) ≠ none := by
        simp only [chunkCum, pandasCum, if_true]
        rw [lastValid_cumSkip]
        cases hl : lastValid p with
        | none => exact absurd hl (hval rfl hne)
        | some w =>
          have := stateSkip_isSome_of_lastValid f none p w hl
          intro hcon
          simp only at hcon
          rw [hcon] at this
          simp at this
      have hall : ¬ ((chunkCum f true p).all Option.isNone = true) := fun ha =>
        hlv ((all_isNone_iff_lastValid _).mp ha)
      simp [takeLastDF, takeLast, hemp, hall]
  rw [← cum_eq_pandas h skipna parts]
  cases parts with
  | nil => simp [daskCumDF, daskCum, daskCumWith]
  | cons p ps =>
    simp only [daskCumDF, daskCum, daskCumWith]
    rw [key p (by simp), finalize_congr f skipna takeLastDF takeLast ps _ (fun q hq => key q (by simp [hq]))]

example : ∀ p ∈ [[some 1, none], [], [none, some 2]], true = true → p ≠ [] → lastValid p ≠ none := by decide

end cumulative

/-! ## overlap -/
section overlap
open Dask.Overlap

theorem overlapChunk_trim (func : List α → List β) (b a : Nat) (combined : List α) (pl nl : Option Nat)
    (hlen : (func combined).length = combined.length) :
    overlapChunk func b a (combined, pl, nl) =
      ((func combined).take ((func combined).length - (match nl with | none => 0 | some _ => a))).drop
        (match pl with | none => 0 | some _ => b) := by
  unfold overlapChunk
  by_cases hc : combined.length = 0
  · have : func combined = [] := List.length_eq_zero_iff.mp (by omega)
    cases pl <;> cases nl <;> simp [this]
  · have hexp : (func combined).length / combined.length = 1 := by
      rw [hlen]; exact Nat.div_self (by omega)
    cases pl <;> cases nl <;> simp [hc, hexp]

theorem trim_mid (A B C : List β) :
    ((A ++ B ++ C).take ((A ++ B ++ C).length - C.length)).drop A.length = B := by
  have : (A ++ B ++ C).length - C.length = (A ++ B).length := by simp only [List.length_append]; omega
  rw [this, List.take_left' rfl, List.drop_left' rfl]

/-- one partition: trimming the function of the extended partition gives the rows of the partition
    computed in the context of its neighbours' tail/head -/
theorem overlapChunk_win (b a : Nat) (g : List α → α → List α → β) (prev next : Option (List α)) (cur : List α)
    (hp : sizeOK prev b = true) (hn : sizeOK next a = true) :
    overlapChunk (winFn b a g) b a (prev.getD [] ++ cur ++ next.getD [], lenOrNone prev, lenOrNone next)
      = win b a g (prev.getD []) cur (next.getD []) := by
  rw [overlapChunk_trim _ _ _ _ _ _ (by simp [winFn, win_length])]
  have hsplit : winFn b a g (prev.getD [] ++ cur ++ next.getD []) =
      win b a g [] (prev.getD []) (cur ++ next.getD []) ++ win b a g (prev.getD []) cur (next.getD [])
        ++ win b a g (prev.getD [] ++ cur) (next.getD []) [] := by
    simp only [winFn]
    rw [win_append, win_append]
    simp
  rw [hsplit]
  have hb : (match lenOrNone prev with | none => 0 | some _ => b)
      = (win b a g [] (prev.getD []) (cur ++ next.getD [])).length := by
    rw [win_length]
    cases prev with
    | none => simp [lenOrNone]
    | some p =>
      simp only [sizeOK, beq_iff_eq] at hp
      by_cases h0 : p.length > 0
      · have hb0 : 0 < b := by omega
        simp [lenOrNone, hp, hb0]
      · simp [lenOrNone, h0]; omega
  have ha : (match lenOrNone next with | none => 0 | some _ => a)
      = (win b a g (prev.getD [] ++ cur) (next.getD []) []).length := by
    rw [win_length]
    cases next with
    | none => simp [lenOrNone]
    | some n =>
      simp only [sizeOK, beq_iff_eq] at hn
      by_cases h0 : n.length > 0
      · have ha0 : 0 < a := by omega
        simp [lenOrNone, hn, ha0]
      · simp [lenOrNone, h0]; omega
  rw [hb, ha]
  exact trim_mid _ _ _

theorem sizeOK_prevOf (b : Nat) (pp : Option (List α)) (h : ∀ q, pp = some q → b = 0 ∨ b ≤ q.length) :
    sizeOK (prevOf b pp) b = true := by
  unfold prevOf
  by_cases hb : b = 0
  · simp [hb, sizeOK]
  · cases pp with
    | none => simp [hb, sizeOK]
    | some q =>
      have := h q rfl
      simp [hb, sizeOK, lastN_length b q (by omega)]

theorem sizeOK_nextOf (a : Nat) (rest : List (List α)) (h : ∀ n more, rest = n :: more → a = 0 ∨ a ≤ n.length) :
    sizeOK (nextOf a rest) a = true := by
  unfold nextOf
  by_cases ha : a = 0
  · simp [ha, sizeOK]
  · cases rest with
    | nil => simp [ha, sizeOK]
    | cons n more =>
      have := h n more rfl
      simp [ha, sizeOK]; omega

theorem go_spec (b a : Nat) (g : List α → α → List α → β) :
    ∀ (parts : List (List α)) (pp : Option (List α)) (pre : List α),
      (∀ l, lastN b (pre ++ l) = lastN b ((prevOf b pp).getD [] ++ l)) →
      (∀ q, pp = some q → parts ≠ [] → b = 0 ∨ b ≤ q.length) →
      sideOK b a parts = true →
      ∃ out, goOverlap (winFn b a g) b a pp parts = some out ∧
        out.flatten = win b a g pre parts.flatten [] ∧ out.map List.length = parts.map List.length := by
  intro parts
  induction parts with
  | nil => intro pp pre _ _ _; exact ⟨[], by simp [goOverlap, win]⟩
  | cons cur rest ih =>
    intro pp pre hctx hpp hside
    have hside' : (∀ n more, rest = n :: more → (b = 0 ∨ b ≤ cur.length) ∧ (a = 0 ∨ a ≤ n.length)) ∧
        sideOK b a rest = true := by
      cases rest with
      | nil => simp [sideOK]
      | cons n more =>
        simp only [sideOK, Bool.and_eq_true, Bool.or_eq_true, beq_iff_eq, decide_eq_true_eq] at hside
        refine ⟨?_, hside.2⟩
        intro n' more' heq
        cases heq
        exact ⟨hside.1.1, hside.1.2⟩
    obtain ⟨hnb, hsrest⟩ := hside'
    have hokp : sizeOK (prevOf b pp) b = true := sizeOK_prevOf b pp (fun q hq => hpp q hq (by simp))
    have hokn : sizeOK (nextOf a rest) a = true := sizeOK_nextOf a rest (fun n more h => (hnb n more h).2)
    -- the recursive call
    have hrec : ∃ r, goOverlap (winFn b a g) b a (some cur) rest = some r ∧
        r.flatten = win b a g (pre ++ cur) rest.flatten [] ∧ r.map List.length = rest.map List.length := by
      cases rest with
      | nil => exact ⟨[], by simp [goOverlap, win]⟩
      | cons n more =>
        have hlen : b = 0 ∨ b ≤ cur.length := (hnb n more rfl).1
        apply ih (some cur) (pre ++ cur) _ (fun q hq _ => by cases hq; exact hlen) hsrest
        intro l
        by_cases hb : b = 0
        · simp [hb, lastN_zero]
        · have hlen' : b ≤ cur.length := by omega
          simp only [prevOf, hb, if_false, Option.map_some, Option.getD_some]
          rw [← lastN_lastN_append b (pre ++ cur) l, lastN_append_of_le b pre cur hlen']
    obtain ⟨r, hr, hrflat, hrlen⟩ := hrec
    refine ⟨overlapChunk (winFn b a g) b a
        ((prevOf b pp).getD [] ++ cur ++ (nextOf a rest).getD [], lenOrNone (prevOf b pp), lenOrNone (nextOf a rest)) :: r,
      ?_, ?_, ?_⟩
    · simp [goOverlap, combinedParts, hokp, hokn, hr]
    · rw [List.flatten_cons, overlapChunk_win b a g _ _ cur hokp hokn, hrflat, List.flatten_cons, win_append]
      congr 1
      apply win_ctx
      · intro l; exact (hctx l).symm
      · intro l
        cases rest with
        | nil => simp [nextOf]
        | cons n more =>
          by_cases ha : a = 0
          · simp [ha]
          · have := (hnb n more rfl).2
            simp only [nextOf, ha, if_false, Option.getD_some, List.flatten_cons, List.append_nil]
            exact (take_append_take a l n more.flatten (by omega)).symm
    · rw [List.map_cons, overlapChunk_win b a g _ _ cur hokp hokn, win_length, hrlen, List.map_cons]

/-- **C46 (overlap)**: on every partitioning that is large enough (`sideOK`, exactly the condition
    the code checks), `MapOverlap(before=b, after=a)` of a `(b,a)`-local row function is that
    function of the concatenated frame, partition lengths preserved. -/
theorem overlap_local_eq_global (b a : Nat) (g : List α → α → List α → β) (parts : List (List α))
    (hside : sideOK b a parts = true) :
    ∃ out, mapOverlap (winFn b a g) b a parts = some out ∧
      out.flatten = winFn b a g parts.flatten ∧ out.map List.length = parts.map List.length := by
  unfold mapOverlap winFn
  apply go_spec b a g parts none []
  · intro l; simp [prevOf]
  · intro q hq; cases hq
  · exact hside

/-- the code raises exactly when the partitioning is too small for the overlap (any function) -/
theorem go_some_sideOK (func : List α → List β) (b a : Nat) :
    ∀ (parts : List (List α)) (pp : Option (List α)) (out : List (List β)),
      goOverlap func b a pp parts = some out →
      sideOK b a parts = true ∧ (∀ q, pp = some q → parts ≠ [] → b = 0 ∨ b ≤ q.length) := by
  intro parts
  induction parts with
  | nil => intro pp out _; simp [sideOK]
  | cons cur rest ih =>
    intro pp out hgo
    simp only [goOverlap] at hgo
    cases hc : combinedParts b a (prevOf b pp) cur (nextOf a rest) with
    | none => simp [hc] at hgo
    | some c =>
      cases hr : goOverlap func b a (some cur) rest with
      | none => simp [hc, hr] at hgo
      | some r =>
        obtain ⟨hsr, hcur⟩ := ih (some cur) r hr
        have hok : sizeOK (prevOf b pp) b = true ∧ sizeOK (nextOf a rest) a = true := by
          unfold combinedParts at hc
          by_cases h1 : sizeOK (prevOf b pp) b = true <;> by_cases h2 : sizeOK (nextOf a rest) a = true <;>
            simp [h1, h2] at hc ⊢
        constructor
        · cases rest with
          | nil => simp [sideOK]
          | cons n more =>
            have h1 := hcur cur rfl (by simp)
            have h2 : a = 0 ∨ a ≤ n.length := by
              by_cases ha : a = 0
              · exact Or.inl ha
              · right
                have := hok.2
                simp only [nextOf, ha, if_false, sizeOK, beq_iff_eq, List.length_take] at this
                omega
            simp only [sideOK, Bool.and_eq_true, Bool.or_eq_true, beq_iff_eq, decide_eq_true_eq]
            exact ⟨⟨h1, h2⟩, hsr⟩
        · intro q hq _
          by_cases hb : b = 0
          · exact Or.inl hb
          · right
            subst hq
            have := hok.1
            simp only [prevOf, hb, if_false, Option.map_some, sizeOK, beq_iff_eq] at this
            by_cases hlt : q.length < b
            · exact absurd this (lastN_length_lt b q hlt)
            · omega

theorem mapOverlap_isSome_iff (b a : Nat) (g : List α → α → List α → β) (parts : List (List α)) :
    (mapOverlap (winFn b a g) b a parts).isSome = sideOK b a parts := by
  cases hs : sideOK b a parts with
  | true =>
    obtain ⟨out, hout, _⟩ := overlap_local_eq_global b a g parts hs
    simp [hout]
  | false =>
    cases hm : mapOverlap (winFn b a g) b a parts with
    | none => rfl
    | some out =>
      have := (go_some_sideOK (winFn b a g) b a parts none out hm).1
      rw [hs] at this
      exact absurd this (by simp)

/-! ### unlimited ffill (`FillnaCheck` + `FFill(before=1)`) -/

/-- carried value after a block: the last valid cell, or the incoming carry -/
def carryAfter : Cell → List Cell → Cell
  | c, [] => c
  | c, x :: rest => carryAfter (match x with | some v => some v | none => c) rest

theorem ffillAll_length (c : Cell) (p : List Cell) : (ffillAll c p).length = p.length := by
  induction p generalizing c with
  | nil => simp [ffillAll]
  | cons x xs ih => cases x <;> simp [ffillAll, ih]

theorem ffillAll_append (c : Cell) (p q : List Cell) :
    ffillAll c (p ++ q) = ffillAll c p ++ ffillAll (carryAfter c p) q := by
  induction p generalizing c with
  | nil => simp [ffillAll, carryAfter]
  | cons x xs ih => cases x <;> simp [ffillAll, carryAfter, ih]

/-- filling an already filled block again changes nothing when the inner carry was empty or the same -/
theorem ffillAll_ffillAll_gen (p : List Cell) : ∀ (d c : Cell), (d = none ∨ d = c) →
    ffillAll c (ffillAll d p) = ffillAll c p := by
  induction p with
  | nil => intro d c _; simp [ffillAll]
  | cons x xs ih =>
    intro d c h
    cases x with
    | some v =>
      simp only [ffillAll]
      rw [ih (some v) (some v) (Or.inr rfl)]
    | none =>
      rcases h with h | h
      · subst h
        simp only [ffillAll]
        rw [ih none c (Or.inl rfl)]
      · subst h
        cases d with
        | none => simp only [ffillAll]; rw [ih none none (Or.inl rfl)]
        | some w => simp only [ffillAll]; rw [ih (some w) (some w) (Or.inr rfl)]

theorem ffillAll_ffillAll (c : Cell) (p : List Cell) : ffillAll c (ffillAll none p) = ffillAll c p :=
  ffillAll_ffillAll_gen p none c (Or.inl rfl)

/-- last cell of a block (NaN for the empty block) -/
def lastC (p : List Cell) : Cell := (p.getLast?).getD none

theorem lastC_cons (a : Cell) (l : List Cell) (hl : l ≠ []) : lastC (a :: l) = lastC l := by
  cases l with
  | nil => exact absurd rfl hl
  | cons b bs => simp [lastC, List.getLast?_cons_cons]

theorem ffillAll_ne_nil (c : Cell) (p : List Cell) (hp : p ≠ []) : ffillAll c p ≠ [] := by
  intro h
  have := ffillAll_length c p
  rw [h] at this
  exact hp (List.length_eq_zero_iff.mp this.symm)

/-- the last cell of a filled non-empty block is the carried value after it -/
theorem lastC_ffillAll (c : Cell) (p : List Cell) (hp : p ≠ []) : lastC (ffillAll c p) = carryAfter c p := by
  induction p generalizing c with
  | nil => exact absurd rfl hp
  | cons x xs ih =>
    by_cases hxs : xs = []
    · subst hxs
      cases x <;> simp [ffillAll, lastC, carryAfter]
    · cases x with
      | some v =>
        simp only [ffillAll, carryAfter]
        rw [lastC_cons _ _ (ffillAll_ne_nil _ _ hxs)]
        exact ih (some v) hxs
      | none =>
        simp only [ffillAll, carryAfter]
        rw [lastC_cons _ _ (ffillAll_ne_nil _ _ hxs)]
        exact ih c hxs

theorem lastN_one (q : List Cell) (hq : q ≠ []) : lastN 1 q = [lastC q] := by
  induction q with
  | nil => exact absurd rfl hq
  | cons a t ih =>
    cases t with
    | nil => simp [lastN, lastC]
    | cons b t' =>
      have := ih (by simp)
      rw [lastC_cons a (b :: t') (by simp)]
      rw [← this]
      simp [lastN]

/-- what stage 2 (`FFill` = MapOverlap(before=1)) computes partition by partition -/
def fillChain : Option (List Cell) → List (List Cell) → List (List Cell)
  | _, [] => []
  | pp, p :: rest => ffillAll (match pp with | none => none | some q => lastC q) p :: fillChain (some p) rest

theorem ffillAll_none_cons (x : Cell) (cur : List Cell) : ffillAll none (x :: cur) = x :: ffillAll x cur := by
  cases x <;> simp [ffillAll]

theorem go_ffill : ∀ (ps : List (List Cell)) (pp : Option (List Cell)) (out : List (List Cell)),
    goOverlap (ffillAll none) 1 0 pp ps = some out →
    out = fillChain pp ps ∧ (∀ q, pp = some q → ps ≠ [] → q ≠ []) ∧ (∀ p ∈ ps.dropLast, p ≠ []) := by
  intro ps
  induction ps with
  | nil => intro pp out h; simp [goOverlap] at h; subst h; simp [fillChain]
  | cons cur rest ih =>
    intro pp out h
    simp only [goOverlap] at h
    cases hc : combinedParts 1 0 (prevOf 1 pp) cur (nextOf 0 rest) with
    | none => simp [hc] at h
    | some c =>
      cases hr : goOverlap (ffillAll none) 1 0 (some cur) rest with
      | none => simp [hc, hr] at h
      | some r =>
        simp only [hc, hr, Option.some.injEq] at h
        obtain ⟨hrout, hcur, hrest⟩ := ih (some cur) r hr
        have hnext : nextOf 0 rest = (none : Option (List Cell)) := by simp [nextOf]
        have hprev : prevOf 1 pp = pp.map (lastN 1) := by simp [prevOf]
        unfold combinedParts at hc
        rw [hnext, hprev] at hc
        have hs2 : sizeOK (none : Option (List Cell)) 0 = true := rfl
        by_cases hsz : sizeOK (pp.map (lastN 1)) 1 = true
        · rw [hsz, hs2] at hc
          simp only [Bool.not_true, Bool.or_self, Bool.false_eq_true, if_false, Option.some.injEq,
            Option.getD_none, List.append_nil] at hc
          subst hc
          have hq : ∀ q, pp = some q → q ≠ [] := by
            intro q hqq hnil
            subst hqq; subst hnil
            simp [sizeOK, lastN] at hsz
          refine ⟨?_, fun q hqq _ => hq q hqq, ?_⟩
          · rw [← h, hrout]
            simp only [fillChain]
            congr 1
            rw [overlapChunk_trim _ _ _ _ _ _ (by simp [ffillAll_length])]
            cases pp with
            | none => simp [lenOrNone]
            | some q =>
              have hqne := hq q rfl
              simp only [Option.map_some, Option.getD_some, lastN_one q hqne, lenOrNone, List.length_singleton,
                Nat.lt_irrefl, Nat.zero_lt_one, if_true, List.singleton_append, ffillAll_none_cons, Nat.sub_zero,
                List.take_length, List.drop_succ_cons, List.drop_zero]
          · intro p hp
            cases rest with
            | nil => simp at hp
            | cons n more =>
              simp only [List.dropLast_cons_cons, List.mem_cons] at hp
              rcases hp with hp | hp
              · subst hp; exact hcur p rfl (by simp)
              · exact hrest p hp
        · rw [hs2] at hc
          simp [hsz] at hc

def hasValid (p : List Cell) : Bool := p.any Option.isSome

theorem carryAfter_of_valid (c : Cell) (p : List Cell) (h : hasValid p = true) : carryAfter c p = carryAfter none p := by
  induction p generalizing c with
  | nil => simp [hasValid] at h
  | cons x xs ih =>
    cases x with
    | some v => simp [carryAfter]
    | none =>
      simp only [carryAfter]
      exact ih c (by simpa [hasValid] using h)

theorem ffillAll_all_none (p : List Cell) (h : hasValid p = false) : (ffillAll none p).all Option.isNone = true := by
  induction p with
  | nil => simp [ffillAll]
  | cons x xs ih =>
    cases x with
    | some v => simp [hasValid] at h
    | none =>
      simp only [ffillAll, List.all_cons, Option.isNone_none, Bool.true_and]
      exact ih (by simpa [hasValid] using h)

theorem fillnaCheckAll_spec (fill : List Cell → List Cell) (skip : Nat) :
    ∀ (parts : List (List Cell)) (i : Nat) (ps : List (List Cell)),
      fillnaCheckAll fill skip i parts = some ps →
      ps = parts.map fill ∧ ∀ (j : Nat) (p : List Cell), parts[j]? = some p → i + j ≠ skip → (fill p).all Option.isNone = false := by
  intro parts
  induction parts with
  | nil => intro i ps h; simp [fillnaCheckAll] at h; subst h; simp
  | cons p rest ih =>
    intro i ps h
    simp only [fillnaCheckAll] at h
    cases hc : fillnaCheck fill (i != skip) p with
    | none => simp [hc] at h
    | some o =>
      cases hr : fillnaCheckAll fill skip (i + 1) rest with
      | none => simp [hc, hr] at h
      | some os =>
        simp only [hc, hr, Option.some.injEq] at h
        obtain ⟨h1, h2⟩ := ih (i + 1) os hr
        simp only [fillnaCheck] at hc
        split at hc
        · cases hc
        · rename_i hcond
          simp only [Option.some.injEq] at hc
          refine ⟨by rw [← h, ← hc, h1]; rfl, ?_⟩
          intro j q hq hne
          cases j with
          | zero =>
            simp only [List.getElem?_cons_zero, Option.some.injEq] at hq
            subst hq
            simp only [Bool.and_eq_true, bne_iff_ne, ne_eq, not_and, Bool.not_eq_true] at hcond
            exact hcond (by simpa using hne)
          | succ j =>
            simp only [List.getElem?_cons_succ] at hq
            exact h2 j q hq (by omega)

/-- the chain over locally filled partitions is the global fill -/
theorem fillChain_global : ∀ (parts : List (List Cell)) (c : Cell) (pp : Option (List Cell)),
    (match pp with | none => none | some q => lastC q) = c →
    (∀ p ∈ parts.dropLast, p ≠ []) →
    (∀ p ∈ parts.tail, hasValid p = true) →
    (c = none ∨ ∀ p, parts.head? = some p → hasValid p = true) →
    (fillChain pp (parts.map (ffillAll none))).flatten = ffillAll c parts.flatten := by
  intro parts
  induction parts with
  | nil => intro c pp _ _ _ _; simp [fillChain, ffillAll]
  | cons p rest ih =>
    intro c pp hc hne htail hhead
    simp only [List.map_cons, fillChain, List.flatten_cons, hc]
    rw [ffillAll_ffillAll, ffillAll_append]
    congr 1
    cases rest with
    | nil => simp [fillChain, ffillAll]
    | cons n more =>
      have hpne : p ≠ [] := hne p (by simp)
      have hcarry : carryAfter c p = carryAfter none p := by
        rcases hhead with h | h
        · rw [h]
        · exact carryAfter_of_valid c p (h p rfl)
      apply ih (carryAfter c p) (some (ffillAll none p))
      · simp only
        rw [lastC_ffillAll none p hpne, hcarry]
      · intro q hq
        exact hne q (by simp only [List.dropLast_cons_cons, List.mem_cons]; exact Or.inr hq)
      · intro q hq
        exact htail q (by simp only [List.tail_cons] at hq ⊢; exact List.mem_of_mem_tail hq)
      · right
        intro q hq
        simp only [List.head?_cons, Option.some.injEq] at hq
        subst hq
        exact htail _ (by simp)

/-- **`Series.ffill()` without limit** (`FillnaCheck` + `FFill(before=1)`): whenever the code does
    not raise, the result is pandas' ffill of the whole series. -/
theorem ffill_unlimited (parts out : List (List Cell)) (h : daskFfillUnlimited parts = some out) :
    out.flatten = ffillAll none parts.flatten ∧ out.map List.length = parts.map List.length := by
  unfold daskFfillUnlimited at h
  cases hchk : fillnaCheckAll (ffillAll none) 0 0 parts with
  | none => simp [hchk] at h
  | some ps =>
    simp only [hchk] at h
    obtain ⟨hps, hvalid⟩ := fillnaCheckAll_spec (ffillAll none) 0 parts 0 ps hchk
    obtain ⟨hout, _, hne⟩ := go_ffill ps none out h
    subst hps
    have hne' : ∀ p ∈ parts.dropLast, p ≠ [] := by
      intro p hp hnil
      subst hnil
      have : (ffillAll none ([] : List Cell)) ∈ (parts.map (ffillAll none)).dropLast := by
        rw [← List.map_dropLast]
        exact List.mem_map_of_mem hp
      exact hne _ this (by simp [ffillAll])
    have htail : ∀ p ∈ parts.tail, hasValid p = true := by
      intro p hp
      obtain ⟨j, hj⟩ := List.getElem?_of_mem hp
      cases parts with
      | nil => simp at hp
      | cons a rest =>
        simp only [List.tail_cons] at hj
        have := hvalid (j + 1) p (by simpa using hj) (by omega)
        cases hv : hasValid p with
        | true => rfl
        | false => rw [ffillAll_all_none p hv] at this; cases this
    constructor
    · rw [hout]
      exact fillChain_global parts none none rfl hne' htail (Or.inl rfl)
    · rw [hout]
      have : ∀ (ps : List (List Cell)) (pp : Option (List Cell)), (fillChain pp ps).map List.length = ps.map List.length := by
        intro ps
        induction ps with
        | nil => intro pp; simp [fillChain]
        | cons p rest ih => intro pp; simp [fillChain, ffillAll_length, ih]
      rw [this]
      simp [List.map_map, Function.comp_def, ffillAll_length]


example : daskFfillUnlimited [[none, some 1], [none, some 2, none], [none, some 5]]
    = some [[none, some 1], [some 1, some 2, some 2], [some 2, some 5]] := by decide
example : daskFfillUnlimited [[some 1], [none, none]] = none := by decide

/-- non-vacuity: a partitioning that satisfies the side condition with a window crossing both
    boundaries, and one that does not -/
example : sideOK 2 1 [[1, 2, 3], [4, 5], [6]] = true := by decide
example : sideOK 2 0 [[1], [2, 3]] = false := by decide
example : mapOverlap (winFn 2 0 (gShiftBack 2)) 2 0 [[some 1, some 2, some 3], [some 4, some 5], [some 6]]
    = some [[none, none, some 1], [some 2, some 3], [some 4]] := by decide

end overlap
end Dask.C46

/-! ## reversal symmetry and unlimited bfill (review round) -/
namespace Dask.C46
open Dask.Overlap

/-- **`MapOverlap` is symmetric under reversal** (rows inside partitions and the partition order): with `before`
    and `after` swapped and the per-block function conjugated by reversal the result is the reversed result, and
    the reversed call raises exactly when the original does. -/
theorem overlap_reverse_symmetric {α β} (func : List α → List β) (b a : Nat) (parts : List (List α)) :
    mapOverlap (fun x => (func x.reverse).reverse) a b (revParts parts) = (mapOverlap func b a parts).map revParts :=
  mapOverlap_reverse func b a parts

/-- the partition passes `fillna_check` -/
def fillOK (fill : List Cell → List Cell) (p : List Cell) : Bool := !((fill p).all Option.isNone)

theorem fillnaCheck_true (fill : List Cell → List Cell) (p : List Cell) :
    fillnaCheck fill true p = if fillOK fill p then some (fill p) else none := by
  cases h : (fill p).all Option.isNone <;> simp [fillnaCheck, fillOK, h]

theorem fillnaCheck_false (fill : List Cell → List Cell) (p : List Cell) : fillnaCheck fill false p = some (fill p) := by
  simp [fillnaCheck]

/-- past the unchecked partition every partition is checked -/
theorem fillnaCheckAll_all (fill : List Cell → List Cell) (skip : Nat) :
    ∀ (parts : List (List Cell)) (i : Nat), skip < i →
      fillnaCheckAll fill skip i parts = if parts.all (fillOK fill) then some (parts.map fill) else none := by
  intro parts
  induction parts with
  | nil => intro i _; rfl
  | cons p ps ih =>
    intro i hi
    have hne : (i != skip) = true := by simp; omega
    simp only [fillnaCheckAll, hne, fillnaCheck_true, ih (i + 1) (by omega), List.all_cons, List.map_cons]
    cases fillOK fill p <;> cases ps.all (fillOK fill) <;> rfl

/-- `FillnaCheck` of `ffill`: every partition but the FIRST is checked -/
theorem fillnaCheckAll_first (fill : List Cell → List Cell) (parts : List (List Cell)) :
    fillnaCheckAll fill 0 0 parts = if parts.tail.all (fillOK fill) then some (parts.map fill) else none := by
  cases parts with
  | nil => rfl
  | cons p ps =>
    simp only [fillnaCheckAll, bne_self_eq_false, fillnaCheck_false, fillnaCheckAll_all fill 0 ps 1 (by omega), List.tail_cons,
      List.map_cons]
    cases ps.all (fillOK fill) <;> rfl

/-- `FillnaCheck` of `bfill`: every partition but the LAST is checked -/
theorem fillnaCheckAll_last (fill : List Cell → List Cell) :
    ∀ (parts : List (List Cell)) (i : Nat),
      fillnaCheckAll fill (i + (parts.length - 1)) i parts =
        if parts.dropLast.all (fillOK fill) then some (parts.map fill) else none := by
  intro parts
  induction parts with
  | nil => intro i; rfl
  | cons p ps ih =>
    intro i
    by_cases hps : ps = []
    · subst hps; simp [fillnaCheckAll, fillnaCheck_false]
    · have hlen : 1 ≤ ps.length := by cases ps <;> simp_all
      have hne : (i != i + ((p :: ps).length - 1)) = true := by simp only [List.length_cons, bne_iff_ne]; omega
      have hidx : i + ((p :: ps).length - 1) = (i + 1) + (ps.length - 1) := by simp only [List.length_cons]; omega
      rw [fillnaCheckAll, hne, fillnaCheck_true, hidx, ih (i + 1)]
      have hdl : (p :: ps).dropLast = p :: ps.dropLast := by cases ps <;> simp_all
      simp only [hdl, List.all_cons, List.map_cons]
      cases fillOK fill p <;> cases ps.dropLast.all (fillOK fill) <;> rfl

theorem bfillAll_eq (p : List Cell) : bfillAll p = (ffillAll none p.reverse).reverse := rfl

theorem fillOK_bfill (p : List Cell) : fillOK bfillAll p = fillOK (ffillAll none) p.reverse := by
  simp [fillOK, bfillAll_eq]

/-- **`bfill()` is `ffill()` of the reversed frame**, as dask lowers them (checks and overlap included) -/
theorem daskBfill_reverse (parts : List (List Cell)) :
    daskBfillUnlimited parts = (daskFfillUnlimited (revParts parts)).map revParts := by
  unfold daskBfillUnlimited daskFfillUnlimited
  have hchk : fillnaCheckAll bfillAll (parts.length - 1) 0 parts =
      (fillnaCheckAll (ffillAll none) 0 0 (revParts parts)).map revParts := by
    have := fillnaCheckAll_last bfillAll parts 0
    simp only [Nat.zero_add] at this
    rw [this, fillnaCheckAll_first]
    have hall : (revParts parts).tail.all (fillOK (ffillAll none)) = parts.dropLast.all (fillOK bfillAll) := by
      have hf : (fillOK (ffillAll none)) ∘ List.reverse = fillOK bfillAll := by
        funext p; simp [fillOK_bfill]
      simp only [revParts, ← List.map_tail, List.tail_reverse, List.all_map, List.all_reverse, hf]
    rw [hall]
    cases parts.dropLast.all (fillOK bfillAll) with
    | false => rfl
    | true =>
      simp only [if_true, Option.map_some, Option.some.injEq]
      have hb : bfillAll = fun x => (ffillAll none x.reverse).reverse := by funext x; rfl
      simp only [revParts, List.map_reverse, List.map_map, List.reverse_reverse, Function.comp_def, hb]
  rw [hchk]
  cases hc : fillnaCheckAll (ffillAll none) 0 0 (revParts parts) with
  | none => rfl
  | some ps =>
    simp only [Option.map_some]
    have := mapOverlap_reverse bfillAll 0 1 (revParts ps)
    rw [revParts_revParts] at this
    have hf : (fun x : List Cell => (bfillAll x.reverse).reverse) = ffillAll none := by
      funext x; simp [bfillAll_eq]
    rw [hf] at this
    rw [this, Option.map_map]
    cases mapOverlap bfillAll 0 1 (revParts ps) with
    | none => rfl
    | some o => simp [revParts_revParts]

/-- **`Series.bfill()` without limit** (`FillnaCheck` + `BFill(after=1)`): whenever the code does not raise, the
    result is pandas' bfill of the whole series, partition lengths preserved. -/
theorem bfill_unlimited (parts out : List (List Cell)) (h : daskBfillUnlimited parts = some out) :
    out.flatten = bfillAll parts.flatten ∧ out.map List.length = parts.map List.length := by
  rw [daskBfill_reverse] at h
  cases hf : daskFfillUnlimited (revParts parts) with
  | none => rw [hf] at h; cases h
  | some o =>
    rw [hf] at h
    simp only [Option.map_some, Option.some.injEq] at h
    obtain ⟨h1, h2⟩ := ffill_unlimited (revParts parts) o hf
    subst h
    constructor
    · rw [revParts_flatten, h1, revParts_flatten, bfillAll_eq]
    · have : (revParts o).map List.length = (o.map List.length).reverse := by
        simp [revParts, List.map_reverse, Function.comp_def]
      rw [this, h2]
      simp [revParts, List.map_reverse, Function.comp_def]

example : daskBfillUnlimited [[none, some 1], [none, some 2, none], [some 5, none]]
    = some [[some 1, some 1], [some 2, some 2, some 5], [some 5, none]] := by decide
example : daskBfillUnlimited [[none, none], [some 1]] = none := by decide

end Dask.C46
