import DaskModel.Lemmas.CumulativeLemmas
import DaskModel.Lemmas.OverlapLemmas
/-!
# C46 — window, cumulative and shift operations are seamless across partitions

Full statement (for the modelled logic):

* `cum_eq_pandas`  — for every associative-commutative operation, both `skipna` settings and EVERY
  partitioning (empty partitions, all-NA partitions included) the concatenation of the partitions of
  the lowered `CumulativeAggregations` (Series path) is pandas' cumulative on the concatenation, and
  every partition keeps its length (so index and divisions are untouched).
* `overlap_local_eq_global` — for every row function that looks at most `b` rows back and `a` rows
  ahead (`winFn b a g`: shift, diff, ffill/bfill(limit), rolling with any min_periods / center …),
  `MapOverlap(before=b, after=a)` yields exactly that function of the concatenation, on every
  partitioning on which the code does not raise; and `mapOverlap_isSome_iff`: it raises
  (NotImplementedError) exactly when a partition is smaller than the overlap it has to lend.

Not covered by theorems (validated at API level only): time-based windows (`before` a Timedelta),
pandas' rolling kernels themselves, the DataFrame (2-d) path of the cumulative ops — see
`cum_df_refuted` / `cum_df_partial` for what the model says about one column of it.
-/
namespace Dask.C46

/-! ## cumulative -/
section cumulative
open Dask.Cumulative

theorem finalize_skip {f} (h : AC f) (ps : List (List Cell)) (acc : Option Int) :
    (finalize f true takeLast (acc.map some) ps).flatten = cumSkip f acc ps.flatten := by
  induction ps generalizing acc with
  | nil => simp [finalize, cumSkip]
  | cons p ps ih =>
    simp only [finalize, chunkCum, pandasCum, if_true, List.flatten_cons]
    rw [cumSkip_append, takeLast_true_cumSkip]
    have hnext : cumAggregateApply f (acc.map some) ((stateSkip f none p).map some)
        = (stateSkip f acc p).map some := by
      cases acc with
      | none => cases hs : stateSkip f none p <;> simp [cumAggregateApply, aggSS]
      | some a =>
        rw [stateSkip_some h a p]
        cases hs : stateSkip f none p with
        | none => simp [cumAggregateApply]
        | some s => simp [cumAggregateApply, aggSS, cellOp, h.comm a s]
    rw [hnext, ih]
    congr 1
    cases acc with
    | none => simp [aggVS]
    | some a => simp [aggVS, cumSkip_some h a p]

theorem finalize_no {f} (h : AC f) (ps : List (List Cell)) (st : Option Cell) :
    (finalize f false takeLast st ps).flatten = cumNo f st ps.flatten := by
  induction ps generalizing st with
  | nil => simp [finalize, cumNo]
  | cons p ps ih =>
    simp only [finalize, chunkCum, pandasCum, Bool.false_eq_true, if_false, List.flatten_cons]
    rw [cumNo_append, takeLast_false_cumNo]
    have hnext : cumAggregateApply f st (stateNo f none p) = stateNo f st p := by
      cases st with
      | none => cases hs : stateNo f none p <;> simp [cumAggregateApply, aggSS]
      | some c =>
        rw [stateNo_some h c p]
        cases hs : stateNo f none p with
        | none => simp [cumAggregateApply]
        | some s => simp [cumAggregateApply, aggSS, cellOp_comm h c s]
    rw [hnext, ih]
    congr 1
    cases st with
    | none => simp [aggVS]
    | some c => simp [aggVS, cumNo_some h c p]

/-- **C46 (cumulative)**: dask's partitioned cumulative aggregation (Series path) equals pandas on the
    unpartitioned series, for EVERY partitioning. -/
theorem cum_eq_pandas {f} (h : AC f) (skipna : Bool) (parts : List (List Cell)) :
    (daskCum f skipna parts).flatten = pandasCum f skipna parts.flatten := by
  cases parts with
  | nil => cases skipna <;> simp [daskCum, daskCumWith, pandasCum, cumSkip, cumNo]
  | cons p ps =>
    cases skipna with
    | true =>
      simp only [daskCum, daskCumWith, chunkCum, pandasCum, if_true, List.flatten_cons]
      rw [takeLast_true_cumSkip, finalize_skip h, cumSkip_append]
    | false =>
      simp only [daskCum, daskCumWith, chunkCum, pandasCum, Bool.false_eq_true, if_false, List.flatten_cons]
      rw [takeLast_false_cumNo, finalize_no h, cumNo_append]

theorem pandasCum_length (f) (skipna : Bool) (p : List Cell) : (pandasCum f skipna p).length = p.length := by
  cases skipna <;> simp [pandasCum, cumSkip_length, cumNo_length]

theorem aggVS_length (f) (x : List Cell) (y : Option Cell) : (aggVS f x y).length = x.length := by
  cases y <;> simp [aggVS]

theorem finalize_lengths (f) (skipna : Bool) (tl) (ps : List (List Cell)) (inter : Option Cell) :
    (finalize f skipna tl inter ps).map List.length = ps.map List.length := by
  induction ps generalizing inter with
  | nil => simp [finalize]
  | cons p ps ih => simp [finalize, ih, aggVS_length, chunkCum, pandasCum_length]

/-- every output partition has the length of its input partition (index/divisions are preserved) -/
theorem cum_partition_lengths (f) (skipna : Bool) (parts : List (List Cell)) :
    (daskCum f skipna parts).map List.length = parts.map List.length := by
  cases parts with
  | nil => simp [daskCum, daskCumWith]
  | cons p ps => simp [daskCum, daskCumWith, finalize_lengths, chunkCum, pandasCum_length]

/-- the four operations dask uses are associative and commutative -/
theorem op_ac (op : Op) : AC op.app := by
  cases op
  · exact ⟨fun a b c => by simp [Op.app]; omega, fun a b => by simp [Op.app]; omega⟩
  · exact ⟨fun a b c => by simp [Op.app, Int.mul_assoc], fun a b => by simp [Op.app, Int.mul_comm]⟩
  · constructor
    · intro a b c; simp only [Op.app]; repeat' split
      all_goals omega
    · intro a b; simp only [Op.app]; repeat' split
      all_goals omega
  · constructor
    · intro a b c; simp only [Op.app]; repeat' split
      all_goals omega
    · intro a b; simp only [Op.app]; repeat' split
      all_goals omega

/-- `cum_eq_pandas` for cumsum / cumprod / cummax / cummin -/
theorem cum_eq_pandas_ops (op : Op) (skipna : Bool) (parts : List (List Cell)) :
    (daskCum op.app skipna parts).flatten = pandasCum op.app skipna parts.flatten :=
  cum_eq_pandas (op_ac op) skipna parts

/-- non-vacuity / regression witnesses: the inputs of DESIGN.md §6 #24 and of the two follow-up fixes -/
example : daskCum Op.max.app true [[none], [some 3]] = [[none], [some 3]] := by decide
example : daskCum Op.max.app true [[none], [none], [some 3], [some 2]] = [[none], [none], [some 3], [some 3]] := by decide
example : daskCum Op.max.app false [[some 1], [none], [some 2]] = [[some 1], [none], [none]] := by decide
example : daskCum Op.sum.app false [[], [some 1], [some 2], [some 3]] = [[], [some 1], [some 3], [some 6]] := by decide

/-! ### one column of the DataFrame path (no `None` rule in `TakeLast`) -/

/-- refuted: a column that is all-NA in an earlier partition poisons the rest (skipna=True) -/
theorem cum_df_refuted :
    ¬ ∀ (parts : List (List Cell)),
        (daskCumDF Op.sum.app true parts).flatten = pandasCum Op.sum.app true parts.flatten := by
  intro h
  have := h [[none], [some 1]]
  revert this
  decide

theorem finalize_congr (f) (skipna : Bool) (tl tl' : Bool → List Cell → Option Cell) (ps : List (List Cell))
    (inter : Option Cell) (h : ∀ p ∈ ps, tl skipna (chunkCum f skipna p) = tl' skipna (chunkCum f skipna p)) :
    finalize f skipna tl inter ps = finalize f skipna tl' inter ps := by
  induction ps generalizing inter with
  | nil => simp [finalize]
  | cons p ps ih =>
    simp only [finalize]
    rw [h p (by simp), ih _ (fun q hq => h q (by simp [hq]))]

/-- partial: the DataFrame column path agrees with pandas when, for skipna=True, no non-empty
    partition is all-NA in the column — the complement of finding `cumdf:allna-column-partition-skipna`. -/
theorem cum_df_partial {f} (h : AC f) (skipna : Bool) (parts : List (List Cell))
    (hv : ∀ p ∈ parts, skipna = true → p ≠ [] → lastValid p ≠ none) :
    (daskCumDF f skipna parts).flatten = pandasCum f skipna parts.flatten := by
  have key : ∀ p ∈ parts, takeLastDF skipna (chunkCum f skipna p) = takeLast skipna (chunkCum f skipna p) := by
    intro p hp
    by_cases hne : p = []
    · subst hne
      cases skipna <;> simp [takeLastDF, takeLast, chunkCum, pandasCum, cumSkip, cumNo]
    have hval := hv p hp
    have hlen : (chunkCum f skipna p) ≠ [] := by
      intro he
      have := pandasCum_length f skipna p
      simp only [chunkCum] at he
      rw [he] at this
      exact hne (List.length_eq_zero_iff.mp this.symm)
    have hemp : (chunkCum f skipna p).isEmpty = false := by
      cases hc : chunkCum f skipna p with
      | nil => exact absurd hc hlen
      | cons _ _ => rfl
    cases skipna with
    | false => simp [takeLastDF, takeLast, hemp]
    | true =>
      have hlv : lastValid (chunkCum f true p) ≠ none := by
        simp only [chunkCum, pandasCum, if_true]
        rw [lastValid_cumSkip]
        cases hl : lastValid p with
        | none => exact absurd hl (hval rfl hne)
        | some w =>
          have := stateSkip_isSome_of_lastValid f none p w hl
          intro hcon
          simp only at hcon
          rw [hcon] at this
          simp at this
      have hall : ¬ ((chunkCum f true p).all Option.isNone = true) := fun ha =>
        hlv ((all_isNone_iff_lastValid _).mp ha)
      simp [takeLastDF, takeLast, hemp, hall]
  rw [← cum_eq_pandas h skipna parts]
  cases parts with
  | nil => simp [daskCumDF, daskCum, daskCumWith]
  | cons p ps =>
    simp only [daskCumDF, daskCum, daskCumWith]
    rw [key p (by simp), finalize_congr f skipna takeLastDF takeLast ps _ (fun q hq => key q (by simp [hq]))]

example : ∀ p ∈ [[some 1, none], [], [none, some 2]], true = true → p ≠ [] → lastValid p ≠ none := by decide

end cumulative

/-! ## overlap -/
section overlap
open Dask.Overlap

theorem overlapChunk_trim (func : List α → List β) (b a : Nat) (combined : List α) (pl nl : Option Nat)
    (hlen : (func combined).length = combined.length) :
    overlapChunk func b a (combined, pl, nl) =
      ((func combined).take ((func combined).length - (match nl with | none => 0 | some _ => a))).drop
        (match pl with | none => 0 | some _ => b) := by
  unfold overlapChunk
  by_cases hc : combined.length = 0
  · have : func combined = [] := List.length_eq_zero_iff.mp (by omega)
    cases pl <;> cases nl <;> simp [this]
  · have hexp : (func combined).length / combined.length = 1 := by
      rw [hlen]; exact Nat.div_self (by omega)
    cases pl <;> cases nl <;> simp [hc, hexp]

theorem trim_mid (A B C : List β) :
    ((A ++ B ++ C).take ((A ++ B ++ C).length - C.length)).drop A.length = B := by
  have : (A ++ B ++ C).length - C.length = (A ++ B).length := by simp only [List.length_append]; omega
  rw [this, List.take_left' rfl, List.drop_left' rfl]

/-- one partition: trimming the function of the extended partition gives the rows of the partition
    computed in the context of its neighbours' tail/head -/
theorem overlapChunk_win (b a : Nat) (g : List α → α → List α → β) (prev next : Option (List α)) (cur : List α)
    (hp : sizeOK prev b = true) (hn : sizeOK next a = true) :
    overlapChunk (winFn b a g) b a (prev.getD [] ++ cur ++ next.getD [], lenOrNone prev, lenOrNone next)
      = win b a g (prev.getD []) cur (next.getD []) := by
  rw [overlapChunk_trim _ _ _ _ _ _ (by simp [winFn, win_length])]
  have hsplit : winFn b a g (prev.getD [] ++ cur ++ next.getD []) =
      win b a g [] (prev.getD []) (cur ++ next.getD []) ++ win b a g (prev.getD []) cur (next.getD [])
        ++ win b a g (prev.getD [] ++ cur) (next.getD []) [] := by
    simp only [winFn]
    rw [win_append, win_append]
    simp
  rw [hsplit]
  have hb : (match lenOrNone prev with | none => 0 | some _ => b)
      = (win b a g [] (prev.getD []) (cur ++ next.getD [])).length := by
    rw [win_length]
    cases prev with
    | none => simp [lenOrNone]
    | some p =>
      simp only [sizeOK, beq_iff_eq] at hp
      by_cases h0 : p.length > 0
      · have hb0 : 0 < b := by omega
        simp [lenOrNone, hp, hb0]
      · simp [lenOrNone, h0]; omega
  have ha : (match lenOrNone next with | none => 0 | some _ => a)
      = (win b a g (prev.getD [] ++ cur) (next.getD []) []).length := by
    rw [win_length]
    cases next with
    | none => simp [lenOrNone]
    | some n =>
      simp only [sizeOK, beq_iff_eq] at hn
      by_cases h0 : n.length > 0
      · have ha0 : 0 < a := by omega
        simp [lenOrNone, hn, ha0]
      · simp [lenOrNone, h0]; omega
  rw [hb, ha]
  exact trim_mid _ _ _

theorem sizeOK_prevOf (b : Nat) (pp : Option (List α)) (h : ∀ q, pp = some q → b = 0 ∨ b ≤ q.length) :
    sizeOK (prevOf b pp) b = true := by
  unfold prevOf
  by_cases hb : b = 0
  · simp [hb, sizeOK]
  · cases pp with
    | none => simp [hb, sizeOK]
    | some q =>
      have := h q rfl
      simp [hb, sizeOK, lastN_length b q (by omega)]

theorem sizeOK_nextOf (a : Nat) (rest : List (List α)) (h : ∀ n more, rest = n :: more → a = 0 ∨ a ≤ n.length) :
    sizeOK (nextOf a rest) a = true := by
  unfold nextOf
  by_cases ha : a = 0
  · simp [ha, sizeOK]
  · cases rest with
    | nil => simp [ha, sizeOK]
    | cons n more =>
      have := h n more rfl
      simp [ha, sizeOK]; omega

theorem go_spec (b a : Nat) (g : List α → α → List α → β) :
    ∀ (parts : List (List α)) (pp : Option (List α)) (pre : List α),
      (∀ l, lastN b (pre ++ l) = lastN b ((prevOf b pp).getD [] ++ l)) →
      (∀ q, pp = some q → parts ≠ [] → b = 0 ∨ b ≤ q.length) →
      sideOK b a parts = true →
      ∃ out, goOverlap (winFn b a g) b a pp parts = some out ∧
        out.flatten = win b a g pre parts.flatten [] ∧ out.map List.length = parts.map List.length := by
  intro parts
  induction parts with
  | nil => intro pp pre _ _ _; exact ⟨[], by simp [goOverlap, win]⟩
  | cons cur rest ih =>
    intro pp pre hctx hpp hside
    have hside' : (∀ n more, rest = n :: more → (b = 0 ∨ b ≤ cur.length) ∧ (a = 0 ∨ a ≤ n.length)) ∧
        sideOK b a rest = true := by
      cases rest with
      | nil => simp [sideOK]
      | cons n more =>
        simp only [sideOK, Bool.and_eq_true, Bool.or_eq_true, beq_iff_eq, decide_eq_true_eq] at hside
        refine ⟨?_, hside.2⟩
        intro n' more' heq
        cases heq
        exact ⟨hside.1.1, hside.1.2⟩
    obtain ⟨hnb, hsrest⟩ := hside'
    have hokp : sizeOK (prevOf b pp) b = true := sizeOK_prevOf b pp (fun q hq => hpp q hq (by simp))
    have hokn : sizeOK (nextOf a rest) a = true := sizeOK_nextOf a rest (fun n more h => (hnb n more h).2)
    -- the recursive call
    have hrec : ∃ r, goOverlap (winFn b a g) b a (some cur) rest = some r ∧
        r.flatten = win b a g (pre ++ cur) rest.flatten [] ∧ r.map List.length = rest.map List.length := by
      cases rest with
      | nil => exact ⟨[], by simp [goOverlap, win]⟩
      | cons n more =>
        have hlen : b = 0 ∨ b ≤ cur.length := (hnb n more rfl).1
        apply ih (some cur) (pre ++ cur) _ (fun q hq _ => by cases hq; exact hlen) hsrest
        intro l
        by_cases hb : b = 0
        · simp [hb, lastN_zero]
        · have hlen' : b ≤ cur.length := by omega
          simp only [prevOf, hb, if_false, Option.map_some, Option.getD_some]
          rw [← lastN_lastN_append b (pre ++ cur) l, lastN_append_of_le b pre cur hlen']
    obtain ⟨r, hr, hrflat, hrlen⟩ := hrec
    refine ⟨overlapChunk (winFn b a g) b a
        ((prevOf b pp).getD [] ++ cur ++ (nextOf a rest).getD [], lenOrNone (prevOf b pp), lenOrNone (nextOf a rest)) :: r,
      ?_, ?_, ?_⟩
    · simp [goOverlap, combinedParts, hokp, hokn, hr]
    · rw [List.flatten_cons, overlapChunk_win b a g _ _ cur hokp hokn, hrflat, List.flatten_cons, win_append]
      congr 1
      apply win_ctx
      · intro l; exact (hctx l).symm
      · intro l
        cases rest with
        | nil => simp [nextOf]
        | cons n more =>
          by_cases ha : a = 0
          · simp [ha]
          · have := (hnb n more rfl).2
            simp only [nextOf, ha, if_false, Option.getD_some, List.flatten_cons, List.append_nil]
            exact (take_append_take a l n more.flatten (by omega)).symm
    · rw [List.map_cons, overlapChunk_win b a g _ _ cur hokp hokn, win_length, hrlen, List.map_cons]

/-- **C46 (overlap)**: on every partitioning that is large enough (`sideOK`, exactly the condition
    the code checks), `MapOverlap(before=b, after=a)` of a `(b,a)`-local row function is that
    function of the concatenated frame, partition lengths preserved. -/
theorem overlap_local_eq_global (b a : Nat) (g : List α → α → List α → β) (parts : List (List α))
    (hside : sideOK b a parts = true) :
    ∃ out, mapOverlap (winFn b a g) b a parts = some out ∧
      out.flatten = winFn b a g parts.flatten ∧ out.map List.length = parts.map List.length := by
  unfold mapOverlap winFn
  apply go_spec b a g parts none []
  · intro l; simp [prevOf]
  · intro q hq; cases hq
  · exact hside

/-- the code raises exactly when the partitioning is too small for the overlap (any function) -/
theorem go_some_sideOK (func : List α → List β) (b a : Nat) :
    ∀ (parts : List (List α)) (pp : Option (List α)) (out : List (List β)),
      goOverlap func b a pp parts = some out →
      sideOK b a parts = true ∧ (∀ q, pp = some q → parts ≠ [] → b = 0 ∨ b ≤ q.length) := by
  intro parts
  induction parts with
  | nil => intro pp out _; simp [sideOK]
  | cons cur rest ih =>
    intro pp out hgo
    simp only [goOverlap] at hgo
    cases hc : combinedParts b a (prevOf b pp) cur (nextOf a rest) with
    | none => simp [hc] at hgo
    | some c =>
      cases hr : goOverlap func b a (some cur) rest with
      | none => simp [hc, hr] at hgo
      | some r =>
        obtain ⟨hsr, hcur⟩ := ih (some cur) r hr
        have hok : sizeOK (prevOf b pp) b = true ∧ sizeOK (nextOf a rest) a = true := by
          unfold combinedParts at hc
          by_cases h1 : sizeOK (prevOf b pp) b = true <;> by_cases h2 : sizeOK (nextOf a rest) a = true <;>
            simp [h1, h2] at hc ⊢
        constructor
        · cases rest with
          | nil => simp [sideOK]
          | cons n more =>
            have h1 := hcur cur rfl (by simp)
            have h2 : a = 0 ∨ a ≤ n.length := by
              by_cases ha : a = 0
              · exact Or.inl ha
              · right
                have := hok.2
                simp only [nextOf, ha, if_false, sizeOK, beq_iff_eq, List.length_take] at this
                omega
            simp only [sideOK, Bool.and_eq_true, Bool.or_eq_true, beq_iff_eq, decide_eq_true_eq]
            exact ⟨⟨h1, h2⟩, hsr⟩
        · intro q hq _
          by_cases hb : b = 0
          · exact Or.inl hb
          · right
            subst hq
            have := hok.1
            simp only [prevOf, hb, if_false, Option.map_some, sizeOK, beq_iff_eq] at this
            by_cases hlt : q.length < b
            · exact absurd this (lastN_length_lt b q hlt)
            · omega

theorem mapOverlap_isSome_iff (b a : Nat) (g : List α → α → List α → β) (parts : List (List α)) :
    (mapOverlap (winFn b a g) b a parts).isSome = sideOK b a parts := by
  cases hs : sideOK b a parts with
  | true =>
    obtain ⟨out, hout, _⟩ := overlap_local_eq_global b a g parts hs
    simp [hout]
  | false =>
    cases hm : mapOverlap (winFn b a g) b a parts with
    | none => rfl
    | some out =>
      have := (go_some_sideOK (winFn b a g) b a parts none out hm).1
      rw [hs] at this
      exact absurd this (by simp)

/-- non-vacuity: a partitioning that satisfies the side condition with a window crossing both
    boundaries, and one that does not -/
example : sideOK 2 1 [[1, 2, 3], [4, 5], [6]] = true := by decide
example : sideOK 2 0 [[1], [2, 3]] = false := by decide
example : mapOverlap (winFn 2 0 (gShiftBack 2)) 2 0 [[some 1, some 2, some 3], [some 4, some 5], [some 6]]
    = some [[none, none, some 1], [some 2, some 3], [some 4]] := by decide

end overlap
end Dask.C46
