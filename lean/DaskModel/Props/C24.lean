import DaskModel.Model.Structural
import DaskModel.Lemmas.StructuralLemmas
import DaskModel.Lemmas.PadLemmas
import DaskModel.Generated.ChunkTolerance
/-!
# C24 — structural array operations equal NumPy (theorems)

One axis at a time (the n-d operations are products of the one-axis plans; the n-d behaviour and
everything not modelled — transpose, squeeze/expand_dims, stack/block, broadcast_to, rot90, take/shuffle,
tile, tril/triu, diff, statistics/edge/constant/linear_ramp pads, the full `reshape_rechunk` — is
validated against NumPy by harness/props/c24.py).
-/
namespace Dask.C24
open Dask.Chunks Dask.Structural

/-- **concat_den** (one axis): the blocks `concatenate` wires together, in output order, are the
    chunking `sum(chunks_i, ())` of the concatenated data. -/
theorem concat_den {α} : ∀ (css : List (List Nat)) (xss : List (List α)),
    css.length = xss.length → (∀ p ∈ css.zip xss, p.2.length = sum p.1) →
    (List.zipWith splitBy css xss).flatten = splitBy (concatChunks css) xss.flatten
  | [], [], _, _ => by simp [concatChunks, splitBy]
  | [], _ :: _, h, _ => by simp at h
  | _ :: _, [], h, _ => by simp at h
  | cs :: css, xs :: xss, h, hl => by
    simp only [List.zipWith_cons_cons, List.flatten_cons, concatChunks]
    have h0 : xs.length = sum cs := hl (cs, xs) (by simp)
    rw [splitBy_append cs css.flatten xs xss.flatten h0]
    congr 1
    exact concat_den css xss (by simpa using h) (fun p hp => hl p (by simp [hp]))

theorem concat_blocks {α} (blockss : List (List (List α))) : concatBlocks blockss = blockss.flatten := by
  unfold concatBlocks concatPlan
  exact map_blockOf_eq_flatten [] blockss


example : concatPlan [2, 1, 3] 3 = some (2, 0) := by rfl
example : concatBlocks [[[1, 2], [3]], [[4]]] = [[1, 2], [3], [4]] := by rfl

/-- **roll_den**: `concatenate([x[s:], x[:s]])` with `s = -shift % n` is NumPy's `roll` (`out[p] = x[(p - shift) mod n]`), for every shift and length. -/
theorem roll_den {α} [Inhabited α] (xs : List α) (shift : Int) : roll xs shift = rollSpec xs shift := by
  unfold roll rollSpec
  by_cases hn : xs.length = 0
  · have : xs = [] := List.eq_nil_of_length_eq_zero hn
    subst this; simp [pySlice, pyBound]
  · simp only [hn, if_false]
    have hnpos : (0 : Int) < xs.length := by omega
    rw [Int.fmod_eq_emod_of_nonneg _ (Int.le_of_lt hnpos)]
    have hk0 := Int.emod_nonneg (-shift) (show (xs.length : Int) ≠ 0 by omega)
    have hk1 := Int.emod_lt_of_pos (-shift) hnpos
    generalize hk : (-shift) % (xs.length : Int) = k at *
    obtain ⟨K, rfl⟩ := Int.eq_ofNat_of_zero_le hk0
    have hK : K < xs.length := by omega
    simp only [pySlice, pyBound_of_range xs.length K (by omega), Nat.sub_zero, List.drop_zero]
    rw [List.take_of_length_le (by simp)]
    apply List.ext_getElem
    · simp; omega
    · intro p h1 h2
      simp only [List.length_map, List.length_range] at h2
      simp only [List.getElem_map, List.getElem_range]
      have hidx : (Int.fmod ((p : Int) - shift) (xs.length : Int)).toNat = if p + K < xs.length then p + K else p + K - xs.length := by
        rw [Int.fmod_eq_emod_of_nonneg _ (Int.le_of_lt hnpos)]
        have : (p : Int) - shift = (p : Int) + -shift := by omega
        rw [this, ← Int.add_emod_emod, hk, emod_wrap _ _ hnpos (by omega) (by omega)]
        split <;> split <;> omega
      rw [hidx]
      by_cases hp : p < xs.length - K
      · rw [List.getElem_append_left (by simp; omega)]
        have : p + K < xs.length := by omega
        simp only [this, if_true, List.getElem_drop, List.getD_eq_getElem?_getD]
        rw [List.getElem?_eq_getElem (by omega)]
        simp [Nat.add_comm]
      · rw [List.getElem_append_right (by simp; omega)]
        have : ¬ (p + K < xs.length) := by omega
        simp only [this, if_false, List.length_drop, List.getElem_take, List.getD_eq_getElem?_getD]
        rw [List.getElem?_eq_getElem (by omega)]
        simp only [Option.getD_some]
        congr 1; omega

example : roll [1, 2, 3, 4, 5] 2 = [4, 5, 1, 2, 3] := by rfl

/-- **repeat_den**: repeating slab by slab and concatenating is repeating the whole axis, however `repeat` cuts the chunks into slabs. -/
theorem repeat_den {α} (slabs : List (List α)) (r : Nat) :
    repeatSlabs slabs r = (slabs.flatten).flatMap (fun x => List.replicate r x) := by
  unfold repeatSlabs
  induction slabs with
  | nil => rfl
  | cons s ss ih => simp only [List.map_cons, List.flatten_cons, List.flatMap_append, ih]


/-- **pad_reuse_den** (full): for every pad width — also wider than the axis — the pieces `pad_reuse` concatenates on
    each side are NumPy's periodic extension (`np.pad` mode reflect / symmetric / wrap). -/
theorem pad_reuse_den {α} [Inhabited α] (mode : PadMode) (xs : List α) (l r : Nat)
    (h : 0 < xs.length ∨ (l = 0 ∧ r = 0)) : padReuse mode xs l r = some (padSpec mode xs l r) := by
  unfold padReuse
  by_cases h0 : l = 0 ∧ r = 0
  · obtain ⟨rfl, rfl⟩ := h0
    simp only [and_self, if_true]
    congr 1
    unfold padSpec
    simp only [Nat.zero_add, Nat.add_zero]
    by_cases hn : 0 < xs.length
    · conv => lhs; rw [self_eq_map_range xs]
      apply List.map_congr_left
      intro i hi
      have hi : i < xs.length := by simpa using hi
      have := padIndex_mid mode xs.length i hi
      simp only [Int.natCast_zero, Int.sub_zero]
      rw [this]
    · have : xs = [] := List.eq_nil_of_length_eq_zero (by omega)
      subst this; rfl
  · rw [if_neg h0]
    have hn : 0 < xs.length := by rcases h with h | h; exact h; exact absurd h h0
    rw [if_neg (by omega)]
    congr 1
    unfold padSpec
    rw [range3, padSide_before mode xs hn l, padSide_after mode xs hn r]
    congr 1
    · congr 1
      conv => lhs; rw [self_eq_map_range xs]
      apply List.map_congr_left
      intro i hi
      have hi : i < xs.length := by simpa using hi
      have e : ((l + i : Nat) : Int) - (l : Int) = (i : Int) := by omega
      rw [e, padIndex_mid mode _ _ hi]
    · apply List.map_congr_left
      intro q _
      congr 2
      omega

example : padReuse .reflect [1, 2, 3] 2 2 = some [3, 2, 1, 2, 3, 2, 1] := by decide
example : padSpec .symmetric [1, 2, 3] 2 3 = [2, 1, 1, 2, 3, 3, 2, 1] := by rfl
/-- the former defect (DESIGN.md §6 #16): a pad wider than the axis — `pad_reuse` used to return 3 elements here -/
example : padReuse .symmetric [(1 : Int)] 3 3 = some [1, 1, 1, 1, 1, 1, 1] := by decide
example : padReuse .wrap [1, 2, 3] 4 7 = some [3, 1, 2, 3, 1, 2, 3, 1, 2, 3, 1, 2, 3, 1] := by decide
example : padReuse .wrap ([] : List Int) 1 0 = none := by decide

/-- **expand_tuple_spec**: the `assert sum(chunks) == sum(out)` of `expand_tuple` never fires, and no empty chunk is produced -/
theorem expand_tuple_spec (cs : List Nat) (f : Nat) (hf : 0 < f) :
    sum (expandTuple cs f) = sum cs ∧ ((∀ c ∈ cs, 0 < c) → ∀ y ∈ expandTuple cs f, 0 < y) := by
  unfold expandTuple
  split
  · exact ⟨rfl, fun h => h⟩
  · constructor
    · induction cs with
      | nil => rfl
      | cons c cs ih => simp only [List.flatMap_cons, sum_append, sum_cons, expandLoop_sum, ih]
    · intro _ y hy
      obtain ⟨c, _, hc⟩ := List.mem_flatMap.1 hy
      exact expandLoop_pos c f hf c c y hc


example : expandTuple [7, 4] 3 = [2, 2, 3, 1, 1, 2] := by rfl

/-- **contract_tuple_spec**: same total, every element a positive multiple of `factor`. -/
theorem contract_tuple_spec {cs : List Nat} {f : Nat} {r : List Nat} (h : contractTuple cs f = some r) :
    sum r = sum cs ∧ ∀ y ∈ r, f ∣ y ∧ 0 < y := by
  unfold contractTuple at h
  split at h
  · cases h
  · split at h
    · cases h
    · rename_i hm
      injection h with h; subst h
      have := contractLoop_sum f (by omega) cs 0 (by omega)
      simp only [Nat.zero_add] at this
      have hm' : sum cs % f = 0 := by omega
      exact ⟨by omega, contractLoop_dvd f cs 0⟩

example : contractTuple [2, 2, 8, 4] 4 = some [4, 8, 4] := by rfl

/-- **reshape_merge_den**: when the input is chunked by whole rows (the post-condition `reshape_rechunk` must deliver,
    checked on its real outputs), reshaping `(R, m) → (R*m,)` block by block in C order is the chunking
    `(c*m for c in row_chunks)` of the flattened array: the C-order linear index is preserved. -/
theorem reshape_merge_den {α} (m : Nat) : ∀ (cs : List Nat) (rows : List (List α)), (∀ r ∈ rows, r.length = m) →
    reshapeMergeBlocks cs rows = splitBy (cs.map (· * m)) rows.flatten
  | [], rows, _ => by simp [reshapeMergeBlocks, splitBy]
  | c :: cs, rows, h => by
    obtain ⟨i1, i2⟩ := flatten_take_rows m rows c h
    have ih := reshape_merge_den m cs (rows.drop c) (fun r hr => h r (List.mem_of_mem_drop hr))
    simp only [reshapeMergeBlocks, splitBy, List.map_cons] at ih ⊢
    rw [i1, ih, i2]

/-- **shuffle_den** (`take` / `shuffle`, one output chunk): per source chunk a fancy `getitem` with the local positions of
    the *sorted* taker, concatenation, then `take(…, argsort(sorter))` puts element `taker[p]` of the axis at position
    `p` — for every old chunking and every taker (duplicates, any order). -/
theorem shuffle_den {α} [Inhabited α] (old : List Nat) (xs : List α) (T : List Nat) (hT : ∀ g ∈ T, g < sum old) :
    shuffleChunk old (splitBy old xs) T = T.map (fun g => xs.getD g default) := by
  -- the concatenated pieces are the data at the sorted positions
  have hsorted_mem : ∀ g ∈ (sortPairs T).map (·.1), g < sum old := by
    intro g hg
    obtain ⟨pr, hpr, rfl⟩ := List.mem_map.1 hg
    have := (mem_sortPairs T pr).1 hpr
    exact hT _ (List.mem_of_getElem? this)
  have hmerged : (runsBy (sourceOf old) ((sortPairs T).map (·.1))).flatMap
      (fun cr => cr.2.map (fun g => ((splitBy old xs).getD cr.1 []).getD (g - blockStart old cr.1) default))
      = ((sortPairs T).map (·.1)).map (fun g => xs.getD g default) := by
    conv => rhs; rw [← runsBy_flatten (sourceOf old) ((sortPairs T).map (·.1))]
    rw [List.map_flatMap]
    apply flatMap_congr'
    intro cr hcr
    apply List.map_congr_left
    intro g hg
    have hk := runsBy_key _ _ cr hcr g hg
    have hgm : g ∈ (sortPairs T).map (·.1) := by
      rw [← runsBy_flatten (sourceOf old) ((sortPairs T).map (·.1))]
      exact List.mem_flatMap.2 ⟨cr, hcr, hg⟩
    rw [← hk]
    exact block_read old xs g (hsorted_mem g hgm)
  unfold shuffleChunk
  dsimp only
  rw [hmerged]
  apply List.ext_getElem
  · simp
  · intro p h1 h2
    simp only [List.length_map, List.length_range] at h1
    simp only [List.getElem_map, List.getElem_range]
    -- position of `p` in the sorter
    have hpm : (T[p], p) ∈ sortPairs T := (mem_sortPairs T (T[p], p)).2 (by simp [List.getElem?_eq_getElem h1])
    have hps : p ∈ (sortPairs T).map (·.2) := List.mem_map.2 ⟨_, hpm, rfl⟩
    have hi := List.idxOf_lt_length_of_mem hps
    have hget := List.getElem_idxOf hi
    generalize hidx : List.idxOf p (List.map (fun x => x.2) (sortPairs T)) = i at *
    have hi' : i < (sortPairs T).length := by simpa using hi
    have hpair := (mem_sortPairs T (sortPairs T)[i]).1 (List.getElem_mem hi')
    simp only [List.getElem_map] at hget
    rw [hget, List.getElem?_eq_getElem h1] at hpair
    injection hpair with hpair
    rw [List.getD_eq_getElem?_getD, List.getElem?_map, List.getElem?_map, List.getElem?_eq_getElem hi']
    simp [← hpair]

example : shuffleChunk [2, 3] (splitBy [2, 3] [10, 11, 12, 13, 14]) [4, 0, 4, 2] = [14, 10, 14, 12] := by decide

/-- the grouping loop of `_shuffle` loses / reorders nothing (whatever the size limit and tolerance) and
    never emits an empty chunk -/
theorem packGroups_flatten (limit tn td : Nat) (groups : List (List Nat)) (cur : List Nat) :
    (packGroups limit tn td cur groups).flatten = cur ++ groups.flatten ∧
    ∀ c ∈ packGroups limit tn td cur groups, c ≠ [] := packGroups_spec limit tn td groups cur

/-- …in particular with the tolerance the code reads from dask.yaml (extracted on every run) -/
theorem packGroups_flatten_extracted (limit : Nat) (groups : List (List Nat)) :
    (packGroups limit Dask.Generated.ChunkTolerance.tolNum Dask.Generated.ChunkTolerance.tolDen [] groups).flatten
      = groups.flatten := by
  simpa using (packGroups_flatten limit _ _ groups []).1

/-- **reshape_merge_ones_den**: the other plan `reshape_rechunk` uses for a merge ("all the lower axes are completely
    chunked: we're simply moving around blocks"): every row its own chunk, columns chunked `cc` arbitrarily; the
    output chunks are `cc` repeated once per row and block `(i, j)` lands at position `i*len(cc) + j`. -/
theorem reshape_merge_ones_den {α} (cc : List Nat) (rows : List (List α)) (h : ∀ r ∈ rows, r.length = sum cc) :
    reshapeMergeOnesBlocks cc rows = splitBy ((List.replicate rows.length cc).flatten) rows.flatten :=
  reshape_merge_ones_aux cc rows h

example : reshapeMergeOnesBlocks [2, 1] [[1, 2, 3], [4, 5, 6]] = [[1, 2], [3], [4, 5], [6]] := by rfl

end Dask.C24
