import DaskModel.Model.Structural
import DaskModel.Lemmas.StructuralLemmas
import DaskModel.Lemmas.PadLemmas
import DaskModel.Lemmas.ShufflePlanLemmas
import DaskModel.Lemmas.ReshapeGroupsLemmas
import DaskModel.Lemmas.ReshapeWalkInv
import DaskModel.Lemmas.StructuralOpsLemmas
import DaskModel.Lemmas.StructuralCatLemmas
import DaskModel.Lemmas.StructuralNdLemmas
import DaskModel.Generated.ChunkTolerance
/-!
# C24 — structural array operations equal NumPy (theorems)

* one-axis plans on lists of blocks: `concat_den`, `roll_den`, `repeat_den`, `pad_reuse_den`, `flip1d_den`, `tile_den`, `diff_den`;
* `_shuffle` as a whole and `slicing.take`: `shuffle_den`, `packGroups_flatten`, `shuffle_noop_iff_identity`,
  `shuffle_blocks_den`, `take_den` (+ totality);
* `reshape`: `expand_tuple_spec`, `contract_tuple_spec`, the two 2-d plans `reshape_merge_den` / `reshape_merge_ones_den`, and the
  general n-d statement `reshape_blocks_den` / `reshape_rechunk_groupsOK` / `reshape_den`;
* blockwise / key-map plans on 2-d block tables: `transpose_den` (n-d with any permutation: `transpose_nd_den`), `flip_den`, `rot90_den`, `tril_den`, `triu_den`, `stack_den`,
  `broadcast_to_den`, `squeeze_expand_den` (+ `expand_dims_plan`), `concat2d_den`, `block_den`, `tile2d_den`; constant pad `pad_const_den`.
Not proved (validated against NumPy by harness/props/c24.py): n-d versions of the 2-d / 1-d plans (product structure),
squeeze (integer indexing: slicing group), block / tile with nested lists (nested `concatenate`), statistics / edge / constant /
linear_ramp pads, `repeat`'s slab cutting, `_rechunk_other_dimensions` of `shuffle`, `x.rechunk(result_inchunks)` (C23).
-/
namespace Dask.C24
open Dask.Chunks Dask.Structural Dask.Reshape

/-- **concat_den** (one axis): the blocks `concatenate` wires together, in output order, are the
    chunking `sum(chunks_i, ())` of the concatenated data. -/
theorem concat_den {α} : ∀ (css : List (List Nat)) (xss : List (List α)),
    css.length = xss.length → (∀ p ∈ css.zip xss, p.2.length = sum p.1) →
    (List.zipWith splitBy css xss).flatten = splitBy (concatChunks css) xss.flatten
  | [], [], _, _ => by simp [concatChunks, splitBy]
  | [], _ :: _, h, _ => by simp at h
  | _ :: _, [], h, _ => by simp at h
  | cs :: css, xs :: xss, h, hl => by
    simp only [List.zipWith_cons_cons, List.flatten_cons, concatChunks]
    have h0 : xs.length = sum cs := hl (cs, xs) (by simp)
    rw [splitBy_append cs css.flatten xs xss.flatten h0]
    congr 1
    exact concat_den css xss (by simpa using h) (fun p hp => hl p (by simp [hp]))

theorem concat_blocks {α} (blockss : List (List (List α))) : concatBlocks blockss = blockss.flatten := by
  unfold concatBlocks concatPlan
  exact map_blockOf_eq_flatten [] blockss


/-- non-vacuity of `concat_den`: two arrays chunked `(2, 1)` and `(3,)` -/
example : (List.zipWith splitBy [[2, 1], [3]] [[1, 2, 3], [4, 5, 6]]).flatten = splitBy (concatChunks [[2, 1], [3]]) [1, 2, 3, 4, 5, 6] :=
  concat_den [[2, 1], [3]] [[1, 2, 3], [4, 5, 6]] rfl (by decide)
example : concatPlan [2, 1, 3] 3 = some (2, 0) := by rfl
example : concatBlocks [[[1, 2], [3]], [[4]]] = [[1, 2], [3], [4]] := by rfl

/-- **roll_den**: `concatenate([x[s:], x[:s]])` with `s = -shift % n` is NumPy's `roll` (`out[p] = x[(p - shift) mod n]`), for every shift and length. -/
theorem roll_den {α} [Inhabited α] (xs : List α) (shift : Int) : roll xs shift = rollSpec xs shift := by
  unfold roll rollSpec
  by_cases hn : xs.length = 0
  · have : xs = [] := List.eq_nil_of_length_eq_zero hn
    subst this; simp [pySlice, pyBound]
  · simp only [hn, if_false]
    have hnpos : (0 : Int) < xs.length := by omega
    rw [Int.fmod_eq_emod_of_nonneg _ (Int.le_of_lt hnpos)]
    have hk0 := Int.emod_nonneg (-shift) (show (xs.length : Int) ≠ 0 by omega)
    have hk1 := Int.emod_lt_of_pos (-shift) hnpos
    generalize hk : (-shift) % (xs.length : Int) = k at *
    obtain ⟨K, rfl⟩ := Int.eq_ofNat_of_zero_le hk0
    have hK : K < xs.length := by omega
    simp only [pySlice, pyBound_of_range xs.length K (by omega), Nat.sub_zero, List.drop_zero]
    rw [List.take_of_length_le (by simp)]
    apply List.ext_getElem
    · simp; omega
    · intro p h1 h2
      simp only [List.length_map, List.length_range] at h2
      simp only [List.getElem_map, List.getElem_range]
      have hidx : (Int.fmod ((p : Int) - shift) (xs.length : Int)).toNat = if p + K < xs.length then p + K else p + K - xs.length := by
        rw [Int.fmod_eq_emod_of_nonneg _ (Int.le_of_lt hnpos)]
        have : (p : Int) - shift = (p : Int) + -shift := by omega
        rw [this, ← Int.add_emod_emod, hk, emod_wrap _ _ hnpos (by omega) (by omega)]
        split <;> split <;> omega
      rw [hidx]
      by_cases hp : p < xs.length - K
      · rw [List.getElem_append_left (by simp; omega)]
        have : p + K < xs.length := by omega
        simp only [this, if_true, List.getElem_drop, List.getD_eq_getElem?_getD]
        rw [List.getElem?_eq_getElem (by omega)]
        simp [Nat.add_comm]
      · rw [List.getElem_append_right (by simp; omega)]
        have : ¬ (p + K < xs.length) := by omega
        simp only [this, if_false, List.length_drop, List.getElem_take, List.getD_eq_getElem?_getD]
        rw [List.getElem?_eq_getElem (by omega)]
        simp only [Option.getD_some]
        congr 1; omega

example : roll [1, 2, 3, 4, 5] 2 = [4, 5, 1, 2, 3] := by rfl

/-- **repeat_den**: repeating slab by slab and concatenating is repeating the whole axis, however `repeat` cuts the chunks into slabs. -/
theorem repeat_den {α} (slabs : List (List α)) (r : Nat) :
    repeatSlabs slabs r = (slabs.flatten).flatMap (fun x => List.replicate r x) := by
  unfold repeatSlabs
  induction slabs with
  | nil => rfl
  | cons s ss ih => simp only [List.map_cons, List.flatten_cons, List.flatMap_append, ih]


/-- **pad_reuse_den** (full): for every pad width — also wider than the axis — the pieces `pad_reuse` concatenates on
    each side are NumPy's periodic extension (`np.pad` mode reflect / symmetric / wrap). -/
theorem pad_reuse_den {α} [Inhabited α] (mode : PadMode) (xs : List α) (l r : Nat)
    (h : 0 < xs.length ∨ (l = 0 ∧ r = 0)) : padReuse mode xs l r = some (padSpec mode xs l r) := by
  unfold padReuse
  by_cases h0 : l = 0 ∧ r = 0
  · obtain ⟨rfl, rfl⟩ := h0
    simp only [and_self, if_true]
    congr 1
    unfold padSpec
    simp only [Nat.zero_add, Nat.add_zero]
    by_cases hn : 0 < xs.length
    · conv => lhs; rw [self_eq_map_range xs]
      apply List.map_congr_left
      intro i hi
      have hi : i < xs.length := by simpa using hi
      have := padIndex_mid mode xs.length i hi
      simp only [Int.natCast_zero, Int.sub_zero]
      rw [this]
    · have : xs = [] := List.eq_nil_of_length_eq_zero (by omega)
      subst this; rfl
  · rw [if_neg h0]
    have hn : 0 < xs.length := by rcases h with h | h; exact h; exact absurd h h0
    rw [if_neg (by omega)]
    congr 1
    unfold padSpec
    rw [range3, padSide_before mode xs hn l, padSide_after mode xs hn r]
    congr 1
    · congr 1
      conv => lhs; rw [self_eq_map_range xs]
      apply List.map_congr_left
      intro i hi
      have hi : i < xs.length := by simpa using hi
      have e : ((l + i : Nat) : Int) - (l : Int) = (i : Int) := by omega
      rw [e, padIndex_mid mode _ _ hi]
    · apply List.map_congr_left
      intro q _
      congr 2
      omega

example : padReuse .reflect [1, 2, 3] 2 2 = some [3, 2, 1, 2, 3, 2, 1] := by decide
example : padSpec .symmetric [1, 2, 3] 2 3 = [2, 1, 1, 2, 3, 3, 2, 1] := by rfl
/-- the former defect (DESIGN.md §6 #16): a pad wider than the axis — `pad_reuse` used to return 3 elements here -/
example : padReuse .symmetric [(1 : Int)] 3 3 = some [1, 1, 1, 1, 1, 1, 1] := by decide
example : padReuse .wrap [1, 2, 3] 4 7 = some [3, 1, 2, 3, 1, 2, 3, 1, 2, 3, 1, 2, 3, 1] := by decide
example : padReuse .wrap ([] : List Int) 1 0 = none := by decide

/-- **expand_tuple_spec**: the `assert sum(chunks) == sum(out)` of `expand_tuple` never fires, and no empty chunk is produced -/
theorem expand_tuple_spec (cs : List Nat) (f : Nat) (hf : 0 < f) :
    sum (expandTuple cs f) = sum cs ∧ ((∀ c ∈ cs, 0 < c) → ∀ y ∈ expandTuple cs f, 0 < y) := by
  unfold expandTuple
  split
  · exact ⟨rfl, fun h => h⟩
  · constructor
    · induction cs with
      | nil => rfl
      | cons c cs ih => simp only [List.flatMap_cons, sum_append, sum_cons, expandLoop_sum, ih]
    · intro _ y hy
      obtain ⟨c, _, hc⟩ := List.mem_flatMap.1 hy
      exact expandLoop_pos c f hf c c y hc


example : expandTuple [7, 4] 3 = [2, 2, 3, 1, 1, 2] := by rfl

/-- **contract_tuple_spec**: same total, every element a positive multiple of `factor`. -/
theorem contract_tuple_spec {cs : List Nat} {f : Nat} {r : List Nat} (h : contractTuple cs f = some r) :
    sum r = sum cs ∧ ∀ y ∈ r, f ∣ y ∧ 0 < y := by
  unfold contractTuple at h
  split at h
  · cases h
  · split at h
    · cases h
    · rename_i hm
      injection h with h; subst h
      have := contractLoop_sum f (by omega) cs 0 (by omega)
      simp only [Nat.zero_add] at this
      have hm' : sum cs % f = 0 := by omega
      exact ⟨by omega, contractLoop_dvd f cs 0⟩

example : contractTuple [2, 2, 8, 4] 4 = some [4, 8, 4] := by rfl

/-- **reshape_merge_den**: when the input is chunked by whole rows (the post-condition `reshape_rechunk` must deliver,
    checked on its real outputs), reshaping `(R, m) → (R*m,)` block by block in C order is the chunking
    `(c*m for c in row_chunks)` of the flattened array: the C-order linear index is preserved. -/
theorem reshape_merge_den {α} (m : Nat) : ∀ (cs : List Nat) (rows : List (List α)), (∀ r ∈ rows, r.length = m) →
    reshapeMergeBlocks cs rows = splitBy (cs.map (· * m)) rows.flatten
  | [], rows, _ => by simp [reshapeMergeBlocks, splitBy]
  | c :: cs, rows, h => by
    obtain ⟨i1, i2⟩ := flatten_take_rows m rows c h
    have ih := reshape_merge_den m cs (rows.drop c) (fun r hr => h r (List.mem_of_mem_drop hr))
    simp only [reshapeMergeBlocks, splitBy, List.map_cons] at ih ⊢
    rw [i1, ih, i2]

/-- non-vacuity of `reshape_merge_den`: 3 rows of length 2, row chunks `(2, 1)` -/
example : reshapeMergeBlocks [2, 1] [[1, 2], [3, 4], [5, 6]] = splitBy [4, 2] [1, 2, 3, 4, 5, 6] :=
  reshape_merge_den 2 [2, 1] [[1, 2], [3, 4], [5, 6]] (by decide)

/-- **shuffle_den** (`take` / `shuffle`, one output chunk): per source chunk a fancy `getitem` with the local positions of
    the *sorted* taker, concatenation, then `take(…, argsort(sorter))` puts element `taker[p]` of the axis at position
    `p` — for every old chunking and every taker (duplicates, any order). -/
theorem shuffle_den {α} [Inhabited α] (old : List Nat) (xs : List α) (T : List Nat) (hT : ∀ g ∈ T, g < sum old) :
    shuffleChunk old (splitBy old xs) T = T.map (fun g => xs.getD g default) := by
  -- the concatenated pieces are the data at the sorted positions
  have hsorted_mem : ∀ g ∈ (sortPairs T).map (·.1), g < sum old := by
    intro g hg
    obtain ⟨pr, hpr, rfl⟩ := List.mem_map.1 hg
    have := (mem_sortPairs T pr).1 hpr
    exact hT _ (List.mem_of_getElem? this)
  have hmerged : (runsBy (sourceOf old) ((sortPairs T).map (·.1))).flatMap
      (fun cr => cr.2.map (fun g => ((splitBy old xs).getD cr.1 []).getD (g - blockStart old cr.1) default))
      = ((sortPairs T).map (·.1)).map (fun g => xs.getD g default) := by
    conv => rhs; rw [← runsBy_flatten (sourceOf old) ((sortPairs T).map (·.1))]
    rw [List.map_flatMap]
    apply flatMap_congr'
    intro cr hcr
    apply List.map_congr_left
    intro g hg
    have hk := runsBy_key _ _ cr hcr g hg
    have hgm : g ∈ (sortPairs T).map (·.1) := by
      rw [← runsBy_flatten (sourceOf old) ((sortPairs T).map (·.1))]
      exact List.mem_flatMap.2 ⟨cr, hcr, hg⟩
    rw [← hk]
    exact block_read old xs g (hsorted_mem g hgm)
  unfold shuffleChunk
  dsimp only
  rw [hmerged]
  apply List.ext_getElem
  · simp
  · intro p h1 h2
    simp only [List.length_map, List.length_range] at h1
    simp only [List.getElem_map, List.getElem_range]
    -- position of `p` in the sorter
    have hpm : (T[p], p) ∈ sortPairs T := (mem_sortPairs T (T[p], p)).2 (by simp [List.getElem?_eq_getElem h1])
    have hps : p ∈ (sortPairs T).map (·.2) := List.mem_map.2 ⟨_, hpm, rfl⟩
    have hi := List.idxOf_lt_length_of_mem hps
    have hget := List.getElem_idxOf hi
    generalize hidx : List.idxOf p (List.map (fun x => x.2) (sortPairs T)) = i at *
    have hi' : i < (sortPairs T).length := by simpa using hi
    have hpair := (mem_sortPairs T (sortPairs T)[i]).1 (List.getElem_mem hi')
    simp only [List.getElem_map] at hget
    rw [hget, List.getElem?_eq_getElem h1] at hpair
    injection hpair with hpair
    rw [List.getD_eq_getElem?_getD, List.getElem?_map, List.getElem?_map, List.getElem?_eq_getElem hi']
    simp [← hpair]

example : shuffleChunk [2, 3] (splitBy [2, 3] [10, 11, 12, 13, 14]) [4, 0, 4, 2] = [14, 10, 14, 12] := by decide
/-- non-vacuity of `shuffle_den`'s hypothesis (every index inside the axis) -/
example : ∀ g ∈ [4, 0, 4, 2], g < sum [2, 3] := by decide

/-- the grouping loop of `_shuffle` loses / reorders nothing (whatever the size limit and tolerance) and
    never emits an empty chunk -/
theorem packGroups_flatten (limit tn td : Nat) (groups : List (List Nat)) (cur : List Nat) :
    (packGroups limit tn td cur groups).flatten = cur ++ groups.flatten ∧
    ∀ c ∈ packGroups limit tn td cur groups, c ≠ [] := packGroups_spec limit tn td groups cur

/-- …in particular with the tolerance the code reads from dask.yaml (extracted on every run) -/
theorem packGroups_flatten_extracted (limit : Nat) (groups : List (List Nat)) :
    (packGroups limit Dask.Generated.ChunkTolerance.tolNum Dask.Generated.ChunkTolerance.tolDen [] groups).flatten
      = groups.flatten := by
  simpa using (packGroups_flatten limit _ _ groups []).1

/-- **reshape_merge_ones_den**: the other plan `reshape_rechunk` uses for a merge ("all the lower axes are completely
    chunked: we're simply moving around blocks"): every row its own chunk, columns chunked `cc` arbitrarily; the
    output chunks are `cc` repeated once per row and block `(i, j)` lands at position `i*len(cc) + j`. -/
theorem reshape_merge_ones_den {α} (cc : List Nat) (rows : List (List α)) (h : ∀ r ∈ rows, r.length = sum cc) :
    reshapeMergeOnesBlocks cc rows = splitBy ((List.replicate rows.length cc).flatten) rows.flatten :=
  reshape_merge_ones_aux cc rows h

example : reshapeMergeOnesBlocks [2, 1] [[1, 2, 3], [4, 5, 6]] = [[1, 2], [3], [4, 5], [6]] := by rfl


/-! ### `_shuffle` as a whole: validation, the "already shuffled" shortcut, grouping, per-chunk plans; `slicing.take`

The shortcut `return chunks, {}` makes `shuffle` hand back the *input array*; it is right exactly when the indexer is
the identity chunking of the axis. `shuffle_noop_iff_identity` says the test the code performs
(`len(indexer) == len(chunks[axis])` and every group `== list(range(ctr, ctr + c))`) is that and nothing weaker. -/

theorem shuffle_noop_iff_identity (old : List Nat) (indexer : List (List Nat)) :
    alreadyShuffled old indexer = true ↔ indexer = identityIndexer old := alreadyShuffled_iff old indexer

theorem shuffle_plan_noop_only_identity {old : List Nat} {indexer t : List (List Nat)} {limit tn td : Nat}
    (h : shufflePlan old indexer limit tn td = .ok (true, t)) : indexer = identityIndexer old ∧ t = indexer := by
  unfold shufflePlan at h
  split at h
  · cases h
  · split at h
    · rename_i ha
      injection h with h; injection h with _ h2
      exact ⟨(alreadyShuffled_iff old indexer).1 ha, h2.symm⟩
    · split at h
      · cases h
      · injection h with h; injection h with h1 _; cases h1

theorem shuffle_blocks_den {α} [Inhabited α] (old : List Nat) (xs : List α) (indexer : List (List Nat))
    (limit tn td : Nat) (bs : List (List α)) (hx : xs.length = sum old)
    (h : shuffleBlocks old (splitBy old xs) indexer limit tn td = .ok bs) :
    bs.flatten = indexer.flatten.map (fun g => xs.getD g default) ∧
    bs.map List.length = (if alreadyShuffled old indexer then old
                          else (packGroups limit tn td [] indexer).map List.length) := by
  unfold shuffleBlocks shufflePlan at h
  split at h
  · cases h
  · rename_i noop hplan
    split at hplan
    · cases hplan
    · rename_i hv
      obtain ⟨_, _, hlt⟩ := validate_ok_mem hv
      split at hplan
      · rename_i ha
        injection hplan with hplan; injection hplan with h1 _
        injection h with h; subst h
        have hid := (alreadyShuffled_iff old indexer).1 ha
        refine ⟨?_, by simp [ha, splitBy_lengths old xs hx]⟩
        rw [splitBy_flatten_s old xs hx, hid, identityIndexer_flatten, ← hx]
        exact self_eq_map_range xs
      · split at hplan
        · cases hplan
        · injection hplan with hplan; injection hplan with h1 _; cases h1
  · rename_i takers hplan
    split at hplan
    · cases hplan
    · rename_i hv
      obtain ⟨_, _, hlt⟩ := validate_ok_mem hv
      split at hplan
      · injection hplan with hplan; injection hplan with h1 _; cases h1
      · rename_i ha
        split at hplan
        · cases hplan
        · injection hplan with hplan; injection hplan with _ h2
          injection h with h; subst h; subst h2
          have hfl := (packGroups_flatten limit tn td indexer []).1
          simp only [List.nil_append] at hfl
          have hmem : ∀ T ∈ packGroups limit tn td [] indexer, ∀ g ∈ T, g < sum old := by
            intro T hT g hg
            have : g ∈ (packGroups limit tn td [] indexer).flatten := List.mem_flatten.2 ⟨T, hT, hg⟩
            rw [hfl] at this
            obtain ⟨G, hG, hgG⟩ := List.mem_flatten.1 this
            exact hlt G hG g hgG
          constructor
          · rw [← hfl, List.map_flatten]
            congr 1
            apply List.map_congr_left
            intro T hT
            rw [shuffleChunkCode_eq, shuffle_den old xs T (hmem T hT)]
          · simp only [ha, Bool.false_eq_true, if_false, List.map_map]
            apply List.map_congr_left
            intro T hT
            simp only [Function.comp]
            rw [shuffleChunkCode_eq, shuffle_den old xs T (hmem T hT)]
            simp


theorem shuffle_blocks_total {α} [Inhabited α] (old : List Nat) (blocks : List (List α)) (indexer : List (List Nat))
    (limit tn td : Nat) (hv : validateIndexer old indexer = .ok ()) (ho : old ≠ []) :
    ∃ bs, shuffleBlocks old blocks indexer limit tn td = .ok bs := by
  unfold shuffleBlocks shufflePlan
  rw [hv]
  simp only [ho, if_false]
  by_cases ha : alreadyShuffled old indexer = true
  · simp [ha]
  · simp [ha]

theorem take_den {α} [Inhabited α] (old : List Nat) (xs : List α) (index : List Nat) (limit tn td : Nat)
    (bs : List (List α)) (hx : xs.length = sum old)
    (h : takeBlocks old (splitBy old xs) index limit tn td = .ok bs) :
    bs.flatten = index.map (fun g => xs.getD g default) := by
  unfold takeBlocks at h
  split at h
  · rename_i hc
    obtain ⟨_, hl, har⟩ := hc
    injection h with h; subst h
    rw [splitBy_flatten_s old xs hx]
    unfold isArange at har
    have har : index = List.range index.length := by simpa using har
    rw [har, hl, ← hx]
    exact self_eq_map_range xs
  · split at h
    · cases h
    · have hk : 0 < averageChunk old := by unfold averageChunk; omega
      have := (shuffle_blocks_den old xs _ limit tn td bs hx h).1
      rw [chunkEvery_flatten _ hk index.length index (Nat.le_refl _)] at this
      exact this

theorem take_total {α} [Inhabited α] (old : List Nat) (blocks : List (List α)) (index : List Nat) (limit tn td : Nat)
    (ho : old ≠ []) (hi : index ≠ []) (hlt : ∀ i ∈ index, i < sum old) :
    ∃ bs, takeBlocks old blocks index limit tn td = .ok bs := by
  unfold takeBlocks
  split
  · exact ⟨_, rfl⟩
  · have hk : 0 < averageChunk old := by unfold averageChunk; omega
    apply shuffle_blocks_total _ _ _ _ _ _ _ ho
    unfold validateIndexer
    have hne := chunkEvery_ne_nil _ hk index.length index
    have hfl := chunkEvery_flatten _ hk index.length index (Nat.le_refl _)
    have h1 : ¬ (chunkEvery (averageChunk old) index.length index = [] ∨ [] ∈ chunkEvery (averageChunk old) index.length index) := by
      intro h
      rcases h with h | h
      · rw [h] at hfl; exact hi (by simpa using hfl.symm)
      · exact hne [] h rfl
    rw [if_neg h1]
    have h2 : ¬ ((chunkEvery (averageChunk old) index.length index).any (fun g => g.any (fun i => decide (sum old ≤ i))) = true) := by
      simp only [List.any_eq_true, decide_eq_true_eq, not_exists, not_and]
      intro g hg i hig
      have : i ∈ (chunkEvery (averageChunk old) index.length index).flatten := List.mem_flatten.2 ⟨g, hg, hig⟩
      rw [hfl] at this
      have := hlt i this
      omega
    rw [if_neg h2]

example : alreadyShuffled [4, 4, 4] [[0, 1, 2, 3], [4, 5, 6, 7], [8, 9, 10, 11]] = true := by decide
/-- the seeded near-misses: first and last element of every group in place / same set per chunk -/
example : alreadyShuffled [4, 4, 4] [[0, 2, 1, 3], [4, 5, 6, 7], [8, 10, 9, 11]] = false := by decide
example : alreadyShuffled [2, 2] [[0, 2], [1, 3]] = false := by decide
example : alreadyShuffled [2, 2] [[0, 1], [2, 3], [0]] = false := by decide
example : alreadyShuffled [3, 1] [[0, 1], [2, 3]] = false := by decide
example : validateIndexer [2, 3] [[4, 0], [4, 2]] = .ok () := by decide
example : (shuffleBlocks [2, 3] (splitBy [2, 3] [10, 11, 12, 13, 14]) [[4, 0], [4, 2]] 3 5 4 : Except ShErr (List (List Nat)))
    = .ok [[14, 10], [14, 12]] := by decide
example : (takeBlocks [2, 2] (splitBy [2, 2] [10, 11, 12, 13]) [0, 2, 1, 3] 2 5 4 : Except ShErr (List (List Nat)))
    = .ok [[10, 12], [11, 13]] := by decide
example : (takeBlocks [2, 2] (splitBy [2, 2] [10, 11, 12, 13]) [0, 1, 2, 3] 2 5 4 : Except ShErr (List (List Nat)))
    = .ok [[10, 11], [12, 13]] := by decide


/-- **take_never_noop**: the indexer `slicing.take` hands to `_shuffle` is never the identity chunking (a full arange was
    answered by `take` itself before), so `_shuffle`'s shortcut `return chunks, {}` -- an *empty* graph, which `take` would
    pass on as the graph of the result -- is never reached from `x[idx]` / `da.take` -/
theorem take_never_noop (old : List Nat) (index : List Nat) (ho : old ≠ [])
    (h : ¬ (index ≠ [] ∧ index.length = sum old ∧ isArange index = true)) :
    alreadyShuffled old (chunkEvery (averageChunk old) index.length index) = false := by
  cases hA : alreadyShuffled old (chunkEvery (averageChunk old) index.length index) with
  | false => rfl
  | true =>
    exfalso
    have hk : 0 < averageChunk old := by unfold averageChunk; omega
    have hid := (alreadyShuffled_iff old _).1 hA
    have hfl := chunkEvery_flatten _ hk index.length index (Nat.le_refl _)
    rw [hid, identityIndexer_flatten] at hfl
    apply h
    refine ⟨?_, ?_, ?_⟩
    · intro h0
      subst h0
      have hl := congrArg List.length hid
      unfold identityIndexer at hl
      rw [identityFrom_length] at hl
      simp [chunkEvery] at hl
      exact ho (List.eq_nil_of_length_eq_zero hl.symm)
    · rw [← hfl]; simp
    · unfold isArange
      rw [← hfl]; simp

example : alreadyShuffled [2, 2] (chunkEvery (averageChunk [2, 2]) 4 [0, 1, 3, 2]) = false := by decide

/-! ### the general `reshape`: `reshape_rechunk`'s plan and the block-by-block `M.reshape` graph

`reshape` rechunks the input to `reshape_rechunk`'s `result_inchunks` and then maps the `k`-th input block (blocks in
`itertools.product` order) to the `k`-th output block with `M.reshape(block, shape_k)`; NumPy's reshape of one block keeps
its C-order data. `blocksFlat m dims flat` is the C-order data of every block of the array with C-order data `flat` chunked
`dims` (elements = runs of `m` entries). The plan is right iff `blocksFlat 1 ri flat = blocksFlat 1 ro flat`. -/

/-- **reshape_blocks_den**: for every pair of chunk lists that decomposes (`groups`, recorded by the walk) into axis groups
    which on both sides are *contiguous* (all-ones axes, one arbitrary axis, single-chunk axes) and have the same block
    sizes, block `k` of the input holds exactly the data of block `k` of the reshaped array -- any number of axes, any
    chunk sizes, any data. (`groupsOK` is evaluated by the harness on every real output of `reshape_rechunk`;
    `reshape_rechunk_groupsOK` below proves it for the model.) -/
theorem reshape_blocks_den {α} (ri ro : List (List Nat)) (groups : List (Nat × Nat)) (flat : List α)
    (h : groupsOK ri ro groups = true) (hl : flat.length = size ri) :
    blocksFlat 1 ri flat = blocksFlat 1 ro flat ∧ size ri = size ro ∧ nBlocks ri = nBlocks ro :=
  ⟨blocksFlat_groupsOK 1 groups ri ro flat h (by omega), groupsOK_size groups ri ro h⟩

/-- the two 2-d plans of the earlier theorems are instances: whole rows per block … -/
example : groupsOK [[2, 1], [3]] [[6, 3]] [(2, 1)] = true := by decide
/-- … and one row per block ("moving blocks around") -/
example : groupsOK [[1, 1], [2, 1]] [[2, 1, 2, 1]] [(2, 1)] = true := by decide
/-- 3 axes -> 3 axes: a size-1 output axis, an untouched axis, a merge of two axes -/
example : groupsOK [[2, 2], [1, 1, 1], [2]] [[1], [2, 2], [2, 2, 2]] [(0, 1), (1, 1), (2, 1)] = true := by decide
example : blocksFlat 1 [[1, 1], [2, 1]] [0, 1, 2, 3, 4, 5] = [[0, 1], [2], [3, 4], [5]] := by decide
example : blocksFlat 1 [[2], [2, 1]] [0, 1, 2, 3, 4, 5] = [[0, 1, 3, 4], [2, 5]] := by decide
/-- the counter-example in `_smooth_chunks`' comment: chunks ((2,2),(2,1)) -> ((4,2,4,2),) has equal block sizes but is not
    contiguous, and the blocks do differ -/
example : groupsOK [[2, 2], [2, 1]] [[4, 2, 4, 2]] [(2, 1)] = false := by decide
example : blocksFlat 1 [[2, 2], [2, 1]] (List.range 12) ≠ blocksFlat 1 [[4, 2, 4, 2]] (List.range 12) := by decide
example : reshapeRechunk [4, 3] [12] [[2, 2], [2, 1]] = .ok ([some [1, 1, 1, 1], some [3]], [some [3, 3, 3, 3]], [(2, 1)]) := by decide
example : reshapeRechunk [2, 3, 4] [6, 4] [[1, 1], [2, 1], [4]]
    = .ok ([some [1, 1], some [2, 1], some [4]], [some [2, 1, 2, 1], some [4]], [(2, 1), (1, 1)]) := by decide
example : reshapeRechunk [12] [2, 3, 2] [[5, 7]] = .ok ([some [6, 6]], [some [1, 1], some [3], some [2]], [(1, 3)]) := by decide
example : reshapeRechunk [4, 5, 6] [6, 5, 4] [[4], [5], [6]] = .error .notImpl := by decide


/-- **reshape_rechunk_groupsOK**: for chunk tuples of the input shape (non-empty, positive, adding up — what `reshape`
    passes), *whatever* `reshape_rechunk` returns — it may instead raise NotImplementedError for uneven merges / splits —
    assigns every axis on both sides (no `None` left), its chunk tuples add up to the input and the output shape, and the
    plan decomposes into contiguous axis groups with equal block sizes. Invariant of the two-pointer walk
    (`Lemmas/ReshapeWalkInv.lean`); `_smooth_chunks` keeps per-axis sums and contiguity (`smoothGroup_spec`). No bound on the
    number of axes or the sizes. -/
theorem reshape_rechunk_groupsOK {inshape outshape : List Nat} {inchunks : List (List Nat)} (hv : ValidIn inshape inchunks)
    {ri ro : List (Option (List Nat))} {gs : List (Nat × Nat)}
    (h : reshapeRechunk inshape outshape inchunks = .ok (ri, ro, gs)) :
    ∃ ri' ro', ri = ri'.map some ∧ ro = ro'.map some ∧ ri'.map sum = inshape ∧ ro'.map sum = outshape ∧
      groupsOK ri' ro' gs = true := reshapeRechunk_ok hv h

/-- **reshape_den**: `reshape` for every input chunking — after rechunking the input to `result_inchunks`, the block-by-block
    `M.reshape` in product order produces exactly the blocks `result_outchunks` of the reshaped array (same C-order data
    block by block, same number of blocks, declared chunks add up to the new shape). -/
theorem reshape_den {α} {inshape outshape : List Nat} {inchunks : List (List Nat)} (hv : ValidIn inshape inchunks)
    {ri ro : List (Option (List Nat))} {gs : List (Nat × Nat)}
    (h : reshapeRechunk inshape outshape inchunks = .ok (ri, ro, gs)) (flat : List α) (hl : flat.length = prod inshape) :
    ∃ ri' ro', ri = ri'.map some ∧ ro = ro'.map some ∧ ri'.map sum = inshape ∧ ro'.map sum = outshape ∧
      blocksFlat 1 ri' flat = blocksFlat 1 ro' flat ∧ nBlocks ri' = nBlocks ro' := by
  obtain ⟨ri', ro', h1, h2, h3, h4, h5⟩ := reshapeRechunk_ok hv h
  have hsz : flat.length = size ri' := by unfold size; rw [h3, hl]
  obtain ⟨i1, _, i3⟩ := reshape_blocks_den ri' ro' gs flat h5 hsz
  exact ⟨ri', ro', h1, h2, h3, h4, i1, i3⟩

example : ValidIn [4, 3] [[2, 2], [2, 1]] := ValidIn_of_validInB (by decide)
example : ValidIn [2, 3, 4] [[1, 1], [2, 1], [4]] := ValidIn_of_validInB (by decide)
/-- a side that has run out of axes counts as length one (the repaired negative-index wrap) -/
example : reshapeRechunk [1] [1, 1, 1] [[1]] = .ok ([some [1]], [some [1], some [1], some [1]], [(0, 1), (0, 1), (1, 1)]) := by decide
example : reshapeRechunk [2, 1, 1] [2] [[1, 1], [1], [1]] = .ok ([some [1, 1], some [1], some [1]], [some [1, 1]], [(1, 1), (1, 0), (1, 0)]) := by decide


/-! ### blockwise / key-map operations (Model/StructuralOps.lean): transpose, flip, rot90, tril / triu, stack, broadcast_to,
tile, diff. `Grid.ofFn rc cc A` is the array `A` cut into blocks by `rc × cc`; `.read p q` is what the assembled result
holds at `(p, q)`. The statements hold for every pair of chunk tuples (irregular, size-1, zero-length chunks included). -/

/-- **transpose_den** (also swapaxes / moveaxis / `.T`, which call `transpose` with a permutation): the result has the
    chunk tuples swapped and block `(j, i)` = `np.transpose` of block `(i, j)`; assembled it is `A.T`, for every chunking. -/
theorem transpose_den {α} (rc cc : List Nat) (A : Nat → Nat → α) (p q : Nat) (hp : p < sum rc) (hq : q < sum cc) :
    (Grid.ofFn rc cc A).transpose.read q p = some (A p q) ∧
    (Grid.ofFn rc cc A).transpose.rc = cc ∧ (Grid.ofFn rc cc A).transpose.cc = rc := by
  rw [Grid.transpose_read, Grid.read_ofFn rc cc A p q hp hq]; exact ⟨rfl, rfl, rfl⟩

example : (Grid.ofFn [2, 1] [1, 3] (fun p q => 10 * p + q)).transpose.read 3 2 = some 23 := by decide

/-- **flip_den** (2-d, either axis): chunk tuple reversed along the axis, blocks in reverse order and each reversed
    (what `m[::-1]` builds) = NumPy's flip -/
theorem flip_den {α} (rc cc : List Nat) (A : Nat → Nat → α) (p q : Nat) (hp : p < sum rc) (hq : q < sum cc) :
    (Grid.ofFn rc cc A).flip0.read p q = some (A (sum rc - 1 - p) q) ∧
    (Grid.ofFn rc cc A).flip1.read p q = some (A p (sum cc - 1 - q)) := by
  constructor
  · rw [Grid.flip0_read _ p q hp]
    show (Grid.ofFn rc cc A).read (sum rc - 1 - p) q = _
    exact Grid.read_ofFn rc cc A _ q (by omega) hq
  · rw [Grid.flip1_read _ p q hq]
    show (Grid.ofFn rc cc A).read p (sum cc - 1 - q) = _
    exact Grid.read_ofFn rc cc A p _ hp (by omega)

example : (Grid.ofFn [2, 1] [1, 3] (fun p q => 10 * p + q)).flip1.read 2 0 = some 23 := by decide

/-- one axis, on the lists of blocks: values and chunks -/
theorem flip1d_den {α} (blocks : List (List α)) :
    (flipBlocks blocks).flatten = blocks.flatten.reverse ∧
    (flipBlocks blocks).map List.length = (blocks.map List.length).reverse :=
  ⟨flipBlocks_flatten blocks, flipBlocks_lengths blocks⟩

/-- **rot90_den**: dask's `rot90` is NumPy's own composition (`k=1`: transpose(flip(m, 1)), `k=2`: flip(flip(m, 0), 1),
    `k=3`: flip(transpose(m), 1)) of the two block plans above; for an `N × M` array: -/
theorem rot90_den {α} (rc cc : List Nat) (A : Nat → Nat → α) (p q : Nat) :
    (p < sum cc → q < sum rc → ((Grid.ofFn rc cc A).rot90 1).read p q = some (A q (sum cc - 1 - p))) ∧
    (p < sum rc → q < sum cc → ((Grid.ofFn rc cc A).rot90 2).read p q = some (A (sum rc - 1 - p) (sum cc - 1 - q))) ∧
    (p < sum cc → q < sum rc → ((Grid.ofFn rc cc A).rot90 3).read p q = some (A (sum rc - 1 - q) p)) := by
  refine ⟨fun hp hq => ?_, fun hp hq => ?_, fun hp hq => ?_⟩
  · show (Grid.ofFn rc cc A).flip1.transpose.read p q = _
    rw [Grid.transpose_read, Grid.flip1_read _ q p hp]
    show (Grid.ofFn rc cc A).read q (sum cc - 1 - p) = _
    exact Grid.read_ofFn rc cc A q _ hq (by omega)
  · show (Grid.ofFn rc cc A).flip0.flip1.read p q = _
    rw [Grid.flip1_read _ p q hq]
    show (Grid.ofFn rc cc A).flip0.read p (sum cc - 1 - q) = _
    rw [Grid.flip0_read _ p _ hp]
    show (Grid.ofFn rc cc A).read (sum rc - 1 - p) (sum cc - 1 - q) = _
    exact Grid.read_ofFn rc cc A _ _ (by omega) (by omega)
  · show (Grid.ofFn rc cc A).transpose.flip1.read p q = _
    rw [Grid.flip1_read _ p q hq]
    show (Grid.ofFn rc cc A).transpose.read p (sum rc - 1 - q) = _
    rw [Grid.transpose_read]
    exact Grid.read_ofFn rc cc A _ p (by omega) hp

example : ((Grid.ofFn [2, 1] [1, 3] (fun p q => 10 * p + q)).rot90 1).read 0 2 = some 23 := by decide

/-- **tril_den / triu_den**: block `(i, j)` of the mask compares block `i` of `arange(N)` with block `j` of
    `arange(-k, M - k)` (their values are the global positions: C34 `arange_den`), `where` keeps / zeroes block-wise:
    assembled this is NumPy's `tril` (`j ≤ i + k` kept) / `triu` (`j ≥ i + k` kept), for every chunking and every `k`. -/
theorem tril_den {α} (z : α) (k : Int) (rc cc : List Nat) (A : Nat → Nat → α) (p q : Nat) (hp : p < sum rc) (hq : q < sum cc) :
    ((Grid.ofFn rc cc A).tril z k).read p q = some (if (q : Int) ≤ (p : Int) + k then A p q else z) := by
  rw [Grid.tril_read, Grid.read_ofFn rc cc A p q hp hq]; rfl

theorem triu_den {α} (z : α) (k : Int) (rc cc : List Nat) (A : Nat → Nat → α) (p q : Nat) (hp : p < sum rc) (hq : q < sum cc) :
    ((Grid.ofFn rc cc A).triu z k).read p q = some (if (p : Int) + k ≤ (q : Int) then A p q else z) := by
  rw [Grid.triu_read, Grid.read_ofFn rc cc A p q hp hq]; rfl

example : ((Grid.ofFn [2, 1] [1, 3] (fun p q => 10 * p + q + 1)).tril 0 (-1)).read 2 1 = some 22 := by decide
example : ((Grid.ofFn [2, 1] [1, 3] (fun p q => 10 * p + q + 1)).tril 0 (-1)).read 2 2 = some 0 := by decide

/-- **stack_den** (1-d arrays with unified chunks `cs`, new axis first or last): chunks `((1,)*n, cs)` resp. `(cs, (1,)*n)`,
    key `(k, j)` <- block `j` of array `k`; row (column) `k` of the result is array `k` -/
theorem stack_den {α} (n : Nat) (cs : List Nat) (arrs : Nat → Nat → α) (k q : Nat) (hk : k < n) (hq : q < sum cs) :
    (stackRows n cs (fun k => (Vec.ofFn cs (arrs k)).blk)).read k q = some (arrs k q) ∧
    (stackCols n cs (fun k => (Vec.ofFn cs (arrs k)).blk)).read q k = some (arrs k q) := by
  constructor
  · rw [stackRows_read n cs _ k q hk]; exact Vec.read_ofFn cs (arrs k) q hq
  · rw [stackCols_read n cs _ q k hk]; exact Vec.read_ofFn cs (arrs k) q hq

example : (stackRows 2 [1, 2] (fun k => (Vec.ofFn [1, 2] (fun q => 10 * k + q)).blk)).read 1 2 = some 12 := by decide

/-- **broadcast_to_den**: a new leading axis with any chunks `rows` (every new block is `np.broadcast_to` of the old block
    with the same index on the old axes), and a length-one axis chunked `(1,)` stretched to any chunks `new`
    (`old_index = 0`) -/
theorem broadcast_to_den {α} (rows cs new : List Nat) (A : Nat → α) (p q : Nat) (hp : p < sum rows) (hq : q < sum cs)
    (hn : p < sum new) :
    (broadcastRows rows (Vec.ofFn cs A)).read p q = some (A q) ∧
    (broadcastLen1 new (Vec.ofFn [1] A)).read p = some (A 0) := by
  constructor
  · rw [broadcastRows_read rows _ p q hp]; exact Vec.read_ofFn cs A q hq
  · rw [broadcastLen1_read new _ p rfl hn]; exact Vec.read_ofFn [1] A 0 (by decide)

example : (broadcastRows [2, 1] (Vec.ofFn [1, 2] (fun q => q + 5))).read 2 2 = some 7 := by decide

/-- **tile_den** (one axis): `block([x] * r)` concatenates `r` copies of the block list; element `p` of the result is
    `x[p mod n]` (NumPy's tile) -/
theorem tile_den {α} (d : α) (r : Nat) (blocks : List (List α)) (p : Nat) (hp : p < r * blocks.flatten.length) :
    (tileBlocks r blocks).flatten.getD p d = blocks.flatten.getD (p % blocks.flatten.length) d ∧
    (tileBlocks r blocks).map List.length = (List.replicate r (blocks.map List.length)).flatten := by
  constructor
  · rw [tileBlocks_flatten]; exact tile_getD d blocks.flatten r p hp
  · unfold tileBlocks
    induction r with
    | zero => rfl
    | succ r ih => simp [List.replicate_succ, List.map_append]

example : (tileBlocks 2 [[1, 2], [3]]).flatten = [1, 2, 3, 1, 2, 3] := by decide

/-- **diff_den** (one axis): `r[1:] - r[:-1]` evaluated block by block on any common chunking `u` of the two slices
    (what `elemwise` does after `unify_chunks`) is the first difference -/
theorem diff_den (xs : List Int) (u : List Nat) (p : Nat) (hu : sum u = xs.length - 1) (hp : p + 1 < xs.length) :
    ((elemwiseBlocks (· - ·) (splitBy u (xs.drop 1)) (splitBy u xs.dropLast)).flatten).getD p 0
      = xs.getD (p + 1) 0 - xs.getD p 0 := by
  rw [elemwiseBlocks_flatten (· - ·) u (xs.drop 1) xs.dropLast (by simp; omega) (by simp; omega)]
  exact diff1_getD xs p hp

example : (elemwiseBlocks (· - ·) (splitBy [1, 2] ([1, 4, 9, 16].drop 1)) (splitBy [1, 2] ([1, 4, 9, 16] : List Int).dropLast)).flatten
    = [3, 5, 7] := by decide
example : diffN 2 [1, 4, 9, 16] = [2, 2] := by decide


/-- **concat2d_den**: `concatenate` of two 2-d arrays along axis 1 (axis 0) whose other axis has the same (unified) chunks:
    chunk tuples appended, key `(i, j)` taken from the array `bisect` finds; assembled it is NumPy's concatenate -/
theorem concat2d_den {α} (rc c1 c2 : List Nat) (A B : Nat → Nat → α) (p q : Nat) (hp : p < sum rc) (hq : q < sum c1 + sum c2) :
    ((Grid.ofFn rc c1 A).hcat (Grid.ofFn rc c2 B)).read p q = some (if q < sum c1 then A p q else B p (q - sum c1)) ∧
    ((Grid.ofFn c1 rc (fun q p => A p q)).vcat (Grid.ofFn c2 rc (fun q p => B p q))).read q p
      = some (if q < sum c1 then A p q else B p (q - sum c1)) := by
  constructor
  · rw [Grid.hcat_read]
    show (if q < sum c1 then (Grid.ofFn rc c1 A).read p q else (Grid.ofFn rc c2 B).read p (q - sum c1)) = _
    by_cases h : q < sum c1 <;> simp only [h, if_true, if_false]
    · exact Grid.read_ofFn rc c1 A p q hp h
    · exact Grid.read_ofFn rc c2 B p _ hp (by omega)
  · rw [Grid.vcat_read]
    show (if q < sum c1 then (Grid.ofFn c1 rc (fun q p => A p q)).read q p
          else (Grid.ofFn c2 rc (fun q p => B p q)).read (q - sum c1) p) = _
    by_cases h : q < sum c1 <;> simp only [h, if_true, if_false]
    · exact Grid.read_ofFn c1 rc _ q p h hp
    · exact Grid.read_ofFn c2 rc _ _ p (by omega) hp

example : ((Grid.ofFn [1, 1] [2] (fun p q => 10 * p + q)).hcat (Grid.ofFn [1, 1] [1, 1] (fun p q => 100 + 10 * p + q))).read 1 3
    = some 111 := by decide

/-- **block_den**: `block([[a, b], [c, d]])` (innermost lists concatenated along the last axis, then along the first) -/
theorem block_den {α} (r1 r2 c1 c2 : List Nat) (A B C D : Nat → Nat → α) (p q : Nat)
    (hp : p < sum r1 + sum r2) (hq : q < sum c1 + sum c2) :
    (block2x2 (Grid.ofFn r1 c1 A) (Grid.ofFn r1 c2 B) (Grid.ofFn r2 c1 C) (Grid.ofFn r2 c2 D)).read p q =
      some (if p < sum r1 then (if q < sum c1 then A p q else B p (q - sum c1))
            else (if q < sum c1 then C (p - sum r1) q else D (p - sum r1) (q - sum c1))) :=
  block2x2_read r1 r2 c1 c2 A B C D p q hp hq

/-- **tile2d_den**: `tile(A, (r0, r1))` = `block(r0 * [r1 * [A]])`: element `(p, q)` is `A[p mod N, q mod M]` -/
theorem tile2d_den {α} (rc cc : List Nat) (A : Nat → Nat → α) (r0 r1 p q : Nat) (hp : p < r0 * sum rc) (hq : q < r1 * sum cc) :
    ((Grid.ofFn rc cc A).tile r0 r1).read p q = some (A (p % sum rc) (q % sum cc)) := by
  rw [Grid.tile_read _ r0 r1 p q hp hq]
  have h1 : 0 < sum rc := by
    rcases Nat.eq_zero_or_pos (sum rc) with h | h
    · rw [h] at hp; omega
    · exact h
  have h2 : 0 < sum cc := by
    rcases Nat.eq_zero_or_pos (sum cc) with h | h
    · rw [h] at hq; omega
    · exact h
  exact Grid.read_ofFn rc cc A _ _ (Nat.mod_lt _ h1) (Nat.mod_lt _ h2)

example : ((Grid.ofFn [1, 1] [2, 1] (fun p q => 10 * p + q)).tile 2 3).read 3 7 = some 11 := by decide

/-- **pad_const_den** (one axis, mode="constant"): the pads are chunked like the array's largest chunk
    (`get_pad_shapes_chunks`; those chunks add up to the pad width), and the concatenation is NumPy's constant pad -/
theorem pad_const_den {α} (chunks : List Nat) (blocks : List (List α)) (l r : Nat) (v : α) :
    (padConstBlocks chunks blocks l r v).flatten = List.replicate l v ++ blocks.flatten ++ List.replicate r v ∧
    sum (padChunks true chunks l) = l ∧ sum (padChunks true chunks r) = r :=
  ⟨padConstBlocks_flatten chunks blocks l r v, padChunks_sum true chunks l, padChunks_sum true chunks r⟩

example : padConstBlocks [2, 1] [[1, 2], [3]] 3 1 0 = [[0, 0], [0], [1, 2], [3], [0]] := by decide


/-- **squeeze_den / expand_dims_den** (one axis of length one in front): dropping / inserting the axis keeps the other axis'
    chunks and blocks; and `expand_dims` really is this plan: `reshape_rechunk` answers `(n,) -> (1, n)` with the input
    chunks unchanged (no rechunk) and `((1,), chunks)` for every chunk tuple -/
theorem squeeze_expand_den {α} (cc : List Nat) (A : Nat → Nat → α) (B : Nat → α) (q : Nat) (hq : q < sum cc) :
    (squeezeRow (Grid.ofFn [1] cc A)).read q = some (A 0 q) ∧ (expandRow (Vec.ofFn cc B)).read 0 q = some (B q) := by
  obtain ⟨j, s, hj⟩ := blockOf_some hq
  obtain ⟨_, _, _, hs⟩ := blockOf_spec hj
  constructor
  · simp [squeezeRow, Vec.read, Grid.ofFn, hj, hs, blockStart_zero]
  · simp [expandRow, Grid.read, Vec.ofFn, hj, hs, blockOf]

theorem expand_dims_plan (n : Nat) (cs : List Nat) :
    reshapeRechunk [n] [1, n] [cs] = .ok ([some cs], [some [1], some cs], [(0, 1), (1, 1)]) := by
  simp [reshapeRechunk, rrLoop, rrStep, dimAt, initState]

/-- … and the same for a new last axis (for `n = 1` the walk pairs the two length-one axes the other way round:
    same chunks, groups `[(0, 1), (1, 1)]`) -/
theorem expand_dims_last_plan (n : Nat) (cs : List Nat) (hn : n ≠ 1) :
    reshapeRechunk [n] [n, 1] [cs] = .ok ([some cs], [some cs, some [1]], [(1, 1), (0, 1)]) := by
  simp [reshapeRechunk, rrLoop, rrStep, dimAt, initState, hn]

example : reshapeRechunk [5] [5, 1] [[2, 3]] = .ok ([some [2, 3]], [some [2, 3], some [1]], [(1, 1), (0, 1)]) :=
  expand_dims_last_plan 5 [2, 3] (by decide)
example : reshapeRechunk [1] [1, 1] [[1]] = .ok ([some [1]], [some [1], some [1]], [(0, 1), (1, 1)]) := by decide


/-- **transpose_nd_den**: `transpose` with any permutation `axes` of any number of axes (`blockwise(np.transpose, axes, a,
    range(ndim), axes=axes)`: chunk tuples permuted, block `B` of the result = `np.transpose` of block `unperm(B)`): the
    element at `[idx[a] for a in axes]` of the result is `A[idx]` — NumPy's transpose, for every chunking.
    (`swapaxes` / `moveaxis` / `.T` / `rot90` hand particular permutations to it.) -/
theorem transpose_nd_den {α} (chunks : List (List Nat)) (A : List Nat → α) (axes : List Nat) (hp : IsPerm axes)
    (hn : axes.length = chunks.length) (idx : List Nat) (hl : idx.length = chunks.length)
    (hin : ∀ k, k < chunks.length → idx.getD k 0 < sum (chunks.getD k [])) :
    ((NArr.ofFn chunks A).transpose axes).read (permuteBy 0 axes idx) = some (A idx) ∧
    ((NArr.ofFn chunks A).transpose axes).chunks = permuteBy [] axes chunks := by
  refine ⟨?_, rfl⟩
  rw [NArr.transpose_read _ axes hp hn idx hl]
  exact NArr.read_ofFn chunks A idx hl hin

example : IsPerm [2, 0, 1] := IsPerm_of_isPermB (by decide)
example : ((NArr.ofFn [[1, 1], [2], [1, 2]] (fun idx => idx)).transpose [2, 0, 1]).read (permuteBy 0 [2, 0, 1] [1, 0, 2])
    = some [1, 0, 2] := by decide
example : ((NArr.ofFn [[1, 1], [2], [1, 2]] (fun idx => idx)).transpose [2, 0, 1]).chunks = [[1, 2], [1, 1], [2]] := by decide

end Dask.C24
