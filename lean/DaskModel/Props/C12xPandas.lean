import DaskModel.Model.NormalFormPandasX
import DaskModel.Props.C12Pandas
/-!
# C12 (extension) — MultiIndex, Categorical, nullable arrays, tz / period / interval values, pandas scalars

Model/NormalFormPandasX.lean transliterates the remaining normalisers of `register_pandas` (compared with the real
`tokenize` bit for bit by the `ppx` section of the harness).  Statement, for the mutually recursive universe of values
(`XVals`) and indexes (`XIndex`: the categories of a Categorical, the sides of an IntervalArray, the levels of a
MultiIndex are indexes again):

* `xnormVals_injective` / `xnormIdx_injective`: equal normal forms ⇒ observably equal — same kind of array, same dtype
  name (hence tz / unit / freq), same NA positions and same values where nothing is missing, same categories IN THE SAME
  ORDER, same `ordered` flag, same codes, same levels in the same order with the same names, same interval sides and
  closedness;
* `xnormVals_deterministic` / `xnormIdx_deterministic`: observably equal ⇒ equal normal forms — memory layout of every
  array involved and WHAT IS STORED UNDERNEATH A MISSING VALUE do not matter;
* objects (`XObj`: index, array, series, frame, scalar): `xnorm_injective_partial` (objects of one class),
  `xnorm_deterministic`, and the cross-class separations that are proved (`scalar_separated`, `series_ne_multi`,
  `classed_index_ne_list`).

Full statement (not proved in this round): `∀ a b, okObj a → okObj b → xnorm a = xnorm b → XObsEq a b` without the
`xcls a = xcls b` hypothesis — the token of a series / frame / array / MultiIndex does not name the class, the separation
rests on the shapes of the lists (proved for the NumPy-backed classes in `C12P.pnorm_injective`, here only for the pairs
listed at the end of the file).
-/
namespace Dask.C12X
open Dask.NF Dask.C12P

/-! ## observational equality -/

/-- nullable arrays: same NA positions, same values where nothing is missing; what is stored under a missing value is
    not observable -/
inductive CellsEq : List (Bool × Nat) → List (Bool × Nat) → Prop
  | nil : CellsEq [] []
  | na {d e : Nat} {r s : List (Bool × Nat)} : CellsEq r s → CellsEq ((true, d) :: r) ((true, e) :: s)
  | val (d : Nat) {r s : List (Bool × Nat)} : CellsEq r s → CellsEq ((false, d) :: r) ((false, d) :: s)

mutual
inductive XValsEq : XVals → XVals → Prop
  | np {v w : Val} : ObsEq v w → XValsEq (.np v) (.np w)
  | ea {v w : Val} (dn : String) : ObsEq v w → XValsEq (.ea v dn) (.ea w dn)
  | masked (dt : String) {c c' : List (Bool × Nat)} (z : Nat) (dn : String) : CellsEq c c' →
      XValsEq (.masked dt c z dn) (.masked dt c' z dn)
  | interval {l l' r r' : XIndex} (closed : String) : XIdxEq l l' → XIdxEq r r' →
      XValsEq (.interval l r closed) (.interval l' r' closed)
  | cat {v w : Val} {c c' : XIndex} (o : Bool) : ObsEq v w → XIdxEq c c' → XValsEq (.cat v c o) (.cat w c' o)
inductive XIdxEq : XIndex → XIndex → Prop
  | range (cls : String) (a b c : Int) (dt : String) (name : Val) :
      XIdxEq (.range cls a b c dt name) (.range cls a b c dt name)
  | plain (cls : String) (name : Val) {v w : XVals} : XValsEq v w → XIdxEq (.plain cls name v) (.plain cls name w)
  | multi (name : Val) {ls ls' : List XIndex} {cs cs' : List Val} : XIdxEqL ls ls' → ObsEqL cs cs' →
      XIdxEq (.multi name ls cs) (.multi name ls' cs')
inductive XIdxEqL : List XIndex → List XIndex → Prop
  | nil : XIdxEqL [] []
  | cons {i j : XIndex} {is js : List XIndex} : XIdxEq i j → XIdxEqL is js → XIdxEqL (i :: is) (j :: js)
end

inductive XValsEqL : List XVals → List XVals → Prop
  | nil : XValsEqL [] []
  | cons {x y : XVals} {xs ys : List XVals} : XValsEq x y → XValsEqL xs ys → XValsEqL (x :: xs) (y :: ys)

inductive XObsEq : XObj → XObj → Prop
  | index {i j : XIndex} : XIdxEq i j → XObsEq (.index i) (.index j)
  | vals {v w : XVals} : XValsEq v w → XObsEq (.vals v) (.vals w)
  | series (name : Val) (dt : String) {v w : XVals} {i j : XIndex} : XValsEq v w → XIdxEq i j →
      XObsEq (.series name dt v i) (.series name dt w j)
  | frame {cs ds : List XVals} {c c' i i' : XIndex} : XValsEqL cs ds → XIdxEq c c' → XIdxEq i i' →
      XObsEq (.frame cs c i) (.frame ds c' i')
  | scalar (r : String) : XObsEq (.scalar r) (.scalar r)

/-! ## side conditions: value slots hold arrays; the zero of a dtype is interned to one code -/

/-- the codes of a MultiIndex / the 1-d data of an array: strided NumPy arrays -/
def isNd : Val → Bool
  | .ndarray .. => true
  | _ => false

section
variable (Z : String → Nat)

mutual
def okVals : XVals → Prop
  | .np v => isArr v = true
  | .ea _ _ => True
  | .masked dt _ z _ => z = Z dt
  | .interval l r _ => okIdx l ∧ okIdx r
  | .cat _ c _ => okIdx c
def okIdx : XIndex → Prop
  | .range .. => True
  | .plain _ _ v => okVals v
  | .multi _ ls cs => okIdxL ls ∧ ∀ c ∈ cs, isNd c = true
def okIdxL : List XIndex → Prop
  | [] => True
  | i :: is => okIdx i ∧ okIdxL is
end

def okValsL : List XVals → Prop
  | [] => True
  | v :: vs => okVals Z v ∧ okValsL vs

def okObj : XObj → Prop
  | .index i => okIdx Z i
  | .vals v => okVals Z v
  | .series _ _ v i => okVals Z v ∧ okIdx Z i
  | .frame cs c i => okValsL Z cs ∧ okIdx Z c ∧ okIdx Z i
  | .scalar _ => True
end

/-! ## nullable arrays -/

theorem bit_inj {m m' : Bool} (h : (if m then 1 else 0 : Nat) = (if m' then 1 else 0)) : m = m' := by
  cases m <;> cases m' <;> simp at h <;> rfl

/-- the zero-filled data and the mask determine the NA positions and the values that are not missing -/
theorem cells_injective (z : Nat) : ∀ c c' : List (Bool × Nat), fillC z c = fillC z c' → bitsC c = bitsC c' → CellsEq c c'
  | [], [], _, _ => .nil
  | [], _ :: _, _, h => by cases ‹Bool × Nat›; simp [bitsC] at h
  | _ :: _, [], _, h => by cases ‹Bool × Nat›; simp [bitsC] at h
  | (m, d) :: r, (m', d') :: r', hf, hb => by
    simp only [fillC, bitsC, List.cons.injEq] at hf hb
    have hm := bit_inj hb.1
    subst hm
    have ih := cells_injective z r r' hf.2 hb.2
    cases m with
    | true => exact .na ih
    | false =>
      have : d = d' := by simpa using hf.1
      subst this
      exact .val d ih

theorem cells_deterministic (z : Nat) : ∀ c c' : List (Bool × Nat), CellsEq c c' →
    fillC z c = fillC z c' ∧ bitsC c = bitsC c' ∧ c.length = c'.length
  | _, _, .nil => ⟨rfl, rfl, rfl⟩
  | _, _, .na h => by
    obtain ⟨h1, h2, h3⟩ := cells_deterministic z _ _ h
    simp [fillC, bitsC, h1, h2, h3]
  | _, _, .val d h => by
    obtain ⟨h1, h2, h3⟩ := cells_deterministic z _ _ h
    simp [fillC, bitsC, h1, h2, h3]

/-! ## separation lemmas: the token of an array is never the token of an index -/

theorem norm_nd_ne_idx (c : Val) (i : XIndex) (h : isNd c = true) : norm c ≠ xnormIdx i := by
  cases c <;> simp [isNd] at h
  simp only [norm]
  split <;> cases i <;> simp [xnormIdx]

theorem arrTok_ne_idx (p : List Nat) (t : Nat) (dt : String) (n : Nat) (i : XIndex) : arrTok1 (.hash t p) dt n ≠ xnormIdx i := by
  cases i <;> simp [arrTok1, xnormIdx]

/-! ## injectivity -/

mutual
/-- **values that differ observably get different normal forms** -/
theorem xnormVals_injective (Z : String → Nat) : ∀ a b : XVals, okVals Z a → okVals Z b →
    xnormVals a = xnormVals b → XValsEq a b
  | .np v, .np w, _, _, h => .np (C12.norm_injective v w h)
  | .np v, .ea .., ha, _, h => absurd h (norm_arr_ne_list v _ ha)
  | .np v, .masked .., ha, _, h => absurd h (norm_arr_ne_list v _ ha)
  | .np v, .interval .., ha, _, h => absurd h (norm_arr_ne_list v _ ha)
  | .np v, .cat .., ha, _, h => absurd h (norm_arr_ne_list v _ ha)
  | .ea .., .np w, _, hb, h => absurd h.symm (norm_arr_ne_list w _ hb)
  | .masked .., .np w, _, hb, h => absurd h.symm (norm_arr_ne_list w _ hb)
  | .interval .., .np w, _, hb, h => absurd h.symm (norm_arr_ne_list w _ hb)
  | .cat .., .np w, _, hb, h => absurd h.symm (norm_arr_ne_list w _ hb)
  | .ea v dn, .ea w dn', _, _, h => by
    simp only [xnormVals, Val.list.injEq, List.cons.injEq, Val.str.injEq, and_true] at h
    obtain ⟨hv, rfl⟩ := h
    exact .ea _ (C12.norm_injective v w hv)
  | .ea .., .masked .., _, _, h => by simp [xnormVals] at h
  | .ea .., .interval .., _, _, h => by simp [xnormVals] at h
  | .ea .., .cat .., _, _, h => by simp [xnormVals] at h
  | .masked .., .ea .., _, _, h => by simp [xnormVals] at h
  | .interval .., .ea .., _, _, h => by simp [xnormVals] at h
  | .cat .., .ea .., _, _, h => by simp [xnormVals] at h
  | .masked dt c z dn, .masked dt' c' z' dn', ha, hb, h => by
    simp only [okVals] at ha hb
    simp only [xnormVals, arrTok1, Val.list.injEq, List.cons.injEq, Val.tuple.injEq, Val.hash.injEq, Val.atom.injEq,
      Val.str.injEq, and_true, true_and] at h
    obtain ⟨⟨hf, rfl, _⟩, ⟨hb', _⟩, rfl⟩ := h
    subst ha hb
    exact .masked _ _ _ (cells_injective _ c c' hf hb')
  | .masked .., .interval l .., _, _, h => by
    simp only [xnormVals, Val.list.injEq, List.cons.injEq] at h
    exact absurd h.1 (arrTok_ne_idx _ _ _ _ l)
  | .interval l .., .masked .., _, _, h => by
    simp only [xnormVals, Val.list.injEq, List.cons.injEq] at h
    exact absurd h.1.symm (arrTok_ne_idx _ _ _ _ l)
  | .masked .., .cat .., _, _, h => by simp [xnormVals] at h
  | .cat .., .masked .., _, _, h => by simp [xnormVals] at h
  | .interval .., .cat .., _, _, h => by simp [xnormVals] at h
  | .cat .., .interval .., _, _, h => by simp [xnormVals] at h
  | .interval l r cl, .interval l' r' cl', ha, hb, h => by
    simp only [okVals] at ha hb
    simp only [xnormVals, Val.list.injEq, List.cons.injEq, Val.str.injEq, and_true] at h
    obtain ⟨hl, hr, rfl⟩ := h
    exact .interval _ (xnormIdx_injective Z l l' ha.1 hb.1 hl) (xnormIdx_injective Z r r' ha.2 hb.2 hr)
  | .cat v c o, .cat w c' o', ha, hb, h => by
    simp only [okVals] at ha hb
    simp only [xnormVals, Val.list.injEq, List.cons.injEq, Val.bool.injEq, and_true] at h
    obtain ⟨hv, hc, rfl⟩ := h
    exact .cat _ (C12.norm_injective v w hv) (xnormIdx_injective Z c c' ha hb hc)
/-- **indexes that differ observably get different normal forms** (MultiIndex: names, levels in their order, codes) -/
theorem xnormIdx_injective (Z : String → Nat) : ∀ i j : XIndex, okIdx Z i → okIdx Z j →
    xnormIdx i = xnormIdx j → XIdxEq i j
  | .range cls a b c dt name, .range cls' a' b' c' dt' name', _, _, h => by
    simp only [xnormIdx, Val.tuple.injEq, List.cons.injEq, Val.atom.injEq, Val.int.injEq, and_true] at h
    obtain ⟨rfl, rfl, rfl, rfl, rfl, rfl⟩ := h
    exact .range _ _ _ _ _ _
  | .range .., .plain .., _, _, h => by simp [xnormIdx] at h
  | .plain .., .range .., _, _, h => by simp [xnormIdx] at h
  | .range .., .multi .., _, _, h => by simp [xnormIdx] at h
  | .multi .., .range .., _, _, h => by simp [xnormIdx] at h
  | .plain .., .multi .., _, _, h => by simp [xnormIdx] at h
  | .multi .., .plain .., _, _, h => by simp [xnormIdx] at h
  | .plain cls name v, .plain cls' name' w, hi, hj, h => by
    simp only [okIdx] at hi hj
    simp only [xnormIdx, Val.tuple.injEq, List.cons.injEq, Val.atom.injEq, and_true] at h
    obtain ⟨rfl, rfl, hv⟩ := h
    exact .plain _ _ (xnormVals_injective Z v w hi hj hv)
  | .multi name ls cs, .multi name' ls' cs', hi, hj, h => by
    simp only [okIdx] at hi hj
    simp only [xnormIdx, Val.list.injEq, List.cons.injEq] at h
    obtain ⟨rfl, h⟩ := h
    obtain ⟨hl, hc⟩ := xnormIdxL_split Z ls ls' cs cs' hi.1 hj.1 hi.2 hj.2 h
    exact .multi _ hl (C12.normL_injective cs cs' hc)
/-- the list `levels ++ codes` of a MultiIndex token splits in one way only: a level token is never a code token -/
theorem xnormIdxL_split (Z : String → Nat) : ∀ (ls ls' : List XIndex) (cs cs' : List Val), okIdxL Z ls → okIdxL Z ls' →
    (∀ c ∈ cs, isNd c = true) → (∀ c ∈ cs', isNd c = true) →
    xnormIdxL ls ++ normL cs = xnormIdxL ls' ++ normL cs' → XIdxEqL ls ls' ∧ normL cs = normL cs'
  | [], [], _, _, _, _, _, _, h => ⟨.nil, by simpa [xnormIdxL] using h⟩
  | [], l' :: ls', cs, cs', _, _, hc, _, h => by
    exfalso
    cases cs with
    | nil => simp [xnormIdxL, normL] at h
    | cons c cs0 =>
      simp only [xnormIdxL, normL, List.nil_append, List.cons_append, List.cons.injEq] at h
      exact norm_nd_ne_idx c l' (hc c (by simp)) h.1
  | l :: ls, [], cs, cs', _, _, _, hc', h => by
    exfalso
    cases cs' with
    | nil => simp [xnormIdxL, normL] at h
    | cons c cs0 =>
      simp only [xnormIdxL, normL, List.nil_append, List.cons_append, List.cons.injEq] at h
      exact norm_nd_ne_idx c l (hc' c (by simp)) h.1.symm
  | l :: ls, l' :: ls', cs, cs', hl, hl', hc, hc', h => by
    simp only [okIdxL] at hl hl'
    simp only [xnormIdxL, List.cons_append, List.cons.injEq] at h
    obtain ⟨h1, h2⟩ := xnormIdxL_split Z ls ls' cs cs' hl.2 hl'.2 hc hc' h.2
    exact ⟨.cons (xnormIdx_injective Z l l' hl.1 hl'.1 h.1) h1, h2⟩
end

theorem xnormValsL_injective (Z : String → Nat) : ∀ cs ds : List XVals, okValsL Z cs → okValsL Z ds →
    xnormValsL cs = xnormValsL ds → XValsEqL cs ds
  | [], [], _, _, _ => .nil
  | [], _ :: _, _, _, h => by simp [xnormValsL] at h
  | _ :: _, [], _, _, h => by simp [xnormValsL] at h
  | c :: cs, d :: ds, ha, hb, h => by
    simp only [xnormValsL, List.cons.injEq] at h
    exact .cons (xnormVals_injective Z c d ha.1 hb.1 h.1) (xnormValsL_injective Z cs ds ha.2 hb.2 h.2)

theorem xnormValsL_length : ∀ cs : List XVals, (xnormValsL cs).length = cs.length
  | [] => rfl
  | _ :: cs => by simp [xnormValsL, xnormValsL_length cs]

/-- the class of an object (what `type(x)` tells before any value is looked at) -/
def xcls : XObj → Nat
  | .index _ => 0 | .vals _ => 1 | .series .. => 2 | .frame .. => 3 | .scalar _ => 4

/-- **objects of one class that differ observably get different normal forms.**  `_partial`: the hypothesis
    `xcls a = xcls b` (both are indexes, both arrays, both series, both frames, both scalars) is what is missing for the
    full statement; see the separation theorems below for the cross-class pairs that are proved. -/
theorem xnorm_injective_partial (Z : String → Nat) : ∀ a b : XObj, xcls a = xcls b → okObj Z a → okObj Z b →
    xnorm a = xnorm b → XObsEq a b
  | .index i, .index j, _, ha, hb, h => .index (xnormIdx_injective Z i j ha hb h)
  | .vals v, .vals w, _, ha, hb, h => .vals (xnormVals_injective Z v w ha hb h)
  | .series name dt v i, .series name' dt' w j, _, ha, hb, h => by
    simp only [xnorm, Val.list.injEq, List.cons.injEq, Val.atom.injEq, and_true] at h
    obtain ⟨rfl, rfl, hv, hi⟩ := h
    exact .series _ _ (xnormVals_injective Z v w ha.1 hb.1 hv) (xnormIdx_injective Z i j ha.2 hb.2 hi)
  | .frame cs c i, .frame ds c' i', _, ha, hb, h => by
    simp only [xnorm, Val.list.injEq] at h
    have hl : (xnormValsL cs).length = (xnormValsL ds).length := by
      have := congrArg List.length h
      simp only [List.length_append, List.length_cons, List.length_nil] at this
      omega
    obtain ⟨h1, h2⟩ := List.append_inj h hl
    simp only [List.cons.injEq, and_true] at h2
    exact .frame (xnormValsL_injective Z cs ds ha.1 hb.1 h1) (xnormIdx_injective Z c c' ha.2.1 hb.2.1 h2.1)
      (xnormIdx_injective Z i i' ha.2.2 hb.2.2 h2.2)
  | .scalar r, .scalar r', _, _, _, h => by
    simp only [xnorm, Val.atom.injEq] at h
    subst h
    exact .scalar _
  | .index _, .vals _, hc, _, _, _ => by simp [xcls] at hc
  | .index _, .series .., hc, _, _, _ => by simp [xcls] at hc
  | .index _, .frame .., hc, _, _, _ => by simp [xcls] at hc
  | .index _, .scalar _, hc, _, _, _ => by simp [xcls] at hc
  | .vals _, .index _, hc, _, _, _ => by simp [xcls] at hc
  | .vals _, .series .., hc, _, _, _ => by simp [xcls] at hc
  | .vals _, .frame .., hc, _, _, _ => by simp [xcls] at hc
  | .vals _, .scalar _, hc, _, _, _ => by simp [xcls] at hc
  | .series .., .index _, hc, _, _, _ => by simp [xcls] at hc
  | .series .., .vals _, hc, _, _, _ => by simp [xcls] at hc
  | .series .., .frame .., hc, _, _, _ => by simp [xcls] at hc
  | .series .., .scalar _, hc, _, _, _ => by simp [xcls] at hc
  | .frame .., .index _, hc, _, _, _ => by simp [xcls] at hc
  | .frame .., .vals _, hc, _, _, _ => by simp [xcls] at hc
  | .frame .., .series .., hc, _, _, _ => by simp [xcls] at hc
  | .frame .., .scalar _, hc, _, _, _ => by simp [xcls] at hc
  | .scalar _, .index _, hc, _, _, _ => by simp [xcls] at hc
  | .scalar _, .vals _, hc, _, _, _ => by simp [xcls] at hc
  | .scalar _, .series .., hc, _, _, _ => by simp [xcls] at hc
  | .scalar _, .frame .., hc, _, _, _ => by simp [xcls] at hc

/-- scalars: the class (Timestamp / Timedelta / NaT / NA) is a function of the printed form, so scalars of different
    classes never share a normal form -/
theorem scalar_class_of_token (r r' : String) (h : xnorm (.scalar r) = xnorm (.scalar r')) : sclsOf r = sclsOf r' := by
  simp only [xnorm, Val.atom.injEq] at h
  rw [h]

/-! ## the near misses, one by one (corollaries of the shapes of the tokens; no side condition) -/

/-- the dtype name of an extension array — time zone, unit, frequency of tz-aware / period values — is in the token -/
theorem ea_dtype_in_token (v w : Val) (dn dn' : String) (h : xnormVals (.ea v dn) = xnormVals (.ea w dn')) : dn = dn' := by
  simp only [xnormVals, Val.list.injEq, List.cons.injEq, Val.str.injEq, and_true] at h
  exact h.2

/-- the NA positions of a nullable array are in the token (a missing value is never confused with a stored one) -/
theorem masked_na_positions (dt dt' dn dn' : String) (c c' : List (Bool × Nat)) (z z' : Nat)
    (h : xnormVals (.masked dt c z dn) = xnormVals (.masked dt' c' z' dn')) : bitsC c = bitsC c' ∧ dt = dt' ∧ dn = dn' := by
  simp only [xnormVals, arrTok1, Val.list.injEq, List.cons.injEq, Val.tuple.injEq, Val.hash.injEq, Val.atom.injEq,
    Val.str.injEq, and_true, true_and] at h
  exact ⟨h.2.1.1, h.1.2.1, h.2.2⟩

/-- the categories (as an index: values IN THEIR ORDER, dtype, name) and the `ordered` flag are in the token -/
theorem cat_categories_in_token (v w : Val) (c c' : XIndex) (o o' : Bool)
    (h : xnormVals (.cat v c o) = xnormVals (.cat w c' o')) : norm v = norm w ∧ xnormIdx c = xnormIdx c' ∧ o = o' := by
  simp only [xnormVals, Val.list.injEq, List.cons.injEq, Val.bool.injEq, and_true] at h
  exact h

/-- the closedness of an interval array is in the token -/
theorem interval_closed_in_token (l r l' r' : XIndex) (cl cl' : String)
    (h : xnormVals (.interval l r cl) = xnormVals (.interval l' r' cl')) : cl = cl' := by
  simp only [xnormVals, Val.list.injEq, List.cons.injEq, Val.str.injEq, and_true] at h
  exact h.2.2

/-! ## determinism -/

mutual
def wfVals : XVals → Prop
  | .np v => WF v
  | .ea v _ => WF v
  | .masked .. => True
  | .interval l r _ => wfIdx l ∧ wfIdx r
  | .cat v c _ => WF v ∧ wfIdx c
def wfIdx : XIndex → Prop
  | .range .. => True
  | .plain _ _ v => wfVals v
  | .multi _ ls cs => wfIdxL ls ∧ WFL cs
def wfIdxL : List XIndex → Prop
  | [] => True
  | i :: is => wfIdx i ∧ wfIdxL is
end

def wfValsL : List XVals → Prop
  | [] => True
  | v :: vs => wfVals v ∧ wfValsL vs

def wfObj : XObj → Prop
  | .index i => wfIdx i
  | .vals v => wfVals v
  | .series _ _ v i => wfVals v ∧ wfIdx i
  | .frame cs c i => wfValsL cs ∧ wfIdx c ∧ wfIdx i
  | .scalar _ => True

mutual
/-- **values no observer can tell apart get the same normal form**: layout of the arrays and what is stored underneath
    a missing value do not matter -/
theorem xnormVals_deterministic : ∀ a b : XVals, XValsEq a b → wfVals a → wfVals b → xnormVals a = xnormVals b
  | _, _, .np hv, ha, hb => by simp only [xnormVals, NF.norm_deterministic _ _ hv ha hb]
  | _, _, .ea dn hv, ha, hb => by simp only [xnormVals, NF.norm_deterministic _ _ hv ha hb]
  | _, _, .masked dt z dn hc, _, _ => by
    obtain ⟨h1, h2, h3⟩ := cells_deterministic z _ _ hc
    simp only [xnormVals, h1, h2, h3]
  | _, _, .interval cl hl hr, ha, hb => by
    simp only [wfVals] at ha hb
    simp only [xnormVals, xnormIdx_deterministic _ _ hl ha.1 hb.1, xnormIdx_deterministic _ _ hr ha.2 hb.2]
  | _, _, .cat o hv hc, ha, hb => by
    simp only [wfVals] at ha hb
    simp only [xnormVals, NF.norm_deterministic _ _ hv ha.1 hb.1, xnormIdx_deterministic _ _ hc ha.2 hb.2]
theorem xnormIdx_deterministic : ∀ i j : XIndex, XIdxEq i j → wfIdx i → wfIdx j → xnormIdx i = xnormIdx j
  | _, _, .range .., _, _ => rfl
  | _, _, .plain cls name hv, hi, hj => by
    simp only [wfIdx] at hi hj
    simp only [xnormIdx, xnormVals_deterministic _ _ hv hi hj]
  | _, _, .multi name hl hc, hi, hj => by
    simp only [wfIdx] at hi hj
    simp only [xnormIdx, xnormIdxL_deterministic _ _ hl hi.1 hj.1, NF.normL_deterministic _ _ hc hi.2 hj.2]
theorem xnormIdxL_deterministic : ∀ is js : List XIndex, XIdxEqL is js → wfIdxL is → wfIdxL js → xnormIdxL is = xnormIdxL js
  | _, _, .nil, _, _ => rfl
  | _, _, .cons h1 h2, hi, hj => by
    simp only [wfIdxL] at hi hj
    simp only [xnormIdxL, xnormIdx_deterministic _ _ h1 hi.1 hj.1, xnormIdxL_deterministic _ _ h2 hi.2 hj.2]
end

theorem xnormValsL_deterministic : ∀ cs ds : List XVals, XValsEqL cs ds → wfValsL cs → wfValsL ds → xnormValsL cs = xnormValsL ds
  | _, _, .nil, _, _ => rfl
  | _, _, .cons h1 h2, ha, hb => by
    simp only [wfValsL] at ha hb
    simp only [xnormValsL, xnormVals_deterministic _ _ h1 ha.1 hb.1, xnormValsL_deterministic _ _ h2 ha.2 hb.2]

/-- **pandas objects of the extended universe that no observer can tell apart get the same normal form** -/
theorem xnorm_deterministic : ∀ a b : XObj, XObsEq a b → wfObj a → wfObj b → xnorm a = xnorm b
  | _, _, .index hi, ha, hb => xnormIdx_deterministic _ _ hi ha hb
  | _, _, .vals hv, ha, hb => xnormVals_deterministic _ _ hv ha hb
  | _, _, .series name dt hv hi, ha, hb => by
    simp only [wfObj] at ha hb
    simp only [xnorm, xnormVals_deterministic _ _ hv ha.1 hb.1, xnormIdx_deterministic _ _ hi ha.2 hb.2]
  | _, _, .frame hc hcol hi, ha, hb => by
    simp only [wfObj] at ha hb
    simp only [xnorm, xnormValsL_deterministic _ _ hc ha.1 hb.1, xnormIdx_deterministic _ _ hcol ha.2.1 hb.2.1,
      xnormIdx_deterministic _ _ hi ha.2.2 hb.2.2]
  | _, _, .scalar _, _, _ => rfl

/-- objects of one class: same token ⇔ observably equal -/
theorem xtoken_iff_partial (Z : String → Nat) (a b : XObj) (hc : xcls a = xcls b) (ca : okObj Z a) (cb : okObj Z b)
    (wa : wfObj a) (wb : wfObj b) : xnorm a = xnorm b ↔ XObsEq a b :=
  ⟨xnorm_injective_partial Z a b hc ca cb, fun h => xnorm_deterministic a b h wa wb⟩

/-! ## separation across classes (the pairs proved in this round) -/

theorem norm_nd_ne_atom (c : Val) (r : String) (h : isNd c = true) : norm c ≠ .atom r := by
  cases c <;> simp [isNd] at h
  simp only [norm]
  split <;> simp

theorem xnormIdx_ne_atom (i : XIndex) (r : String) : xnormIdx i ≠ .atom r := by
  cases i <;> simp [xnormIdx]

theorem xnormVals_ne_atom (Z : String → Nat) (v : XVals) (r : String) (h : okVals Z v) : xnormVals v ≠ .atom r := by
  cases v with
  | np v => exact norm_arr_ne_atom v r h
  | _ => simp [xnormVals]

/-- a scalar is never confused with an index, an array, a series or a frame -/
theorem scalar_separated (Z : String → Nat) (r : String) : ∀ b : XObj, okObj Z b → xnorm (.scalar r) = xnorm b → ∃ r', b = .scalar r'
  | .scalar r', _, _ => ⟨r', rfl⟩
  | .index i, _, h => absurd h.symm (xnormIdx_ne_atom i r)
  | .vals v, hb, h => absurd h.symm (xnormVals_ne_atom Z v r hb)
  | .series .., _, h => by simp [xnorm] at h
  | .frame .., _, h => by simp [xnorm] at h

/-- a series is never confused with a MultiIndex (neither token names its class): the second entry of a series token is
    a dtype, that of a MultiIndex token the token of a level or of a code array -/
theorem series_ne_multi (Z : String → Nat) (n : Val) (dt : String) (v : XVals) (i : XIndex) (name : Val) (ls : List XIndex)
    (cs : List Val) (hm : okIdx Z (.multi name ls cs)) : xnorm (.series n dt v i) ≠ xnorm (.index (.multi name ls cs)) := by
  intro h
  simp only [okIdx] at hm
  simp only [xnorm, xnormIdx, Val.list.injEq, List.cons.injEq] at h
  obtain ⟨_, h⟩ := h
  cases ls with
  | nil =>
    cases cs with
    | nil => simp [xnormIdxL, normL] at h
    | cons c cs0 =>
      simp only [xnormIdxL, normL, List.nil_append, List.cons.injEq] at h
      exact norm_nd_ne_atom c dt (hm.2 c (by simp)) h.1.symm
  | cons l ls0 =>
    simp only [xnormIdxL, List.cons_append, List.cons.injEq] at h
    exact xnormIdx_ne_atom l dt h.1.symm

/-- a RangeIndex / Index (a tuple naming its class) is never confused with a series, a frame, a MultiIndex or an
    extension array (lists) -/
theorem classed_index_ne_list (i : XIndex) (hi : ∀ n l c, i ≠ .multi n l c) (xs : List Val) : xnormIdx i ≠ .list xs := by
  cases i with
  | multi n l c => exact absurd rfl (hi n l c)
  | _ => simp [xnormIdx]

/-! ## non-vacuity -/

def zOf : String → Nat := fun _ => 0
def rng2 : XIndex := .range "<class 'pandas.RangeIndex'>" 0 2 1 "dtype('int64')" .none
def catsAB : XIndex := .plain "<class 'pandas.Index'>" .none (.ea (.objarr [2] [[97], [98]]) "str")
def catsBA : XIndex := .plain "<class 'pandas.Index'>" .none (.ea (.objarr [2] [[98], [97]]) "str")
def codes01 : Val := .ndarray "dtype('int8')" [2] [1] 0 [0, 1]

/-- `pd.array([1, None], dtype='Int64')` whatever is stored underneath the missing value: one token -/
example : xnormVals (.masked "dtype('int64')" [(false, 1), (true, 7)] 0 "Int64") =
    xnormVals (.masked "dtype('int64')" [(false, 1), (true, 9)] 0 "Int64") :=
  xnormVals_deterministic _ _ (.masked _ _ _ (.val 1 (.na .nil))) trivial trivial

/-- `[1, <NA>]` and `[1, 0]` (the value the missing one is filled with): different tokens -/
example : xnormVals (.masked "dtype('int64')" [(false, 1), (true, 0)] 0 "Int64") ≠
    xnormVals (.masked "dtype('int64')" [(false, 1), (false, 0)] 0 "Int64") := by
  intro h
  have := (masked_na_positions _ _ _ _ _ _ _ _ h).1
  simp [bitsC] at this

/-- same values and codes, categories listed in the other order: different tokens -/
example : xnormVals (.cat codes01 catsAB false) ≠ xnormVals (.cat codes01 catsBA false) := by
  intro h
  have h2 := (cat_categories_in_token _ _ _ _ _ _ h).2.1
  simp [catsAB, catsBA, xnormIdx, xnormVals, norm, joinDash] at h2

/-- the hypotheses of the injectivity theorem hold for a two-level MultiIndex over a categorical and a range level -/
example : okIdx zOf (.multi .none [catsAB, rng2] [codes01, codes01]) := by
  simp [okIdx, okIdxL, okVals, catsAB, rng2, codes01, isNd]

/-- levels in the other order (codes alike): different tokens -/
example : xnormIdx (.multi .none [catsAB, rng2] [codes01, codes01]) ≠ xnormIdx (.multi .none [rng2, catsAB] [codes01, codes01]) := by
  intro h
  have := xnormIdx_injective zOf _ _ (by simp [okIdx, okIdxL, okVals, catsAB, rng2, codes01, isNd])
    (by simp [okIdx, okIdxL, okVals, catsAB, rng2, codes01, isNd]) h
  cases this with
  | multi _ hl _ => cases hl with | cons h1 _ => simp [catsAB, rng2] at h1; cases h1

/-- same instants, other time zone: different tokens -/
example (v : Val) : xnormVals (.ea v "datetime64[us, UTC]") ≠ xnormVals (.ea v "datetime64[us, Europe/Berlin]") := by
  intro h
  have := ea_dtype_in_token _ _ _ _ h
  simp at this

/-- (the Timestamp / Timedelta prefixes of `sclsOf` are evaluated by the driver and compared with `type(x)` by the harness) -/
example : sclsOf "NaT" = .nat ∧ sclsOf "<NA>" = .na := by simp [sclsOf]

end Dask.C12X
