import DaskModel.Lemmas.Groupby
import DaskModel.Generated.GroupbyAggs
namespace Dask.C38
open Dask.Groupby
variable {V M : Type}

/-- **groupby_agg_eq_pandas (tree path)**: for every partitioning of the frame, every `split_every ≥ 1`
    and every associative merge, the tree reduction of the per-partition partial aggregates is the
    aggregate of the whole frame, group by group (values folded in row order). -/
theorem groupby_agg_eq_global (op : M → M → M) (hassoc : ∀ a b c, op (op a b) c = op a (op b c))
    (inj : V → Option M) (parts : List (List (Nat × V))) (k : Nat) (hk : 0 < k) (fuel : Nat) :
    treeReduce op k fuel (parts.map (chunk op inj)) = chunk op inj parts.flatten := by
  rw [treeReduce_eq_combine op hassoc k hk, combine_chunks op hassoc]

/-- **split_out > 1 with an order-preserving (task) shuffle**: every group is aggregated in exactly one
    output partition, `h key % n`, and there it gets the whole-frame aggregate. -/
theorem groupby_shuffle_eq_global (op : M → M → M) (hassoc : ∀ a b c, op (op a b) c = op a (op b c))
    (inj : V → Option M) (parts : List (List (Nat × V))) (h : Nat → Nat) (n p key : Nat) :
    shuffleReduce op h n (parts.map (chunk op inj)) p key =
      if h key % n = p then chunk op inj parts.flatten key else none := by
  unfold shuffleReduce
  rw [combine_chunks op hassoc]

theorem foldl_perm {α β : Type} (f : β → α → β) (hf : ∀ b x y, f (f b x) y = f (f b y) x) {l₁ l₂ : List α}
    (p : l₁.Perm l₂) : ∀ b, l₁.foldl f b = l₂.foldl f b := by
  induction p with
  | nil => intro b; rfl
  | cons x _ ih => intro b; simp [ih]
  | swap x y l => intro b; simp [hf]
  | trans _ _ ih1 ih2 => intro b; rw [ih1, ih2]

/-- for a commutative (and associative) merge the order in which the partials of a group arrive is
    irrelevant — the disk shuffle is as good as the task shuffle for sum/count/min/max/mean/var -/
theorem commutative_arrival_order_irrelevant (op : M → M → M)
    (hassoc : ∀ a b c, op (op a b) c = op a (op b c)) (hcomm : ∀ a b, op a b = op b a)
    (ps qs : List (Nat → Option M)) (hperm : ps.Perm qs) : combine op ps = combine op qs := by
  unfold combine
  apply foldl_perm _ _ hperm
  intro acc f g
  funext k
  simp only [merge]
  have hc : ∀ x y : Option M, omerge op x y = omerge op y x := by
    intro x y; cases x <;> cases y <;> simp [omerge, hcomm]
  rw [omerge_assoc op hassoc, omerge_assoc op hassoc, hc (f k) (g k)]

/-- **first/last are not commutative**: with a shuffle that does not keep the partials of a group in
    source order (DiskShuffle) `first` can return a later value (DESIGN §6 #20) -/
theorem disk_first_refuted :
    ¬ ∀ (ps qs : List (Nat → Option Int)), ps.Perm qs → combine opFirst ps = combine opFirst qs := by
  intro h
  have := h [fun _ => some 1, fun _ => some 2] [fun _ => some 2, fun _ => some 1] (List.Perm.swap _ _ _)
  have := congrFun this 0
  simp [combine, merge, omerge, opFirst] at this

theorem opFirst_assoc (a b c : Int) : opFirst (opFirst a b) c = opFirst a (opFirst b c) := rfl
theorem opLast_assoc (a b c : Int) : opLast (opLast a b) c = opLast a (opLast b c) := rfl
theorem opMin_assoc (a b c : Int) : opMin (opMin a b) c = opMin a (opMin b c) := by
  unfold opMin; split <;> split <;> (try split) <;> (try split) <;> omega
theorem opMax_assoc (a b c : Int) : opMax (opMax a b) c = opMax a (opMax b c) := by
  unfold opMax; split <;> split <;> (try split) <;> (try split) <;> omega
theorem opPair_assoc (a b c : Int × Int) : opPair (opPair a b) c = opPair a (opPair b c) := by
  simp [opPair, Int.add_assoc]
theorem opTriple_assoc (a b c : Int × Int × Int) : opTriple (opTriple a b) c = opTriple a (opTriple b c) := by
  simp [opTriple, Int.add_assoc]

/-- `first` of the whole frame through any partitioning and tree shape (needs the row order: provided by
    `chunk`'s left-to-right fold and the order-preserving combine) -/
theorem groupby_first (parts : List (List (Nat × Option Int))) (k : Nat) (hk : 0 < k) (fuel : Nat) :
    treeReduce opFirst k fuel (parts.map (chunk opFirst id)) = chunk opFirst id parts.flatten :=
  groupby_agg_eq_global opFirst opFirst_assoc id parts k hk fuel

/-! ### the aggregation classes of the source, extracted on every run (`Generated/GroupbyAggs.lean`) -/

/-- the merge a `(groupby_chunk, groupby_aggregate)` pair denotes, when it is one of the monoid homomorphisms the
    theorems above cover (`count`/`size` inject 1 per (non-NA) row and merge by `+`) -/
def classify : String × String → Option String
  | ("sum", "sum") => some "add"
  | ("prod", "prod") => some "mul"
  | ("min", "min") => some "min"
  | ("max", "max") => some "max"
  | ("first", "first") => some "first"
  | ("last", "last") => some "last"
  | ("count", "sum") => some "add"
  | ("size", "sum") => some "add"
  | _ => none

/-- **the extracted table is the one the model assumes**: every `SingleAggregation` subclass of
    `dask_expr/_groupby.py` with its (chunk, aggregate) pair, classified. `IdxMin`/`IdxMax` = (`idxmin`, `first`) is
    NOT a homomorphism (the first partial wins without comparing values — known finding); `Head`/`Tail`/`Unique`/
    `ValueCounts` use their own combine functions and are validated only. A change of any pair in the source
    changes the generated table and breaks this theorem. -/
theorem extracted_aggregations_classified :
    Dask.Generated.groupbyAggs.map (fun e => (e.1, classify (e.2.1, e.2.2))) =
      [("Count", some "add"), ("First", some "first"), ("Head", none), ("IdxMax", none), ("IdxMin", none),
       ("Last", some "last"), ("Max", some "max"), ("Min", some "min"), ("Prod", some "mul"), ("Size", some "add"),
       ("Sum", some "add"), ("Tail", none), ("Unique", none), ("ValueCounts", none)] := by decide

/-! non-vacuity -/
example : chunk opFirst id [(0, some 5), (1, none), (1, some 7), (0, some 2)] 1 = some 7 := by decide
example : treeReduce (· + ·) 2 5 ([[(0, 1), (1, 2)], [(0, 3)], [(1, 4), (0, 5)]].map (chunk (· + ·) (fun v : Int => some v))) 0
    = some 9 := by decide

end Dask.C38
