import DaskModel.Lemmas.Groupby
import DaskModel.Lemmas.GroupbySets
import DaskModel.Lemmas.GroupbyScan
import DaskModel.Generated.GroupbyAggs
import DaskModel.Generated.GroupbyCums
import Mathlib.Tactic.Ring
import Mathlib.Tactic.FieldSimp
import Mathlib.Algebra.Order.Field.Rat
/-!
# C38 — groupby results equal pandas groupby

Full statement (properties.jsonl): for any frame, partitioning and grouping keys, every groupby operation of dask equals
pandas on the whole frame, for every split_out / shuffle method / sort / dropna / observed setting.

What is proved here (for ALL frames, partitionings, split_every, hash functions; no size bound), on the model
`Model/Groupby.lean` of the reduction algebra (pandas on one partition is the atom):

* decomposable aggregations (sum/prod/min/max/first/last/count/size/mean/var/std): tree = flat = whole frame
  (`groupby_agg_eq_global`), shuffle path at list level (`groupby_shuffle_rows_eq_global`), arrival order irrelevant for
  commutative merges, relevant for first/last (`disk_first_refuted`); mean/var finalisers (`mean_state_is_moments`,
  `var_state_is_moments`, `var_from_moments`);
* nunique (`nunique_eq_global`); cumulative operations (`cumulative_eq_global`, instances cumsum/cumprod/cumcount);
* the apply family after an order-preserving shuffle sees every group complete and in frame order (`shuffle_group_rows`);
* idxmin/idxmax: the arg-min monoid is partition independent (`groupby_idxmin_spec`, `groupby_idxmax_spec`,
  `argmin_is_minimum`), but dask's (idxmin, first) pair is NOT (`idx_current_is_first_partial`, `idx_current_refuted`).

Not proved (validated by the correspondence harness only): list/dict/named specs and several keys (same algebra, wider
frames), cov/corr, value_counts (= size over a pair key), transform/shift/ffill/bfill per-group functions, median, every
NaN-key / categorical-key rule (dropna/observed), sort order of the result, and everything pandas does inside one partition.
-/
namespace Dask.C38
open Dask.Groupby
variable {V M : Type}

/-- **groupby_agg_eq_pandas (tree path)**: for every partitioning of the frame, every `split_every ≥ 1`
    and every associative merge, the tree reduction of the per-partition partial aggregates is the
    aggregate of the whole frame, group by group (values folded in row order). -/
theorem groupby_agg_eq_global (op : M → M → M) (hassoc : ∀ a b c, op (op a b) c = op a (op b c))
    (inj : V → Option M) (parts : List (List (Nat × V))) (k : Nat) (hk : 0 < k) (fuel : Nat) :
    treeReduce op k fuel (parts.map (chunk op inj)) = chunk op inj parts.flatten := by
  rw [treeReduce_eq_combine op hassoc k hk, combine_chunks op hassoc]

/-- **split_out > 1 with an order-preserving (task) shuffle**, list level: chunk every partition, ship the partial rows,
    split every partial by `h key % n`, concatenate the pieces of output partition `p` in source order, aggregate: every
    group is aggregated in exactly one output partition, `h key % n`, and gets the whole-frame aggregate there. -/
theorem groupby_shuffle_rows_eq_global (op : M → M → M) (hassoc : ∀ a b c, op (op a b) c = op a (op b c))
    (inj : V → Option M) (h : Nat → Nat) (n p k : Nat) (parts : List (List (Nat × V))) :
    chunk op some (shuffleOut h n p (parts.map (partialRows op inj))) k =
      if h k % n = p then chunk op inj parts.flatten k else none :=
  Dask.Groupby.groupby_shuffle_rows_eq_global op hassoc inj h n p k parts

/-- the closed form `shuffleReduce` used by older statements is that list-level pipeline -/
theorem shuffle_closed_form (op : M → M → M) (hassoc : ∀ a b c, op (op a b) c = op a (op b c))
    (inj : V → Option M) (parts : List (List (Nat × V))) (h : Nat → Nat) (n p key : Nat) :
    shuffleReduce op h n (parts.map (chunk op inj)) p key =
      chunk op some (shuffleOut h n p (parts.map (partialRows op inj))) key := by
  rw [groupby_shuffle_rows_eq_global op hassoc]
  unfold shuffleReduce
  rw [combine_chunks op hassoc]

/-- **apply / transform / shift / ffill / bfill / median after the shuffle**: with an order-preserving shuffle the rows of
    group `k` arrive complete and in frame order in exactly one output partition (so any per-group function sees what
    pandas shows it on the whole frame) -/
theorem shuffle_group_rows (h : Nat → Nat) (n p k : Nat) (parts : List (List (Nat × V))) :
    (shuffleOut h n p parts).filter (fun r => r.1 == k) =
      if h k % n = p then parts.flatten.filter (fun r => r.1 == k) else [] :=
  Dask.Groupby.shuffle_group_rows h n p k parts

theorem foldl_perm {α β : Type} (f : β → α → β) (hf : ∀ b x y, f (f b x) y = f (f b y) x) {l₁ l₂ : List α}
    (p : l₁.Perm l₂) : ∀ b, l₁.foldl f b = l₂.foldl f b := by
  induction p with
  | nil => intro b; rfl
  | cons x _ ih => intro b; simp [ih]
  | swap x y l => intro b; simp [hf]
  | trans _ _ ih1 ih2 => intro b; rw [ih1, ih2]

/-- for a commutative (and associative) merge the order in which the partials of a group arrive is
    irrelevant — the disk shuffle is as good as the task shuffle for sum/count/min/max/mean/var -/
theorem commutative_arrival_order_irrelevant (op : M → M → M)
    (hassoc : ∀ a b c, op (op a b) c = op a (op b c)) (hcomm : ∀ a b, op a b = op b a)
    (ps qs : List (Nat → Option M)) (hperm : ps.Perm qs) : combine op ps = combine op qs := by
  unfold combine
  apply foldl_perm _ _ hperm
  intro acc f g
  funext k
  simp only [merge]
  have hc : ∀ x y : Option M, omerge op x y = omerge op y x := by
    intro x y; cases x <;> cases y <;> simp [omerge, hcomm]
  rw [omerge_assoc op hassoc, omerge_assoc op hassoc, hc (f k) (g k)]

/-- **first/last are not commutative**: with a shuffle that does not keep the partials of a group in
    source order (DiskShuffle) `first` can return a later value (DESIGN §6 #20) -/
theorem disk_first_refuted :
    ¬ ∀ (ps qs : List (Nat → Option Int)), ps.Perm qs → combine opFirst ps = combine opFirst qs := by
  intro h
  have := h [fun _ => some 1, fun _ => some 2] [fun _ => some 2, fun _ => some 1] (List.Perm.swap _ _ _)
  have := congrFun this 0
  simp [combine, merge, omerge, opFirst] at this

theorem opFirst_assoc (a b c : Int) : opFirst (opFirst a b) c = opFirst a (opFirst b c) := rfl
theorem opLast_assoc (a b c : Int) : opLast (opLast a b) c = opLast a (opLast b c) := rfl
theorem opMin_assoc (a b c : Int) : opMin (opMin a b) c = opMin a (opMin b c) := by
  unfold opMin; split <;> split <;> (try split) <;> omega
theorem opMax_assoc (a b c : Int) : opMax (opMax a b) c = opMax a (opMax b c) := by
  unfold opMax; split <;> split <;> (try split) <;> omega
theorem opPair_assoc (a b c : Int × Int) : opPair (opPair a b) c = opPair a (opPair b c) := by
  simp [opPair, Int.add_assoc]
theorem opTriple_assoc (a b c : Int × Int × Int) : opTriple (opTriple a b) c = opTriple a (opTriple b c) := by
  simp [opTriple, Int.add_assoc]

/-- `first` of the whole frame through any partitioning and tree shape (needs the row order: provided by
    `chunk`'s left-to-right fold and the order-preserving combine) -/
theorem groupby_first (parts : List (List (Nat × Option Int))) (k : Nat) (hk : 0 < k) (fuel : Nat) :
    treeReduce opFirst k fuel (parts.map (chunk opFirst id)) = chunk opFirst id parts.flatten :=
  groupby_agg_eq_global opFirst opFirst_assoc id parts k hk fuel

/-! ### size / count -/

/-- **size**: the tree reduction of the per-partition sizes (1 per row, merged by `+`) is the number of rows of the group in
    the whole frame (`count` is the same with 0 for an NA cell) -/
theorem groupby_size_eq_row_count (parts : List (List (Nat × V))) (k : Nat) (hk : 0 < k) (fuel key : Nat) :
    treeReduce (fun a b : Int => a + b) k fuel (parts.map (chunk (fun a b : Int => a + b) (fun _ : V => some (1 : Int)))) key =
      if (parts.flatten.filter fun r => r.1 == key).length = 0 then none
      else some ((parts.flatten.filter fun r => r.1 == key).length : Int) := by
  rw [groupby_agg_eq_global _ Int.add_assoc _ parts k hk fuel, chunk_size_is_count]

/-! ### finalisers of mean / var / std -/

/-- the `(Σ, n)` state of `mean` over the non-NA values `vs` of a group -/
theorem mean_state_is_moments (vs : List Int) (hne : vs ≠ []) :
    fold1 opPair (vs.map fun v => some (v, (1 : Int))) = some (vs.sum, (vs.length : Int)) := by
  induction vs with
  | nil => exact absurd rfl hne
  | cons v vs ih =>
    cases vs with
    | nil => simp [fold1, omerge]
    | cons w ws =>
      have := ih (by simp)
      rw [List.map_cons, ← List.singleton_append, fold1_append opPair opPair_assoc, this]
      simp only [fold1, List.foldl_cons, List.foldl_nil, omerge, opPair, List.sum_cons, List.length_cons]
      congr 2
      push_cast
      omega

/-- the `(n, Σ, Σ²)` state of `var`/`std` over the non-NA values `vs` of a group -/
theorem var_state_is_moments (vs : List Int) (hne : vs ≠ []) :
    fold1 opTriple (vs.map fun v => some ((1 : Int), v, v * v)) =
      some ((vs.length : Int), vs.sum, (vs.map fun v => v * v).sum) := by
  induction vs with
  | nil => exact absurd rfl hne
  | cons v vs ih =>
    cases vs with
    | nil => simp [fold1, omerge]
    | cons w ws =>
      have := ih (by simp)
      rw [List.map_cons, ← List.singleton_append, fold1_append opTriple opTriple_assoc, this]
      simp only [fold1, List.foldl_cons, List.foldl_nil, omerge, opTriple, List.sum_cons, List.length_cons,
        List.map_cons]
      congr 2
      · push_cast; omega

def sumQ (xs : List Int) : ℚ := (xs.map fun (x : Int) => (Int.cast x : ℚ)).sum
def sumSqQ (xs : List Int) : ℚ := (xs.map fun (x : Int) => (Int.cast x : ℚ) * (Int.cast x : ℚ)).sum
/-- Σ (x − m)² -/
def devSq (m : ℚ) (xs : List Int) : ℚ :=
  (xs.map fun (x : Int) => ((Int.cast x : ℚ) - m) * ((Int.cast x : ℚ) - m)).sum

theorem devSq_expand (m : ℚ) (xs : List Int) :
    devSq m xs = sumSqQ xs - 2 * m * sumQ xs + (xs.length : ℚ) * (m * m) := by
  induction xs with
  | nil => simp [devSq, sumSqQ, sumQ]
  | cons x xs ih =>
    simp only [devSq, sumSqQ, sumQ, List.map_cons, List.sum_cons, List.length_cons] at ih ⊢
    rw [ih]
    push_cast
    ring

/-- **var/std from the three moments** (`_var_agg`, `_finalize_var`): over exact rationals, `(Σx² − (Σx)²/n)/(n − ddof)` IS
    the two-pass `Σ(x − mean)²/(n − ddof)`, for every non-empty group and every `ddof` -/
theorem var_from_moments (xs : List Int) (ddof : ℚ) (hn : xs.length ≠ 0) :
    (sumSqQ xs - sumQ xs * sumQ xs / xs.length) / (xs.length - ddof)
      = devSq (sumQ xs / xs.length) xs / (xs.length - ddof) := by
  rw [devSq_expand]
  have h : (xs.length : ℚ) ≠ 0 := by exact_mod_cast hn
  congr 1
  field_simp
  ring

example : (sumSqQ [1, 2, 6] - sumQ [1, 2, 6] * sumQ [1, 2, 6] / 3) / (3 - 1) = 7 := by
  norm_num [sumSqQ, sumQ]

/-! ### nunique -/

/-- **nunique**: per-partition `drop_duplicates`, `unique().explode()` at every inner level of the tree and `nunique()` at
    the root count, for every group, the distinct non-NA values of the whole frame — for every partitioning and
    `split_every ≥ 1` -/
theorem nunique_eq_global (se : Nat) (hse : 0 < se) (fuel : Nat) (parts : List (List (Nat × Option Int))) :
    nunique se fuel parts = nuniqueSpec parts.flatten :=
  Dask.Groupby.nunique_eq_global se hse fuel parts

example : nunique 2 5 [[(0, some 1), (1, some 2), (0, none)], [(0, some 1)], [(0, some 3), (1, none)]] 0 = 2 := by decide

/-! ### idxmin / idxmax -/

/-- what the state of the arg-min monoid means: a row of the group that holds the group's minimum -/
theorem argmin_is_minimum (rows : List (Nat × (Option Int × Int))) (k : Nat) (m l : Int)
    (h : chunk opArgmin idxInj rows k = some (m, l)) :
    (k, (some m, l)) ∈ rows ∧ ∀ v l', (k, (some v, l')) ∈ rows → m ≤ v :=
  chunk_argmin_spec rows k m l h

example : chunk opArgmin idxInj [(0, (some 5, 10)), (0, (some 1, 11)), (1, (some 0, 12)), (0, (some 1, 13))] 0
    = some (1, 11) := by decide

/-- **what idxmin SHOULD be**: with `(value, label)` partials merged by "smaller value, earlier row on ties" the result is the
    whole-frame arg-min (pandas' first occurrence) for every partitioning and tree shape -/
theorem groupby_idxmin_spec (parts : List (List (Nat × (Option Int × Int)))) (k : Nat) (hk : 0 < k) (fuel : Nat) :
    treeReduce opArgmin k fuel (parts.map (chunk opArgmin idxInj)) = chunk opArgmin idxInj parts.flatten :=
  groupby_agg_eq_global opArgmin opArgmin_assoc idxInj parts k hk fuel

theorem groupby_idxmax_spec (parts : List (List (Nat × (Option Int × Int)))) (k : Nat) (hk : 0 < k) (fuel : Nat) :
    treeReduce opArgmax k fuel (parts.map (chunk opArgmax idxInj)) = chunk opArgmax idxInj parts.flatten :=
  groupby_agg_eq_global opArgmax opArgmax_assoc idxInj parts k hk fuel

/-- **what dask computes** (`IdxMin` = (idxmin, first)): the arg-min of the FIRST partition that holds a value of the group,
    whatever the other partitions hold — for every `split_every` -/
theorem idx_current_is_first_partial (op : Int × Int → Int × Int → Int × Int) (k : Nat) (hk : 0 < k) (fuel : Nat)
    (parts : List (List (Nat × (Option Int × Int)))) (key : Nat) :
    idxCurrent op k fuel parts key = (parts.map fun rows => chunk op idxInj rows key).findSome? id := by
  unfold idxCurrent
  rw [treeReduce_eq_combine opFirstP opFirstP_assoc k hk, combine_first, List.map_map]
  rfl

/-- … which is not the arg-min of the frame: group 0 = rows (5, label 0) | (1, label 1) in two partitions (DESIGN §6;
    known finding `groupby:idxmin|idxmax:group-spans-partitions:first-partial-wins`) -/
theorem idx_current_refuted :
    ¬ ∀ (parts : List (List (Nat × (Option Int × Int)))),
        idxCurrent opArgmin 8 9 parts = chunk opArgmin idxInj parts.flatten := by
  intro h
  have := congrFun (h [[(0, (some 5, 0))], [(0, (some 1, 1))]]) 0
  revert this
  decide

/-! ### cumulative operations -/

/-- **cumsum / cumprod / cumcount across partitions**: `cum_raw` of every partition, shifted by the value carried over from
    the earlier partitions (`cum_last`, `_cum_agg_filled`, `_cum_agg_aligned`; absent or all-NA = initial), is the
    cumulative operation over the whole frame — for every associative, commutative `op` with identity `e` -/
theorem cumulative_eq_global (op : Int → Int → Int) (e : Int) (hassoc : ∀ a b c, op (op a b) c = op a (op b c))
    (hcomm : ∀ a b, op a b = op b a) (hid : ∀ a, op e a = a) (parts : List (List (Nat × Option Int))) :
    (cumDask op e parts).flatten = cumRaw op parts.flatten :=
  cumDask_eq_global op e hassoc hcomm hid parts

/-- the `cum_last` the model carries is what `M.last` returns on the cumulative column: the last non-NA cumulative cell of
    every group of the partition -/
theorem cum_last_is_last_value (op : Int → Int → Int) (rows : List (Nat × Option Int)) (k : Nat) :
    cumLast op rows k = cumLastLit op stEmpty rows k :=
  cumLast_is_last op rows k

example : cumLastLit (· + ·) stEmpty [(0, some 1), (1, some 2), (0, some 4), (0, none)] 0 = some 5 := by decide

theorem cumsum_eq_global (parts : List (List (Nat × Option Int))) :
    (cumDask (· + ·) 0 parts).flatten = cumRaw (· + ·) parts.flatten :=
  cumulative_eq_global _ 0 Int.add_assoc Int.add_comm Int.zero_add parts

theorem cumprod_eq_global (parts : List (List (Nat × Option Int))) :
    (cumDask (· * ·) 1 parts).flatten = cumRaw (· * ·) parts.flatten :=
  cumulative_eq_global _ 1 Int.mul_assoc Int.mul_comm Int.one_mul parts

/-- cumcount: `_cumcount_aggregate(a, b) = a + b + 1` with initial −1, over a 0 for every row -/
theorem cumcount_eq_global (parts : List (List (Nat × Option Int))) :
    (cumDask opCount (-1) parts).flatten = cumRaw opCount parts.flatten :=
  cumulative_eq_global _ (-1) (by intro a b c; simp only [opCount]; omega) (by intro a b; simp only [opCount]; omega)
    (by intro a; simp only [opCount]; omega) parts

example : cumDask (· + ·) 0 [[(0, some 1), (1, some 2), (0, none)], [(1, none)], [(0, some 3), (1, some 4), (0, some 5)]]
    = [[some 1, some 2, none], [none], [some 4, some 6, some 9]] := by decide
example : cumRaw opCount [(0, some 0), (1, some 0), (0, some 0), (0, some 0)] = [some 0, some 0, some 1, some 2] := by decide

/-! ### the aggregation classes of the source, extracted on every run (`Generated/GroupbyAggs.lean`) -/

/-- the merge a `(groupby_chunk, groupby_aggregate)` pair denotes, when it is one of the monoid homomorphisms the
    theorems above cover (`count`/`size` inject 1 per (non-NA) row and merge by `+`) -/
def classify : String × String → Option String
  | ("sum", "sum") => some "add"
  | ("prod", "prod") => some "mul"
  | ("min", "min") => some "min"
  | ("max", "max") => some "max"
  | ("first", "first") => some "first"
  | ("last", "last") => some "last"
  | ("count", "sum") => some "add"
  | ("size", "sum") => some "add"
  | _ => none

/-- **the extracted table is the one the model assumes**: every `SingleAggregation` subclass of
    `dask_expr/_groupby.py` with its (chunk, aggregate) pair, classified. `IdxMin`/`IdxMax` = (`idxmin`, `first`) is
    NOT a homomorphism (the first partial wins without comparing values — known finding); `Head`/`Tail`/`Unique`/
    `ValueCounts` use their own combine functions and are validated only. A change of any pair in the source
    changes the generated table and breaks this theorem. -/
theorem extracted_aggregations_classified :
    Dask.Generated.groupbyAggs.map (fun e => (e.1, classify (e.2.1, e.2.2))) =
      [("Count", some "add"), ("First", some "first"), ("Head", none), ("IdxMax", none), ("IdxMin", none),
       ("Last", some "last"), ("Max", some "max"), ("Min", some "min"), ("Prod", some "mul"), ("Size", some "add"),
       ("Sum", some "add"), ("Tail", none), ("Unique", none), ("ValueCounts", none)] := by decide

/-- the operation and identity of `cumulative_eq_global` that a `(chunk, aggregate, initial)` triple of the source denotes -/
def classifyCum : String × String × Int → Option (String × Int)
  | ("cumsum", "add", 0) => some ("add", 0)
  | ("cumprod", "mul", 1) => some ("mul", 1)
  | ("cumcount", "_cumcount_aggregate", -1) => some ("opCount", -1)
  | _ => none

/-- **the cumulative classes of the source are the three instances proved above** (`cumsum_eq_global`, `cumprod_eq_global`,
    `cumcount_eq_global`): a change of a chunk, an aggregate or an initial value changes the generated table and breaks this -/
theorem extracted_cumulatives_classified :
    Dask.Generated.groupbyCums.map (fun e => (e.1, classifyCum (e.2.1, e.2.2.1, e.2.2.2))) =
      [("GroupByCumcount", some ("opCount", -1)), ("GroupByCumprod", some ("mul", 1)), ("GroupByCumsum", some ("add", 0))] := by
  decide

/-! non-vacuity -/
example : chunk opFirst id [(0, some 5), (1, none), (1, some 7), (0, some 2)] 1 = some 7 := by decide
example : treeReduce (· + ·) 2 5 ([[(0, 1), (1, 2)], [(0, 3)], [(1, 4), (0, 5)]].map (chunk (· + ·) (fun v : Int => some v))) 0
    = some 9 := by decide

example : combine (· + ·) [fun _ => some (1 : Int), fun _ => some 2] = combine (· + ·) [fun _ => some 2, fun _ => some 1] :=
  commutative_arrival_order_irrelevant (· + ·) Int.add_assoc Int.add_comm _ _ (List.Perm.swap _ _ _)
example : chunk (· + ·) (fun v : Int => some v)
    (shuffleOut (fun k => k) 2 1 ([[(0, 1), (1, 2)], [(3, 3)], [(1, 4), (0, 5)]].map (partialRows (· + ·) (fun v : Int => some v)))) 1
    = some 6 := by decide

end Dask.C38
