import DaskModel.Model.CreationLike
import DaskModel.Lemmas.CreationLikeLemmas
import DaskModel.Props.C34

/-! # C34 extension — the `*_like` variants (`ones_like`, `zeros_like`, `full_like`, `empty_like`)

The statement of C34 names "ones/zeros/full **and their `*_like` variants**"; `Props/C34.lean` proves `full_den` (every
position of the assembled blocks holds the fill value) and `chunks_sum_shape` for the wrapped creation functions, but the
step in front of them — `_get_like_function_shapes_chunks(a, chunks, shape)` followed by `normalize_chunks` — was only
validated.  Here (model `Model/CreationLike.lean`, tied in section `like` of harness/props/c34.py):

* `like_template_den` — with the defaults (`chunks=None, shape=None`) the result has *exactly* the template's chunks
  (`normalize_chunks(a.chunks, a.shape)` never raises, never consults `auto_chunks` or the byte limit), these add up to
  `a.shape`, and every position holds the fill value: `full_like(a, v)` is NumPy's `full_like` for every chunking of `a`;
* `like_is_wrap` — with `chunks=` and/or `shape=` given the call is the plain wrapped function on the resolved
  arguments (the template's chunks are *not* consulted; `shape=` alone means `chunks="auto"`);
* `like_chunks_sum_shape` — for every combination of arguments the lazily reported chunks add up to the resolved shape;
* `like_full_den` — … and every position of that shape holds the fill value.

Full statement (values + dtype equal NumPy's for every argument combination): the dtype rule (`dtype or a.dtype`) and
the values of `empty_like` are outside the model (validated in section `misc`). -/

namespace Dask.C34x
open Dask.Chunks Dask.Creation Dask.CreationLike Dask.C34

/-- **like_template_den**: `ones_like(a)` / `zeros_like(a)` / `full_like(a, v)` / `empty_like(a)` with the default
    `chunks=None, shape=None`, `a` any dask array with known sizes (`Template`): the reported chunks are `a.chunks`
    whatever `limit` and `auto_chunks` would say (they are never consulted), each axis adds up to `a.shape`, and the
    assembled blocks (each the fill value broadcast to its chunk shape) hold the fill value at every position of `a`. -/
theorem like_template_den {α} (fill : α) {aShape : List Nat} {aChunks : List (List Nat)} (h : Template aShape aChunks)
    (limit : Option Nat) (autoRes : Option (List Spec)) :
    likeChunks aShape aChunks none none limit autoRes = .ok (asInts aChunks) ∧
    (asInts aChunks).length = aShape.length ∧
    (∀ i (h1 : i < (asInts aChunks).length) (h2 : i < aShape.length), isum (asInts aChunks)[i] = (aShape[i] : Int)) ∧
    ∀ p, InRange aChunks p → gridRead (fun _ => fill) aChunks p = some fill := by
  refine ⟨normalize_template h limit autoRes, ?_, ?_, fun p hp => full_den fill aChunks p hp⟩
  · simpa [asInts] using template_length h
  · intro i h1 h2
    simp only [asInts, List.getElem_map, isum_ofNat]
    exact congrArg Int.ofNat (template_sum h i (by simpa [asInts] using h1) h2)

example : Template [5, 0, 3] [[2, 3], [0], [1, 1, 1]] :=
  ⟨by decide, by decide, by decide, by decide, by decide, by decide, trivial⟩
example : likeChunks [5, 0, 3] [[2, 3], [0], [1, 1, 1]] none none (some 8) none = .ok [[2, 3], [0], [1, 1, 1]] := by rfl
example : likeChunks [] [] none none none none = .ok [] := by rfl

/-- **like_is_wrap**: as soon as `chunks=` or `shape=` is given, `*_like(a, …)` is the wrapped creation function on the
    resolved arguments: explicit chunks are normalised against `shape` (default `a.shape`) and the template's chunks are
    not consulted; `shape=` without `chunks=` means `chunks="auto"`. -/
theorem like_is_wrap (aShape : List Nat) (aChunks : List (List Nat)) (limit : Option Nat) (autoRes : Option (List Spec)) :
    (∀ t shape, likeChunks aShape aChunks (some t) shape limit autoRes = normalize t (shape.getD aShape) limit autoRes) ∧
    (∀ s, likeChunks aShape aChunks none (some s) limit autoRes = normalize (.scalar .auto) s limit autoRes) := by
  refine ⟨fun t shape => ?_, fun s => rfl⟩
  cases shape <;> rfl

/-- the resolved shape: `shape=` if given, else the template's -/
theorem like_shape (aShape : List Nat) (aChunks : List (List Nat)) (chunks : Option Top) (shape : Option (List Nat)) :
    (likeArgs aShape aChunks chunks shape).1 = shape.getD aShape := by
  cases chunks <;> cases shape <;> rfl

/-- **like_chunks_sum_shape**: for every combination of `chunks=` / `shape=` (ints, `-1`/`None`, tuples, dicts, `"auto"`,
    byte strings) the lazily reported chunks of a `*_like` call that does not raise have one entry per axis of the
    resolved shape and add up to it (`autoRes`: what `auto_chunks` returned — one non-negative entry per axis, C23
    `auto_chunks_post`). -/
theorem like_chunks_sum_shape {aShape aChunks chunks shape limit autoRes r}
    (h : likeChunks aShape aChunks chunks shape limit autoRes = .ok r) (hne : shape.getD aShape ≠ [])
    (hauto : ∀ a, autoRes = some a → a.length = (shape.getD aShape).length ∧ ∀ c ∈ a, c.isNeg = false) :
    r.length = (shape.getD aShape).length ∧
    ∀ i (h1 : i < r.length) (h2 : i < (shape.getD aShape).length), isum r[i] = ((shape.getD aShape)[i] : Int) := by
  unfold likeChunks at h
  rw [like_shape] at h
  exact chunks_sum_shape h hne hauto

example : likeChunks [5, 4] [[2, 3], [4]] (some (.scalar (.int 3))) none none none = .ok [[3, 2], [3, 1]] := by rfl
example : likeChunks [5, 4] [[2, 3], [4]] (some (.seq [.int (-1), .tup [1, 1]])) (some [7, 2]) none none
    = .ok [[7], [1, 1]] := by rfl
example : likeChunks [5, 4] [[2, 3], [4]] none (some [7, 2]) none (some [.int 7, .int 2]) = .ok [[7], [2]] := by rfl
/-- the template's chunks do not fit a different `shape=`: they are not used (`"auto"` is), so nothing raises -/
example : normalize (chunksTop [[2, 3], [4]]) [7, 2] none none = .error .value := by rfl

/-- **like_full_den**: … and, the reported chunks being non-negative block lengths `cs`, every position of the resolved
    shape holds the fill value in the assembled blocks — `full_like(a, v, chunks=…, shape=…)` is NumPy's for every
    chunks argument. -/
theorem like_full_den {α} (fill : α) {aShape aChunks chunks shape limit autoRes} {cs : List (List Nat)}
    (h : likeChunks aShape aChunks chunks shape limit autoRes = .ok (asInts cs)) (hne : shape.getD aShape ≠ [])
    (hauto : ∀ a, autoRes = some a → a.length = (shape.getD aShape).length ∧ ∀ c ∈ a, c.isNeg = false) :
    cs.length = (shape.getD aShape).length ∧
    (∀ i (h1 : i < cs.length) (h2 : i < (shape.getD aShape).length), sum cs[i] = (shape.getD aShape)[i]) ∧
    ∀ p, InRange cs p → gridRead (fun _ => fill) cs p = some fill := by
  obtain ⟨hl, hs⟩ := like_chunks_sum_shape h hne hauto
  refine ⟨by simpa [asInts] using hl, fun i h1 h2 => ?_, fun p hp => full_den fill cs p hp⟩
  have := hs i (by simpa [asInts] using h1) h2
  simp only [asInts, List.getElem_map, isum_ofNat] at this
  exact Int.ofNat_inj.mp this

example : likeChunks [5, 4] [[2, 3], [4]] (some (.dict [(0, .int 2)])) none none none = .ok (asInts [[2, 2, 1], [4]]) := by rfl
example : likeChunks [5, 4] [[2, 3], [4]] none (some [3]) (some 64) (some [.tup [2, 1]]) = .ok (asInts [[2, 1]]) := by rfl

end Dask.C34x
