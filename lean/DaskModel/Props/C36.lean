import DaskModel.Model.Frame
/-!
# C36 — row-wise and elementwise DataFrame operations equal pandas

Full statement (for the modelled logic): for EVERY partitioning of the input (any number of
partitions, empty ones included, known or unknown divisions)

* `blockwise_rowlocal` — a `Blockwise` expression whose per-block function distributes over
  concatenation computes that function of the concatenated frame (values, index labels, row order);
* `zip_blockwise_den` — the same for a binary `Blockwise` expression over two co-partitioned
  collections (e.g. `Filter(frame, predicate)`, `Add(a, b)` on columns of one ancestor);
* `daskPipeline_den` — any pipeline of projection / boolean filter / assign with arithmetic,
  comparison, fillna, clip, where/mask, isin, isna, abs, astype(bool→int) column expressions,
  applied partition by partition, equals the pipeline on the whole frame; divisions and partition
  count are unchanged (`daskPipeline_divisions`, `daskPipeline_nparts`).

Outside the theorems (validated at API level vs pandas): pandas' own kernels on one block (the Lean
`eval` is diffed against pandas), dtypes, string/datetime/categorical accessors, map/apply with
meta, rename, alignment of frames with DIFFERENT ancestors (`MaybeAlignPartitions`).
-/
namespace Dask.C36
open Dask.Frame

theorem rowlocal_nil {α β} (f : List α → List β) (hf : ∀ p q, f (p ++ q) = f p ++ f q) : f [] = [] := by
  have h := hf [] []
  have hl := congrArg List.length h
  simp only [List.append_nil, List.length_append] at hl
  exact List.length_eq_zero_iff.mp (by omega)

/-- **C36 (core)**: a row-local per-partition function commutes with ANY partitioning. -/
theorem blockwise_rowlocal (f : Frame → Frame) (hf : ∀ p q, f (p ++ q) = f p ++ f q) (pf : PFrame) :
    (pf.mapParts f).den = f pf.den := by
  obtain ⟨parts, divs⟩ := pf
  simp only [PFrame.mapParts, PFrame.den]
  induction parts with
  | nil => simp [rowlocal_nil f hf]
  | cons p ps ih => simp [hf, ih]

/-- binary blockwise over co-partitioned collections -/
theorem zip_blockwise_den {α β γ} (op : List α → List β → List γ)
    (hop : ∀ a b a' b', a.length = b.length → op (a ++ a') (b ++ b') = op a b ++ op a' b')
    (hnil : op [] [] = []) :
    ∀ (ps : List (List α)) (qs : List (List β)), ps.map List.length = qs.map List.length →
      (zipParts op ps qs).flatten = op ps.flatten qs.flatten := by
  intro ps
  induction ps with
  | nil => intro qs h; cases qs <;> simp_all [zipParts]
  | cons p ps ih =>
    intro qs h
    cases qs with
    | nil => simp at h
    | cons q qs =>
      simp only [List.map_cons, List.cons.injEq] at h
      simp only [zipParts, List.flatten_cons]
      rw [ih qs h.2, hop p q _ _ h.1]

theorem maskBlock_append (p : Frame) (m : List Bool) (q : Frame) (n : List Bool) (h : p.length = m.length) :
    maskBlock (p ++ q) (m ++ n) = maskBlock p m ++ maskBlock q n := by
  induction p generalizing m with
  | nil => cases m <;> simp_all [maskBlock]
  | cons r rs ih =>
    cases m with
    | nil => simp at h
    | cons b bs =>
      simp only [List.length_cons, Nat.add_right_cancel_iff] at h
      cases b <;> simp [maskBlock, ih bs h]

/-- `Filter(frame, predicate)` with a co-partitioned boolean series -/
theorem filter_den (ps : List Frame) (ms : List (List Bool)) (h : ps.map List.length = ms.map List.length) :
    (zipParts maskBlock ps ms).flatten = maskBlock ps.flatten ms.flatten :=
  zip_blockwise_den maskBlock maskBlock_append (by simp [maskBlock]) ps ms h

theorem op_apply_append (op : Op) (p q : Frame) : op.apply (p ++ q) = op.apply p ++ op.apply q := by
  simp [Op.apply, List.filterMap_append]

theorem pipeline_append (ops : List Op) (p q : Frame) : pipeline ops (p ++ q) = pipeline ops p ++ pipeline ops q := by
  induction ops generalizing p q with
  | nil => simp [pipeline]
  | cons op ops ih =>
    simp only [pipeline, List.foldl_cons] at ih ⊢
    rw [op_apply_append]
    exact ih _ _

/-- **C36 (pipelines)**: projection / filter / assign pipelines applied per partition equal pandas on
    the whole frame, for every partitioning. -/
theorem daskPipeline_den (ops : List Op) (pf : PFrame) : (daskPipeline ops pf).den = pipeline ops pf.den := by
  induction ops generalizing pf with
  | nil => simp [daskPipeline, pipeline]
  | cons op ops ih =>
    simp only [daskPipeline, pipeline, List.foldl_cons] at ih ⊢
    rw [ih (pf.mapParts op.apply), blockwise_rowlocal _ (op_apply_append op)]

theorem daskPipeline_divisions (ops : List Op) (pf : PFrame) : (daskPipeline ops pf).divisions = pf.divisions := by
  induction ops generalizing pf with
  | nil => simp [daskPipeline]
  | cons op ops ih =>
    simp only [daskPipeline, List.foldl_cons] at ih ⊢
    rw [ih]; rfl

theorem daskPipeline_nparts (ops : List Op) (pf : PFrame) : (daskPipeline ops pf).parts.length = pf.parts.length := by
  induction ops generalizing pf with
  | nil => simp [daskPipeline]
  | cons op ops ih =>
    simp only [daskPipeline, List.foldl_cons] at ih ⊢
    rw [ih]; simp [PFrame.mapParts]

/-- the three named instances of the statement -/
theorem projection_den (cols : List Nat) (pf : PFrame) :
    (pf.mapParts (Op.project cols).apply).den = (Op.project cols).apply pf.den :=
  blockwise_rowlocal _ (op_apply_append _) pf

theorem filter_pred_den (p : BE) (pf : PFrame) :
    (pf.mapParts (Op.filter p).apply).den = (Op.filter p).apply pf.den :=
  blockwise_rowlocal _ (op_apply_append _) pf

theorem assign_den (j : Nat) (e : CE) (pf : PFrame) :
    (pf.mapParts (Op.assign j e).apply).den = (Op.assign j e).apply pf.den :=
  blockwise_rowlocal _ (op_apply_append _) pf

/-- a filter keeps index labels and relative order: the result is a sublist of the input -/
theorem filter_sublist (p : BE) (f : Frame) : List.Sublist ((Op.filter p).apply f) f := by
  induction f with
  | nil => simp [Op.apply]
  | cons r rs ih =>
    simp only [Op.apply, List.filterMap_cons, Op.applyRow] at ih ⊢
    split
    · exact List.Sublist.cons _ ih
    · rename_i r' h
      split at h
      · cases h; exact List.Sublist.cons_cons _ ih
      · cases h

/-- non-vacuity: a two-partition frame with an empty partition and NaN -/
example :
    let pf : PFrame := { parts := [[⟨0, [some 1, none]⟩, ⟨1, [some 5, some 2]⟩], [], [⟨1, [some 3, some 4]⟩]] }
    (daskPipeline [.assign 2 (.add (.col 0) (.fillna (.col 1) 0)), .filter (.cmp .gt (.col 2) (.lit 1)), .project [2, 0]] pf).parts
      = [[⟨1, [some 7, some 5]⟩], [], [⟨1, [some 7, some 3]⟩]] := by decide

end Dask.C36
