import DaskModel.Model.Frame
/-!
# C36 — row-wise and elementwise DataFrame operations equal pandas

Full statement (for the modelled logic): for EVERY partitioning of the input (any number of
partitions, empty ones included, known or unknown divisions)

* `blockwise_rowlocal` — a `Blockwise` expression whose per-block function distributes over
  concatenation computes that function of the concatenated frame (values, index labels, row order);
* `zip_blockwise_den` — the same for a binary `Blockwise` expression over two co-partitioned
  collections (e.g. `Filter(frame, predicate)`, `Add(a, b)` on columns of one ancestor);
* `daskPipeline_den` — any pipeline of projection / boolean filter / assign with arithmetic,
  comparison, fillna, clip, where/mask, isin, isna, abs, astype(bool→int) column expressions,
  applied partition by partition, equals the pipeline on the whole frame; divisions and partition
  count are unchanged (`daskPipeline_divisions`, `daskPipeline_nparts`).

* `aligned_binop_den` — operands with DIFFERENT ancestors after `MaybeAlignPartitions` repartitioned both to
  the common divisions (`CoPartitioned`: every partition pair lies below a pivot, everything later at or
  above it): pandas' outer alignment + elementwise operation done partition by partition equals the
  aligned operation on the whole series (sorted unique index labels).

Outside the theorems (validated at API level vs pandas): pandas' own kernels on one block (the Lean
`eval` is diffed against pandas), dtypes, string/datetime/categorical accessors, map/apply with
meta, rename, duplicate index labels under alignment, the repartitioning step itself (C44).
-/
namespace Dask.C36
open Dask.Frame

theorem rowlocal_nil {α β} (f : List α → List β) (hf : ∀ p q, f (p ++ q) = f p ++ f q) : f [] = [] := by
  have h := hf [] []
  have hl := congrArg List.length h
  simp only [List.append_nil, List.length_append] at hl
  exact List.length_eq_zero_iff.mp (by omega)

/-- **C36 (core)**: a row-local per-partition function commutes with ANY partitioning. -/
theorem blockwise_rowlocal (f : Frame → Frame) (hf : ∀ p q, f (p ++ q) = f p ++ f q) (pf : PFrame) :
    (pf.mapParts f).den = f pf.den := by
  obtain ⟨parts, divs⟩ := pf
  simp only [PFrame.mapParts, PFrame.den]
  induction parts with
  | nil => simp [rowlocal_nil f hf]
  | cons p ps ih => simp [hf, ih]

/-- binary blockwise over co-partitioned collections -/
theorem zip_blockwise_den {α β γ} (op : List α → List β → List γ)
    (hop : ∀ a b a' b', a.length = b.length → op (a ++ a') (b ++ b') = op a b ++ op a' b')
    (hnil : op [] [] = []) :
    ∀ (ps : List (List α)) (qs : List (List β)), ps.map List.length = qs.map List.length →
      (zipParts op ps qs).flatten = op ps.flatten qs.flatten := by
  intro ps
  induction ps with
  | nil => intro qs h; cases qs <;> simp_all [zipParts]
  | cons p ps ih =>
    intro qs h
    cases qs with
    | nil => simp at h
    | cons q qs =>
      simp only [List.map_cons, List.cons.injEq] at h
      simp only [zipParts, List.flatten_cons]
      rw [ih qs h.2, hop p q _ _ h.1]

theorem maskBlock_append (p : Frame) (m : List Bool) (q : Frame) (n : List Bool) (h : p.length = m.length) :
    maskBlock (p ++ q) (m ++ n) = maskBlock p m ++ maskBlock q n := by
  induction p generalizing m with
  | nil => cases m <;> simp_all [maskBlock]
  | cons r rs ih =>
    cases m with
    | nil => simp at h
    | cons b bs =>
      simp only [List.length_cons, Nat.add_right_cancel_iff] at h
      cases b <;> simp [maskBlock, ih bs h]

/-- `Filter(frame, predicate)` with a co-partitioned boolean series -/
theorem filter_den (ps : List Frame) (ms : List (List Bool)) (h : ps.map List.length = ms.map List.length) :
    (zipParts maskBlock ps ms).flatten = maskBlock ps.flatten ms.flatten :=
  zip_blockwise_den maskBlock maskBlock_append (by simp [maskBlock]) ps ms h

theorem op_apply_append (op : Op) (p q : Frame) : op.apply (p ++ q) = op.apply p ++ op.apply q := by
  simp [Op.apply, List.filterMap_append]

theorem pipeline_append (ops : List Op) (p q : Frame) : pipeline ops (p ++ q) = pipeline ops p ++ pipeline ops q := by
  induction ops generalizing p q with
  | nil => simp [pipeline]
  | cons op ops ih =>
    simp only [pipeline, List.foldl_cons] at ih ⊢
    rw [op_apply_append]
    exact ih _ _

/-- **C36 (pipelines)**: projection / filter / assign pipelines applied per partition equal pandas on
    the whole frame, for every partitioning. -/
theorem daskPipeline_den (ops : List Op) (pf : PFrame) : (daskPipeline ops pf).den = pipeline ops pf.den := by
  induction ops generalizing pf with
  | nil => simp [daskPipeline, pipeline]
  | cons op ops ih =>
    simp only [daskPipeline, pipeline, List.foldl_cons] at ih ⊢
    rw [ih (pf.mapParts op.apply), blockwise_rowlocal _ (op_apply_append op)]

theorem daskPipeline_divisions (ops : List Op) (pf : PFrame) : (daskPipeline ops pf).divisions = pf.divisions := by
  induction ops generalizing pf with
  | nil => simp [daskPipeline]
  | cons op ops ih =>
    simp only [daskPipeline, List.foldl_cons] at ih ⊢
    rw [ih]; rfl

theorem daskPipeline_nparts (ops : List Op) (pf : PFrame) : (daskPipeline ops pf).parts.length = pf.parts.length := by
  induction ops generalizing pf with
  | nil => simp [daskPipeline]
  | cons op ops ih =>
    simp only [daskPipeline, List.foldl_cons] at ih ⊢
    rw [ih]; simp [PFrame.mapParts]

/-- the three named instances of the statement -/
theorem projection_den (cols : List Nat) (pf : PFrame) :
    (pf.mapParts (Op.project cols).apply).den = (Op.project cols).apply pf.den :=
  blockwise_rowlocal _ (op_apply_append _) pf

theorem filter_pred_den (p : BE) (pf : PFrame) :
    (pf.mapParts (Op.filter p).apply).den = (Op.filter p).apply pf.den :=
  blockwise_rowlocal _ (op_apply_append _) pf

theorem assign_den (j : Nat) (e : CE) (pf : PFrame) :
    (pf.mapParts (Op.assign j e).apply).den = (Op.assign j e).apply pf.den :=
  blockwise_rowlocal _ (op_apply_append _) pf

/-- a filter keeps index labels and relative order: the result is a sublist of the input -/
theorem filter_sublist (p : BE) (f : Frame) : List.Sublist ((Op.filter p).apply f) f := by
  induction f with
  | nil => simp [Op.apply]
  | cons r rs ih =>
    simp only [Op.apply, List.filterMap_cons, Op.applyRow] at ih ⊢
    split
    · exact List.Sublist.cons _ ih
    · rename_i r' h
      split at h
      · cases h; exact List.Sublist.cons_cons _ ih
      · cases h

/-- an indexed series block: (index label, value), sorted by label, labels unique -/
abbrev SBlk := List (Int × Cell)

/-- pandas' outer alignment of two series with sorted unique indexes followed by the elementwise
    operation (`a + b`, `a.where(c, b)` …): a label missing on one side contributes NaN -/
def alignOp (f : Cell → Cell → Cell) : SBlk → SBlk → SBlk
  | [], bs => bs.map (fun jb => (jb.1, f none jb.2))
  | (i, a) :: as, [] => ((i, a) :: as).map (fun ia => (ia.1, f ia.2 none))
  | (i, a) :: as, (j, b) :: bs =>
    if i < j then (i, f a none) :: alignOp f as ((j, b) :: bs)
    else if j < i then (j, f none b) :: alignOp f ((i, a) :: as) bs
    else (i, f a b) :: alignOp f as bs
termination_by as bs => as.length + bs.length

theorem alignOp_nil_right (f : Cell → Cell → Cell) (as : SBlk) : alignOp f as [] = as.map (fun ia => (ia.1, f ia.2 none)) := by
  cases as with
  | nil => simp [alignOp]
  | cons x xs => obtain ⟨i, a⟩ := x; simp [alignOp]

theorem alignOp_lt (f : Cell → Cell → Cell) {i j : Int} (a b : Cell) (as bs : SBlk) (h : i < j) :
    alignOp f ((i, a) :: as) ((j, b) :: bs) = (i, f a none) :: alignOp f as ((j, b) :: bs) := by
  rw [alignOp]; simp [h]

theorem alignOp_gt (f : Cell → Cell → Cell) {i j : Int} (a b : Cell) (as bs : SBlk) (h : j < i) :
    alignOp f ((i, a) :: as) ((j, b) :: bs) = (j, f none b) :: alignOp f ((i, a) :: as) bs := by
  rw [alignOp]
  have : ¬ i < j := by omega
  simp [h, this]

theorem alignOp_eq (f : Cell → Cell → Cell) {i j : Int} (a b : Cell) (as bs : SBlk) (h1 : ¬ i < j) (h2 : ¬ j < i) :
    alignOp f ((i, a) :: as) ((j, b) :: bs) = (i, f a b) :: alignOp f as bs := by
  rw [alignOp]; simp [h1, h2]

/-- everything of the left blocks lies below the pivot, everything of the right blocks at or above it -/
theorem alignOp_append (f : Cell → Cell → Cell) (d : Int) (A2 B2 : SBlk)
    (hA2 : ∀ x ∈ A2, d ≤ x.1) (hB2 : ∀ x ∈ B2, d ≤ x.1) :
    ∀ (A1 B1 : SBlk), (∀ x ∈ A1, x.1 < d) → (∀ x ∈ B1, x.1 < d) →
      alignOp f (A1 ++ A2) (B1 ++ B2) = alignOp f A1 B1 ++ alignOp f A2 B2 := by
  intro A1
  induction A1 with
  | nil =>
    intro B1 _ hB1
    induction B1 with
    | nil => simp [alignOp]
    | cons y ys ih =>
      obtain ⟨j, b⟩ := y
      have hj : j < d := hB1 (j, b) (by simp)
      have ih' := ih (fun x hx => hB1 x (by simp [hx]))
      simp only [List.nil_append, List.cons_append] at ih' ⊢
      cases A2 with
      | nil => simp [alignOp, List.map_append]
      | cons x xs =>
        obtain ⟨i, a⟩ := x
        have hi : d ≤ i := hA2 (i, a) (by simp)
        have h2 : j < i := by omega
        rw [alignOp_gt f a b xs (ys ++ B2) h2, ih']
        simp [alignOp]
  | cons x xs ihA =>
    intro B1 hA1 hB1
    obtain ⟨i, a⟩ := x
    have hi : i < d := hA1 (i, a) (by simp)
    induction B1 with
    | nil =>
      simp only [List.nil_append, List.cons_append]
      have ih' := ihA [] (fun x hx => hA1 x (by simp [hx])) (by simp)
      simp only [List.nil_append] at ih'
      cases B2 with
      | nil =>
        simp only [alignOp_nil_right, List.map_append, List.map_cons, List.append_nil, List.cons_append]
      | cons y ys =>
        obtain ⟨j, b⟩ := y
        have hj : d ≤ j := hB2 (j, b) (by simp)
        have h1 : i < j := by omega
        rw [alignOp_lt f a b (xs ++ A2) ys h1, ih']
        simp [alignOp_nil_right]
    | cons y ys ihB =>
      obtain ⟨j, b⟩ := y
      have hj : j < d := hB1 (j, b) (by simp)
      simp only [List.cons_append]
      by_cases h1 : i < j
      · rw [alignOp_lt f a b (xs ++ A2) (ys ++ B2) h1, alignOp_lt f a b xs ys h1, List.cons_append]
        congr 1
        have := ihA ((j, b) :: ys) (fun x hx => hA1 x (by simp [hx])) hB1
        simpa using this
      · by_cases h2 : j < i
        · rw [alignOp_gt f a b (xs ++ A2) (ys ++ B2) h2, alignOp_gt f a b xs ys h2, List.cons_append]
          congr 1
          have := ihB (fun x hx => hB1 x (by simp [hx]))
          simpa using this
        · rw [alignOp_eq f a b (xs ++ A2) (ys ++ B2) h1 h2, alignOp_eq f a b xs ys h1 h2, List.cons_append]
          congr 1
          exact ihA ys (fun x hx => hA1 x (by simp [hx])) (fun x hx => hB1 x (by simp [hx]))

/-- two partition lists cut at the same division values -/
def CoPartitioned : List SBlk → List SBlk → Prop
  | [], [] => True
  | p :: ps, q :: qs =>
    (∃ d : Int, (∀ x ∈ p, x.1 < d) ∧ (∀ x ∈ q, x.1 < d) ∧ (∀ x ∈ ps.flatten, d ≤ x.1) ∧ (∀ x ∈ qs.flatten, d ≤ x.1)) ∧
      CoPartitioned ps qs
  | _, _ => False

/-- **aligned binary operation** (`MaybeAlignPartitions` after both operands were repartitioned to the
    common divisions): aligning partition by partition equals aligning the whole series -/
theorem aligned_binop_den (f : Cell → Cell → Cell) :
    ∀ (ps qs : List SBlk), CoPartitioned ps qs →
      (zipParts (alignOp f) ps qs).flatten = alignOp f ps.flatten qs.flatten := by
  intro ps
  induction ps with
  | nil => intro qs h; cases qs <;> simp_all [CoPartitioned, zipParts, alignOp]
  | cons p ps ih =>
    intro qs h
    cases qs with
    | nil => simp [CoPartitioned] at h
    | cons q qs =>
      obtain ⟨⟨d, hp, hq, hps, hqs⟩, hrest⟩ := h
      simp only [zipParts, List.flatten_cons]
      rw [ih qs hrest, alignOp_append f d _ _ hps hqs p q hp hq]

example : CoPartitioned [[(0, some 1), (2, none)], [], [(7, some 3)]] [[(1, some 5)], [(4, some 2), (5, some 2)], []] :=
  ⟨⟨3, by decide, by decide, by decide, by decide⟩, ⟨6, by decide, by decide, by decide, by decide⟩,
   ⟨8, by decide, by decide, by decide, by decide⟩, trivial⟩

/-- non-vacuity: a two-partition frame with an empty partition and NaN -/
example :
    let pf : PFrame := { parts := [[⟨0, [some 1, none]⟩, ⟨1, [some 5, some 2]⟩], [], [⟨1, [some 3, some 4]⟩]] }
    (daskPipeline [.assign 2 (.add (.col 0) (.fillna (.col 1) 0)), .filter (.cmp .gt (.col 2) (.lit 1)), .project [2, 0]] pf).parts
      = [[⟨1, [some 7, some 5]⟩], [], [⟨1, [some 7, some 3]⟩]] := by decide

end Dask.C36
