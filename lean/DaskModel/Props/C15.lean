import DaskModel.Model.Delayed
import DaskModel.Props.C13
/-!
# C15 — delayed programs evaluate like the eager Python program

Full statement: for every program `e` built from delayed calls (functions, methods, operators, item / attribute
access are all `call_function` tasks) with arguments that nest Delayed values inside lists, tuples and dicts,
the graph `delayed` assembles evaluates the key of `e` to the value of the same program run eagerly
(`delayed_eval`), provided (H1) Delayed values with the same key denote the same value — what pure token names
(C12/C13 `names_determine_values`) and fresh uuid names give — and (H2) the key of a call differs from the keys
of the Delayed values it is built from.  With pure=True equal calls get equal keys and calls whose arguments
differ observably get different keys (`pure_keys_equal`, `pure_keys_distinct`); iterating a Delayed of length
`nout` yields `getitem` calls, so `nout_unpack` is `delayed_eval` for those.
-/
namespace Dask.C15
open Dask.GraphMerge Dask.Delayed Dask.C13

set_option linter.unusedSectionVars false
section
variable {V : Type} [Inhabited V] (S : Sem V)

/-! ## structural facts -/

theorem self_mem_subexprs : ∀ e : E, e ∈ subexprs e
  | .leaf _ _ => by simp [subexprs]
  | .call _ _ _ => by simp [subexprs]

mutual
theorem direct_sub_subexprs : ∀ (a : Arg), ∀ c ∈ directSubs a, ∀ s ∈ subexprs c, s ∈ subexprsA a
  | .lit _, c, hc, _, _ => by simp [directSubs] at hc
  | .sub e, c, hc, s, hs => by
    simp only [directSubs, List.mem_singleton] at hc
    subst hc
    simpa [subexprsA] using hs
  | .list xs, c, hc, s, hs => by
    simp only [directSubs] at hc; simp only [subexprsA]; exact direct_sub_subexprsL xs c hc s hs
  | .tuple xs, c, hc, s, hs => by
    simp only [directSubs] at hc; simp only [subexprsA]; exact direct_sub_subexprsL xs c hc s hs
  | .dict kvs, c, hc, s, hs => by
    simp only [directSubs] at hc; simp only [subexprsA]; exact direct_sub_subexprsP kvs c hc s hs
theorem direct_sub_subexprsL : ∀ (as : List Arg), ∀ c ∈ directSubsL as, ∀ s ∈ subexprs c, s ∈ subexprsL as
  | [], c, hc, _, _ => by simp [directSubsL] at hc
  | a :: as, c, hc, s, hs => by
    simp only [directSubsL, List.mem_append] at hc
    simp only [subexprsL, List.mem_append]
    rcases hc with hc | hc
    · exact Or.inl (direct_sub_subexprs a c hc s hs)
    · exact Or.inr (direct_sub_subexprsL as c hc s hs)
theorem direct_sub_subexprsP : ∀ (ps : List (Arg × Arg)), ∀ c ∈ directSubsP ps, ∀ s ∈ subexprs c, s ∈ subexprsP ps
  | [], c, hc, _, _ => by simp [directSubsP] at hc
  | (k, v) :: r, c, hc, s, hs => by
    simp only [directSubsP, List.mem_append] at hc
    simp only [subexprsP, List.mem_append]
    rcases hc with (hc | hc) | hc
    · exact Or.inl (Or.inl (direct_sub_subexprs k c hc s hs))
    · exact Or.inl (Or.inr (direct_sub_subexprs v c hc s hs))
    · exact Or.inr (direct_sub_subexprsP r c hc s hs)
end

mutual
theorem subexprs_via_direct : ∀ (a : Arg), ∀ s ∈ subexprsA a, ∃ c ∈ directSubs a, s ∈ subexprs c
  | .lit _, s, hs => by simp [subexprsA] at hs
  | .sub e, s, hs => ⟨e, by simp [directSubs], by simpa [subexprsA] using hs⟩
  | .list xs, s, hs => by simp only [subexprsA] at hs; simp only [directSubs]; exact subexprs_via_directL xs s hs
  | .tuple xs, s, hs => by simp only [subexprsA] at hs; simp only [directSubs]; exact subexprs_via_directL xs s hs
  | .dict kvs, s, hs => by simp only [subexprsA] at hs; simp only [directSubs]; exact subexprs_via_directP kvs s hs
theorem subexprs_via_directL : ∀ (as : List Arg), ∀ s ∈ subexprsL as, ∃ c ∈ directSubsL as, s ∈ subexprs c
  | [], s, hs => by simp [subexprsL] at hs
  | a :: as, s, hs => by
    simp only [subexprsL, List.mem_append] at hs
    simp only [directSubsL, List.mem_append]
    rcases hs with hs | hs
    · obtain ⟨c, hc, h⟩ := subexprs_via_direct a s hs; exact ⟨c, Or.inl hc, h⟩
    · obtain ⟨c, hc, h⟩ := subexprs_via_directL as s hs; exact ⟨c, Or.inr hc, h⟩
theorem subexprs_via_directP : ∀ (ps : List (Arg × Arg)), ∀ s ∈ subexprsP ps, ∃ c ∈ directSubsP ps, s ∈ subexprs c
  | [], s, hs => by simp [subexprsP] at hs
  | (k, v) :: r, s, hs => by
    simp only [subexprsP, List.mem_append] at hs
    simp only [directSubsP, List.mem_append]
    rcases hs with (hs | hs) | hs
    · obtain ⟨c, hc, h⟩ := subexprs_via_direct k s hs; exact ⟨c, Or.inl (Or.inl hc), h⟩
    · obtain ⟨c, hc, h⟩ := subexprs_via_direct v s hs; exact ⟨c, Or.inl (Or.inr hc), h⟩
    · obtain ⟨c, hc, h⟩ := subexprs_via_directP r s hs; exact ⟨c, Or.inr hc, h⟩
end

mutual
theorem graphs_are_direct : ∀ (a : Arg), graphsArg S a = (directSubs a).map (graphOf S)
  | .lit _ => rfl
  | .sub _ => rfl
  | .list xs => by simp only [graphsArg, directSubs]; exact graphs_are_directL xs
  | .tuple xs => by simp only [graphsArg, directSubs]; exact graphs_are_directL xs
  | .dict kvs => by simp only [graphsArg, directSubs]; exact graphs_are_directP kvs
theorem graphs_are_directL : ∀ (as : List Arg), graphsA S as = (directSubsL as).map (graphOf S)
  | [] => rfl
  | a :: as => by simp only [graphsA, directSubsL, List.map_append, graphs_are_direct a, graphs_are_directL as]
theorem graphs_are_directP : ∀ (ps : List (Arg × Arg)), graphsP S ps = (directSubsP ps).map (graphOf S)
  | [] => rfl
  | (k, v) :: r => by
    simp only [graphsP, directSubsP, List.map_append, graphs_are_direct k, graphs_are_direct v, graphs_are_directP r]
end

mutual
/-- inside a task the arguments are rebuilt around the dependency values: same as evaluating them eagerly -/
theorem argEnv_eq (env : Nat → V) : ∀ (a : Arg), (∀ c ∈ directSubs a, env c.nm = evalE S c) → argEnv S env a = evalArg S a
  | .lit _, _ => rfl
  | .sub e, h => by simp only [argEnv, evalArg]; exact h e (by simp [directSubs])
  | .list xs, h => by simp only [argEnv, evalArg, argsEnv_eq env xs (by simpa [directSubs] using h)]
  | .tuple xs, h => by simp only [argEnv, evalArg, argsEnv_eq env xs (by simpa [directSubs] using h)]
  | .dict kvs, h => by simp only [argEnv, evalArg, pairsEnv_eq env kvs (by simpa [directSubs] using h)]
theorem argsEnv_eq (env : Nat → V) : ∀ (as : List Arg), (∀ c ∈ directSubsL as, env c.nm = evalE S c) →
    argsEnv S env as = evalArgs S as
  | [], _ => rfl
  | a :: as, h => by
    simp only [argsEnv, evalArgs]
    rw [argEnv_eq env a (fun c hc => h c (by simp [directSubsL, hc])),
      argsEnv_eq env as (fun c hc => h c (by simp [directSubsL, hc]))]
theorem pairsEnv_eq (env : Nat → V) : ∀ (ps : List (Arg × Arg)), (∀ c ∈ directSubsP ps, env c.nm = evalE S c) →
    pairsEnv S env ps = evalPairs S ps
  | [], _ => rfl
  | (k, v) :: r, h => by
    simp only [pairsEnv, evalPairs]
    rw [argEnv_eq env k (fun c hc => h c (by simp [directSubsP, hc])),
      argEnv_eq env v (fun c hc => h c (by simp [directSubsP, hc])),
      pairsEnv_eq env r (fun c hc => h c (by simp [directSubsP, hc]))]
end

/-! ## graphs: extension by a fresh key -/

theorem evals_isSome {g : Graph Nat V} {k : Nat} {v : V} (h : Evals g k v) : (g k).isSome = true := by
  obtain ⟨n, hn⟩ := h
  cases n with
  | zero => simp [evalG] at hn
  | succ n =>
    rw [evalG_step] at hn
    cases hg : g k with
    | none => simp [hg] at hn
    | some _ => rfl

theorem extend_fresh (g : Graph Nat V) (hc : Closed g) (k : Nat) (t : ATask Nat V) (hk : g k = none) :
    ∀ (n : Nat) (q : Nat) (v : V), (g q).isSome = true → evalG g n q = some v → evalG (extend g k t) n q = some v
  | 0, _, _, _, h => by simp [evalG] at h
  | n + 1, q, v, hq, h => by
    rw [evalG_step] at h ⊢
    have hqk : q ≠ k := by intro e; rw [e, hk] at hq; simp at hq
    have he : extend g k t q = g q := by simp [extend, hqk]
    rw [he]
    cases hg : g q with
    | none => simp [hg] at hq
    | some tq =>
      rw [hg] at h
      simp only at h ⊢
      cases hs : sequence (tq.deps.map (evalG g n)) with
      | none => simp [hs] at h
      | some vs =>
        rw [hs] at h
        rw [sequence_map_mono tq.deps vs (fun d hd x hx => extend_fresh g hc k t hk n d x (hc q tq hg d hd) hx) hs]
        exact h

theorem closed_extend (g : Graph Nat V) (hc : Closed g) (k : Nat) (t : ATask Nat V)
    (hd : ∀ d ∈ t.deps, (g d).isSome = true) : Closed (extend g k t) := by
  intro q tq hq d hdq
  have hsome : ∀ d', (g d').isSome = true → (extend g k t d').isSome = true := by
    intro d' h'
    simp only [extend]
    split
    · rfl
    · exact h'
  simp only [extend] at hq
  split at hq
  · simp only [Option.some.injEq] at hq
    subst hq
    exact hsome d (hd d hdq)
  · exact hsome d (hc q tq hq d hdq)

/-- all dependency values at one amount of fuel -/
theorem sequence_of_evals (g : Graph Nat V) (val : E → V) : ∀ (cs : List E),
    (∀ c ∈ cs, Evals g c.nm (val c)) → ∃ N, sequence ((cs.map E.nm).map (evalG g N)) = some (cs.map val)
  | [], _ => ⟨0, rfl⟩
  | c :: cs, h => by
    obtain ⟨m, hm⟩ := h c (by simp)
    obtain ⟨N, hN⟩ := sequence_of_evals g val cs (fun c' hc' => h c' (List.mem_cons_of_mem _ hc'))
    refine ⟨max m N, ?_⟩
    simp only [List.map_cons]
    rw [evalG_mono g (Nat.le_max_left m N) hm]
    simp only [sequence]
    rw [sequence_map_mono (cs.map E.nm) (cs.map val) (fun d _ x hx => evalG_mono g (Nat.le_max_right m N) hx) hN]
    rfl

/-- looking a dependency key up in the environment finds the value of a Delayed with that key -/
theorem envOf_lookup (val : E → V) : ∀ (cs : List E) (c : E), c ∈ cs →
    ∃ c' ∈ cs, c'.nm = c.nm ∧ envOf (cs.map E.nm) (cs.map val) c.nm = val c'
  | [], _, h => by simp at h
  | x :: xs, c, h => by
    simp only [List.map_cons, envOf]
    by_cases hx : c.nm = x.nm
    · exact ⟨x, by simp, hx.symm, by simp [hx]⟩
    · rcases List.mem_cons.mp h with e | h'
      · exact absurd (by rw [e]) hx
      · obtain ⟨c', hc', h1, h2⟩ := envOf_lookup val xs c h'
        exact ⟨c', List.mem_cons_of_mem _ hc', h1, by simp [hx, h2]⟩

/-! ## the main theorem -/

/-- what the graph of a Delayed value satisfies -/
structure Inv (g : Graph Nat V) (subs : List E) : Prop where
  closed : Closed g
  dom : ∀ k, (g k).isSome = true → ∃ s ∈ subs, s.nm = k
  vals : ∀ s ∈ subs, Evals g s.nm (evalE S s)

variable (U : List E)
  (hname : ∀ s₁ ∈ U, ∀ s₂ ∈ U, s₁.nm = s₂.nm → evalE S s₁ = evalE S s₂)
  (hfresh : ∀ nm f args, E.call nm f args ∈ U → ∀ s ∈ subexprsL args, s.nm ≠ nm)
include hname hfresh

mutual
theorem graph_inv : ∀ (e : E), (∀ s ∈ subexprs e, s ∈ U) → Inv S (graphOf S e) (subexprs e)
  | .leaf nm v, _ => by
    refine ⟨?_, ?_, ?_⟩
    · intro k t hk d hd
      simp only [graphOf, single] at hk
      split at hk
      · simp only [Option.some.injEq] at hk; subst hk; simp at hd
      · simp at hk
    · intro k hk
      simp only [graphOf, single] at hk
      split at hk
      · rename_i h; exact ⟨.leaf nm v, by simp [subexprs], by simp [E.nm, h]⟩
      · simp at hk
    · intro s hs
      simp only [subexprs, List.mem_singleton] at hs
      subst hs
      exact ⟨1, by simp [evalG, graphOf, single, E.nm, sequence, evalE]⟩
  | .call nm f args, hU => by
    have hUargs : ∀ s ∈ subexprsL args, s ∈ U := fun s hs => hU s (by simp [subexprs, hs])
    have hself : E.call nm f args ∈ U := hU _ (self_mem_subexprs _)
    have hinv := graphsL_inv args hUargs
    -- the merged graph of the Delayed arguments
    have hgs : graphsA S args = (directSubsL args).map (graphOf S) := graphs_are_directL S args
    have hclosedM : Closed (mergeAll (graphsA S args)) := by
      apply closed_mergeAll
      intro g hg
      rw [hgs] at hg
      obtain ⟨c, hc, rfl⟩ := List.mem_map.mp hg
      exact (hinv c hc).closed
    have hdomM : ∀ k, (mergeAll (graphsA S args) k).isSome = true → ∃ s ∈ subexprsL args, s.nm = k := by
      intro k hk
      obtain ⟨g, hg, hgk⟩ := dom_mergeAll _ k hk
      rw [hgs] at hg
      obtain ⟨c, hc, rfl⟩ := List.mem_map.mp hg
      obtain ⟨s, hs, hsk⟩ := (hinv c hc).dom k hgk
      exact ⟨s, direct_sub_subexprsL args c hc s hs, hsk⟩
    have hvalsM : ∀ s ∈ subexprsL args, Evals (mergeAll (graphsA S args)) s.nm (evalE S s) := by
      intro s hs
      obtain ⟨c, hc, hsc⟩ := subexprs_via_directL args s hs
      have hv := (hinv c hc).vals s hsc
      refine mergeAll_sound (graphsA S args) ?_ ?_ (graphOf S c) ?_ s.nm _ (evals_isSome hv) hv
      · intro g hg
        rw [hgs] at hg
        obtain ⟨c', hc', rfl⟩ := List.mem_map.mp hg
        exact (hinv c' hc').closed
      · intro g hg g' hg' k hk hk' v hv'
        rw [hgs] at hg hg'
        obtain ⟨a, ha, rfl⟩ := List.mem_map.mp hg
        obtain ⟨b, hb, rfl⟩ := List.mem_map.mp hg'
        obtain ⟨sa, hsa, hka⟩ := (hinv a ha).dom k hk
        obtain ⟨sb, hsb, hkb⟩ := (hinv b hb).dom k hk'
        have hva := (hinv a ha).vals sa hsa
        have hvb := (hinv b hb).vals sb hsb
        rw [hka] at hva
        rw [hkb] at hvb
        have : v = evalE S sa := hv'.unique hva
        rw [this, hname sa (hUargs sa (direct_sub_subexprsL args a ha sa hsa)) sb
          (hUargs sb (direct_sub_subexprsL args b hb sb hsb)) (hka.trans hkb.symm)]
        exact hvb
      · rw [hgs]; exact List.mem_map_of_mem hc
    -- the key of the call is new
    have hnone : mergeAll (graphsA S args) nm = none := by
      cases hm : mergeAll (graphsA S args) nm with
      | none => rfl
      | some t =>
        obtain ⟨s, hs, hsk⟩ := hdomM nm (by simp [hm])
        exact absurd hsk (hfresh nm f args hself s hs)
    have hdirect : ∀ c ∈ directSubsL args, Evals (mergeAll (graphsA S args)) c.nm (evalE S c) :=
      fun c hc => hvalsM c (direct_sub_subexprsL args c hc c (self_mem_subexprs c))
    have hdeps : ∀ d ∈ (taskOf S f args).deps, (mergeAll (graphsA S args) d).isSome = true := by
      intro d hd
      simp only [taskOf, List.mem_map] at hd
      obtain ⟨c, hc, rfl⟩ := hd
      exact evals_isSome (hdirect c hc)
    refine ⟨?_, ?_, ?_⟩
    · exact closed_extend _ hclosedM nm _ hdeps
    · intro k hk
      simp only [graphOf, extend] at hk
      split at hk
      · rename_i h; exact ⟨.call nm f args, self_mem_subexprs _, by simp [E.nm, h]⟩
      · obtain ⟨s, hs, hsk⟩ := hdomM k hk
        exact ⟨s, by simp [subexprs, hs], hsk⟩
    · intro s hs
      simp only [subexprs, List.mem_cons] at hs
      rcases hs with rfl | hs
      · -- the call itself
        have hdirect' : ∀ c ∈ directSubsL args,
            Evals (extend (mergeAll (graphsA S args)) nm (taskOf S f args)) c.nm (evalE S c) := by
          intro c hc
          obtain ⟨n, hn⟩ := hdirect c hc
          exact ⟨n, extend_fresh _ hclosedM nm _ hnone n c.nm _ (evals_isSome (hdirect c hc)) hn⟩
        obtain ⟨N, hN⟩ := sequence_of_evals _ (evalE S) (directSubsL args) hdirect'
        refine ⟨N + 1, ?_⟩
        simp only [E.nm, graphOf]
        rw [evalG_step]
        have he : extend (mergeAll (graphsA S args)) nm (taskOf S f args) nm = some (taskOf S f args) := by
          simp [extend]
        rw [he]
        simp only
        have hdepsEq : (taskOf S f args).deps = (directSubsL args).map E.nm := rfl
        rw [hdepsEq, hN]
        simp only [Option.map_some, taskOf, evalE]
        congr 2
        apply argsEnv_eq
        intro c hc
        obtain ⟨c', hc', hnm, hval⟩ := envOf_lookup (evalE S) (directSubsL args) c hc
        rw [hval]
        exact hname c' (hUargs c' (direct_sub_subexprsL args c' hc' c' (self_mem_subexprs c'))) c
          (hUargs c (direct_sub_subexprsL args c hc c (self_mem_subexprs c))) hnm
      · obtain ⟨n, hn⟩ := hvalsM s hs
        exact ⟨n, by
          simp only [graphOf]
          exact extend_fresh _ hclosedM nm _ hnone n s.nm _ (evals_isSome (hvalsM s hs)) hn⟩
theorem graphsArg_inv : ∀ (a : Arg), (∀ s ∈ subexprsA a, s ∈ U) → ∀ c ∈ directSubs a, Inv S (graphOf S c) (subexprs c)
  | .lit _, _, c, hc => by simp [directSubs] at hc
  | .sub e, hU, c, hc => by
    simp only [directSubs, List.mem_singleton] at hc
    rw [hc]
    exact graph_inv e (by simpa [subexprsA] using hU)
  | .list xs, hU, c, hc => graphsL_inv xs (by simpa [subexprsA] using hU) c (by simpa [directSubs] using hc)
  | .tuple xs, hU, c, hc => graphsL_inv xs (by simpa [subexprsA] using hU) c (by simpa [directSubs] using hc)
  | .dict kvs, hU, c, hc => graphsP_inv kvs (by simpa [subexprsA] using hU) c (by simpa [directSubs] using hc)
theorem graphsL_inv : ∀ (as : List Arg), (∀ s ∈ subexprsL as, s ∈ U) → ∀ c ∈ directSubsL as, Inv S (graphOf S c) (subexprs c)
  | [], _, c, hc => by simp [directSubsL] at hc
  | a :: as, hU, c, hc => by
    simp only [directSubsL, List.mem_append] at hc
    rcases hc with hc | hc
    · exact graphsArg_inv a (fun s hs => hU s (by simp [subexprsL, hs])) c hc
    · exact graphsL_inv as (fun s hs => hU s (by simp [subexprsL, hs])) c hc
theorem graphsP_inv : ∀ (ps : List (Arg × Arg)), (∀ s ∈ subexprsP ps, s ∈ U) →
    ∀ c ∈ directSubsP ps, Inv S (graphOf S c) (subexprs c)
  | [], _, c, hc => by simp [directSubsP] at hc
  | (k, v) :: r, hU, c, hc => by
    simp only [directSubsP, List.mem_append] at hc
    rcases hc with (hc | hc) | hc
    · exact graphsArg_inv k (fun s hs => hU s (by simp [subexprsP, hs])) c hc
    · exact graphsArg_inv v (fun s hs => hU s (by simp [subexprsP, hs])) c hc
    · exact graphsP_inv r (fun s hs => hU s (by simp [subexprsP, hs])) c hc
end

/-- **The graph `delayed` builds evaluates the key of the program to the value of the program run eagerly** —
    and to nothing else. -/
theorem delayed_eval (e : E) (hU : ∀ s ∈ subexprs e, s ∈ U) :
    Evals (graphOf S e) e.nm (evalE S e) ∧ ∀ v, Evals (graphOf S e) e.nm v → v = evalE S e := by
  have h := (graph_inv S U hname hfresh e hU).vals e (self_mem_subexprs e)
  exact ⟨h, fun v hv => hv.unique h⟩

/-- `nout`-unpacking: iterating a Delayed of length `nout` yields `d[i]`, a pure `getitem` call on `d`; its graph
    evaluates to item `i` of the value of `d` (`getitem` is function number `g` of the value algebra). -/
theorem nout_unpack (d : E) (g nm i : Nat)
    (hU : ∀ s ∈ subexprs (.call nm g [.sub d, .lit i]), s ∈ U) :
    Evals (graphOf S (.call nm g [.sub d, .lit i])) nm (S.app g [evalE S d, S.lit i]) := by
  have := (delayed_eval S U hname hfresh (.call nm g [.sub d, .lit i]) hU).1
  simpa [E.nm, evalE, evalArgs, evalArg] using this

end

/-! ## keys of pure calls -/

open Dask.NF in
/-- `call_function` with `pure=True`: `name = f"{funcname(func)}-{tokenize(func_token, *args, **kwargs)}"`;
    a Delayed argument contributes its key (a str), a plain argument its normal form.  The token is kept as
    the value whose `str` is hashed (md5 assumed injective). -/
def pureKey (funcname functoken : String) (args : List Val) (kwargs : List (String × Val)) : String × Val :=
  (funcname, .digest (tokNFKw (.str functoken :: args) kwargs))

open Dask.NF in
/-- identical pure calls get identical keys (the key is a function of the call) -/
theorem pure_keys_equal (fn ft : String) (args args' : List Val) (kw kw' : List (String × Val))
    (h1 : args = args') (h2 : kw = kw') : pureKey fn ft args kw = pureKey fn ft args' kw' := by
  rw [h1, h2]

open Dask.NF in
/-- pure calls (without keyword arguments) with the same key have the same function token and observably equal
    arguments: calls whose arguments differ observably get different keys -/
theorem pure_keys_distinct (fn fn' ft ft' : String) (args args' : List Val)
    (h : pureKey fn ft args [] = pureKey fn' ft' args' []) : fn = fn' ∧ ft = ft' ∧ ObsEqL args args' := by
  simp only [pureKey, tokNFKw, List.isEmpty_nil, if_true, normL, norm, Prod.mk.injEq, Val.digest.injEq,
    Val.tuple.injEq, List.cons.injEq, Val.str.injEq] at h
  exact ⟨h.1, h.2.1, C12.normL_injective _ _ h.2.2⟩

open Dask.NF in
/-- the item a keyword argument contributes to the token -/
def kwItem (p : String × Val) : Val := .tuple [.str "tuple", .tuple [.str p.1, norm p.2]]

open Dask.NF in
theorem kwItems_eq (kw : List (String × Val)) :
    (ssort (kw.map (fun (k, v) => (((k, "") : SortKey), Val.tuple [.str "tuple", .tuple [.str k, norm v]])))).map Prod.snd
      = (ssort (kw.map (fun p => (((p.1, "") : SortKey), kwItem p)))).map Prod.snd := by
  rfl

open Dask.NF in
/-- **pure calls with the same key have observably equal positional arguments and, keyword by keyword, observably equal
    keyword arguments** (in whatever order the keywords were written) -/
theorem pure_keys_distinct_kw (fn fn' ft ft' : String) (args args' : List Val) (kw kw' : List (String × Val))
    (h : pureKey fn ft args kw = pureKey fn' ft' args' kw') :
    fn = fn' ∧ ft = ft' ∧ ObsEqL args args' ∧
      ∃ kw'', All₂ (fun p q : String × Val => p.1 = q.1 ∧ ObsEq p.2 q.2) kw kw'' ∧ kw''.Perm kw' := by
  simp only [pureKey, Prod.mk.injEq, Val.digest.injEq] at h
  obtain ⟨hfn, hnf⟩ := h
  refine ⟨hfn, ?_⟩
  unfold tokNFKw at hnf
  cases kw with
  | nil =>
    cases kw' with
    | nil =>
      simp only [List.isEmpty_nil, if_true, normL, norm, Val.tuple.injEq, List.cons.injEq, Val.str.injEq] at hnf
      exact ⟨hnf.1, C12.normL_injective _ _ hnf.2, [], .nil, .refl _⟩
    | cons p r =>
      simp [normL, norm] at hnf
  | cons p r =>
    cases kw' with
    | nil => simp [normL, norm] at hnf
    | cons p' r' =>
      simp only [List.isEmpty_cons, Bool.false_eq_true, if_false, Val.tuple.injEq, List.cons.injEq, and_true] at hnf
      obtain ⟨hargs, hitems⟩ := hnf
      simp only [normL, norm, List.cons.injEq, Val.str.injEq] at hargs
      refine ⟨hargs.1, C12.normL_injective _ _ hargs.2, ?_⟩
      rw [kwItems_eq, kwItems_eq] at hitems
      have hperm := C12.perm_of_ssort_eq hitems
      simp only [List.map_map] at hperm
      have hperm' : ((p :: r).map kwItem).Perm ((p' :: r').map kwItem) := by
        simpa [Function.comp_def] using hperm
      obtain ⟨zs, hz, hzp⟩ := perm_map_rel kwItem (fun a b : String × Val => a.1 = b.1 ∧ ObsEq a.2 b.2) (p :: r) (p' :: r') hperm'
        (by
          intro a _ b hab
          simp only [kwItem, Val.tuple.injEq, List.cons.injEq, Val.str.injEq, and_true, true_and] at hab
          exact ⟨hab.1, C12.norm_injective _ _ hab.2⟩)
      exact ⟨zs, hz, hzp⟩

/-! ## non-vacuity: `total = add(inc(x), inc(x))` with a shared pure sub-call, and `f([inc(x), {1: y}])` -/

def arith : Sem Nat where
  lit := id
  app := fun f vs => match f with
    | 0 => vs.headD 0 + 1            -- inc
    | 1 => vs.foldl (· + ·) 0         -- add
    | _ => vs.length
  mkList := fun vs => vs.foldl (· + ·) 0
  mkTuple := fun vs => vs.foldl (· + ·) 0
  mkDict := fun kvs => kvs.foldl (fun a p => a + p.1 * p.2) 0

def progX : E := .leaf 10 5
def progInc : E := .call 11 0 [.sub progX]
def prog : E := .call 12 1 [.sub progInc, .list [.sub progInc, .dict [(.lit 1, .sub progX)]]]

example : evalE arith prog = 17 := by decide
example : evalG (graphOf arith prog) 4 12 = some 17 := by decide
/-- the hypotheses of `delayed_eval` hold for this program -/
example : (∀ s₁ ∈ subexprs prog, ∀ s₂ ∈ subexprs prog, s₁.nm = s₂.nm → evalE arith s₁ = evalE arith s₂) := by
  simp only [prog, progInc, progX, subexprs, subexprsL, subexprsA, subexprsP, List.mem_cons, List.mem_append,
    List.append_nil, List.not_mem_nil, or_false, false_or, List.nil_append, List.cons_append]
  intro s₁ h₁ s₂ h₂
  rcases h₁ with rfl | rfl | rfl | rfl | rfl | rfl <;> rcases h₂ with rfl | rfl | rfl | rfl | rfl | rfl <;>
    simp [E.nm] <;> decide

end Dask.C15
