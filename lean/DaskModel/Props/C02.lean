import DaskModel.Props.C01
/-!
# C02 — each needed task runs exactly once and only after its dependencies finished

"runs" = is popped from `ready`, marked running and handed to the executor: one `pretask` event in the
log (`preKeys`).  All statements are for **every** state the main loop can reach (`mainLoop … = ok (s', o)`
for any adversary `choices` and any outcome `o`: `starved` = between two iterations, `done`, `failed`).
Hypothesis `StartOK` as in C01.
-/
namespace Dask.C02
open Dask.Sched Dask.C01
variable {α : Type} {cfg : Cfg} {P : Params α} {rank : Key → Nat} {st0 : State α}

/-- **`run_at_most_once`**: no task is fired twice, under any completion order, also when the call fails -/
theorem run_at_most_once (h : Hyp cfg rank) (hs : StartOK cfg (den cfg P rank) st0)
    (choices : List Nat) (s' : Sys α) (o : Outcome) (hrun : mainLoop cfg P choices (sys0 st0) = .ok (s', o)) :
    (preKeys s'.log).Nodup := by
  obtain ⟨⟨rest, hB⟩, _⟩ := reach_inv P (den_fixpoint cfg P rank h) h.nw h.cs rank h.acyclic hs hrun
  exact hB.preNodup

/-- the mechanism behind it: `ready`, `running`, `finished` and the keys of `waiting` are pairwise disjoint,
and a fired key is exactly a running or finished one -/
theorem phases_disjoint (h : Hyp cfg rank) (hs : StartOK cfg (den cfg P rank) st0)
    (choices : List Nat) (s' : Sys α) (o : Outcome) (hrun : mainLoop cfg P choices (sys0 st0) = .ok (s', o)) :
    (∀ k ∈ s'.st.ready, k ∉ s'.st.running ∧ k ∉ s'.st.finished) ∧
    (∀ k ∈ s'.st.running, k ∉ s'.st.finished) ∧
    (∀ k w, s'.st.waiting.get? k = some w → k ∉ s'.st.ready ∧ k ∉ s'.st.running ∧ k ∉ s'.st.finished) ∧
    (∀ k, k ∈ preKeys s'.log ↔ k ∈ s'.st.running ∨ k ∈ s'.st.finished) := by
  obtain ⟨⟨rest, hB⟩, _⟩ := reach_inv P (den_fixpoint cfg P rank h) h.nw h.cs rank h.acyclic hs hrun
  exact ⟨fun k hk => ⟨hB.inv.readyRunning k hk, hB.inv.readyFinished k hk⟩, hB.inv.runningFinished,
    hB.inv.waitingDisj, hB.preIff⟩

/-- **`never_run_unneeded`**: only keys visited by `start_state_from_dask` (reachable from the request) that
are tasks are ever fired -/
theorem never_run_unneeded (h : Hyp cfg rank) (hs : StartOK cfg (den cfg P rank) st0)
    (choices : List Nat) (s' : Sys α) (o : Outcome) (hrun : mainLoop cfg P choices (sys0 st0) = .ok (s', o))
    (k : Key) (hk : k ∈ preKeys s'.log) : st0.seen k ∧ isTask cfg.g k := by
  obtain ⟨⟨rest, hB⟩, hdeps, _⟩ := reach_inv P (den_fixpoint cfg P rank h) h.nw h.cs rank h.acyclic hs hrun
  have hseen : ∀ k, s'.st.seen k → st0.seen k := by
    intro k ⟨ds, hds⟩
    exact ⟨ds, by rw [← hdeps]; exact hds⟩
  rcases (hB.preIff k).mp hk with h1 | h1
  · exact ⟨hseen k (hB.inv.runningTask k h1).1, (hB.inv.runningTask k h1).2⟩
  · exact ⟨hseen k (hB.inv.finishedTask k h1).1, (hB.inv.finishedTask k h1).2⟩

/-- **`run_exactly_once_on_success`**: when the call succeeds the fired keys are exactly the needed tasks
(each once, by `run_at_most_once`), and each of them also got exactly one `posttask` -/
theorem run_exactly_once_on_success (h : Hyp cfg rank) (hs : StartOK cfg (den cfg P rank) st0)
    (choices : List Nat) (s' : Sys α) (hrun : mainLoop cfg P choices (sys0 st0) = .ok (s', .done)) :
    (∀ k, k ∈ preKeys s'.log ↔ (st0.seen k ∧ isTask cfg.g k)) ∧
    (∀ k, k ∈ postKeys s'.log ↔ (st0.seen k ∧ isTask cfg.g k)) ∧
    (preKeys s'.log).Nodup ∧ (postKeys s'.log).Nodup := by
  obtain ⟨_, hdeps, _, hdone, _⟩ := reach_inv P (den_fixpoint cfg P rank h) h.nw h.cs rank h.acyclic hs hrun
  obtain ⟨hB, hl⟩ := hdone rfl
  have hseen : ∀ k, s'.st.seen k ↔ st0.seen k := by
    intro k
    unfold State.seen
    rw [hdeps]
  have hfin : ∀ k, k ∈ s'.st.finished ↔ (st0.seen k ∧ isTask cfg.g k) := by
    intro k
    constructor
    · intro hk
      exact ⟨(hseen k).mp (hB.inv.finishedTask k hk).1, (hB.inv.finishedTask k hk).2⟩
    · rintro ⟨h1, h2⟩
      exact hB.inv.done_all_finished hl ((hseen k).mpr h1) h2
  have hrun0 : s'.st.running = [] := ((loopCond_false_iff s'.st).mp hl).2.2
  refine ⟨?_, ?_, hB.preNodup, hB.postNodup⟩
  · intro k
    rw [hB.preIff k, hrun0, ← hfin k]
    simp
  · intro k
    rw [hB.postIff k, hfin k]

/-- **`deps_finished_before_start`**: at the moment a task is fired (the state its `pretask` callback sees),
every dependency is a data node or a finished task, and its computed (denoted) value is in the cache -/
theorem deps_finished_before_start (h : Hyp cfg rank) (hs : StartOK cfg (den cfg P rank) st0)
    (choices : List Nat) (s' : Sys α) (o : Outcome) (hrun : mainLoop cfg P choices (sys0 st0) = .ok (s', o))
    (e : Ev × State α) (he : e ∈ s'.log) (k : Key) (hk : e.1 = Ev.pretask k) (d : Key) (hd : d ∈ e.2.depsOf k) :
    e.2.cache.get? d = some (den cfg P rank d) ∧ (isData cfg.g d ∨ d ∈ e.2.finished) := by
  obtain ⟨⟨rest, hB⟩, _⟩ := reach_inv P (den_fixpoint cfg P rank h) h.nw h.cs rank h.acyclic hs hrun
  exact hB.preSnap e he k hk d hd

/-- **`data_passed_is_deps`**: the value an outstanding task will deliver is its function applied to the
computed values of exactly its dependencies -/
theorem data_passed_is_deps (h : Hyp cfg rank) (hs : StartOK cfg (den cfg P rank) st0)
    (choices : List Nat) (s' : Sys α) (o : Outcome) (hrun : mainLoop cfg P choices (sys0 st0) = .ok (s', o))
    (p : Key × α) (hp : p ∈ s'.pending.flatten) :
    ∃ deps, cfg.g.get? p.1 = some (.task deps) ∧ p.2 = P.apply p.1 (deps.map (den cfg P rank)) := by
  obtain ⟨⟨rest, hB⟩, _⟩ := reach_inv P (den_fixpoint cfg P rank h) h.nw h.cs rank h.acyclic hs hrun
  have hrun' : p.1 ∈ s'.st.running := (hB.running p.1).mp (Or.inl (by
    simp only [pendKeys, List.mem_map]; exact ⟨p, hp, rfl⟩))
  obtain ⟨deps, hg⟩ := (hB.inv.runningTask p.1 hrun').2
  exact ⟨deps, hg, by rw [hB.pendVal p hp, (den_fixpoint cfg P rank h).task p.1 deps hg]⟩

/-- **`fire_submits_all`**: between iterations, the running tasks are exactly the tasks sitting in outstanding
batches, each in one batch only (the batching arithmetic loses or duplicates nothing), and no batch is empty -/
theorem fire_submits_all (h : Hyp cfg rank) (hs : StartOK cfg (den cfg P rank) st0)
    (choices : List Nat) (s' : Sys α) (hrun : mainLoop cfg P choices (sys0 st0) = .ok (s', .starved)) :
    (pendKeys s').Nodup ∧ (∀ k, k ∈ pendKeys s' ↔ k ∈ s'.st.running) ∧ ∀ b ∈ s'.pending, b ≠ [] := by
  rcases mainLoop_spec P (den_fixpoint cfg P rank h) h.nw h.cs rank h.acyclic choices (sys0 st0) hs.sysInv with
    ⟨hbad, _⟩ | ⟨s1, o1, hok, _, hstarved, _⟩
  · rw [hbad] at hrun; cases hrun
  · rw [hok] at hrun
    cases hrun
    obtain ⟨hB, _⟩ := hstarved rfl
    refine ⟨by simpa using hB.nodup, fun k => by simpa using hB.running k, hB.pendNonempty⟩

/-! ## full statements: the start state is the one `start_state_from_dask` builds (no `StartOK` hypothesis) -/
section Full
variable (h : Hyp cfg rank) (hG : GraphOK cfg.g cfg.results) (hst : startState cfg P = .ok st0)
include h hG hst

theorem run_at_most_once_full (choices : List Nat) (s' : Sys α) (o : Outcome)
    (hrun : mainLoop cfg P choices (sys0 st0) = .ok (s', o)) : (preKeys s'.log).Nodup :=
  run_at_most_once h (C01.startOK_of_eq h hG hst) choices s' o hrun

theorem run_exactly_once_on_success_full (choices : List Nat) (s' : Sys α)
    (hrun : mainLoop cfg P choices (sys0 st0) = .ok (s', .done)) :
    (∀ k, k ∈ preKeys s'.log ↔ (st0.seen k ∧ isTask cfg.g k)) ∧
    (∀ k, k ∈ postKeys s'.log ↔ (st0.seen k ∧ isTask cfg.g k)) ∧
    (preKeys s'.log).Nodup ∧ (postKeys s'.log).Nodup :=
  run_exactly_once_on_success h (C01.startOK_of_eq h hG hst) choices s' hrun

/-- **C02, full**: when the call succeeds, the fired keys are exactly the tasks reachable from the requested keys
along dependencies, each fired once and completed once; tasks that are not reachable are never fired. -/
theorem executed_iff_reachable_task (choices : List Nat) (s' : Sys α)
    (hrun : mainLoop cfg P choices (sys0 st0) = .ok (s', .done)) :
    (∀ k, k ∈ preKeys s'.log ↔ (Reach cfg.g cfg.results k ∧ isTask cfg.g k)) ∧
    (preKeys s'.log).Nodup ∧ (postKeys s'.log).Nodup ∧ (∀ k, k ∈ postKeys s'.log ↔ k ∈ preKeys s'.log) := by
  obtain ⟨a, b, c, d⟩ := run_exactly_once_on_success h (C01.startOK_of_eq h hG hst) choices s' hrun
  refine ⟨fun k => by rw [a k, C01.seen_iff_reachable h hG hst k], c, d, fun k => by rw [a k, b k]⟩

theorem never_run_unreachable (choices : List Nat) (s' : Sys α) (o : Outcome)
    (hrun : mainLoop cfg P choices (sys0 st0) = .ok (s', o)) (k : Key) (hk : k ∈ preKeys s'.log) :
    Reach cfg.g cfg.results k ∧ isTask cfg.g k := by
  obtain ⟨a, b⟩ := never_run_unneeded h (C01.startOK_of_eq h hG hst) choices s' o hrun k hk
  exact ⟨(C01.seen_iff_reachable h hG hst k).mp a, b⟩

theorem deps_finished_before_start_full (choices : List Nat) (s' : Sys α) (o : Outcome)
    (hrun : mainLoop cfg P choices (sys0 st0) = .ok (s', o))
    (e : Ev × State α) (he : e ∈ s'.log) (k : Key) (hk : e.1 = Ev.pretask k) (d : Key) (hd : d ∈ e.2.depsOf k) :
    e.2.cache.get? d = some (den cfg P rank d) ∧ (isData cfg.g d ∨ d ∈ e.2.finished) :=
  deps_finished_before_start h (C01.startOK_of_eq h hG hst) choices s' o hrun e he k hk d hd

end Full

/-! non-vacuity: on the diamond of C01 both middle tasks and the join run once -/
example : preKeys (getAsync (C01.exCfg 1) C01.exP [1, 0, 0]).log = [1, 2, 3] := by decide
example : postKeys (getAsync (C01.exCfg 1) C01.exP [1, 0, 0]).log = [2, 1, 3] := by decide

end Dask.C02
