import DaskModel.Model.Diagnostics
import DaskModel.Props.C05
/-!
# C52 — local diagnostics report every executed task faithfully

`Profiler` and `Cache` (dask/cache.py after the repair of defect #33, `/repo` commit f5744ad) as folds over the
callback log of the scheduler model (`Model/Diagnostics.lean`).
-/
namespace Dask.C52
open Dask.Sched Dask.Diag
variable {α : Type}

/-! ## Profiler -/

def Closed (p : Prof) (k : Key) : Prop := ∃ st en, p.pend.get? k = some (5, st, en)
def Open (p : Prof) (k : Key) : Prop := ∃ st en, p.pend.get? k = some (3, st, en)

/-- entries are started-only (length 3) or completed (length 5, start ≤ end); all starts are ≤ `T` -/
def Good (p : Prof) (T : Nat) : Prop :=
  ∀ k len st en, p.pend.get? k = some (len, st, en) → (len = 3 ∨ (len = 5 ∧ st ≤ en)) ∧ st ≤ T

theorem profRun_spec (clock : Nat → Nat) (hmono : ∀ i j, i ≤ j → clock i ≤ clock j) :
    ∀ (log : List (Ev × State α)) (i : Nat) (p : Prof),
    Good p (clock i) →
    (preKeys log).Nodup → (∀ k ∈ preKeys log, p.pend.get? k = none) →
    (postKeys log).Nodup → (∀ k ∈ postKeys log, ¬ Closed p k) →
    (∀ l1 l2, log = l1 ++ l2 → ∀ k, k ∈ postKeys l1 → k ∈ preKeys l1 ∨ Open p k) →
    (∀ e ∈ log, ∀ b, e.1 ≠ Ev.finish b) →
    ∃ p', profRun clock i p log = .ok p' ∧ p'.results = p.results ∧ Good p' (clock (i + log.length)) ∧
      (∀ k, Closed p' k ↔ (Closed p k ∨ k ∈ postKeys log)) := by
  intro log
  induction log with
  | nil =>
    intro i p hg _ _ _ _ _ _
    exact ⟨p, rfl, rfl, by simpa using hg, by simp [postKeys]⟩
  | cons e rest ih =>
    intro i p hg hpn hpd hqn hqc hord hnf
    have hnf' : ∀ e' ∈ rest, ∀ b, e'.1 ≠ Ev.finish b := fun e' he' => hnf e' (List.mem_cons_of_mem _ he')
    have hclk : clock i ≤ clock (i + 1) := hmono i (i + 1) (by omega)
    have hlen : i + (e :: rest).length = (i + 1) + rest.length := by simp only [List.length_cons]; omega
    obtain ⟨ev, snap⟩ := e
    cases ev with
    | pretask k =>
      have hpk : preKeys ((Ev.pretask k, snap) :: rest) = k :: preKeys rest := by simp [preKeys]
      have hqk : postKeys ((Ev.pretask k, snap) :: rest) = postKeys rest := by simp [postKeys]
      rw [hpk] at hpn hpd
      rw [hqk] at hqn hqc
      have hpn' := List.nodup_cons.mp hpn
      have hknone : p.pend.get? k = none := hpd k (by simp)
      let p1 : Prof := { p with pend := p.pend.set k (3, clock i, 0) }
      have hget : ∀ k', p1.pend.get? k' = if k = k' then some (3, clock i, 0) else p.pend.get? k' := by
        intro k'; simp [p1, Map.get?_set]
      have hg1 : Good p1 (clock (i + 1)) := by
        intro k' len st en hk'
        rw [hget] at hk'
        split at hk'
        · simp only [Option.some.injEq, Prod.mk.injEq] at hk'
          obtain ⟨rfl, rfl, rfl⟩ := hk'
          exact ⟨Or.inl rfl, hclk⟩
        · obtain ⟨a, b⟩ := hg k' len st en hk'
          exact ⟨a, by omega⟩
      obtain ⟨p', hrun, hres, hgood, hcl⟩ := ih (i + 1) p1 hg1 hpn'.2
        (by intro k' hk'
            rw [hget]
            have : k ≠ k' := fun e => hpn'.1 (e ▸ hk')
            simp only [this, if_false]
            exact hpd k' (List.mem_cons_of_mem _ hk'))
        hqn
        (by intro k' hk' ⟨st, en, hc⟩
            rw [hget] at hc
            split at hc
            · cases hc
            · exact hqc k' hk' ⟨st, en, hc⟩)
        (by intro l1 l2 hl k' hk'
            have := hord ((Ev.pretask k, snap) :: l1) l2 (by simp [hl]) k' (by simpa [postKeys] using hk')
            rcases this with h1 | ⟨st, en, h1⟩
            · have h1' : k' = k ∨ k' ∈ preKeys l1 := by simpa [preKeys] using h1
              rcases h1' with rfl | h2
              · exact Or.inr ⟨clock i, 0, by rw [hget]; simp⟩
              · exact Or.inl h2
            · right
              refine ⟨st, en, ?_⟩
              rw [hget]
              have : k ≠ k' := by rintro rfl; rw [hknone] at h1; cases h1
              simp only [this, if_false]
              exact h1)
        hnf'
      refine ⟨p', ?_, hres, by rw [hlen]; exact hgood, ?_⟩
      · show profRun clock i p ((Ev.pretask k, snap) :: rest) = .ok p'
        unfold profRun
        simp only [profStep]
        exact hrun
      · intro k'
        rw [hcl k', hqk]
        constructor
        · rintro (⟨st, en, hc⟩ | h1)
          · rw [hget] at hc
            split at hc
            · cases hc
            · exact Or.inl ⟨st, en, hc⟩
          · exact Or.inr h1
        · rintro (⟨st, en, hc⟩ | h1)
          · left
            refine ⟨st, en, ?_⟩
            rw [hget]
            have : k ≠ k' := by rintro rfl; rw [hknone] at hc; cases hc
            simp only [this, if_false]
            exact hc
          · exact Or.inr h1
    | posttask k =>
      have hpk : preKeys ((Ev.posttask k, snap) :: rest) = preKeys rest := by simp [preKeys]
      have hqk : postKeys ((Ev.posttask k, snap) :: rest) = k :: postKeys rest := by simp [postKeys]
      rw [hpk] at hpn hpd
      rw [hqk] at hqn hqc
      have hqn' := List.nodup_cons.mp hqn
      have hopen : Open p k := by
        rcases hord [(Ev.posttask k, snap)] rest rfl k (by simp [postKeys]) with h1 | h1
        · simp [preKeys] at h1
        · exact h1
      obtain ⟨st0, en0, hk0⟩ := hopen
      let p1 : Prof := { p with pend := p.pend.set k (5, st0, clock i) }
      have hget : ∀ k', p1.pend.get? k' = if k = k' then some (5, st0, clock i) else p.pend.get? k' := by
        intro k'; simp [p1, Map.get?_set]
      have hst0 : st0 ≤ clock i := (hg k 3 st0 en0 hk0).2
      have hg1 : Good p1 (clock (i + 1)) := by
        intro k' len st en hk'
        rw [hget] at hk'
        split at hk'
        · simp only [Option.some.injEq, Prod.mk.injEq] at hk'
          obtain ⟨rfl, rfl, rfl⟩ := hk'
          exact ⟨Or.inr ⟨rfl, hst0⟩, by omega⟩
        · obtain ⟨a, b⟩ := hg k' len st en hk'
          exact ⟨a, by omega⟩
      obtain ⟨p', hrun, hres, hgood, hcl⟩ := ih (i + 1) p1 hg1 hpn
        (by intro k' hk'
            rw [hget]
            have : k ≠ k' := by
              rintro rfl
              have := hpd k hk'
              rw [hk0] at this; cases this
            simp only [this, if_false]
            exact hpd k' hk')
        hqn'.2
        (by intro k' hk' ⟨st, en, hc⟩
            rw [hget] at hc
            have : k ≠ k' := fun e => hqn'.1 (e ▸ hk')
            simp only [this, if_false] at hc
            exact hqc k' (List.mem_cons_of_mem _ hk') ⟨st, en, hc⟩)
        (by intro l1 l2 hl k' hk'
            have hk'r : k' ∈ postKeys rest := by
              rw [hl, postKeys_append]; exact List.mem_append_left _ hk'
            have hne : k ≠ k' := fun e => hqn'.1 (e ▸ hk'r)
            have := hord ((Ev.posttask k, snap) :: l1) l2 (by simp [hl]) k' (by
              simp only [postKeys, List.filterMap_cons]
              exact List.mem_cons_of_mem _ hk')
            rcases this with h1 | ⟨st, en, h1⟩
            · exact Or.inl (by simpa [preKeys] using h1)
            · right
              refine ⟨st, en, ?_⟩
              rw [hget]
              simp only [hne, if_false]
              exact h1)
        hnf'
      refine ⟨p', ?_, hres, by rw [hlen]; exact hgood, ?_⟩
      · show profRun clock i p ((Ev.posttask k, snap) :: rest) = .ok p'
        unfold profRun
        simp only [profStep, hk0]
        exact hrun
      · intro k'
        rw [hcl k', hqk]
        constructor
        · rintro (⟨st, en, hc⟩ | h1)
          · rw [hget] at hc
            split at hc
            · rename_i hkk; exact Or.inr (by rw [hkk]; simp)
            · exact Or.inl ⟨st, en, hc⟩
          · exact Or.inr (List.mem_cons_of_mem _ h1)
        · rintro (⟨st, en, hc⟩ | h1)
          · left
            refine ⟨st, en, ?_⟩
            rw [hget]
            have : k ≠ k' := by rintro rfl; rw [hk0] at hc; cases hc
            simp only [this, if_false]
            exact hc
          · rcases List.mem_cons.mp h1 with rfl | h2
            · exact Or.inl ⟨st0, clock i, by rw [hget]; simp⟩
            · exact Or.inr h2
    | finish b => exact absurd rfl (hnf (Ev.finish b, snap) (by simp) b)
    | start =>
      have hpk : preKeys ((Ev.start, snap) :: rest) = preKeys rest := by simp [preKeys]
      have hqk : postKeys ((Ev.start, snap) :: rest) = postKeys rest := by simp [postKeys]
      rw [hpk] at hpn hpd; rw [hqk] at hqn hqc
      obtain ⟨p', hrun, hres, hgood, hcl⟩ := ih (i + 1) p (fun k len st en hk => ⟨(hg k len st en hk).1, by have := (hg k len st en hk).2; omega⟩)
        hpn hpd hqn hqc
        (by intro l1 l2 hl k' hk'
            have := hord ((Ev.start, snap) :: l1) l2 (by simp [hl]) k' (by simpa [postKeys] using hk')
            simpa [preKeys] using this)
        hnf'
      exact ⟨p', by unfold profRun; simp only [profStep]; exact hrun, hres, by rw [hlen]; exact hgood, by rw [hqk]; exact hcl⟩
    | startState =>
      have hpk : preKeys ((Ev.startState, snap) :: rest) = preKeys rest := by simp [preKeys]
      have hqk : postKeys ((Ev.startState, snap) :: rest) = postKeys rest := by simp [postKeys]
      rw [hpk] at hpn hpd; rw [hqk] at hqn hqc
      obtain ⟨p', hrun, hres, hgood, hcl⟩ := ih (i + 1) p (fun k len st en hk => ⟨(hg k len st en hk).1, by have := (hg k len st en hk).2; omega⟩)
        hpn hpd hqn hqc
        (by intro l1 l2 hl k' hk'
            have := hord ((Ev.startState, snap) :: l1) l2 (by simp [hl]) k' (by simpa [postKeys] using hk')
            simpa [preKeys] using this)
        hnf'
      exact ⟨p', by unfold profRun; simp only [profStep]; exact hrun, hres, by rw [hlen]; exact hgood, by rw [hqk]; exact hcl⟩
    | submit ks =>
      have hpk : preKeys ((Ev.submit ks, snap) :: rest) = preKeys rest := by simp [preKeys]
      have hqk : postKeys ((Ev.submit ks, snap) :: rest) = postKeys rest := by simp [postKeys]
      rw [hpk] at hpn hpd; rw [hqk] at hqn hqc
      obtain ⟨p', hrun, hres, hgood, hcl⟩ := ih (i + 1) p (fun k len st en hk => ⟨(hg k len st en hk).1, by have := (hg k len st en hk).2; omega⟩)
        hpn hpd hqn hqc
        (by intro l1 l2 hl k' hk'
            have := hord ((Ev.submit ks, snap) :: l1) l2 (by simp [hl]) k' (by simpa [postKeys] using hk')
            simpa [preKeys] using this)
        hnf'
      exact ⟨p', by unfold profRun; simp only [profStep]; exact hrun, hres, by rw [hlen]; exact hgood, by rw [hqk]; exact hcl⟩

/-! ### keys of the profiler's dict are distinct, so list membership = lookup -/
theorem keys_del {β : Type} (m : Map β) (k : Key) : (m.del k).map (·.1) = (m.map (·.1)).filter (fun x => x != k) := by
  induction m with
  | nil => rfl
  | cons a m ih =>
    unfold Map.del at ih ⊢
    simp only [List.filter_cons, List.map_cons]
    split <;> simp [ih]

theorem keysNodup_set {β : Type} (m : Map β) (k : Key) (v : β) (h : (m.map (·.1)).Nodup) :
    ((m.set k v).map (·.1)).Nodup := by
  unfold Map.set
  simp only [List.map_cons, keys_del]
  refine List.nodup_cons.mpr ⟨by simp [List.mem_filter], h.filter _⟩

theorem mem_iff_get {β : Type} (m : Map β) (h : (m.map (·.1)).Nodup) (k : Key) (v : β) :
    (k, v) ∈ m ↔ m.get? k = some v := by
  induction m with
  | nil => simp
  | cons a m ih =>
    obtain ⟨k', v'⟩ := a
    simp only [List.map_cons] at h
    have hn := List.nodup_cons.mp h
    rw [Map.get?_cons]
    by_cases hk : k' = k
    · subst hk
      simp only [List.mem_cons, Prod.mk.injEq, true_and, if_true, Option.some.injEq]
      constructor
      · rintro (h1 | h1)
        · exact h1.symm
        · exact absurd (List.mem_map.mpr ⟨(k', v), h1, rfl⟩) hn.1
      · intro h1; exact Or.inl h1.symm
    · simp only [List.mem_cons, Prod.mk.injEq, hk, if_false]
      rw [← ih hn.2]
      constructor
      · rintro (⟨h1, _⟩ | h1)
        · exact absurd h1.symm hk
        · exact h1
      · intro h1; exact Or.inr h1

theorem profRun_keysNodup (clock : Nat → Nat) : ∀ (log : List (Ev × State α)) (i : Nat) (p p' : Prof),
    (p.pend.map (·.1)).Nodup → profRun clock i p log = .ok p' → (p'.pend.map (·.1)).Nodup := by
  intro log
  induction log with
  | nil => intro i p p' h hr; simp only [profRun, Except.ok.injEq] at hr; subst hr; exact h
  | cons e rest ih =>
    intro i p p' h hr
    unfold profRun at hr
    cases hs : profStep p e.1 (clock i) with
    | error err => rw [hs] at hr; cases hr
    | ok p1 =>
      rw [hs] at hr
      apply ih (i + 1) p1 p' _ hr
      unfold profStep at hs
      split at hs
      · simp only [Except.ok.injEq] at hs; subst hs; exact keysNodup_set _ _ _ h
      · split at hs
        · cases hs
        · simp only [Except.ok.injEq] at hs; subst hs; exact keysNodup_set _ _ _ h
      · simp only [Except.ok.injEq] at hs; subst hs; simp
      · simp only [Except.ok.injEq] at hs; subst hs; exact h

theorem profRun_append (clock : Nat → Nat) : ∀ (l1 l2 : List (Ev × State α)) (i : Nat) (p p1 : Prof),
    profRun clock i p l1 = .ok p1 → profRun clock i p (l1 ++ l2) = profRun clock (i + l1.length) p1 l2 := by
  intro l1
  induction l1 with
  | nil => intro l2 i p p1 h; simp only [profRun, Except.ok.injEq] at h; subst h; simp
  | cons e rest ih =>
    intro l2 i p p1 h
    simp only [List.cons_append]
    have hstep : ∀ (l : List (Ev × State α)), profRun clock i p (e :: l) =
        match profStep p e.1 (clock i) with
        | .ok p' => profRun clock (i + 1) p' l
        | .error err => .error err := fun l => by rw [profRun]; rfl
    rw [hstep] at h
    rw [hstep]
    cases hs : profStep p e.1 (clock i) with
    | error err => rw [hs] at h; cases h
    | ok p' =>
      rw [hs] at h
      simp only [] at h ⊢
      rw [ih l2 (i + 1) p' p1 h]
      simp only [List.length_cons]
      rw [show i + 1 + rest.length = i + (rest.length + 1) by omega]

/-- **`profiler_one_entry_per_completed_task`** + **`profiler_start_le_end`**: over the events of one scheduler
call (`pretask`s distinct, `posttask`s distinct, every `posttask` preceded by its `pretask`, then `finish`), with
any non-decreasing clock and starting from a cleared profiler, `results` gains exactly one entry per key that
got a `posttask` - also when the call fails: started-but-unfinished tasks are dropped - and every entry has
start ≤ end. -/
theorem profiler_one_entry_per_completed_task (clock : Nat → Nat) (hmono : ∀ i j, i ≤ j → clock i ≤ clock j)
    (log : List (Ev × State α)) (b : Bool) (st : State α) (res0 : List (Key × Nat × Nat))
    (hpn : (preKeys log).Nodup) (hqn : (postKeys log).Nodup) (hord : Ordered log)
    (hnf : ∀ e ∈ log, ∀ b, e.1 ≠ Ev.finish b) :
    ∃ p' entries, profRun clock 0 { pend := [], results := res0 } (log ++ [(Ev.finish b, st)]) = .ok p' ∧
      p'.results = res0 ++ entries ∧ p'.pend = [] ∧
      (entries.map (·.1)).Nodup ∧ (∀ k, k ∈ entries.map (·.1) ↔ k ∈ postKeys log) ∧
      ∀ e ∈ entries, e.2.1 ≤ e.2.2 := by
  obtain ⟨p1, hrun, hres, hgood, hcl⟩ := profRun_spec clock hmono log 0 { pend := [], results := res0 }
    (by intro k len st en hk; simp at hk) hpn (by intro k _; rfl) hqn
    (by intro k _ ⟨st, en, hc⟩; simp at hc)
    (by intro l1 l2 hl k hk; exact Or.inl (hord l1 l2 hl k hk)) hnf
  have hkn := profRun_keysNodup clock log 0 _ p1 (by simp) hrun
  let entries := (p1.pend.filter (fun x => x.2.1 == 5)).map (fun x => (x.1, x.2.2.1, x.2.2.2))
  refine ⟨{ pend := [], results := p1.results ++ entries }, entries, ?_, by rw [hres], rfl, ?_, ?_, ?_⟩
  · rw [profRun_append clock log _ 0 _ p1 hrun]
    simp [profRun, profStep, entries]
  · have : entries.map (·.1) = (p1.pend.filter (fun x => x.2.1 == 5)).map (·.1) := by
      simp [entries, List.map_map, Function.comp_def]
    rw [this]
    exact (List.Sublist.map _ List.filter_sublist).nodup hkn
  · intro k
    have hcl' : Closed p1 k ↔ k ∈ postKeys log := by
      rw [hcl k]
      constructor
      · rintro (⟨st', en', hc⟩ | h1)
        · simp at hc
        · exact h1
      · exact Or.inr
    rw [← hcl']
    simp only [entries, List.map_map, List.mem_map, List.mem_filter, Function.comp_def]
    constructor
    · rintro ⟨⟨k', len, st', en'⟩, ⟨hm, h5⟩, rfl⟩
      simp only [beq_iff_eq] at h5
      subst h5
      exact ⟨st', en', (mem_iff_get p1.pend hkn k' _).mp hm⟩
    · rintro ⟨st', en', hc⟩
      exact ⟨(k, 5, st', en'), ⟨(mem_iff_get p1.pend hkn k _).mpr hc, by simp⟩, rfl⟩
  · intro e he
    simp only [entries, List.mem_map, List.mem_filter] at he
    obtain ⟨⟨k', len, st', en'⟩, ⟨hm, h5⟩, rfl⟩ := he
    simp only [beq_iff_eq] at h5
    subst h5
    have := (hgood k' 5 st' en' ((mem_iff_get p1.pend hkn k' _).mp hm)).1
    rcases this with h1 | ⟨_, h2⟩
    · cases h1
    · exact h2

/-- the same for the log of the scheduler model, for every graph and completion order: the entries are exactly
the tasks that completed (on success: exactly the needed tasks, by C02) -/
theorem profiler_faithful {cfg : Cfg} {P : Params α} {rank : Key → Nat} {st0 : State α}
    (h : C01.Hyp cfg rank) (hs : StartOK cfg (C01.den cfg P rank) st0)
    (choices : List Nat) (s' : Sys α) (o : Outcome) (hrun : mainLoop cfg P choices (sys0 st0) = .ok (s', o))
    (clock : Nat → Nat) (hmono : ∀ i j, i ≤ j → clock i ≤ clock j) (b : Bool) (res0 : List (Key × Nat × Nat)) :
    ∃ p' entries, profRun clock 0 { pend := [], results := res0 } (s'.log ++ [(Ev.finish b, s'.st)]) = .ok p' ∧
      p'.results = res0 ++ entries ∧ (entries.map (·.1)).Nodup ∧
      (∀ k, k ∈ entries.map (·.1) ↔ k ∈ s'.st.finished) ∧ ∀ e ∈ entries, e.2.1 ≤ e.2.2 := by
  obtain ⟨⟨rest, hB⟩, _⟩ := reach_inv P (C01.den_fixpoint cfg P rank h) h.nw h.cs rank h.acyclic hs hrun
  obtain ⟨p', entries, h1, h2, _, h3, h4, h5⟩ :=
    profiler_one_entry_per_completed_task clock hmono s'.log b s'.st res0 hB.preNodup hB.postNodup hB.ordered hB.noFinish
  exact ⟨p', entries, h1, h2, h3, fun k => (h4 k).trans (hB.postIff k), h5⟩

/-! ## Cache -/

def StoreSound (den : Key → α) (store : Map α) : Prop := ∀ k v, store.get? k = some v → v = den k

theorem get?_patchGraph (g : Graph) (store : Map α) (k : Key) :
    (patchGraph g store).get? k = if store.has k then (g.get? k).map (fun _ => Node.data) else g.get? k := by
  induction g with
  | nil => simp [patchGraph]
  | cons a g ih =>
    obtain ⟨k', nd⟩ := a
    have ih' : Map.get? (List.map (fun p => if store.has p.1 then (p.1, Node.data) else p) g) k =
        if store.has k then (Map.get? g k).map (fun _ => Node.data) else Map.get? g k := ih
    show Map.get? ((if store.has k' then (k', Node.data) else (k', nd)) ::
        List.map (fun p => if store.has p.1 then (p.1, Node.data) else p) g) k = _
    by_cases hs' : store.has k' = true
    · rw [if_pos hs', Map.get?_cons, Map.get?_cons]
      by_cases hk : k' = k
      · subst hk; simp [hs']
      · simp only [hk, if_false]; exact ih'
    · rw [if_neg hs', Map.get?_cons, Map.get?_cons]
      by_cases hk : k' = k
      · subst hk; simp [hs']
      · simp only [hk, if_false]; exact ih'

/-- the graph with cached keys replaced by data nodes denotes the same values as the original graph,
provided the stored values are the denoted ones -/
theorem patch_isDen {g : Graph} {P : Params α} {den : Key → α} (hden : IsDen g P den) {store : Map α}
    (hsound : StoreSound den store) : IsDen (patchGraph g store) (patchParams P store) den := by
  constructor
  · intro k deps hk
    rw [get?_patchGraph] at hk
    split at hk
    · cases hg : g.get? k with
      | none => rw [hg] at hk; cases hk
      | some nd => rw [hg] at hk; cases hk
    · exact hden.task k deps hk
  · intro k hk
    rw [get?_patchGraph] at hk
    show den k = match store.get? k with | some v => v | none => P.dataVal k
    split at hk
    · rename_i hs
      obtain ⟨v, hv⟩ := (Map.has_iff store k).mp hs
      rw [hv]
      exact (hsound k v hv).symm
    · rename_i hs
      have : store.get? k = none := by
        cases hv : store.get? k with
        | none => rfl
        | some v => exact absurd ((Map.has_iff store k).mpr ⟨v, hv⟩) hs
      rw [this]
      exact hden.data k hk

/-- **`cache_transparent`**: computing with a Cache callback active - the graph the scheduler sees has every
cached key replaced by its cached value - returns, for every completion order, the values the ORIGINAL graph
denotes, i.e. the same values as computing without the cache, whenever the store holds denoted values. -/
theorem cache_transparent {cfg : Cfg} {P : Params α} {den : Key → α} (hden : IsDen cfg.g P den)
    (rank : Key → Nat) (hrank : ∀ k deps d, cfg.g.get? k = some (.task deps) → d ∈ deps → rank d < rank k)
    (hnw : 1 ≤ cfg.nw) (hcs : cfg.cs = -1 ∨ 1 ≤ cfg.cs)
    (store : Map α) (hsound : StoreSound den store) {st0 : State α}
    (hs : StartOK { cfg with g := patchGraph cfg.g store } den st0)
    (choices : List Nat) (s' : Sys α)
    (hrun : mainLoop { cfg with g := patchGraph cfg.g store } (patchParams P store) choices (sys0 st0) = .ok (s', .done))
    (req : Req) (hreq : ∀ k ∈ req.flat, k ∈ cfg.results) :
    nestedGet s'.st.cache.get? req = nestedGet (fun k => some (den k)) req := by
  have hrank' : ∀ k deps d, (patchGraph cfg.g store).get? k = some (.task deps) → d ∈ deps → rank d < rank k := by
    intro k deps d hk hd
    rw [get?_patchGraph] at hk
    split at hk
    · cases hg : cfg.g.get? k with
      | none => rw [hg] at hk; cases hk
      | some nd => rw [hg] at hk; cases hk
    · exact hrank k deps d hk hd
  obtain ⟨_, hdeps, _, hdone, _⟩ := reach_inv (cfg := { cfg with g := patchGraph cfg.g store }) (patchParams P store)
    (patch_isDen hden hsound) hnw hcs rank hrank' hs hrun
  obtain ⟨hB, hl⟩ := hdone rfl
  apply nestedGet_congr
  intro k hk
  have hkr := hreq k hk
  have hseen : s'.st.seen k := by
    obtain ⟨ds, hds⟩ := hs.resultsSeen k hkr
    exact ⟨ds, by rw [hdeps]; exact hds⟩
  obtain ⟨v, hv⟩ := hB.inv.done_result_cached hl hkr hseen
  rw [hv, hB.sound k v hv]

theorem storeAfter_sound {den : Key → α} (log : List (Ev × State α)) (hsnap : ∀ e ∈ log, CacheSound den e.2) :
    ∀ (store : Map α), StoreSound den store → StoreSound den (storeAfter store log) := by
  induction log with
  | nil => intro store h; exact h
  | cons e rest ih =>
    intro store h
    unfold storeAfter
    simp only [List.foldl_cons]
    apply ih (fun e' he' => hsnap e' (List.mem_cons_of_mem _ he'))
    split
    · rename_i k hk
      split
      · rename_i v hv
        intro k' v' hk'
        rw [Map.get?_set] at hk'
        split at hk'
        · rename_i hkk
          simp only [Option.some.injEq] at hk'
          subst hk'; subst hkk
          exact hsnap e (by simp) k v hv
        · exact h k' v' hk'
      · exact h
    · exact h

/-- **the store stays sound**: what `Cache._posttask` puts into the store during any run (any completion
order, success or failure) are denoted values, and eviction (any sub-store) keeps that; so by
`cache_transparent` every later computation that reuses them - on a graph whose keys denote the same values -
again returns the values it would return without the cache. -/
theorem cache_store_stays_sound {cfg : Cfg} {P : Params α} {den : Key → α} (hden : IsDen cfg.g P den)
    (rank : Key → Nat) (hrank : ∀ k deps d, cfg.g.get? k = some (.task deps) → d ∈ deps → rank d < rank k)
    (hnw : 1 ≤ cfg.nw) (hcs : cfg.cs = -1 ∨ 1 ≤ cfg.cs) {st0 : State α} (hs : StartOK cfg den st0)
    (choices : List Nat) (s' : Sys α) (o : Outcome) (hrun : mainLoop cfg P choices (sys0 st0) = .ok (s', o))
    (store : Map α) (hsound : StoreSound den store)
    (store' : Map α) (hevict : ∀ k v, store'.get? k = some v → (storeAfter store s'.log).get? k = some v) :
    StoreSound den store' := by
  obtain ⟨⟨rest, hB⟩, _⟩ := reach_inv P hden hnw hcs rank hrank hs hrun
  intro k v hk
  exact storeAfter_sound s'.log hB.snapSound store hsound k v (hevict k v hk)

/-! ## full statements (no `StartOK` hypothesis) -/

theorem profiler_faithful_full {cfg : Cfg} {P : Params α} {rank : Key → Nat} {st0 : State α}
    (h : C01.Hyp cfg rank) (hG : GraphOK cfg.g cfg.results) (hst : startState cfg P = .ok st0)
    (choices : List Nat) (s' : Sys α) (o : Outcome) (hrun : mainLoop cfg P choices (sys0 st0) = .ok (s', o))
    (clock : Nat → Nat) (hmono : ∀ i j, i ≤ j → clock i ≤ clock j) (b : Bool) (res0 : List (Key × Nat × Nat)) :
    ∃ p' entries, profRun clock 0 { pend := [], results := res0 } (s'.log ++ [(Ev.finish b, s'.st)]) = .ok p' ∧
      p'.results = res0 ++ entries ∧ (entries.map (·.1)).Nodup ∧
      (∀ k, k ∈ entries.map (·.1) ↔ k ∈ s'.st.finished) ∧ ∀ e ∈ entries, e.2.1 ≤ e.2.2 :=
  profiler_faithful h (C01.startOK_of_eq h hG hst) choices s' o hrun clock hmono b res0

/-- the patched graph is still a closed graph -/
theorem patch_graphOK {g : Graph} {results : List Key} (hG : GraphOK g results) (store : Map α) :
    GraphOK (patchGraph g store) results := by
  have hsome : ∀ k nd, g.get? k = some nd → ∃ nd', (patchGraph g store).get? k = some nd' := by
    intro k nd hk
    rw [get?_patchGraph, hk]
    split
    · exact ⟨_, rfl⟩
    · exact ⟨_, rfl⟩
  have htask : ∀ k deps, (patchGraph g store).get? k = some (.task deps) → g.get? k = some (.task deps) := by
    intro k deps hk
    rw [get?_patchGraph] at hk
    split at hk
    · cases hg : g.get? k with
      | none => rw [hg] at hk; cases hk
      | some nd => rw [hg] at hk; cases hk
    · exact hk
  refine ⟨?_, ?_, ?_⟩
  · intro k deps d hk hd
    obtain ⟨nd, hnd⟩ := hG.closed k deps d (htask k deps hk) hd
    exact hsome d nd hnd
  · intro k deps hk
    exact hG.depsNodup k deps (htask k deps hk)
  · intro r hr
    obtain ⟨nd, hnd⟩ := hG.resultsIn r hr
    exact hsome r nd hnd

/-- **`cache_transparent`, full**: for every closed acyclic graph, every store of denoted values and every
completion order, the computation the scheduler performs after `Cache._start` patched the graph returns the
values the ORIGINAL graph denotes. -/
theorem cache_transparent_full {cfg : Cfg} {P : Params α} {rank : Key → Nat}
    (h : C01.Hyp cfg rank) (hG : GraphOK cfg.g cfg.results)
    (store : Map α) (hsound : StoreSound (C01.den cfg P rank) store) {st0 : State α}
    (hst : startState { cfg with g := patchGraph cfg.g store } (patchParams P store) = .ok st0)
    (choices : List Nat) (s' : Sys α)
    (hrun : mainLoop { cfg with g := patchGraph cfg.g store } (patchParams P store) choices (sys0 st0) = .ok (s', .done))
    (req : Req) (hreq : ∀ k ∈ req.flat, k ∈ cfg.results) :
    nestedGet s'.st.cache.get? req = nestedGet (fun k => some (C01.den cfg P rank k)) req := by
  have hden := C01.den_fixpoint cfg P rank h
  obtain ⟨st1, h1, h2, _⟩ := startState_ok { cfg with g := patchGraph cfg.g store } (patchParams P store)
    (patch_isDen hden hsound) (patch_graphOK hG store)
  rw [hst] at h1
  cases h1
  exact cache_transparent hden rank h.acyclic h.nw h.cs store hsound h2 choices s' hrun req hreq

/-! ## CacheProfiler -/

/-- invariant of the fold: the live table has distinct keys, every live / reported time is ≤ the current time, reported
entries have cache_time ≤ free_time, and live ∪ reported keys are the `posttask` keys seen so far, each once -/
structure CInv (p : CProf) (T : Nat) (seen : List Key) : Prop where
  liveNodup : (p.live.map (·.1)).Nodup
  liveLe : ∀ x ∈ p.live, x.2 ≤ T
  resLe : ∀ e ∈ p.results, e.2.1 ≤ e.2.2 ∧ e.2.2 ≤ T
  disj : ∀ k, k ∈ p.live.map (·.1) → k ∉ p.results.map (·.1)
  resNodup : (p.results.map (·.1)).Nodup
  cover : ∀ k, k ∈ seen ↔ (k ∈ p.live.map (·.1) ∨ k ∈ p.results.map (·.1))


theorem mem_set {β : Type} (m : Map β) (k : Key) (v : β) (x : Key × β) :
    x ∈ m.set k v ↔ x = (k, v) ∨ (x ∈ m ∧ x.1 ≠ k) := by
  unfold Map.set Map.del
  simp only [List.mem_cons, List.mem_filter, bne_iff_ne, ne_eq]

theorem cinv_mono {p : CProf} {T T' : Nat} {seen : List Key} (h : CInv p T seen) (hT : T ≤ T') : CInv p T' seen :=
  ⟨h.liveNodup, fun x hx => Nat.le_trans (h.liveLe x hx) hT,
   fun e he => ⟨(h.resLe e he).1, Nat.le_trans (h.resLe e he).2 hT⟩, h.disj, h.resNodup, h.cover⟩

/-- one `_posttask` of a key that had none before -/
theorem cinv_posttask {p : CProf} {T t : Nat} {seen : List Key} (h : CInv p T seen) (hT : T ≤ t)
    (k : Key) (hk : k ∉ seen) (rel : List Key) :
    CInv (cprofStep p (.posttask k) rel t) t (k :: seen) ∧
    (∀ e ∈ (cprofStep p (.posttask k) rel t).results, e ∈ p.results ∨ (e.1 ∈ rel ∧ e.2.2 = t)) ∧
    (∀ x ∈ (cprofStep p (.posttask k) rel t).live, x.1 ∉ rel) := by
  have hkl : k ∉ p.live.map (·.1) := fun hc => hk ((h.cover k).mpr (Or.inl hc))
  have hkr : k ∉ p.results.map (·.1) := fun hc => hk ((h.cover k).mpr (Or.inr hc))
  have hsetN : ((p.live.set k t).map (·.1)).Nodup := keysNodup_set p.live k t h.liveNodup
  have hsetLe : ∀ x ∈ p.live.set k t, x.2 ≤ t := by
    intro x hx
    rcases (mem_set p.live k t x).mp hx with rfl | ⟨hx', _⟩
    · exact Nat.le_refl _
    · exact Nat.le_trans (h.liveLe x hx') hT
  have hsetKeys : ∀ j, j ∈ (p.live.set k t).map (·.1) ↔ j = k ∨ j ∈ p.live.map (·.1) := by
    intro j
    simp only [List.mem_map]
    constructor
    · rintro ⟨x, hx, rfl⟩
      rcases (mem_set p.live k t x).mp hx with rfl | ⟨hx', _⟩
      · exact Or.inl rfl
      · exact Or.inr ⟨x, hx', rfl⟩
    · rintro (rfl | ⟨x, hx, rfl⟩)
      · exact ⟨(j, t), (mem_set p.live j t _).mpr (Or.inl rfl), rfl⟩
      · by_cases hxk : x.1 = k
        · exact ⟨(k, t), (mem_set p.live k t _).mpr (Or.inl rfl), hxk.symm⟩
        · exact ⟨x, (mem_set p.live k t x).mpr (Or.inr ⟨hx, hxk⟩), rfl⟩
  have hnotres : ∀ j, j ∈ (p.live.set k t).map (·.1) → j ∉ p.results.map (·.1) := by
    intro j hj
    rcases (hsetKeys j).mp hj with rfl | hj'
    · exact hkr
    · exact h.disj j hj'
  have hlive : (cprofStep p (.posttask k) rel t).live = (p.live.set k t).filter (fun x => !(rel.contains x.1)) := rfl
  refine ⟨⟨?_, ?_, ?_, ?_, ?_, ?_⟩, ?_, ?_⟩
  · -- liveNodup
    rw [hlive]
    exact (List.Sublist.map _ List.filter_sublist).nodup hsetN
  · intro x hx
    exact hsetLe x (List.mem_filter.mp hx).1
  · intro e he
    have he' : e ∈ p.results ++ ((p.live.set k t).filter (fun x => rel.contains x.1)).map (fun x => (x.1, x.2, t)) := he
    rcases List.mem_append.mp he' with h1 | h1
    · exact ⟨(h.resLe e h1).1, Nat.le_trans (h.resLe e h1).2 hT⟩
    · obtain ⟨x, hx, rfl⟩ := List.mem_map.mp h1
      exact ⟨hsetLe x (List.mem_filter.mp hx).1, Nat.le_refl _⟩
  · -- disj
    intro j hj hjr
    have hj' : j ∈ ((p.live.set k t).filter (fun x => !(rel.contains x.1))).map (·.1) := hj
    obtain ⟨x, hx, rfl⟩ := List.mem_map.mp hj'
    obtain ⟨hxm, hxr⟩ := List.mem_filter.mp hx
    have hjr' : x.1 ∈ (p.results ++ ((p.live.set k t).filter (fun x => rel.contains x.1)).map (fun x => (x.1, x.2, t))).map (·.1) := hjr
    rw [List.map_append, List.mem_append] at hjr'
    rcases hjr' with h1 | h1
    · exact hnotres x.1 (List.mem_map.mpr ⟨x, hxm, rfl⟩) h1
    · simp only [List.map_map, List.mem_map, List.mem_filter, Function.comp_def] at h1
      obtain ⟨y, ⟨hym, hyr⟩, hy⟩ := h1
      -- same key, distinct keys in the table: y = x, but one is released and the other is not
      have hyx : y = x := by
        have hmy := (mem_iff_get (p.live.set k t) hsetN y.1 y.2).mp hym
        have hmx := (mem_iff_get (p.live.set k t) hsetN x.1 x.2).mp hxm
        rw [hy] at hmy
        rw [hmx] at hmy
        cases y; cases x
        simp only [Option.some.injEq] at hmy
        simp only at hy
        subst hy; subst hmy; rfl
      subst hyx
      rw [hyr] at hxr
      cases hxr
  · -- resNodup
    show ((p.results ++ ((p.live.set k t).filter (fun x => rel.contains x.1)).map (fun x => (x.1, x.2, t))).map (·.1)).Nodup
    rw [List.map_append]
    refine List.nodup_append.mpr ⟨h.resNodup, ?_, ?_⟩
    · simp only [List.map_map, Function.comp_def]
      exact (List.Sublist.map _ List.filter_sublist).nodup hsetN
    · intro a ha b hb hab
      subst hab
      simp only [List.map_map, List.mem_map, List.mem_filter, Function.comp_def] at hb
      obtain ⟨y, ⟨hym, _⟩, rfl⟩ := hb
      exact hnotres y.1 (List.mem_map.mpr ⟨y, hym, rfl⟩) ha
  · -- cover
    intro j
    show j ∈ k :: seen ↔ (j ∈ ((p.live.set k t).filter (fun x => !(rel.contains x.1))).map (·.1) ∨
      j ∈ (p.results ++ ((p.live.set k t).filter (fun x => rel.contains x.1)).map (fun x => (x.1, x.2, t))).map (·.1))
    rw [List.map_append, List.mem_append]
    simp only [List.map_map, Function.comp_def, List.mem_cons]
    constructor
    · intro hj
      have hin : j ∈ (p.live.set k t).map (·.1) ∨ j ∈ p.results.map (·.1) := by
        rcases hj with rfl | hj
        · exact Or.inl ((hsetKeys j).mpr (Or.inl rfl))
        · rcases (h.cover j).mp hj with h1 | h1
          · exact Or.inl ((hsetKeys j).mpr (Or.inr h1))
          · exact Or.inr h1
      rcases hin with h1 | h1
      · obtain ⟨x, hx, rfl⟩ := List.mem_map.mp h1
        by_cases hr : rel.contains x.1 = true
        · exact Or.inr (Or.inr (List.mem_map.mpr ⟨x, List.mem_filter.mpr ⟨hx, hr⟩, rfl⟩))
        · rw [Bool.not_eq_true] at hr
          exact Or.inl (List.mem_map.mpr ⟨x, List.mem_filter.mpr ⟨hx, by rw [hr]; rfl⟩, rfl⟩)
      · exact Or.inr (Or.inl h1)
    · intro hj
      have hin : j ∈ (p.live.set k t).map (·.1) ∨ j ∈ p.results.map (·.1) := by
        rcases hj with h1 | h1 | h1
        · obtain ⟨x, hx, rfl⟩ := List.mem_map.mp h1
          exact Or.inl (List.mem_map.mpr ⟨x, (List.mem_filter.mp hx).1, rfl⟩)
        · exact Or.inr h1
        · obtain ⟨x, hx, rfl⟩ := List.mem_map.mp h1
          exact Or.inl (List.mem_map.mpr ⟨x, (List.mem_filter.mp hx).1, rfl⟩)
      rcases hin with h1 | h1
      · rcases (hsetKeys j).mp h1 with rfl | h2
        · exact Or.inl rfl
        · exact Or.inr ((h.cover j).mpr (Or.inl h2))
      · exact Or.inr ((h.cover j).mpr (Or.inr h1))
  · intro e he
    have he' : e ∈ p.results ++ ((p.live.set k t).filter (fun x => rel.contains x.1)).map (fun x => (x.1, x.2, t)) := he
    rcases List.mem_append.mp he' with h1 | h1
    · exact Or.inl h1
    · obtain ⟨x, hx, rfl⟩ := List.mem_map.mp h1
      have := (List.mem_filter.mp hx).2
      exact Or.inr ⟨by simpa using this, rfl⟩
  · intro x hx
    have hx' : x ∈ (p.live.set k t).filter (fun x => !(rel.contains x.1)) := hx
    have := (List.mem_filter.mp hx').2
    simpa using this

theorem cprofRun_append (clock : Nat → Nat) : ∀ (l1 l2 : List (Ev × State α)) (i : Nat) (p : CProf),
    cprofRun clock i p (l1 ++ l2) = cprofRun clock (i + l1.length) (cprofRun clock i p l1) l2 := by
  intro l1
  induction l1 with
  | nil => intro l2 i p; simp [cprofRun]
  | cons e rest ih =>
    intro l2 i p
    simp only [List.cons_append, cprofRun, List.length_cons]
    rw [ih l2 (i + 1)]
    rw [show i + 1 + rest.length = i + (rest.length + 1) by omega]

theorem cprofRun_spec (clock : Nat → Nat) (hmono : ∀ i j, i ≤ j → clock i ≤ clock j) :
    ∀ (log : List (Ev × State α)) (i : Nat) (p : CProf) (seen : List Key),
    CInv p (clock i) seen → (postKeys log).Nodup → (∀ k ∈ postKeys log, k ∉ seen) →
    (∀ e ∈ log, ∀ b, e.1 ≠ Ev.finish b) →
    ∃ seen', CInv (cprofRun clock i p log) (clock (i + log.length)) seen' ∧
      (∀ k, k ∈ seen' ↔ k ∈ seen ∨ k ∈ postKeys log) := by
  intro log
  induction log with
  | nil =>
    intro i p seen h _ _ _
    exact ⟨seen, by simpa [cprofRun] using h, by simp [postKeys]⟩
  | cons e rest ih =>
    intro i p seen h hqn hq hnf
    have hnf' : ∀ e' ∈ rest, ∀ b, e'.1 ≠ Ev.finish b := fun e' he' => hnf e' (List.mem_cons_of_mem _ he')
    have hclk : clock i ≤ clock (i + 1) := hmono i (i + 1) (by omega)
    have hlen : i + (e :: rest).length = (i + 1) + rest.length := by simp only [List.length_cons]; omega
    obtain ⟨ev, snap⟩ := e
    have hother : (∀ k, ev ≠ Ev.posttask k) → (∀ b, ev ≠ Ev.finish b) →
        cprofStep p ev snap.released (clock i) = p ∧ postKeys ((ev, snap) :: rest) = postKeys rest := by
      intro h1 h2
      cases ev with
      | posttask k => exact absurd rfl (h1 k)
      | finish b => exact absurd rfl (h2 b)
      | start => exact ⟨rfl, by simp [postKeys]⟩
      | startState => exact ⟨rfl, by simp [postKeys]⟩
      | pretask k => exact ⟨rfl, by simp [postKeys]⟩
      | submit ks => exact ⟨rfl, by simp [postKeys]⟩
    by_cases hpost : ∃ k, ev = Ev.posttask k
    · obtain ⟨k, rfl⟩ := hpost
      have hqk : postKeys ((Ev.posttask k, snap) :: rest) = k :: postKeys rest := by simp [postKeys]
      rw [hqk] at hqn hq
      have hqn' := List.nodup_cons.mp hqn
      have hk : k ∉ seen := hq k (by simp)
      obtain ⟨hinv, _, _⟩ := cinv_posttask (cinv_mono h (Nat.le_refl _)) (Nat.le_refl (clock i)) k hk snap.released
      obtain ⟨seen', hs1, hs2⟩ := ih (i + 1) _ (k :: seen) (cinv_mono hinv hclk) hqn'.2
        (by intro k' hk' hc
            rcases List.mem_cons.mp hc with rfl | hc
            · exact hqn'.1 hk'
            · exact hq k' (List.mem_cons_of_mem _ hk') hc)
        hnf'
      refine ⟨seen', by rw [hlen]; exact hs1, ?_⟩
      intro k'
      rw [hs2 k', hqk]
      simp only [List.mem_cons]
      constructor
      · rintro ((rfl | h1) | h1)
        · exact Or.inr (Or.inl rfl)
        · exact Or.inl h1
        · exact Or.inr (Or.inr h1)
      · rintro (h1 | rfl | h1)
        · exact Or.inl (Or.inr h1)
        · exact Or.inl (Or.inl rfl)
        · exact Or.inr h1
    · have hnp : ∀ k, ev ≠ Ev.posttask k := fun k hk => hpost ⟨k, hk⟩
      have hnfin : ∀ b, ev ≠ Ev.finish b := fun b => hnf (ev, snap) (by simp) b
      obtain ⟨hstep, hqk⟩ := hother hnp hnfin
      rw [hqk] at hqn hq
      obtain ⟨seen', hs1, hs2⟩ := ih (i + 1) p seen (cinv_mono h hclk) hqn hq hnf'
      refine ⟨seen', ?_, fun k' => by rw [hs2 k', hqk]⟩
      rw [hlen]
      show CInv (cprofRun clock (i + 1) (cprofStep p ev snap.released (clock i)) rest) _ seen'
      rw [hstep]
      exact hs1

/-- **`cache_profiler_one_entry_per_completed_task`**: over the events of one scheduler call (`posttask`s distinct, then
`finish`), with any non-decreasing clock and a cleared `CacheProfiler`, `results` gets exactly one entry per key that
completed - none for tasks that started but failed - each with cache_time ≤ free_time, and nothing stays in `_cache`;
whatever the `released` sets the scheduler shows to the callback are. -/
theorem cache_profiler_one_entry_per_completed_task (clock : Nat → Nat) (hmono : ∀ i j, i ≤ j → clock i ≤ clock j)
    (log : List (Ev × State α)) (b : Bool) (st : State α) (hqn : (postKeys log).Nodup)
    (hnf : ∀ e ∈ log, ∀ b, e.1 ≠ Ev.finish b) :
    (cprofRun clock 0 {} (log ++ [(Ev.finish b, st)])).live = [] ∧
    ((cprofRun clock 0 {} (log ++ [(Ev.finish b, st)])).results.map (·.1)).Nodup ∧
    (∀ k, k ∈ (cprofRun clock 0 {} (log ++ [(Ev.finish b, st)])).results.map (·.1) ↔ k ∈ postKeys log) ∧
    ∀ e ∈ (cprofRun clock 0 {} (log ++ [(Ev.finish b, st)])).results, e.2.1 ≤ e.2.2 := by
  have h0 : CInv ({} : CProf) (clock 0) [] :=
    ⟨(by simp), (fun x hx => by cases hx), (fun e he => by cases he), (fun k hk => by cases hk), (by simp), (fun k => by simp)⟩
  obtain ⟨seen', hinv, hseen⟩ := cprofRun_spec clock hmono log 0 {} [] h0 hqn (by intro k _ hc; cases hc) hnf
  rw [cprofRun_append]
  generalize hp : cprofRun clock 0 {} log = p at hinv
  simp only [cprofRun, cprofStep]
  have hT : clock (0 + log.length) ≤ clock (0 + log.length) := Nat.le_refl _
  refine ⟨by first | rfl | trivial, ?_, ?_, ?_⟩
  · rw [List.map_append]
    refine List.nodup_append.mpr ⟨hinv.resNodup, ?_, ?_⟩
    · simp only [List.map_map, Function.comp_def]; exact hinv.liveNodup
    · intro a ha c hc hac
      subst hac
      simp only [List.map_map, Function.comp_def] at hc
      exact hinv.disj a hc ha
  · intro k
    rw [List.map_append, List.mem_append]
    simp only [List.map_map, Function.comp_def]
    rw [← (show k ∈ seen' ↔ k ∈ postKeys log by rw [hseen k]; simp)]
    rw [hinv.cover k]
    exact Or.comm
  · intro e he
    rcases List.mem_append.mp he with h1 | h1
    · exact (hinv.resLe e h1).1
    · obtain ⟨x, hx, rfl⟩ := List.mem_map.mp h1
      exact hinv.liveLe x hx

/-- an entry is closed (gets its `free_time`) at a `posttask` exactly for the keys the scheduler shows as released, the
others stay in `_cache` -/
theorem cache_profiler_closes_on_release (p : CProf) (T t : Nat) (seen : List Key) (h : CInv p T seen) (hT : T ≤ t)
    (k : Key) (hk : k ∉ seen) (rel : List Key) :
    (∀ e ∈ (cprofStep p (.posttask k) rel t).results, e ∈ p.results ∨ (e.1 ∈ rel ∧ e.2.2 = t)) ∧
    (∀ x ∈ (cprofStep p (.posttask k) rel t).live, x.1 ∉ rel) :=
  (cinv_posttask h hT k hk rel).2

/-- for the log of the scheduler model, every graph and completion order: the entries are exactly the finished tasks -/
theorem cache_profiler_faithful {cfg : Cfg} {P : Params α} {rank : Key → Nat} {st0 : State α}
    (h : C01.Hyp cfg rank) (hG : GraphOK cfg.g cfg.results) (hst : startState cfg P = .ok st0)
    (choices : List Nat) (s' : Sys α) (o : Outcome) (hrun : mainLoop cfg P choices (sys0 st0) = .ok (s', o))
    (clock : Nat → Nat) (hmono : ∀ i j, i ≤ j → clock i ≤ clock j) (b : Bool) :
    ((cprofRun clock 0 {} (s'.log ++ [(Ev.finish b, s'.st)])).results.map (·.1)).Nodup ∧
    (∀ k, k ∈ (cprofRun clock 0 {} (s'.log ++ [(Ev.finish b, s'.st)])).results.map (·.1) ↔ k ∈ s'.st.finished) ∧
    ∀ e ∈ (cprofRun clock 0 {} (s'.log ++ [(Ev.finish b, s'.st)])).results, e.2.1 ≤ e.2.2 := by
  obtain ⟨⟨rest, hB⟩, _⟩ := reach_inv P (C01.den_fixpoint cfg P rank h) h.nw h.cs rank h.acyclic
    (C01.startOK_of_eq h hG hst) hrun
  obtain ⟨_, h2, h3, h4⟩ := cache_profiler_one_entry_per_completed_task clock hmono s'.log b s'.st hB.postNodup hB.noFinish
  exact ⟨h2, fun k => (h3 k).trans (hB.postIff k), h4⟩

/-- non-vacuity: the CacheProfiler over the diamond run of C01 (clock `i ↦ 10 i`): 2 and 1 are freed when 3 completes -/
example : (cprofRun (fun i => 10 * i) 0 {} (getAsync (C01.exCfg 1) C01.exP [1, 0, 0]).log).results
    = [(1, 70, 100), (2, 60, 100), (3, 100, 110)] := by decide


/-! non-vacuity: the profiler over the diamond run of C01 with the clock `i ↦ 10 * i` -/
example : (profRun (fun i => 10 * i) 0 {} (getAsync (C01.exCfg 1) C01.exP [1, 0, 0]).log).toOption.map (·.results)
    = some [(3, 80, 100), (1, 20, 70), (2, 30, 60)] := by decide
/-- …and when task 2 fails: only the completed task 1 is reported -/
example : (profRun (fun i => 10 * i) 0 {} (getAsync (C01.exCfg 1) C04.exFail [0, 0, 0]).log).toOption.map (·.results)
    = some [(1, 20, 60)] := by decide
/-- Cache: with key 1 cached (value = what the graph denotes) the patched diamond still yields 614 for key 3 -/
example : (getAsync { C01.exCfg 1 with g := patchGraph (C01.exCfg 1).g [(1, 107)] } (patchParams C01.exP [(1, 107)]) [0, 0]).final.cache.get? 3
    = some 614 := by decide

end Dask.C52
