import DaskModel.Model.ArrayExprNd
import DaskModel.Lemmas.ArrayExprNd
import DaskModel.Lemmas.ArrayExprNdExtra
/-!
# C30 extension — the rewrite rules of the array expression engine on **n-d** arrays

Model `Model/ArrayExprNd.lean`: arrays are functions from index lists, chunks are per axis; `NE` has leaves, elementwise
ops with NumPy broadcasting, `SliceSlicesIntegers` (integers and slices of any step, Python semantics `pySliceIdx`, chunks
`newBlockdim`), rechunk, transpose, k-ary concatenate, opaque nodes (any function `F` of the operands' values) and finalize.
The engine of this tree has exactly three rules (`rootRewritesNd`): rechunk elision, FinalizeCompute → operand /
`Rechunk(-1, …)`, Elemwise operand alignment through `unify_chunks_expr`; there is no `Rechunk(Rechunk)` collapse, no slice
pushdown, no slice fusion and no transpose rule (`grep _simplify_down|_simplify_up|_lower dask/array/_array_expr`).

Proved here, for every `F`:
* `chunks_sum_nd` — an expression that denotes a value reports chunks that add up to its shape on every axis
  (`unify_dims`: the chunks of a broadcasting Elemwise add up to NumPy's broadcast shape);
* `step_sound_nd` — each of the three rules preserves the denotation (value and shape, literally the same array; the
  alignment rule: `alignTarget_dims_left/right`, the target chunks of each operand add up to that operand's own shape, also
  for a length-one axis broadcast against a longer one and for operands with fewer axes), `step_shape_nd`, and
  `step_chunks_nd` (rechunk elision and finalize keep the reported chunks);
* `parStepNd_sound` — a pass accepted by the executable checker `parStepNd` maps an expression that denotes `v` to an
  expression that denotes `v` or raises; `chain_sound_nd` for any finite sequence of passes;
* rules the engine does not have (for when it gets them), with `Arr.Equiv` = same shape and same element at every in-range
  index: `rechunk_rechunk_nd`, `slice_slice_fusion_nd` (composition of the per-axis selections, any steps and integers;
  `arith_slices_fuse`: two positive-step slices fuse to the slice `start₁ + start₂·step₁ : … : step₁·step₂`),
  `slice_elemwise_pushdown_nd` (through a binary op WITH broadcasting: an operand with fewer axes gets the last entries of
  the index, a length-one axis broadcast against a longer one gets `0:1`), `slice_transpose_nd`.
-/
namespace Dask.C30xNd
open Dask.ArrayExpr (UnOp BinOp isum)
open Dask.ArrayExprNd

variable (F : Nat → List Arr → Option Arr)

theorem guardShape_some {s : List Nat} {o : Option Arr} {v : Arr} (h : guardShape s o = some v) : o = some v ∧ v.shape = s := by
  cases o with
  | none => simp [guardShape] at h
  | some x =>
    simp only [guardShape] at h
    split at h
    · rename_i hs; injection h with h; subst h; exact ⟨rfl, hs⟩
    · simp at h

/-- **chunks_sum_nd**: the lazily reported chunks add up, on every axis, to the shape of the denoted value -/
theorem chunks_sum_nd : ∀ (e : NE) (v : Arr), den F e = some v → dims (chunks e) = v.shape
  | .leaf shape data c, v, h => by
    simp only [den] at h
    split at h
    · rename_i hc; injection h with h; subst h; exact hc.1
    · simp at h
  | .un op a, v, h => by
    simp only [den] at h
    cases ha : den F a with
    | none => simp [ha] at h
    | some x =>
      simp only [ha, Option.map_some, Option.some.injEq] at h
      subst h
      simpa [chunks] using chunks_sum_nd a x ha
  | .binS op a s, v, h => by
    simp only [den] at h
    cases ha : den F a with
    | none => simp [ha] at h
    | some x =>
      simp only [ha, Option.map_some, Option.some.injEq] at h
      subst h
      simpa [chunks] using chunks_sum_nd a x ha
  | .bin op a b, v, h => by
    simp only [den] at h
    cases ha : den F a with
    | none => simp [ha] at h
    | some x =>
      cases hb : den F b with
      | none => simp [ha, hb] at h
      | some y =>
        simp only [ha, hb, Arr.bin] at h
        cases hs : bshape x.shape y.shape with
        | none => simp [hs] at h
        | some s =>
          simp only [hs, Option.map_some, Option.some.injEq] at h
          subst h
          simp only [chunks]
          exact unify_dims _ _ s (by rw [chunks_sum_nd a x ha, chunks_sum_nd b y hb]; exact hs)
  | .slice ix a, v, h => by
    simp only [den] at h
    cases ha : den F a with
    | none => simp [ha] at h
    | some x =>
      simp only [ha] at h
      cases hr : resolveAll x.shape ix with
      | none => simp [hr] at h
      | some rix =>
        simp only [hr] at h
        simp only [chunks]
        exact (guardShape_some h).2.symm
  | .rechunk c a, v, h => by
    simp only [den] at h
    cases ha : den F a with
    | none => simp [ha] at h
    | some x =>
      simp only [ha] at h
      split at h
      · rename_i hc; injection h with h; subst h; exact hc
      · simp at h
  | .transpose axes a, v, h => by
    simp only [den] at h
    cases ha : den F a with
    | none => simp [ha] at h
    | some x =>
      simp only [ha] at h
      split at h
      · injection h with h; subst h
        simp only [chunks, Arr.transpose, dims_transpose, chunks_sum_nd a x ha]
      · simp at h
  | .concat axis args, v, h => by
    simp only [den] at h
    cases ha : denL F args with
    | none => simp [ha] at h
    | some xs =>
      simp only [ha] at h
      simp only [chunks]
      exact (guardShape_some h).2.symm
  | .opq tag c kids, v, h => by
    simp only [den] at h
    cases ha : denL F kids with
    | none => simp [ha] at h
    | some xs =>
      simp only [ha] at h
      simp only [chunks]
      exact (guardShape_some h).2.symm
  | .finalize a, v, h => by
    simp only [den] at h
    simp only [chunks, dims_single]
    exact chunks_sum_nd a v h

/-- rechunking to chunks that add up to the shape does not change the value -/
theorem den_rechunk_valid (c : Chunks) (a : NE) (h : ∀ v, den F a = some v → dims c = v.shape) :
    den F (.rechunk c a) = den F a := by
  simp only [den]
  cases ha : den F a with
  | none => rfl
  | some x => simp [h x ha]

theorem den_wrapNd (c : Chunks) (x : NE) (h : ∀ v, den F x = some v → dims c = v.shape) : den F (wrapNd c x) = den F x := by
  unfold wrapNd
  split
  · rfl
  · exact den_rechunk_valid F c x h

theorem den_wrapNd_cases (c : Chunks) (x : NE) : den F (wrapNd c x) = den F x ∨ den F (wrapNd c x) = none := by
  unfold wrapNd
  split
  · exact Or.inl rfl
  · simp only [den]
    cases den F x with
    | none => exact Or.inl rfl
    | some v =>
      by_cases hc : dims c = v.shape
      · simp [hc]
      · simp [hc]

theorem dims_finalTarget (c : Chunks) : dims (finalTarget c) = dims c := by
  unfold finalTarget
  split
  · rfl
  · exact dims_single c

/-- **step_sound_nd**: every rewrite rule of the engine (applied at the root of an n-d expression) preserves the denotation:
    the same array (shape and every element), or both sides raise -/
theorem step_sound_nd (e r : NE) (h : r ∈ rootRewritesNd e) : den F r = den F e := by
  cases e with
  | rechunk c a =>
    simp only [rootRewritesNd] at h
    split at h
    · rename_i hc
      simp only [List.mem_cons, List.mem_nil_iff, or_false] at h
      rcases h with rfl | rfl
      · rfl
      · subst hc
        exact (den_rechunk_valid F _ r (fun v hv => chunks_sum_nd F r v hv)).symm
    · simp only [List.mem_cons, List.mem_nil_iff, or_false] at h; subst h; rfl
  | finalize a =>
    simp only [rootRewritesNd, List.mem_cons, List.mem_nil_iff, or_false] at h
    rcases h with rfl | rfl
    · rfl
    · split
      · simp only [den]
      · show den F (.rechunk _ a) = den F (.finalize a)
        simp only [den]
        exact den_rechunk_valid F _ a (fun v hv => by rw [dims_finalTarget]; exact chunks_sum_nd F a v hv)
  | bin op a b =>
    simp only [rootRewritesNd, List.mem_cons, List.mem_nil_iff, or_false] at h
    rcases h with rfl | rfl
    · rfl
    · simp only [den]
      cases ha : den F a with
      | none =>
        have : den F (wrapNd (alignTarget (chunks a) (chunks b) (chunks a)) a) = none := by
          rcases den_wrapNd_cases F (alignTarget (chunks a) (chunks b) (chunks a)) a with h1 | h1
          · rw [h1, ha]
          · exact h1
        rw [this]
      | some x =>
        cases hb : den F b with
        | none =>
          have : den F (wrapNd (alignTarget (chunks a) (chunks b) (chunks b)) b) = none := by
            rcases den_wrapNd_cases F (alignTarget (chunks a) (chunks b) (chunks b)) b with h1 | h1
            · rw [h1, hb]
            · exact h1
          rw [this]
          cases den F (wrapNd (alignTarget (chunks a) (chunks b) (chunks a)) a) <;> rfl
        | some y =>
          have hca := chunks_sum_nd F a x ha
          have hcb := chunks_sum_nd F b y hb
          cases hs : bshape x.shape y.shape with
          | some s =>
            have hs' : bshape (dims (chunks a)) (dims (chunks b)) = some s := by rw [hca, hcb]; exact hs
            rw [den_wrapNd F _ a (fun v hv => by
                  rw [ha] at hv; injection hv with hv; subst hv
                  rw [alignTarget_dims_left _ _ s hs', hca]),
              den_wrapNd F _ b (fun v hv => by
                  rw [hb] at hv; injection hv with hv; subst hv
                  rw [alignTarget_dims_right _ _ s hs', hcb]),
              ha, hb]
          | none =>
            have hn : Arr.bin op x y = none := by simp [Arr.bin, hs]
            rcases den_wrapNd_cases F (alignTarget (chunks a) (chunks b) (chunks a)) a with h1 | h1 <;>
              rcases den_wrapNd_cases F (alignTarget (chunks a) (chunks b) (chunks b)) b with h2 | h2 <;>
              simp only [h1, h2, ha, hb, hn]
  | leaf s d c => simp only [rootRewritesNd, List.mem_cons, List.mem_nil_iff, or_false] at h; subst h; rfl
  | un op a => simp only [rootRewritesNd, List.mem_cons, List.mem_nil_iff, or_false] at h; subst h; rfl
  | binS op a sc => simp only [rootRewritesNd, List.mem_cons, List.mem_nil_iff, or_false] at h; subst h; rfl
  | slice ix a => simp only [rootRewritesNd, List.mem_cons, List.mem_nil_iff, or_false] at h; subst h; rfl
  | transpose ax a => simp only [rootRewritesNd, List.mem_cons, List.mem_nil_iff, or_false] at h; subst h; rfl
  | concat ax as => simp only [rootRewritesNd, List.mem_cons, List.mem_nil_iff, or_false] at h; subst h; rfl
  | opq t c as => simp only [rootRewritesNd, List.mem_cons, List.mem_nil_iff, or_false] at h; subst h; rfl

theorem step2_sound_nd (e r : NE) (h : r ∈ rootRewritesNd2 e) : den F r = den F e := by
  unfold rootRewritesNd2 at h
  obtain ⟨m, hm, hr⟩ := List.mem_flatMap.mp h
  rw [step_sound_nd F m r hr, step_sound_nd F e m hm]

/-- **step_shape_nd**: the rules preserve the reported shape (`dims ∘ chunks`) of every expression that denotes a value -/
theorem step_shape_nd (e r : NE) (v : Arr) (h : r ∈ rootRewritesNd e) (hv : den F e = some v) :
    dims (chunks r) = dims (chunks e) := by
  rw [chunks_sum_nd F e v hv, chunks_sum_nd F r v (by rw [step_sound_nd F e r h]; exact hv)]

/-- **step_chunks_nd**: rechunk elision keeps the reported chunks; so does the finalize rule (one block per axis), except
    that `Rechunk(-1)` of an all-zero shape reports the operand's chunks (`Rechunk.chunks`: "don't rechunk if array is empty") -/
theorem step_chunks_nd (e r : NE) (h : r ∈ rootRewritesNd e)
    (hb : ∀ op a b, e ≠ .bin op a b) (hz : ∀ a, e = .finalize a → allZero (chunks a) = false) :
    chunks r = chunks e := by
  cases e with
  | rechunk c a =>
    simp only [rootRewritesNd] at h
    split at h
    · rename_i hc
      simp only [List.mem_cons, List.mem_nil_iff, or_false] at h
      rcases h with rfl | rfl
      · rfl
      · simp [chunks, hc]
    · simp only [List.mem_cons, List.mem_nil_iff, or_false] at h; subst h; rfl
  | finalize a =>
    simp only [rootRewritesNd, List.mem_cons, List.mem_nil_iff, or_false] at h
    rcases h with rfl | rfl
    · rfl
    · split
      · rename_i hl
        simp only [chunks]
        rcases hl with hl | hl
        · have : chunks a = [] := by simpa using hl
          simp [this]
        · cases hc : chunks a with
          | nil => simp [hc] at hl
          | cons c0 rest =>
            cases rest with
            | nil =>
              cases c0 with
              | nil => simp [hc] at hl
              | cons x xs =>
                cases xs with
                | nil => simp [isum]
                | cons _ _ => simp [hc] at hl
            | cons _ _ => simp [hc] at hl
      · simp only [chunks, finalTarget, hz a rfl]
        simp
  | bin op a b => exact absurd rfl (hb op a b)
  | leaf s d c => simp only [rootRewritesNd, List.mem_cons, List.mem_nil_iff, or_false] at h; subst h; rfl
  | un op a => simp only [rootRewritesNd, List.mem_cons, List.mem_nil_iff, or_false] at h; subst h; rfl
  | binS op a sc => simp only [rootRewritesNd, List.mem_cons, List.mem_nil_iff, or_false] at h; subst h; rfl
  | slice ix a => simp only [rootRewritesNd, List.mem_cons, List.mem_nil_iff, or_false] at h; subst h; rfl
  | transpose ax a => simp only [rootRewritesNd, List.mem_cons, List.mem_nil_iff, or_false] at h; subst h; rfl
  | concat ax as => simp only [rootRewritesNd, List.mem_cons, List.mem_nil_iff, or_false] at h; subst h; rfl
  | opq t c as => simp only [rootRewritesNd, List.mem_cons, List.mem_nil_iff, or_false] at h; subst h; rfl

/-! ## a whole optimizer pass -/

theorem den_un_some {op : UnOp} {a : NE} {v : Arr} (h : den F (.un op a) = some v) :
    ∃ x, den F a = some x ∧ v = ⟨x.shape, fun idx => op.fn (x.f idx)⟩ := by
  simp only [den] at h
  cases ha : den F a with
  | none => simp [ha] at h
  | some x => simp only [ha, Option.map_some, Option.some.injEq] at h; exact ⟨x, rfl, h.symm⟩

theorem den_binS_some {op : BinOp} {a : NE} {s : Int} {v : Arr} (h : den F (.binS op a s) = some v) :
    ∃ x, den F a = some x ∧ v = ⟨x.shape, fun idx => op.fn (x.f idx) s⟩ := by
  simp only [den] at h
  cases ha : den F a with
  | none => simp [ha] at h
  | some x => simp only [ha, Option.map_some, Option.some.injEq] at h; exact ⟨x, rfl, h.symm⟩

theorem den_bin_some {op : BinOp} {a b : NE} {v : Arr} (h : den F (.bin op a b) = some v) :
    ∃ x y, den F a = some x ∧ den F b = some y ∧ Arr.bin op x y = some v := by
  simp only [den] at h
  cases ha : den F a with
  | none => simp [ha] at h
  | some x =>
    cases hb : den F b with
    | none => simp [ha, hb] at h
    | some y => simp only [ha, hb] at h; exact ⟨x, y, rfl, rfl, h⟩

theorem den_slice_some {ix : List AxIx} {a : NE} {v : Arr} (h : den F (.slice ix a) = some v) :
    ∃ x rix, den F a = some x ∧ resolveAll x.shape ix = some rix ∧ v = x.take rix := by
  simp only [den] at h
  cases ha : den F a with
  | none => simp [ha] at h
  | some x =>
    simp only [ha] at h
    cases hr : resolveAll x.shape ix with
    | none => simp [hr] at h
    | some rix =>
      simp only [hr] at h
      have := (guardShape_some h).1
      injection this with this
      exact ⟨x, rix, rfl, hr, this.symm⟩

theorem den_rechunk_some {c : Chunks} {a : NE} {v : Arr} (h : den F (.rechunk c a) = some v) : den F a = some v := by
  simp only [den] at h
  cases ha : den F a with
  | none => simp [ha] at h
  | some x =>
    simp only [ha] at h
    split at h
    · exact h
    · simp at h

theorem den_transpose_some {ax : List Nat} {a : NE} {v : Arr} (h : den F (.transpose ax a) = some v) :
    ∃ x, den F a = some x ∧ v = x.transpose ax := by
  simp only [den] at h
  cases ha : den F a with
  | none => simp [ha] at h
  | some x =>
    simp only [ha] at h
    split at h
    · injection h with h; exact ⟨x, rfl, h.symm⟩
    · simp at h

theorem den_concat_some {ax : Nat} {as : NEs} {v : Arr} (h : den F (.concat ax as) = some v) :
    ∃ xs, denL F as = some xs ∧ concatArr ax xs = some v := by
  simp only [den] at h
  cases ha : denL F as with
  | none => simp [ha] at h
  | some xs => simp only [ha] at h; exact ⟨xs, rfl, (guardShape_some h).1⟩

theorem den_opq_some {t : Nat} {c : Chunks} {as : NEs} {v : Arr} (h : den F (.opq t c as) = some v) :
    ∃ xs, denL F as = some xs ∧ F t xs = some v := by
  simp only [den] at h
  cases ha : denL F as with
  | none => simp [ha] at h
  | some xs => simp only [ha] at h; exact ⟨xs, rfl, (guardShape_some h).1⟩

theorem denL_cons_some {a : NE} {as : NEs} {xs : List Arr} (h : denL F (.cons a as) = some xs) :
    ∃ x xt, den F a = some x ∧ denL F as = some xt ∧ xs = x :: xt := by
  simp only [denL] at h
  cases ha : den F a with
  | none => simp [ha] at h
  | some x =>
    cases hb : denL F as with
    | none => simp [ha, hb] at h
    | some xt => simp only [ha, hb, Option.some.injEq] at h; exact ⟨x, xt, rfl, rfl, h.symm⟩

mutual
/-- **parStepNd_sound**: a whole optimizer pass accepted by the checker — whatever the engine rewrote and wherever in the
    tree, under opaque nodes too — turns an expression that denotes `v` into one that denotes the same `v` (if it denotes
    at all: the harness evaluates every exported tree) -/
theorem parStepNd_sound : ∀ (e' e : NE) (v v' : Arr), parStepNd e e' = true → den F e = some v → den F e' = some v' → v' = v
  | .leaf s' d' c', e, v, v', h, hv, hv' => by
    simp only [parStepNd, List.any_eq_true] at h
    obtain ⟨r, hr, hm⟩ := h
    cases r <;> simp at hm
    obtain ⟨⟨rfl, rfl⟩, rfl⟩ := hm
    rw [← step2_sound_nd F e _ hr, hv'] at hv
    injection hv
  | .un op' a', e, v, v', h, hv, hv' => by
    simp only [parStepNd, List.any_eq_true] at h
    obtain ⟨r, hr, hm⟩ := h
    cases r <;> simp at hm
    rename_i op a
    obtain ⟨rfl, hm⟩ := hm
    rw [← step2_sound_nd F e _ hr] at hv
    obtain ⟨x, hx, rfl⟩ := den_un_some F hv
    obtain ⟨x', hx', rfl⟩ := den_un_some F hv'
    rw [parStepNd_sound a' a x x' hm hx hx']
  | .binS op' a' s', e, v, v', h, hv, hv' => by
    simp only [parStepNd, List.any_eq_true] at h
    obtain ⟨r, hr, hm⟩ := h
    cases r <;> simp at hm
    rename_i op a sc
    obtain ⟨⟨rfl, rfl⟩, hm⟩ := hm
    rw [← step2_sound_nd F e _ hr] at hv
    obtain ⟨x, hx, rfl⟩ := den_binS_some F hv
    obtain ⟨x', hx', rfl⟩ := den_binS_some F hv'
    rw [parStepNd_sound a' a x x' hm hx hx']
  | .bin op' a' b', e, v, v', h, hv, hv' => by
    simp only [parStepNd, List.any_eq_true] at h
    obtain ⟨r, hr, hm⟩ := h
    cases r <;> simp at hm
    rename_i op a b
    obtain ⟨⟨rfl, h1⟩, h2⟩ := hm
    rw [← step2_sound_nd F e _ hr] at hv
    obtain ⟨x, y, hx, hy, hxy⟩ := den_bin_some F hv
    obtain ⟨x', y', hx', hy', hxy'⟩ := den_bin_some F hv'
    rw [parStepNd_sound a' a x x' h1 hx hx', parStepNd_sound b' b y y' h2 hy hy', hxy] at hxy'
    injection hxy' with hxy'
    exact hxy'.symm
  | .slice ix' a', e, v, v', h, hv, hv' => by
    simp only [parStepNd, List.any_eq_true] at h
    obtain ⟨r, hr, hm⟩ := h
    cases r <;> simp at hm
    rename_i ix a
    obtain ⟨hix, hm⟩ := hm
    subst hix
    rw [← step2_sound_nd F e _ hr] at hv
    obtain ⟨x, rix, hx, hrx, rfl⟩ := den_slice_some F hv
    obtain ⟨x', rix', hx', hrx', rfl⟩ := den_slice_some F hv'
    have := parStepNd_sound a' a x x' hm hx hx'
    subst this
    rw [hrx] at hrx'
    injection hrx' with hrx'
    rw [hrx']
  | .rechunk c' a', e, v, v', h, hv, hv' => by
    simp only [parStepNd, List.any_eq_true] at h
    obtain ⟨r, hr, hm⟩ := h
    cases r <;> simp at hm
    rename_i c a
    obtain ⟨rfl, hm⟩ := hm
    rw [← step2_sound_nd F e _ hr] at hv
    exact parStepNd_sound a' a v v' hm (den_rechunk_some F hv) (den_rechunk_some F hv')
  | .transpose ax' a', e, v, v', h, hv, hv' => by
    simp only [parStepNd, List.any_eq_true] at h
    obtain ⟨r, hr, hm⟩ := h
    cases r <;> simp at hm
    rename_i ax a
    obtain ⟨rfl, hm⟩ := hm
    rw [← step2_sound_nd F e _ hr] at hv
    obtain ⟨x, hx, rfl⟩ := den_transpose_some F hv
    obtain ⟨x', hx', rfl⟩ := den_transpose_some F hv'
    rw [parStepNd_sound a' a x x' hm hx hx']
  | .concat ax' as', e, v, v', h, hv, hv' => by
    simp only [parStepNd, List.any_eq_true] at h
    obtain ⟨r, hr, hm⟩ := h
    cases r <;> simp at hm
    rename_i ax as
    obtain ⟨rfl, hm⟩ := hm
    rw [← step2_sound_nd F e _ hr] at hv
    obtain ⟨xs, hxs, hc⟩ := den_concat_some F hv
    obtain ⟨xs', hxs', hc'⟩ := den_concat_some F hv'
    rw [parStepsNd_sound as' as xs xs' hm hxs hxs', hc] at hc'
    injection hc' with hc'
    exact hc'.symm
  | .opq t' c' as', e, v, v', h, hv, hv' => by
    simp only [parStepNd, List.any_eq_true] at h
    obtain ⟨r, hr, hm⟩ := h
    cases r <;> simp at hm
    rename_i t c as
    obtain ⟨⟨rfl, rfl⟩, hm⟩ := hm
    rw [← step2_sound_nd F e _ hr] at hv
    obtain ⟨xs, hxs, hc⟩ := den_opq_some F hv
    obtain ⟨xs', hxs', hc'⟩ := den_opq_some F hv'
    rw [parStepsNd_sound as' as xs xs' hm hxs hxs', hc] at hc'
    injection hc' with hc'
    exact hc'.symm
  | .finalize a', e, v, v', h, hv, hv' => by
    simp only [parStepNd, List.any_eq_true] at h
    obtain ⟨r, hr, hm⟩ := h
    cases r <;> simp at hm
    rename_i a
    rw [← step2_sound_nd F e _ hr] at hv
    simp only [den] at hv hv'
    exact parStepNd_sound a' a v v' hm hv hv'
theorem parStepsNd_sound : ∀ (as' as : NEs) (xs xs' : List Arr), parStepsNd as as' = true →
    denL F as = some xs → denL F as' = some xs' → xs' = xs
  | .nil, .nil, xs, xs', _, hv, hv' => by
    simp only [denL, Option.some.injEq] at hv hv'
    rw [← hv, ← hv']
  | .nil, .cons _ _, _, _, h, _, _ => by simp [parStepsNd] at h
  | .cons _ _, .nil, _, _, h, _, _ => by simp [parStepsNd] at h
  | .cons a' as', .cons a as, xs, xs', h, hv, hv' => by
    simp only [parStepsNd, Bool.and_eq_true] at h
    obtain ⟨x, xt, hx, hxt, rfl⟩ := denL_cons_some F hv
    obtain ⟨x', xt', hx', hxt', rfl⟩ := denL_cons_some F hv'
    rw [parStepNd_sound a' a x x' h.1 hx hx', parStepsNd_sound as' as xt xt' h.2 hxt hxt']
end

/-- a trace of passes, each accepted by the checker -/
def chainOkNd : NE → List NE → Bool
  | _, [] => true
  | e, e' :: rest => parStepNd e e' && chainOkNd e' rest

/-- **chain_sound_nd**: any finite sequence of accepted passes between expressions that all denote a value (the harness
    evaluates each of them) ends in an expression with the value of the first -/
theorem chain_sound_nd : ∀ (passes : List NE) (e : NE) (v : Arr), chainOkNd e passes = true → den F e = some v →
    (∀ p ∈ passes, (den F p).isSome) → den F ((e :: passes).getLast (by simp)) = some v := by
  intro passes
  induction passes with
  | nil => intro e v _ hv _; exact hv
  | cons e' rest ih =>
    intro e v h hv hs
    simp only [chainOkNd, Bool.and_eq_true] at h
    rw [List.getLast_cons (by simp)]
    have h' := hs e' (List.mem_cons_self ..)
    cases hd : den F e' with
    | none => simp [hd] at h'
    | some v' =>
      have := parStepNd_sound F e' e v v' h.1 hv hd
      subst this
      exact ih e' v' h.2 hd (fun p hp => hs p (List.mem_cons_of_mem _ hp))

/-! ## Sound rules the engine does not have in this tree -/

/-- `Rechunk(Rechunk(x, c₁), c₂) → Rechunk(x, c₂)` on n-d arrays -/
theorem rechunk_rechunk_nd (c₁ c₂ : Chunks) (a : NE) (h : dims c₁ = dims c₂) :
    den F (.rechunk c₂ (.rechunk c₁ a)) = den F (.rechunk c₂ a) := by
  simp only [den]
  cases den F a with
  | none => rfl
  | some x =>
    by_cases h2 : dims c₂ = x.shape
    · simp [h2, h]
    · simp [h2, h]

/-- **slice_slice_fusion_nd**: `x[ix₁][ix₂]` is `x[ix₁₂]` whenever `ix₁₂` selects, per axis, the composition of the two
    selections (`composeR`: integers drop the axis, slices of any step compose position-wise) -/
theorem slice_slice_fusion_nd (ix₁ ix₂ ix₁₂ : List AxIx) (a : NE) (v w x : Arr) (r₁ r₂ : List RIx)
    (hx : den F a = some x) (h₁ : resolveAll x.shape ix₁ = some r₁) (h₂ : resolveAll (outShape r₁) ix₂ = some r₂)
    (hval : validR (outShape r₁) r₂ = true) (h₁₂ : resolveAll x.shape ix₁₂ = some (composeR r₁ r₂))
    (hv : den F (.slice ix₂ (.slice ix₁ a)) = some v) (hw : den F (.slice ix₁₂ a) = some w) : v.Equiv w := by
  obtain ⟨y, s₂, hy, hs₂, rfl⟩ := den_slice_some F hv
  obtain ⟨x', s₁, hx', hs₁, rfl⟩ := den_slice_some F hy
  obtain ⟨x'', s₁₂, hx'', hs₁₂, rfl⟩ := den_slice_some F hw
  rw [hx] at hx' hx''
  injection hx' with hx'
  injection hx'' with hx''
  subst hx' hx''
  rw [h₁] at hs₁
  injection hs₁ with hs₁
  subst hs₁
  rw [h₁₂] at hs₁₂
  injection hs₁₂ with hs₁₂
  subst hs₁₂
  have : (x.take r₁).shape = outShape r₁ := rfl
  rw [this, h₂] at hs₂
  injection hs₂ with hs₂
  subst hs₂
  exact take_take x r₁ r₂ hval

/-- two positive-step slices `s₁ : … : t₁` (n₁ positions) and `s₂ : … : t₂` (n₂ positions, inside the first) select the
    positions of the single slice `s₁ + s₂·t₁ : … : t₁·t₂` -/
theorem arith_slices_fuse (s₁ n₁ t₁ s₂ n₂ t₂ : Nat) (h : n₂ = 0 ∨ s₂ + (n₂ - 1) * t₂ < n₁) :
    (arithSel s₂ n₂ t₂).map ((arithSel s₁ n₁ t₁).getD · 0) = arithSel (s₁ + s₂ * t₁) n₂ (t₁ * t₂) :=
  arithSel_comp s₁ n₁ t₁ s₂ n₂ t₂ h

/-- **slice_elemwise_pushdown_nd**: slicing the result of a binary elementwise op with NumPy broadcasting = the op of the
    sliced operands, where an operand with fewer axes is indexed by the last entries of the index and a length-one axis
    that is broadcast against a longer one by `0:1` (`pushR`) -/
theorem slice_elemwise_pushdown_nd (op : BinOp) (x y : Arr) (s : List Nat) (rix : List RIx)
    (hs : bshape x.shape y.shape = some s) (hsel : selOnly rix = true) (hv : validR s rix = true) :
    OEquiv ((Arr.bin op x y).map (Arr.take rix))
      (Arr.bin op (x.take (pushR x.shape s rix)) (y.take (pushR y.shape s rix))) :=
  take_bin_pushdown op x y s rix hs hsel hv

/-- the same at expression level: the denotation of `(a ∘ b)[rix]` -/
theorem slice_elemwise_pushdown_den (op : BinOp) (a b : NE) (x y : Arr) (s : List Nat) (rix : List RIx)
    (ha : den F a = some x) (hb : den F b = some y)
    (hs : bshape x.shape y.shape = some s) (hsel : selOnly rix = true) (hv : validR s rix = true) :
    OEquiv ((den F (.bin op a b)).map (Arr.take rix))
      (Arr.bin op (x.take (pushR x.shape s rix)) (y.take (pushR y.shape s rix))) := by
  simp only [den, ha, hb]
  exact take_bin_pushdown op x y s rix hs hsel hv

/-- **slice_transpose_nd**: slicing a transposed array = transposing the array sliced with the permuted index -/
theorem slice_transpose_nd (x : Arr) (axes : List Nat) (rix : List RIx)
    (hp : isPerm axes x.shape.length = true) (hsel : selOnly rix = true) (hl : rix.length = axes.length) :
    ((x.transpose axes).take rix).Equiv ((x.take (unpermR axes rix)).transpose axes) :=
  take_transpose x axes rix hp hsel hl


/-! ## Non-vacuity: concrete n-d expressions and the pass the real engine makes on them -/

/-- `unify_chunks_expr` with broadcasting: a (3, 4) array chunked ((2, 1), (1, 3)) plus a (4,) array chunked ((2, 2)) -/
example : unify [[2, 1], [1, 3]] [[2, 2]] = [[2, 1], [1, 1, 2]] ∧
    alignTarget [[2, 1], [1, 3]] [[2, 2]] [[2, 1], [1, 3]] = [[2, 1], [1, 1, 2]] ∧
    alignTarget [[2, 1], [1, 3]] [[2, 2]] [[2, 2]] = [[1, 1, 2]] := by decide

/-- a length-one axis broadcast against a longer one keeps its single chunk; `(1, 0)` on a length-one axis counts as `(1,)` -/
example : unify [[1, 2], [1], [2]] [[3, 1], [1, 1]] = [[1, 2], [3, 1], [1, 1]] ∧
    alignTarget [[1, 2], [1], [2]] [[3, 1], [1, 1]] [[1, 2], [1], [2]] = [[1, 2], [1], [1, 1]] ∧
    unify [[1, 0]] [[2, 1]] = [[2, 1]] ∧ alignTarget [[1, 0]] [[2, 1]] [[1, 0]] = [[1]] := by decide

def exA : NE := .leaf [3, 4] [0, 1, 2, 3, 4, 5, 6, 7, 8, 9, 10, 11] [[2, 1], [1, 3]]
def exB : NE := .leaf [4] [10, 20, 30, 40] [[2, 2]]
def noF : Nat → List Arr → Option Arr := fun _ _ => none

/-- the finalized broadcast sum denotes NumPy's value; the pass the engine makes (finalize → Rechunk(-1, -1), both operands
    aligned) is accepted by the checker and keeps value, shape and chunks: `step_sound_nd`, `parStepNd_sound`, `chain_sound_nd` -/
example :
    let e := NE.finalize (.bin .add exA exB)
    let e' := NE.rechunk [[3], [4]] (.bin .add (.rechunk [[2, 1], [1, 1, 2]] exA) (.rechunk [[1, 1, 2]] exB))
    (den noF e).map Arr.toVal = some ([3, 4], [10, 21, 32, 43, 14, 25, 36, 47, 18, 29, 40, 51]) ∧
    parStepNd e e' = true ∧ (den noF e').map Arr.toVal = (den noF e).map Arr.toVal ∧
    chunks e' = chunks e ∧ chainOkNd e [e'] = true := by decide

/-- slicing with steps and an integer, then a transpose (the engine only rewrites the finalize node) -/
example :
    let x := NE.leaf [3, 2, 4] (List.range 24 |>.map Int.ofNat) [[2, 1], [1, 1], [3, 1]]
    let e := NE.transpose [1, 0] (.slice [.sl ⟨none, none, some (-2)⟩, .int 1, .sl ⟨some 1, some 4, some 2⟩] x)
    (den noF e).map Arr.toVal = some ([2, 2], [21, 5, 23, 7]) ∧ chunks e = [[1, 1], [1, 1]] ∧
    parStepNd (.finalize e) (.rechunk [[2], [2]] e) = true := by decide

/-- `slice_slice_fusion_nd`: `x[1::2, 3][::-1]` is `x[3::-2, 3]`: the hypotheses are satisfiable and checkable -/
example :
    let r₁ : List RIx := [.sel [1, 3], .int 3]
    let r₂ : List RIx := [.sel [1, 0]]
    resolveAll [5, 4] [.sl ⟨some 1, none, some 2⟩, .int 3] = some r₁ ∧
    resolveAll (outShape r₁) [.sl ⟨none, none, some (-1)⟩] = some r₂ ∧ validR (outShape r₁) r₂ = true ∧
    resolveAll [5, 4] [.sl ⟨some 3, none, some (-2)⟩, .int 3] = some (composeR r₁ r₂) := by decide

/-- `rechunk_rechunk_nd` and an opaque node under a pass: the operand of an opaque node is rewritten, the node keeps its tag -/
example : dims [[2, 1], [4]] = dims [[3], [1, 3]] ∧
    parStepNd (.opq 7 [[3]] (.cons (.rechunk [[2, 1], [1, 3]] exA) .nil)) (.opq 7 [[3]] (.cons exA .nil)) = true ∧
    parStepNd (.opq 7 [[3]] (.cons exA .nil)) (.opq 8 [[3]] (.cons exA .nil)) = false := by decide


end Dask.C30xNd
