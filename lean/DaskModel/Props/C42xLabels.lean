import DaskModel.Props.C42
import DaskModel.Lemmas.MetaLabels
/-!
# C42, last extension round — Series name, index name and index dtype of the lazy metadata

`Props/C42.lean` proves kind of object + column names/order (`schema_commutes`) and the dtypes of the int64/float64/bool
subset. The statement of C42 also lists the INDEX NAME, the INDEX DTYPE (and, for a Series, its name is part of what
`._meta` announces). `Model/MetaLabels.lean` models both sides for the relational fragment: `metaL` (what `._meta`
composes without data) and `denL` (the value semantics `den`, every computed object carrying the labels pandas gives it).

Full statement for the fragment (`computed_labels_eq_meta`): whenever a program computes (on the whole frame or on ANY
partition — a partition is the same program over a sub-frame with the same columns and index labels), the computed object
has exactly the kind, column names, Series name, index name and index dtype that the lazy side announces.

NOT proved here: that the optimizer keeps the SERIES NAME (`optimizer_keeps_frame_labels` covers frames, where the C43
checker's normal form determines every label; the normal form of a Series has no name) — validated: `(labelsof …)` of
the optimised expression vs its real `._meta` and vs the computed object, every run. The per-operation label rules
(`matchName` etc.) are pandas' behaviour: checked against pandas on empty AND non-empty operands every run.
-/
namespace Dask.C42x
open Dask.RelExpr

/-- **C42 (labels)**: the lazy labels — kind, column names, Series name, index name, index dtype — computed WITHOUT
    data are exactly the labels of the computed object. -/
theorem labels_commute (s : Src) (ix : IdxL) : ∀ (e : E) (v : LVal), denL s ix e = some v →
    metaL s.cols ix e = some v.labels := by
  intro e
  induction e with
  | src => intro v h; simp only [denL, Option.some.injEq] at h; subst h; rfl
  | lit k => intro v h; simp only [denL, Option.some.injEq] at h; subst h; rfl
  | proj cs f ih =>
    intro v h
    simp only [denL] at h
    cases hf : denL s ix f with
    | none => simp [hf] at h
    | some vf =>
      simp only [hf, Option.bind_some] at h
      simp only [metaL, ih _ hf, Option.bind_some]
      exact projLV_labels cs vf v h
  | col f n ih =>
    intro v h
    simp only [denL] at h
    cases hf : denL s ix f with
    | none => simp [hf] at h
    | some vf =>
      simp only [hf, Option.bind_some] at h
      simp only [metaL, ih _ hf, Option.bind_some]
      exact colLV_labels n vf v h
  | filter f p ihf ihp =>
    intro v h
    simp only [denL] at h
    obtain ⟨a, b, ha, hb, hab⟩ := bind2_some _ _ _ _ h
    simp only [metaL, ihf _ ha, ihp _ hb, bind2]
    exact filterLV_labels a b v hab
  | assign f n x ihf ihx =>
    intro v h
    simp only [denL] at h
    obtain ⟨a, b, ha, hb, hab⟩ := bind2_some _ _ _ _ h
    simp only [metaL, ihf _ ha, ihx _ hb, bind2]
    exact assignLV_labels n a b v hab
  | bin op a b iha ihb =>
    intro v h
    simp only [denL] at h
    obtain ⟨x, y, hx, hy, hxy⟩ := bind2_some _ _ _ _ h
    simp only [metaL, iha _ hx, ihb _ hy, bind2]
    exact binLV_labels op x y v hxy
  | not a ih =>
    intro v h
    simp only [denL] at h
    cases ha : denL s ix a with
    | none => simp [ha] at h
    | some va =>
      simp only [ha, Option.bind_some] at h
      simp only [metaL, ih _ ha, Option.bind_some]
      exact notLV_labels va v h

/-- the labels do not depend on the data: every partition (the same program over any sub-frame with the same columns
    and the same index labels) that computes has the labels of the whole result -/
theorem labels_of_partitions (cols : List String) (ix : IdxL) (whole part : List (List Cell)) (e : E) (v w : LVal)
    (hv : denL ⟨cols, whole⟩ ix e = some v) (hw : denL ⟨cols, part⟩ ix e = some w) : w.labels = v.labels := by
  have h1 := labels_commute ⟨cols, whole⟩ ix e v hv
  have h2 := labels_commute ⟨cols, part⟩ ix e w hw
  simp only at h1 h2
  rw [h1] at h2
  exact (Option.some.inj h2).symm

/-- `denL` IS `den` with labels attached: forgetting the labels gives the value semantics that C43 / C42 reason about,
    and carrying labels never makes a program fail -/
theorem denL_refines_den (s : Src) (ix : IdxL) : ∀ e : E, (denL s ix e).map LVal.erase = den s e := by
  intro e
  induction e with
  | src => rfl
  | lit k => rfl
  | proj cs f ih =>
    simp only [denL, den, ← ih]
    cases denL s ix f with
    | none => rfl
    | some v =>
      cases v <;> simp only [Option.bind_some, Option.map_some, projLV, LVal.erase, Option.map_none]
      split <;> simp [LVal.erase]
  | col f n ih =>
    simp only [denL, den, ← ih]
    cases denL s ix f with
    | none => rfl
    | some v =>
      cases v <;> simp only [Option.bind_some, Option.map_some, colLV, LVal.erase, Option.map_none]
      split <;> simp [LVal.erase]
  | filter f p ihf ihp =>
    simp only [denL, den, ← ihf, ← ihp]
    cases denL s ix f with
    | none => cases denL s ix p <;> rfl
    | some a =>
      cases denL s ix p with
      | none => cases a <;> rfl
      | some b =>
        cases a <;> cases b <;> simp only [bind2, Option.map_some, filterLV, LVal.erase, Option.map_none]
        all_goals (split <;> simp [LVal.erase])
  | assign f n x ihf ihx =>
    simp only [denL, den, ← ihf, ← ihx]
    cases denL s ix f with
    | none => cases denL s ix x <;> rfl
    | some a =>
      cases denL s ix x with
      | none => cases a <;> rfl
      | some b =>
        cases a <;> cases b <;> simp only [bind2, Option.map_some, assignLV, LVal.erase, Option.map_none]
        · rename_i cols rows ix' vs nm ix''
          split
          · cases colIdx cols n <;> simp [LVal.erase]
          · simp
        · rename_i cols rows ix' c
          cases colIdx cols n <;> simp [LVal.erase]
  | bin op a b iha ihb =>
    simp only [denL, den, ← iha, ← ihb]
    cases denL s ix a with
    | none => cases denL s ix b <;> rfl
    | some x =>
      cases denL s ix b with
      | none => cases x <;> rfl
      | some y =>
        cases x <;> cases y <;> simp only [bind2, Option.map_some, binLV, LVal.erase, Option.map_none]
        split <;> simp [LVal.erase]
  | not a ih =>
    simp only [denL, den, ← ih]
    cases denL s ix a with
    | none => rfl
    | some v => cases v <;> simp [notLV, LVal.erase]

/-- the lazy labels refine the lazy schema of `Props/C42.lean` (kind + column names) -/
theorem metaL_refines_metaOf (cols : List String) (ix : IdxL) : ∀ e : E, (metaL cols ix e).map LSchema.erase = metaOf cols e := by
  intro e
  induction e with
  | src => rfl
  | lit k => rfl
  | proj cs f ih =>
    simp only [metaL, metaOf, ← ih]
    cases metaL cols ix f with
    | none => rfl
    | some v =>
      cases v <;> simp only [Option.bind_some, Option.map_some, projLS, LSchema.erase, Option.map_none]
      split <;> simp [LSchema.erase]
  | col f n ih =>
    simp only [metaL, metaOf, ← ih]
    cases metaL cols ix f with
    | none => rfl
    | some v =>
      cases v <;> simp only [Option.bind_some, Option.map_some, colLS, LSchema.erase, Option.map_none]
      split <;> simp [LSchema.erase]
  | filter f p ihf ihp =>
    simp only [metaL, metaOf, ← ihf, ← ihp]
    cases metaL cols ix f with
    | none => cases metaL cols ix p <;> rfl
    | some a =>
      cases metaL cols ix p with
      | none => cases a <;> rfl
      | some b => cases a <;> cases b <;> rfl
  | assign f n x ihf ihx =>
    simp only [metaL, metaOf, ← ihf, ← ihx]
    cases metaL cols ix f with
    | none => cases metaL cols ix x <;> rfl
    | some a =>
      cases metaL cols ix x with
      | none => cases a <;> rfl
      | some b => cases a <;> cases b <;> rfl
  | bin op a b iha ihb =>
    simp only [metaL, metaOf, ← iha, ← ihb]
    cases metaL cols ix a with
    | none => cases metaL cols ix b <;> rfl
    | some x =>
      cases metaL cols ix b with
      | none => cases x <;> rfl
      | some y => cases x <;> cases y <;> rfl
  | not a ih =>
    simp only [metaL, metaOf, ← ih]
    cases metaL cols ix a with
    | none => rfl
    | some v => cases v <;> rfl

/-- **index name and index dtype**: every DataFrame / Series the fragment announces carries the index labels of the source
    frame (scalars have no index) -/
theorem index_labels_are_source (cols : List String) (ix : IdxL) : ∀ (e : E) (t : LSchema), metaL cols ix e = some t →
    t.ix? = none ∨ t.ix? = some ix := by
  intro e
  induction e with
  | src => intro t h; simp only [metaL, Option.some.injEq] at h; subst h; exact Or.inr rfl
  | lit k => intro t h; simp only [metaL, Option.some.injEq] at h; subst h; exact Or.inl rfl
  | proj cs f ih =>
    intro t h
    simp only [metaL] at h
    cases hf : metaL cols ix f with
    | none => simp [hf] at h
    | some tf =>
      have := ih _ hf
      cases tf <;> simp only [hf, Option.bind_some, projLS] at h <;> try (cases h; done)
      split at h
      · simp only [Option.some.injEq] at h; subst h; simpa [LSchema.ix?] using this
      · cases h
  | col f n ih =>
    intro t h
    simp only [metaL] at h
    cases hf : metaL cols ix f with
    | none => simp [hf] at h
    | some tf =>
      have := ih _ hf
      cases tf <;> simp only [hf, Option.bind_some, colLS] at h <;> try (cases h; done)
      split at h
      · simp only [Option.some.injEq] at h; subst h; simpa [LSchema.ix?] using this
      · cases h
  | filter f p ihf _ =>
    intro t h
    simp only [metaL] at h
    obtain ⟨a, b, ha, _, hab⟩ := bind2_some _ _ _ _ h
    have := ihf _ ha
    cases a <;> cases b <;> simp only [filterLS, Option.some.injEq] at hab <;> try (cases hab; done)
    all_goals (subst hab; simpa [LSchema.ix?] using this)
  | assign f n x ihf _ =>
    intro t h
    simp only [metaL] at h
    obtain ⟨a, b, ha, _, hab⟩ := bind2_some _ _ _ _ h
    have := ihf _ ha
    cases a <;> cases b <;> simp only [assignLS, Option.some.injEq] at hab <;> try (cases hab; done)
    all_goals (subst hab; simpa [LSchema.ix?] using this)
  | bin op a b iha ihb =>
    intro t h
    simp only [metaL] at h
    obtain ⟨x, y, hx, hy, hxy⟩ := bind2_some _ _ _ _ h
    have h1 := iha _ hx
    have h2 := ihb _ hy
    cases x <;> cases y <;> simp only [binLS, Option.some.injEq] at hxy <;> try (cases hxy; done)
    · subst hxy; simpa [LSchema.ix?] using h1
    · subst hxy; simpa [LSchema.ix?] using h1
    · subst hxy; simpa [LSchema.ix?] using h2
    · subst hxy; exact Or.inl rfl
  | not a ih =>
    intro t h
    simp only [metaL] at h
    cases ha : metaL cols ix a with
    | none => simp [ha] at h
    | some ta =>
      have := ih _ ha
      cases ta <;> simp only [ha, Option.bind_some, notLS, Option.some.injEq] at h <;> try (cases h; done)
      · subst h; simpa [LSchema.ix?] using this
      · subst h; exact Or.inl rfl

/-- **C42 for the fragment, labels included**: whenever the program computes to `w` (in the value semantics of C43),
    the computed object, with the labels pandas gives it, is announced exactly by the lazy side: kind, column names and
    order, Series name, index name, index dtype — and the index labels are those of the source frame. -/
theorem computed_labels_eq_meta (s : Src) (ix : IdxL) (e : E) (w : Val) (h : den s e = some w) :
    ∃ v : LVal, denL s ix e = some v ∧ v.erase = w ∧ metaL s.cols ix e = some v.labels ∧
      (v.labels.ix? = none ∨ v.labels.ix? = some ix) := by
  have hr := denL_refines_den s ix e
  rw [h] at hr
  cases hv : denL s ix e with
  | none => simp [hv] at hr
  | some v =>
    simp only [hv, Option.map_some, Option.some.injEq] at hr
    have hm := labels_commute s ix e v hv
    exact ⟨v, rfl, hr, hm, index_labels_are_source s.cols ix e _ hm⟩

/-- an optimizer step accepted by the C43 checker keeps every label of a DataFrame result (columns by the checker's
    soundness, index labels because they are the source's on both sides) -/
theorem optimizer_keeps_frame_labels (s : Src) (ix : IdxL) (hwf : C43.WF s) (a b : E) (cols : List String)
    (rows : List (Nat × List Cell)) (h : checkStep s.cols a b = true) (hv : den s a = some (.frame cols rows)) :
    metaL s.cols ix a = some (.frame cols ix) ∧ metaL s.cols ix b = some (.frame cols ix) := by
  have hb : den s b = some (.frame cols rows) := by rw [← C43.checkStep_sound s hwf a b h]; exact hv
  have key : ∀ e : E, den s e = some (.frame cols rows) → metaL s.cols ix e = some (.frame cols ix) := by
    intro e he
    obtain ⟨v, _, hve, hm, hix⟩ := computed_labels_eq_meta s ix e _ he
    cases v with
    | frame c r i =>
      simp only [LVal.erase, Val.frame.injEq] at hve
      simp only [LVal.labels, LSchema.ix?, Option.some.injEq] at hix
      rcases hix with hix | hix
      · cases hix
      · rw [hm, LVal.labels, hve.1, hix]
    | series _ _ _ => simp [LVal.erase] at hve
    | scalar _ => simp [LVal.erase] at hve
  exact ⟨key a hv, key b hb⟩

/-! ## non-vacuity and the Series-name rules on concrete programs -/

def ixEx : IdxL := ⟨some "t", "int64"⟩
def srcEx : Src := ⟨["a", "b"], [[some 1, some 5], [some 3, some 2], [none, some 7]]⟩

/-- `df[df.a > 1].assign(z=df.a + df.b)[["z", "a"]]`-style program: a frame with the source's index labels -/
example : metaL ["a", "b"] ixEx (.proj ["z", "a"] (.assign (.filter .src (.bin .gt (.col .src "a") (.lit 1))) "z" (.lit 3)))
    = some (.frame ["z", "a"] ixEx) := by decide
/-- `a + b` has no name, `a + a`, `a + 1`, `1 + a`, `~(a > 1)`… keep the name, `a[b > 2]` keeps the name of `a` -/
example : metaL ["a", "b"] ixEx (.bin .add (.col .src "a") (.col .src "b")) = some (.series none ixEx) := by decide
example : metaL ["a", "b"] ixEx (.bin .add (.col .src "a") (.col .src "a")) = some (.series (some "a") ixEx) := by decide
example : metaL ["a", "b"] ixEx (.bin .mul (.lit 2) (.col .src "a")) = some (.series (some "a") ixEx) := by decide
example : metaL ["a", "b"] ixEx (.filter (.col .src "a") (.bin .gt (.col .src "b") (.lit 2))) = some (.series (some "a") ixEx) := by decide
example : (denL srcEx ixEx (.filter (.col .src "a") (.bin .gt (.col .src "b") (.lit 2)))).map LVal.labels
    = some (.series (some "a") ixEx) := by decide
example : denL srcEx ixEx (.bin .add (.col .src "a") (.col .src "b"))
    = some (.series [(0, some 6), (1, some 5), (2, none)] none ixEx) := by decide
/-- a partition of `srcEx` (its last row alone) has the labels of the whole -/
example : (denL ⟨["a", "b"], [[none, some 7]]⟩ ixEx (.bin .add (.col .src "a") (.col .src "b"))).map LVal.labels
    = (denL srcEx ixEx (.bin .add (.col .src "a") (.col .src "b"))).map LVal.labels := by decide

end Dask.C42x
