import DaskModel.Model.Creation
import DaskModel.Lemmas.CreationLemmas
import DaskModel.Lemmas.CreationFloatLemmas
import DaskModel.Lemmas.DiagonalLemmas
import DaskModel.Lemmas.DiagonalNdLemmas
import DaskModel.Lemmas.CreationGridLemmas
import DaskModel.Lemmas.ChunksNormalize
/-!
# C34 — array creation routines are chunk-invariant and equal NumPy (theorems)

All theorems are over exact integers; rationals with a common denominator reduce to them by
scaling (see Model/Creation.lean).  Floats are validated against NumPy by harness/props/c34.py.
-/
namespace Dask.C34
open Dask.Chunks Dask.Creation Dask.SoftFloat

/-- **arange_len** (positive step): `num = max(ceil((stop-start)/step), 0)` counts exactly the
    indices whose value is below `stop` — the length of Python's `range`/NumPy's `arange`. -/
theorem arange_num_spec_pos {start stop step : Int} {n : Nat} (hs : 0 < step)
    (h : arangeNum start stop step = some n) (i : Nat) : i < n ↔ start + (i : Int) * step < stop := by
  unfold arangeNum at h
  rw [if_neg (by omega)] at h
  injection h with h; subst h
  rw [Int.lt_toNat, ceilDivInt_lt_iff_pos _ _ hs]; omega

/-- **arange_len** (negative step): … whose value is above `stop`. -/
theorem arange_num_spec_neg {start stop step : Int} {n : Nat} (hs : step < 0)
    (h : arangeNum start stop step = some n) (i : Nat) : i < n ↔ stop < start + (i : Int) * step := by
  unfold arangeNum at h
  rw [if_neg (by omega)] at h
  injection h with h; subst h
  rw [Int.lt_toNat, ceilDivInt_lt_iff_neg _ _ hs]; omega

example : arangeNum 0 10 3 = some 4 := by rfl
example : arangeNum 10 0 (-3) = some 4 := by rfl
example : arangeNum 5 5 2 = some 0 := by rfl
example : arangeNum 0 10 0 = none := by rfl

/-- **arange_den** (after `fix: da.arange computes every element from its global index`): for *every* chunking `cs` and
    for **any arithmetic** `A` of the computation dtype (exact integers, binary64, binary32 — no property of `+ - *` is
    used) the blocks have exactly the declared lengths and concatenate to the array computed as one block, i.e. to
    NumPy's own fill loop `first + i*(second - first)` with `[1] = second`.  In particular float `arange` is
    chunk-invariant bit for bit and no block length depends on floating-point rounding. -/
theorem arange_den {α} (A : Arith α) (first second : α) (cs : List Nat) :
    (arangeValuesG A first second cs).flatten = arangeBlockG A first second 0 (sum cs)
    ∧ (arangeValuesG A first second cs).map List.length = cs := by
  refine ⟨?_, blocks_by_index_lens (arangeBlockG A first second) (by intro o n; simp [arangeBlockG]) cs 0⟩
  unfold arangeValuesG arangeBlockG
  rw [blocks_by_index (arangeElem A first second) cs 0]

/-- … and over the integers that one block is NumPy's `start + i*step` (`first = start`, `second = start + step`) -/
theorem arange_int_spec (start step : Int) (n : Nat) :
    arangeBlockG intArith start (start + step) 0 n = arangeSpec start step n := by
  unfold arangeBlockG arangeSpec
  apply List.map_congr_left; intro i _
  rw [arangeElem_int]; simp

/-- the two together, with `num` from `arangeNum`: for every chunking of `num` the computed blocks of the integer
    (= rational, after scaling) `arange` are NumPy's values `start + i*step`, and `i < num` are exactly the indices
    whose value lies before `stop` -/
theorem arange_int_den (start stop step : Int) (n : Nat) (cs : List Nat) (hn : arangeNum start stop step = some n)
    (hsum : sum cs = n) :
    (arangeValuesInt start step cs).flatten = arangeSpec start step n
    ∧ (arangeValuesInt start step cs).map List.length = cs
    ∧ ∀ i : Nat, i < n ↔ (if 0 < step then start + (i : Int) * step < stop else stop < start + (i : Int) * step) := by
  have h := arange_den intArith start (start + step) cs
  rw [hsum, arange_int_spec] at h
  refine ⟨h.1, h.2, fun i => ?_⟩
  have h0 : step ≠ 0 := by
    intro h0; subst h0; simp [arangeNum] at hn
  by_cases hp : 0 < step
  · rw [if_pos hp]; exact arange_num_spec_pos hp hn i
  · rw [if_neg hp]; exact arange_num_spec_neg (by omega) hn i

example : arangeNum 10 0 (-3) = some 4 ∧ sum [3, 1] = 4 := by decide
example : arangeValuesInt 10 (-3) [3, 1] = [[10, 7, 4], [1]] := by decide

/-- **arange_fallback_den** (`chunk.arange` on block bounds — since the repair only the fallback of `arange_block`
    for dtypes without index arithmetic, e.g. bool/datetime64): over exact arithmetic, for every chunking and any
    sign of the step, the blocks have exactly the declared lengths and concatenate to `start + i*step`. -/
theorem arange_fallback_den (start step : Int) (hs : step ≠ 0) (cs : List Nat) :
    (arangeValues start step cs).flatten = arangeSpec start step (sum cs)
    ∧ (arangeValues start step cs).map List.length = cs := by
  refine ⟨?_, arangeBlocks_lens start step hs cs 0⟩
  unfold arangeValues arangeSpec
  rw [arangeValues_aux start step hs cs 0]
  apply List.map_congr_left; intro i _; simp

example : arangeValues 10 (-3) [3, 1] = [[10, 7, 4], [1]] := by rfl

/-! ### float `arange` over the exact binary64 model (Model/SoftFloat.lean, Model/CreationFloat.lean)

`arange_den` above already covers binary64: the block lengths and the chunk-invariance of the values hold for *any*
arithmetic.  What is specific to floats is `num = ceil((stop - start)/step)` computed with three roundings and the
values `first + i*(second - first)`; dask and NumPy use the same formulas (diffed bit for bit by the harness), and these
are *not* the exact-arithmetic ones in general (`arange_f_num_not_exact`).  Full statement, false in general:
`ArangeFExactStatement`.  Proved: the regime in which no operation rounds (`arange_f_exact_partial`). -/

/-- **binary64_round_spec** (for all inputs): the rounding every `add`/`sub`/`mul`/`ofInt` of the model applies to its exact
    result returns a double (at most 53 significant bits, last place ≥ 2^-1074) nearest to it — at most half a unit of the
    last place away — and the even significand on a tie.  (`div` rounds a ≥ 55-bit truncation with a sticky bit the same
    way; that this equals rounding the exact quotient is validated bit for bit against CPython, not proved, except for
    exact quotients: `div_exact`.) -/
theorem binary64_round_spec (m e : Int) :
    ((roundDy m e).m.natAbs ≤ 2 ^ 53 ∧ -1074 ≤ (roundDy m e).e)
    ∧ ∃ t : Nat, (roundDy m e).e = e + t
        ∧ (2 * ((roundDy m e).m * 2 ^ t - m)).natAbs ≤ 2 ^ t
        ∧ ((2 * ((roundDy m e).m * 2 ^ t - m)).natAbs = 2 ^ t → (roundDy m e).m % 2 = 0) :=
  ⟨roundDy_is_double m e, roundDy_nearest m e⟩

example : roundDy (2 ^ 53 + 1) 0 = ⟨2 ^ 52, 1⟩ ∧ roundDy (2 ^ 53 + 3) 0 = ⟨2 ^ 52 + 2, 1⟩ := by decide

/-- the binary64 plan agrees with exact arithmetic on the same inputs (false in general: `arange_f_num_not_exact`) -/
def ArangeFExactStatement : Prop :=
  ∀ (start stop step : F64) (n : Nat), step.m ≠ 0 → arangeNumF start stop step = some n →
    ∀ e : Int, e ≤ start.e → e ≤ stop.e → e ≤ step.e →
      arangeNum (start.m * 2 ^ (start.e - e).toNat) (stop.m * 2 ^ (stop.e - e).toNat) (step.m * 2 ^ (step.e - e).toNat) = some n

/-- `np.arange(0.0, 3.4000000000000004, 0.1)` has 34 elements (NumPy and dask alike: the quotient
    `34.000000000000004…` rounds to `34.0`), exact arithmetic on the same doubles gives 35 -/
theorem arange_f_num_not_exact :
    arangeNumF ⟨0, 0⟩ ⟨1914029841632461, -49⟩ ⟨3602879701896397, -55⟩ = some 34
    ∧ arangeNum 0 (1914029841632461 * 2 ^ 6) 3602879701896397 = some 35 := by decide

theorem arange_f_exact_refuted : ¬ ArangeFExactStatement := by
  intro h
  have := h ⟨0, 0⟩ ⟨1914029841632461, -49⟩ ⟨3602879701896397, -55⟩ 34 (by decide) arange_f_num_not_exact.1 (-55)
    (by decide) (by decide) (by decide)
  revert this; decide

/-- **arange_f_exact_partial**: `start = a·2^e`, `step = s·2^e`, `stop = start + n·step` with every value of the range
    below `2^53` in units of `2^e` (dyadic steps, integer-valued doubles, quarters, …): no binary64 operation rounds,
    so the plan is the unshifted one, `num = n` (not `n + 1`: a `stop` exactly on the grid is excluded), and for every
    chunking the blocks hold exactly the exact-arithmetic values `(a + i·s)·2^e` of `arange_int_den`. -/
theorem arange_f_exact_partial (a s e : Int) (n : Nat) (hs : s ≠ 0) (he : -1074 ≤ e)
    (hb : a.natAbs + (n + 1) * s.natAbs < 2 ^ 53) :
    (∃ p, arangePlanF ⟨a, e⟩ ⟨a + (n : Int) * s, e⟩ ⟨s, e⟩ = some p ∧ p.shifted = false ∧ p.num = n
        ∧ p.first = ⟨a, e⟩ ∧ p.second = ⟨a + s, e⟩)
    ∧ ∀ cs, sum cs = n →
        (arangeValuesG f64Arith ⟨a, e⟩ ⟨a + s, e⟩ cs).flatten = (arangeSpec a s n).map (fun v => (⟨v, e⟩ : F64))
        ∧ (arangeValuesG f64Arith ⟨a, e⟩ ⟨a + s, e⟩ cs).map List.length = cs := by
  have hs1 : 1 ≤ s.natAbs := Int.natAbs_pos.2 hs
  have hsm : (n + 1) * s.natAbs = n * s.natAbs + s.natAbs := Nat.succ_mul n _
  have hn1 : n * 1 ≤ n * s.natAbs := Nat.mul_le_mul_left n hs1
  have hsb : s.natAbs < 2 ^ 53 := by omega
  have h1 : (a + s).natAbs < 2 ^ 53 := by
    have := natAbs_lin a s 1 (n + 1) (by omega) hb
    simpa using this
  constructor
  · refine ⟨⟨false, n, ⟨a, e⟩, ⟨a + s, e⟩⟩, ?_, rfl, rfl, rfl, rfl⟩
    unfold arangePlanF
    rw [arangeShiftF_exact a s e he h1 hsb, arangeNumF_exact a s e n hs he hb, add_same_exp,
      roundDy_of_fits _ _ h1 he]
    simp
  · intro cs hsum
    have h := arange_den f64Arith ⟨a, e⟩ ⟨a + s, e⟩ cs
    refine ⟨?_, h.2⟩
    rw [h.1, hsum]
    unfold arangeBlockG arangeSpec
    rw [List.map_map]
    apply List.map_congr_left
    intro i hi
    have hi' : i < n := List.mem_range.1 hi
    simp only [Nat.zero_add, Function.comp]
    exact arangeElem_exact a s e n i he (by omega) (by omega) hb

example : (1 : Int) ≠ 0 ∧ (-1074 : Int) ≤ -1 ∧ (1 : Int).natAbs + (4 + 1) * (1 : Int).natAbs < 2 ^ 53 := by decide

/-- the block plan *before* `fix: da.arange computes every element from its global index`, on
    `da.arange(2**30 - 3*2**-23, 2**30 + 10*2**-23, 2**-23, chunks=2)`: the declared chunks are `(2,2,2,2,2,2,1)`, the
    blocks `np.arange(blockstart, blockstop, step)` (bounds rounded to binary64, trimmed by at most one element) had
    lengths `2,1,3,0,3,0,1` — exactly what the real code returned (computed shape `(10,)` for 13 declared elements) -/
theorem old_arange_plan_refuted :
    oldBlockLens ⟨9007199254740989, -23⟩ ⟨1, -23⟩ 0 [2, 2, 2, 2, 2, 2, 1]
      = [some 2, some 1, some 3, some 0, some 3, some 0, some 1] := by decide

/-- **linspace_den**: for every chunking the blocks have the declared lengths and concatenate to NumPy's
    `arange(num) * step + start` with the last element pinned to `stop` — every element is a function of its
    *global* index only (numerators over `div`; `a = start*div`, `b = stop*div`, `range = stop - start`). -/
theorem linspace_den (a b range : Int) (num : Nat) (ep : Bool) (cs : List Nat) (hsum : sum cs = num) :
    (linspaceValues a b range num ep cs).flatten = linspaceSpec a b range num ep
    ∧ (linspaceValues a b range num ep cs).map List.length = cs := by
  refine ⟨?_, linspace_lens a b range num ep cs 0⟩
  unfold linspaceValues linspaceSpec
  rw [linspace_aux a b range num ep cs 0, hsum]
  rfl

/-- **linspace_any_arith_den**: the same for *any* arithmetic of the result dtype (binary64 in particular, including the
    branch for a step that underflowed to zero): block lengths are the declared chunks and the blocks concatenate to the
    one-block array, so float `linspace` is chunk-invariant bit for bit. -/
theorem linspace_any_arith_den {α} (A : Arith α) (fdiv : α → α → α) (start stop step range divv : α) (stepZero : Bool)
    (num : Nat) (ep : Bool) (cs : List Nat) :
    (linspaceValuesG A fdiv start stop step range divv stepZero num ep cs).flatten
      = linspaceBlockG A fdiv start stop step range divv stepZero num ep 0 (sum cs)
    ∧ (linspaceValuesG A fdiv start stop step range divv stepZero num ep cs).map List.length = cs := by
  refine ⟨?_, blocks_by_index_lens (linspaceBlockG A fdiv start stop step range divv stepZero num ep)
    (by intro o n; simp [linspaceBlockG]) cs 0⟩
  unfold linspaceValuesG linspaceBlockG
  rw [blocks_by_index (linspaceElemG A fdiv start stop step range divv stepZero num ep) cs 0]

/-- … instantiated with binary64: the float `linspace` of the model is chunk-invariant, and the divisions of its formulas
    never raise (`div ≠ 0`) -/
theorem linspace_f_den (start stop : F64) (num : Nat) (ep : Bool) (cs : List Nat) :
    (linspaceValuesF start stop num ep cs).map List.length = cs
    ∧ (∀ cs', sum cs' = sum cs → (linspaceValuesF start stop num ep cs').flatten = (linspaceValuesF start stop num ep cs).flatten)
    ∧ SoftFloat.div (sub stop start) (ofInt (linspaceDiv num ep))
        = some (linspacePlanF start stop num ep).step := by
  refine ⟨(linspace_any_arith_den _ _ _ _ _ _ _ _ _ _ cs).2, ?_, ?_⟩
  · intro cs' h
    unfold linspaceValuesF
    rw [(linspace_any_arith_den _ _ _ _ _ _ _ _ _ _ cs').1, (linspace_any_arith_den _ _ _ _ _ _ _ _ _ _ cs).1, h]
  · exact fdivTotal_ofInt _ _ (linspaceDiv_ne_zero num ep)

example : (linspaceValuesF ⟨0, 0⟩ ⟨1, 0⟩ 5 true [2, 3]).map (fun b => b.map SoftFloat.normalize)
    = [[⟨0, 0⟩, ⟨1, -2⟩], [⟨1, -1⟩, ⟨3, -2⟩, ⟨1, 0⟩]] := by decide

/-- the pinned endpoint is the value the formula gives in exact arithmetic: `start + (num-1)*step = stop` -/
theorem linspace_endpoint (start stop : Int) (num : Nat) :
    start * ((num - 1 : Nat) : Int) + ((num - 1 : Nat) : Int) * (stop - start) = stop * ((num - 1 : Nat) : Int) := by
  generalize ((num - 1 : Nat) : Int) = d
  rw [Int.mul_sub, Int.mul_comm start d, Int.mul_comm stop d]; omega

example : linspaceValues 0 40 10 5 true [2, 3] = [[0, 10], [20, 30, 40]] := by decide

/-- **eye_den**: for every chunking of rows and columns and every `k`, element `(r, c)` of the
    assembled blocks is `1` iff `c - r = k` (NumPy's `eye(N, M, k)`), including the blocks built with `np.zeros`. -/
theorem eye_den (vchunks hchunks : List Nat) (k : Int) (r c : Nat)
    (hr : r < sum vchunks) (hc : c < sum hchunks) :
    eyeDen vchunks hchunks k r c = some (if (c : Int) - (r : Int) = k then 1 else 0) := by
  obtain ⟨bi, ro, h1⟩ := blockOf_some hr
  obtain ⟨bj, co, h2⟩ := blockOf_some hc
  obtain ⟨v, hv, hro, hrs⟩ := blockOf_spec h1
  obtain ⟨h, hh, hco, hcs⟩ := blockOf_spec h2
  simp only [eyeDen, h1, h2, hv, hh, bind, Option.bind, pure]
  rw [eyeBlockVal_eq v h _ _ k ro co hro hco, hrs, hcs]

example : eyeDen [1] [2] 1 0 1 = some 1 := by rfl
example : eyeTable 1 [1, 2] 0 [2, 1] = [[(false, 1), (true, 0)], [(false, 3), (false, 2)]] := by rfl

/-- **diag_den** (1-d input, `k = 0`): block `(i, j)` is `np.diag(block i)` on the diagonal of the block
    grid and zeros elsewhere; element `(r, c)` of the result is `v[r]` iff `r = c`. -/
theorem diag_den {α} [Inhabited α] (zero : α) (cs : List Nat) (xs : List α) (r c : Nat)
    (hr : r < sum cs) (hc : c < sum cs) :
    diagDen zero cs xs r c = some (if r = c then xs.getD r zero else zero) := by
  obtain ⟨bi, ro, h1⟩ := blockOf_some hr
  obtain ⟨bj, co, h2⟩ := blockOf_some hc
  obtain ⟨v, hv, hro, hrs⟩ := blockOf_spec h1
  obtain ⟨h, hh, hco, hcs⟩ := blockOf_spec h2
  simp only [diagDen, h1, h2, bind, Option.bind, pure]
  by_cases hb : bi = bj
  · subst hb
    rw [if_pos rfl]
    congr 1
    rw [splitBy_getD cs xs bi v hv]
    by_cases hrc : r = c
    · have : ro = co := by omega
      subst this
      rw [if_pos rfl, if_pos hrc]
      simp only [List.getD_eq_getElem?_getD, List.getElem?_take, hro, if_true, List.getElem?_drop, hrs]
    · have : ro ≠ co := by omega
      rw [if_neg this, if_neg hrc]
  · rw [if_neg hb]
    have : r ≠ c := by
      intro hrc; subst hrc
      rw [h1] at h2; injection h2 with h2; injection h2 with h3 _; exact hb h3
    rw [if_neg this]

example : diagDen (0 : Int) [1, 2] [7, 8, 9] 1 1 = some 8 ∧ diagDen (0 : Int) [1, 2] [7, 8, 9] 0 2 = some 0 := by decide

/-- **diagonal_den** (2-d, `axis1 = 0`, `axis2 = 1`): for positive row/column chunks and any offset `k`, the loop that
    follows the k-diagonal through the blocks terminates, every task's declared chunk length is what
    `np.diagonal(block, k_local)` returns, and the tasks read exactly the global diagonal positions
    `(max(0,-k) + t, max(0,k) + t)`, `t < len_kdiag`, in order. -/
theorem diagonal_den (rch cch : List Nat) (hpr : ∀ c ∈ rch, 0 < c) (hpc : ∀ c ∈ cch, 0 < c) (k : Int) :
    ∃ segs, diagonalPlan rch cch k = some segs ∧
      segs.flatMap (segPoints rch cch)
        = diagPoints (max 0 (-k)) (max 0 k) (min ((sum rch : Nat) : Int) (((sum cch : Nat) : Int) - k) - max 0 (-k)).toNat ∧
      ∀ s ∈ segs, SegOK rch cch s := by
  unfold diagonalPlan
  by_cases hL : min ((sum rch : Nat) : Int) (((sum cch : Nat) : Int) - k) - max 0 (-k) ≤ 0
  · refine ⟨[], by simp only [hL, if_true], ?_, by simp⟩
    have : (min ((sum rch : Nat) : Int) (((sum cch : Nat) : Int) - k) - max 0 (-k)).toNat = 0 := by omega
    simp [this, diagPoints]
  · simp only [hL, if_false]
    obtain ⟨r0, hr0⟩ : ∃ r0 : Nat, (r0 : Int) = max 0 (-k) := ⟨(max 0 (-k)).toNat, by omega⟩
    obtain ⟨c0, hc0⟩ : ∃ c0 : Nat, (c0 : Int) = max 0 k := ⟨(max 0 k).toNat, by omega⟩
    have hr0N : r0 < sum rch := by omega
    have hc0M : c0 < sum cch := by omega
    have e1 : (max 0 (-k)).toNat = r0 := by omega
    have e2 : (max 0 k).toNat = c0 := by omega
    rw [e1, e2]
    obtain ⟨I, ro, hI⟩ := blockOf_some hr0N
    obtain ⟨J, co, hJ⟩ := blockOf_some hc0M
    simp only [hI, hJ]
    obtain ⟨hbI, hleI⟩ := inBlock_of_blockOf hI hr0N
    obtain ⟨hbJ, hleJ⟩ := inBlock_of_blockOf hJ hc0M
    have hz : r0 < sum rch → c0 < sum cch → r0 = blockStart rch I ∨ c0 = blockStart cch J := by
      intro _ _; omega
    obtain ⟨segs, h1, h2, h3⟩ := diagLoop_spec rch cch hpr hpc (sum rch + sum cch) r0 c0 I J hbI hbJ hz (by omega)
    rw [← hr0, ← hc0]
    refine ⟨segs, h1, ?_, h3⟩
    rw [h2]
    congr 1
    omega

example : diagonalPlan [2, 3] [1, 2, 2] 1 = some [⟨0, 1, 0, 2⟩, ⟨1, 2, 0, 2⟩] := by decide
example : diagonalPlan [2, 3] [1, 2, 2] (-2) = some [⟨1, 0, 0, 1⟩, ⟨1, 1, -1, 2⟩] := by decide
example : diagonalPlan [2, 3] [1, 2] 7 = some [] := by decide

/-! ### n-d `diagonal`, `diag(v, k)`, 2-d → 1-d `diag` (Model/DiagonalNd.lean) -/

/-- **diagonal_nd_den** (any number of dimensions, normalised axes `axis1 < axis2`, any offset, any chunking of every
    axis with positive chunks along the two diagonal axes): the element of the assembled result at free position `q` and
    diagonal index `t` — found through its output block `(fb…, i)`, that block's task (input block `insertIJ fb I J`) and
    `np.diagonal` of one block — is the input element at `q` with `max(0,-k)+t` inserted on `axis1` and `max(0,k)+t` on
    `axis2`: NumPy's `diagonal`. The other axes' blocks are carried along unchanged. -/
theorem diagonal_nd_den (chunks : List (List Nat)) (a1 a2 : Nat) (k : Int) (rch cch : List Nat)
    (h12 : a1 < a2) (h2 : a2 < chunks.length) (hr : chunks[a1]? = some rch) (hc : chunks[a2]? = some cch)
    (hpr : ∀ c ∈ rch, 0 < c) (hpc : ∀ c ∈ cch, 0 < c)
    (q : List Nat) (hq : InRange (popAxes chunks a1 a2) q) (t : Nat)
    (ht : t < (min ((sum rch : Nat) : Int) (((sum cch : Nat) : Int) - k) - max 0 (-k)).toNat) :
    diagonalNdRead chunks a1 a2 k q t = some (insertIJ q a1 a2 ((max 0 (-k)).toNat + t) ((max 0 k).toNat + t)) := by
  obtain ⟨segs, hsegs, hpts, _⟩ := diagonal_den rch cch hpr hpc k
  generalize hL : (min ((sum rch : Nat) : Int) (((sum cch : Nat) : Int) - k) - max 0 (-k)).toNat = L at *
  -- the segment holding diagonal index `t`
  have hlens : (segs.map (segPoints rch cch)).map List.length = segs.map (fun s => s.len.toNat) := by
    rw [List.map_map]; apply List.map_congr_left; intro s _; exact segPoints_length rch cch s
  have hflat : (segs.map (segPoints rch cch)).flatten = diagPoints (max 0 (-k)) (max 0 k) L := by
    rw [← List.flatMap_def]; exact hpts
  have hlen : (segs.map (segPoints rch cch)).flatten.length = L := by rw [hflat]; simp [diagPoints]
  have htsum : t < sum (segs.map (fun s => s.len.toNat)) := by
    rw [← hlens, sum_map_length, hlen]; exact ht
  obtain ⟨i, tl, hbo⟩ := blockOf_some htsum
  obtain ⟨b, hb1, hb2, hb3⟩ := flatten_get_of_blockOf (segs.map (segPoints rch cch)) t i tl (by rw [hlens]; exact hbo)
  rw [List.getElem?_map] at hb1
  cases hsi : segs[i]? with
  | none => simp [hsi] at hb1
  | some s =>
    simp only [hsi, Option.map_some, Option.some.injEq] at hb1
    subst hb1
    rw [segPoints_length] at hb3
    rw [hflat, diagPoints_get _ _ _ _ ht, segPoints_get _ _ _ _ hb3] at hb2
    injection hb2 with hb2
    injection hb2 with hrow hcol
    -- the free axes
    obtain ⟨locs, hloc, hll, hql, hlocs⟩ := locateAll_of_inRange _ _ hq
    have hfl : (popAxes chunks a1 a2).length = chunks.length - 2 := popAxes_length chunks a1 a2 h12 h2
    simp only [diagonalNdRead, hr, hc, hsegs, hbo, hsi, hloc, bind, Option.bind, pure]
    congr 1
    apply List.ext_getElem?
    intro d
    have hl1 : a2 ≤ (locs.map (·.1)).length + 1 := by simp [hll, hfl]; omega
    have hl2 : a2 ≤ (locs.map (·.2)).length + 1 := by simp [hll, hfl]; omega
    have hl3 : a2 ≤ q.length + 1 := by rw [hql, hfl]; omega
    rw [globalPos_get, insertIJ_get _ _ _ _ _ h12 hl1, insertIJ_get _ _ _ _ _ h12 hl2, insertIJ_get _ _ _ _ _ h12 hl3]
    by_cases c1 : d = a1
    · subst c1
      simp only [hr, if_true, Option.bind_some, Option.map_some]
      congr 1; omega
    · by_cases c2 : d = a2
      · subst c2
        simp only [hc, c1, if_true, if_false, Option.bind_some, Option.map_some]
        congr 1; omega
      · simp only [c1, c2, if_false]
        generalize hd' : d - (if a1 < d then 1 else 0) - (if a2 < d then 1 else 0) = d'
        have hpop := popAxes_get chunks a1 a2 d h12 c1 c2
        rw [hd'] at hpop
        cases hcd : chunks[d]? with
        | none =>
          rw [hcd] at hpop
          have : q[d']? = none := by
            rw [List.getElem?_eq_none_iff] at hpop ⊢
            omega
          simp [this]
        | some cs =>
          rw [hcd] at hpop
          obtain ⟨b, o, p, e1, e2, e3⟩ := hlocs d' cs hpop
          simp [List.getElem?_map, e1, e2, e3]

example : diagonalNdRead [[1, 1], [2, 1], [3, 1]] 0 2 (-1) [2] 0 = some [1, 2, 0] := by decide
example : InRange (popAxes [[1, 1], [2, 1], [3, 1]] 0 2) [2] := ⟨by decide, trivial⟩
example : diagonalNdPlan [[1, 1], [2, 1], [3, 1]] 1 2 0
    = some (0, 2, [[2, 1], [1]], [⟨[0, 0], [1, 0, 0], 0⟩, ⟨[1, 0], [1, 1, 0], 0⟩]) := by decide

/-- every output block `(fb…, i)` (`fb` any block of the free axes, `i` any segment) has its task, which reads the input
    block with the same free-axis block indices, `I` on `axis1` and `J` on `axis2` -/
theorem diagonal_nd_tasks (chunks : List (List Nat)) (a1 a2 : Nat) (segs : List DSeg) (h12 : a1 < a2)
    (h2 : a2 < chunks.length) (fb : List Nat) (i : Nat) (s : DSeg) (hs : segs[i]? = some s)
    (hfb : fb ∈ blockProduct ((popAxes chunks a1 a2).map List.length)) :
    (⟨fb ++ [i], insertIJ fb a1 a2 s.I s.J, s.k⟩ : DTask) ∈ diagonalNdTasks chunks a1 a2 segs
    ∧ popAxes (insertIJ fb a1 a2 s.I s.J) a1 a2 = fb
    ∧ (insertIJ fb a1 a2 s.I s.J)[a1]? = some s.I ∧ (insertIJ fb a1 a2 s.I s.J)[a2]? = some s.J := by
  have hlen : fb.length = chunks.length - 2 := by
    rw [((mem_blockProduct _ _).1 hfb).1, List.length_map, popAxes_length chunks a1 a2 h12 h2]
  have hl : a2 ≤ fb.length + 1 := by omega
  refine ⟨?_, popAxes_insertIJ fb a1 a2 _ _ h12 hl, ?_, ?_⟩
  · unfold diagonalNdTasks
    simp only [List.mem_flatMap, List.mem_map]
    refine ⟨(s, i), ?_, fb, hfb, rfl⟩
    rw [List.mem_zipIdx_iff_getElem?]
    simpa using hs
  · rw [insertIJ_get _ _ _ _ _ h12 hl]; simp
  · rw [insertIJ_get _ _ _ _ _ h12 hl]
    have : a2 ≠ a1 := by omega
    simp [this]

example : ([1] : List Nat) ∈ blockProduct ((popAxes [[1, 1], [2, 1], [3, 1]] 0 2).map List.length) := by decide

/-- the axis normalisation: both axes are reduced modulo `ndim` (negative axes count from the end), they are distinct and
    inside the array, and swapping them negates the offset -/
theorem normAxes_spec {ndim : Nat} {offset ax1 ax2 : Int} {a1 a2 : Nat} {k : Int}
    (h : normAxes ndim offset ax1 ax2 = some (a1, a2, k)) :
    a1 < a2 ∧ a2 < ndim ∧
    ∃ n1 n2 : Nat, (n1 : Int) = (if ax1 < 0 then ndim + ax1 else ax1) ∧ (n2 : Int) = (if ax2 < 0 then ndim + ax2 else ax2)
      ∧ ((n1 < n2 ∧ a1 = n1 ∧ a2 = n2 ∧ k = offset) ∨ (n2 < n1 ∧ a1 = n2 ∧ a2 = n1 ∧ k = -offset)) := by
  unfold normAxes at h
  cases h1 : axisFmt ax1 ndim with
  | none => simp [h1] at h
  | some n1 =>
    cases h2 : axisFmt ax2 ndim with
    | none => simp [h1, h2] at h
    | some n2 =>
      simp only [h1, h2] at h
      have e1 : (n1 : Int) = (if ax1 < 0 then ndim + ax1 else ax1) := by
        unfold axisFmt at h1
        split at h1
        · split at h1
          · simp at h1
          · injection h1 with h1; omega
        · injection h1 with h1; omega
      have e2 : (n2 : Int) = (if ax2 < 0 then ndim + ax2 else ax2) := by
        unfold axisFmt at h2
        split at h2
        · split at h2
          · simp at h2
          · injection h2 with h2; omega
        · injection h2 with h2; omega
      split at h
      · simp at h
      · rename_i hg
        split at h
        · injection h with h; injection h with ha hb; injection hb with hb hk
          subst ha; subst hb; subst hk
          exact ⟨by omega, by omega, n1, n2, e1, e2, Or.inr ⟨by omega, rfl, rfl, rfl⟩⟩
        · injection h with h; injection h with ha hb; injection hb with hb hk
          subst ha; subst hb; subst hk
          exact ⟨by omega, by omega, n1, n2, e1, e2, Or.inl ⟨by omega, rfl, rfl, rfl⟩⟩

example : normAxes 3 1 2 0 = some (0, 2, -1) := by decide
example : normAxes 3 1 (-1) (-3) = some (0, 2, -1) := by decide
example : normAxes 3 0 1 1 = none ∧ normAxes 3 0 0 3 = none ∧ normAxes 3 0 0 (-4) = none := by decide

/-- **diag_k_den** (`diag(v, k)`, 1-d `v`, any `k`): the constant pad around the `k = 0` block matrix is `np.diag(v, k)` -/
theorem diag_k_den {α} [Inhabited α] (zero : α) (cs : List Nat) (xs : List α) (k : Int) (r c : Nat)
    (hr : r < sum cs + k.natAbs) (hc : c < sum cs + k.natAbs) :
    diagKDen zero cs xs k r c = some (npDiagK zero xs k r c) := by
  unfold diagKDen npDiagK
  simp only [hr, hc, and_self, if_true]
  split
  · rename_i hin
    rw [diag_den zero cs xs _ _ (by omega) (by omega)]
    congr 1
    by_cases hk : (c : Int) - (r : Int) = k
    · have e1 : r - (max 0 (-k)).toNat = c - (max 0 k).toNat := by omega
      have e2 : r - (max 0 (-k)).toNat = min r c := by omega
      rw [if_pos e1, if_pos hk, e2]
    · have e1 : ¬ (r - (max 0 (-k)).toNat = c - (max 0 k).toNat) := by omega
      rw [if_neg e1, if_neg hk]
  · rename_i hout
    have hk : ¬ ((c : Int) - (r : Int) = k) := by omega
    rw [if_neg hk]

example : (List.range 4).map (fun r => (List.range 4).map (fun c => diagKDen (0 : Int) [1, 1] [7, 8] 2 r c))
    = [[some 0, some 0, some 7, some 0], [some 0, some 0, some 0, some 8], [some 0, some 0, some 0, some 0],
       [some 0, some 0, some 0, some 0]] := by decide

/-- **diag_2d_fast_den** (`diag(v)`, 2-d `v`, `k = 0`, equal row and column chunks): output position `p` reads `v[p, p]` -/
theorem diag_2d_fast_den (cs : List Nat) (p : Nat) (hp : p < sum cs) : diag2dFastRead cs p = some (p, p) :=
  diag2dFast_den cs p hp

example : diag2dFastRead [2, 1] 2 = some (2, 2) := by decide

/-! ### `meshgrid`, `indices`, `fromfunction` (Model/CreationGrid.lean) -/

/-- **grid_den** (`fromfunction`; `indices` with `g = (·[j]?)`): for every chunking of every axis and *any* function `g`
    of the global index, the value the assembled array holds at `p` — `g` evaluated by `p`'s block on
    `block offset + local index` — is `g p`: NumPy's `fromfunction` / `indices`. -/
theorem grid_den {α} (g : List Nat → α) (chunks : List (List Nat)) (p : List Nat) (h : InRange chunks p) :
    gridRead g chunks p = some (g p) := by
  obtain ⟨locs, h1, _⟩ := locateAll_of_inRange chunks p h
  simp only [gridRead, h1, bind, Option.bind, pure, addOffs_locate chunks p locs h1]

/-- **indices_den**: component `j` of `indices(dims, chunks)` at `p` is `p[j]` … -/
theorem indices_den (chunks : List (List Nat)) (p : List Nat) (j : Nat) (h : InRange chunks p) :
    gridRead (fun i => i[j]?) chunks p = some p[j]? := grid_den _ chunks p h

/-- … and component `j` is block `j` (offset `0`) of the leading axis, whose chunks are all `1` -/
theorem indices_axis0 : ∀ (n j : Nat), j < n → blockOf (List.replicate n 1) j = some (j, 0)
  | 0, j, h => by omega
  | n + 1, 0, _ => by simp [List.replicate_succ, blockOf]
  | n + 1, j + 1, h => by
    simp only [List.replicate_succ, blockOf]
    have : ¬ (j + 1 < 1) := by omega
    simp only [this, if_false, Nat.add_sub_cancel]
    rw [indices_axis0 n j (by omega)]; rfl

/-- **full_den** (`ones` / `zeros` / `full` and their `*_like` variants, dask/array/wrap.py): every block is the fill
    value broadcast to its chunk shape (`ArrayChunkShapeDep`), i.e. the grid of the *constant* function of the index —
    every position of the assembled array holds the fill value, for every chunking. -/
theorem full_den {α} (fill : α) (chunks : List (List Nat)) (p : List Nat) (h : InRange chunks p) :
    gridRead (fun _ => fill) chunks p = some fill := grid_den _ chunks p h

example : gridRead weightedSum [[2, 1], [1, 3]] [2, 3] = some 8 := by decide
example : InRange [[2, 1], [1, 3]] [2, 3] := ⟨by decide, by decide, trivial⟩

/-- **meshgrid_den** (`indexing` `xy`/`ij`, `sparse` or dense, any number of inputs, any chunking of each): output `j`
    holds at position `p` the element `p[σ j]` of input `j`, where `σ` swaps the first two axes for `xy`; found through
    `p`'s block of the output and the block of `xi[j]` broadcast into it. -/
theorem meshgrid_den (cs : List (List Nat)) (xy sparse : Bool) (j : Nat) (p : List Nat)
    (h : InRange (meshgridChunks cs xy sparse j) p) (hj : j < cs.length) :
    meshgridRead cs xy sparse j p = p[sigma xy cs.length j]? := by
  obtain ⟨locs, h1, _, _, hlocs⟩ := locateAll_of_inRange _ p h
  obtain ⟨c, hc⟩ : ∃ c, cs[j]? = some c := ⟨cs[j], by simp [hj]⟩
  have hg := meshgridChunks_get cs xy sparse j
  rw [hc] at hg
  obtain ⟨b, o, pv, e1, e2, e3⟩ := hlocs _ c hg
  simp only [meshgridRead, h1, e1, hc, bind, Option.bind, pure, e2, e3]

example : meshgridChunks [[2, 1], [4], [1, 1]] true false 0 = [[4], [2, 1], [1, 1]] := by decide
example : meshgridChunks [[2, 1], [4], [1, 1]] true true 0 = [[1], [2, 1], [1]] := by decide
example : meshgridRead [[2, 1], [4], [1, 1]] true false 0 [3, 2, 1] = some 2 := by decide
example : InRange (meshgridChunks [[2, 1], [4], [1, 1]] true false 0) [3, 2, 1] := ⟨by decide, by decide, by decide, trivial⟩

/-- **tri_den**: `tri(N, M, k)[i, j] = (arange(N)[i] >= arange(-k, M-k)[j])` is NumPy's `j - k ≤ i`
    (given `arange_den` for both operands). -/
theorem tri_den (k : Int) (i j : Nat) :
    triSpec k i j = decide ((arangeSpec (-k) 1 (j + 1)).getD j 0 ≤ (arangeSpec 0 1 (i + 1)).getD i 0) := by
  simp only [triSpec, arangeSpec, List.getD_eq_getElem?_getD, List.getElem?_map, List.getElem?_range (Nat.lt_succ_self _),
    Option.map_some, Option.getD_some]
  congr 1
  apply propext; constructor <;> intro h <;> omega

/-- … and for every chunking of rows and columns the assembled blocks of `tri` (each computed from its row/column
    offsets) hold `triSpec` of the global position (`grid_den` for this function of the index) -/
theorem tri_blocks_den (k : Int) (rch cch : List Nat) (i j : Nat) (hi : i < sum rch) (hj : j < sum cch) :
    gridRead (fun p => triSpec k (p.getD 0 0) (p.getD 1 0)) [rch, cch] [i, j] = some (triSpec k i j) :=
  grid_den _ _ _ ⟨hi, hj, trivial⟩

/-- **chunks_sum_shape**: the lazily reported chunks of every creation routine are
    `normalize_chunks(chunks, shape)`, hence add up to the shape (C23 `normalize_sum_nonneg`). -/
theorem chunks_sum_shape {top shape limit autoRes r} (h : Chunks.normalize top shape limit autoRes = .ok r)
    (hne : shape ≠ []) (hauto : ∀ a, autoRes = some a → a.length = shape.length ∧ ∀ c ∈ a, c.isNeg = false) :
    r.length = shape.length ∧ ∀ i (h1 : i < r.length) (h2 : i < shape.length), isum r[i] = (shape[i] : Int) := by
  have H : AllDims DimOK r shape := by
    unfold Chunks.normalize at h
    cases h1 : preNormalize top shape limit with
    | error e => simp [h1] at h
    | ok chunks =>
      simp only [h1] at h
      have hl := preNormalize_length h1 hne
      split at h
      · cases autoRes with
        | none => simp at h
        | some a => exact finalize_dims h (hauto a rfl).1 hne (hauto a rfl).2
      · exact finalize_dims h hl hne (preNormalize_nonneg h1)
  exact ⟨H.length, fun i h1 h2 => (H.get i h1 h2).2.2⟩

example : Chunks.normalize (.seq [.int 2, .int 2]) [5, 6] none none = .ok [[2, 2, 1], [2, 2, 2]] := by rfl

end Dask.C34
