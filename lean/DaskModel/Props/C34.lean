import DaskModel.Model.Creation
import DaskModel.Lemmas.CreationLemmas
import DaskModel.Lemmas.CreationFloatLemmas
import DaskModel.Lemmas.DiagonalLemmas
import DaskModel.Lemmas.ChunksNormalize
/-!
# C34 — array creation routines are chunk-invariant and equal NumPy (theorems)

All theorems are over exact integers; rationals with a common denominator reduce to them by
scaling (see Model/Creation.lean).  Floats are validated against NumPy by harness/props/c34.py.
-/
namespace Dask.C34
open Dask.Chunks Dask.Creation Dask.SoftFloat

/-- **arange_len** (positive step): `num = max(ceil((stop-start)/step), 0)` counts exactly the
    indices whose value is below `stop` — the length of Python's `range`/NumPy's `arange`. -/
theorem arange_num_spec_pos {start stop step : Int} {n : Nat} (hs : 0 < step)
    (h : arangeNum start stop step = some n) (i : Nat) : i < n ↔ start + (i : Int) * step < stop := by
  unfold arangeNum at h
  rw [if_neg (by omega)] at h
  injection h with h; subst h
  rw [Int.lt_toNat, ceilDivInt_lt_iff_pos _ _ hs]; omega

/-- **arange_len** (negative step): … whose value is above `stop`. -/
theorem arange_num_spec_neg {start stop step : Int} {n : Nat} (hs : step < 0)
    (h : arangeNum start stop step = some n) (i : Nat) : i < n ↔ stop < start + (i : Int) * step := by
  unfold arangeNum at h
  rw [if_neg (by omega)] at h
  injection h with h; subst h
  rw [Int.lt_toNat, ceilDivInt_lt_iff_neg _ _ hs]; omega

example : arangeNum 0 10 3 = some 4 := by rfl
example : arangeNum 10 0 (-3) = some 4 := by rfl
example : arangeNum 5 5 2 = some 0 := by rfl
example : arangeNum 0 10 0 = none := by rfl

/-- **arange_den** (after `fix: da.arange computes every element from its global index`): for *every* chunking `cs` and
    for **any arithmetic** `A` of the computation dtype (exact integers, binary64, binary32 — no property of `+ - *` is
    used) the blocks have exactly the declared lengths and concatenate to the array computed as one block, i.e. to
    NumPy's own fill loop `first + i*(second - first)` with `[1] = second`.  In particular float `arange` is
    chunk-invariant bit for bit and no block length depends on floating-point rounding. -/
theorem arange_den {α} (A : Arith α) (first second : α) (cs : List Nat) :
    (arangeValuesG A first second cs).flatten = arangeBlockG A first second 0 (sum cs)
    ∧ (arangeValuesG A first second cs).map List.length = cs := by
  refine ⟨?_, blocks_by_index_lens (arangeBlockG A first second) (by intro o n; simp [arangeBlockG]) cs 0⟩
  unfold arangeValuesG arangeBlockG
  rw [blocks_by_index (arangeElem A first second) cs 0]

/-- … and over the integers that one block is NumPy's `start + i*step` (`first = start`, `second = start + step`) -/
theorem arange_int_spec (start step : Int) (n : Nat) :
    arangeBlockG intArith start (start + step) 0 n = arangeSpec start step n := by
  unfold arangeBlockG arangeSpec
  apply List.map_congr_left; intro i _
  rw [arangeElem_int]; simp

/-- the two together, with `num` from `arangeNum`: for every chunking of `num` the computed blocks of the integer
    (= rational, after scaling) `arange` are NumPy's values `start + i*step`, and `i < num` are exactly the indices
    whose value lies before `stop` -/
theorem arange_int_den (start stop step : Int) (n : Nat) (cs : List Nat) (hn : arangeNum start stop step = some n)
    (hsum : sum cs = n) :
    (arangeValuesInt start step cs).flatten = arangeSpec start step n
    ∧ (arangeValuesInt start step cs).map List.length = cs
    ∧ ∀ i : Nat, i < n ↔ (if 0 < step then start + (i : Int) * step < stop else stop < start + (i : Int) * step) := by
  have h := arange_den intArith start (start + step) cs
  rw [hsum, arange_int_spec] at h
  refine ⟨h.1, h.2, fun i => ?_⟩
  have h0 : step ≠ 0 := by
    intro h0; subst h0; simp [arangeNum] at hn
  by_cases hp : 0 < step
  · rw [if_pos hp]; exact arange_num_spec_pos hp hn i
  · rw [if_neg hp]; exact arange_num_spec_neg (by omega) hn i

example : arangeNum 10 0 (-3) = some 4 ∧ sum [3, 1] = 4 := by decide
example : arangeValuesInt 10 (-3) [3, 1] = [[10, 7, 4], [1]] := by decide

/-- **arange_fallback_den** (`chunk.arange` on block bounds — since the repair only the fallback of `arange_block`
    for dtypes without index arithmetic, e.g. bool/datetime64): over exact arithmetic, for every chunking and any
    sign of the step, the blocks have exactly the declared lengths and concatenate to `start + i*step`. -/
theorem arange_fallback_den (start step : Int) (hs : step ≠ 0) (cs : List Nat) :
    (arangeValues start step cs).flatten = arangeSpec start step (sum cs)
    ∧ (arangeValues start step cs).map List.length = cs := by
  refine ⟨?_, arangeBlocks_lens start step hs cs 0⟩
  unfold arangeValues arangeSpec
  rw [arangeValues_aux start step hs cs 0]
  apply List.map_congr_left; intro i _; simp

example : arangeValues 10 (-3) [3, 1] = [[10, 7, 4], [1]] := by rfl

/-! ### float `arange` over the exact binary64 model (Model/SoftFloat.lean, Model/CreationFloat.lean)

`arange_den` above already covers binary64: the block lengths and the chunk-invariance of the values hold for *any*
arithmetic.  What is specific to floats is `num = ceil((stop - start)/step)` computed with three roundings and the
values `first + i*(second - first)`; dask and NumPy use the same formulas (diffed bit for bit by the harness), and these
are *not* the exact-arithmetic ones in general (`arange_f_num_not_exact`).  Full statement, false in general:
`ArangeFExactStatement`.  Proved: the regime in which no operation rounds (`arange_f_exact_partial`). -/

/-- the binary64 plan agrees with exact arithmetic on the same inputs (false in general: `arange_f_num_not_exact`) -/
def ArangeFExactStatement : Prop :=
  ∀ (start stop step : F64) (n : Nat), step.m ≠ 0 → arangeNumF start stop step = some n →
    ∀ e : Int, e ≤ start.e → e ≤ stop.e → e ≤ step.e →
      arangeNum (start.m * 2 ^ (start.e - e).toNat) (stop.m * 2 ^ (stop.e - e).toNat) (step.m * 2 ^ (step.e - e).toNat) = some n

/-- `np.arange(0.0, 3.4000000000000004, 0.1)` has 34 elements (NumPy and dask alike: the quotient
    `34.000000000000004…` rounds to `34.0`), exact arithmetic on the same doubles gives 35 -/
theorem arange_f_num_not_exact :
    arangeNumF ⟨0, 0⟩ ⟨1914029841632461, -49⟩ ⟨3602879701896397, -55⟩ = some 34
    ∧ arangeNum 0 (1914029841632461 * 2 ^ 6) 3602879701896397 = some 35 := by decide

theorem arange_f_exact_refuted : ¬ ArangeFExactStatement := by
  intro h
  have := h ⟨0, 0⟩ ⟨1914029841632461, -49⟩ ⟨3602879701896397, -55⟩ 34 (by decide) arange_f_num_not_exact.1 (-55)
    (by decide) (by decide) (by decide)
  revert this; decide

/-- **arange_f_exact_partial**: `start = a·2^e`, `step = s·2^e`, `stop = start + n·step` with every value of the range
    below `2^53` in units of `2^e` (dyadic steps, integer-valued doubles, quarters, …): no binary64 operation rounds,
    so the plan is the unshifted one, `num = n` (not `n + 1`: a `stop` exactly on the grid is excluded), and for every
    chunking the blocks hold exactly the exact-arithmetic values `(a + i·s)·2^e` of `arange_int_den`. -/
theorem arange_f_exact_partial (a s e : Int) (n : Nat) (hs : s ≠ 0) (he : -1074 ≤ e)
    (hb : a.natAbs + (n + 1) * s.natAbs < 2 ^ 53) :
    (∃ p, arangePlanF ⟨a, e⟩ ⟨a + (n : Int) * s, e⟩ ⟨s, e⟩ = some p ∧ p.shifted = false ∧ p.num = n
        ∧ p.first = ⟨a, e⟩ ∧ p.second = ⟨a + s, e⟩)
    ∧ ∀ cs, sum cs = n →
        (arangeValuesG f64Arith ⟨a, e⟩ ⟨a + s, e⟩ cs).flatten = (arangeSpec a s n).map (fun v => (⟨v, e⟩ : F64))
        ∧ (arangeValuesG f64Arith ⟨a, e⟩ ⟨a + s, e⟩ cs).map List.length = cs := by
  have hs1 : 1 ≤ s.natAbs := Int.natAbs_pos.2 hs
  have hsm : (n + 1) * s.natAbs = n * s.natAbs + s.natAbs := Nat.succ_mul n _
  have hn1 : n * 1 ≤ n * s.natAbs := Nat.mul_le_mul_left n hs1
  have hsb : s.natAbs < 2 ^ 53 := by omega
  have h1 : (a + s).natAbs < 2 ^ 53 := by
    have := natAbs_lin a s 1 (n + 1) (by omega) hb
    simpa using this
  constructor
  · refine ⟨⟨false, n, ⟨a, e⟩, ⟨a + s, e⟩⟩, ?_, rfl, rfl, rfl, rfl⟩
    unfold arangePlanF
    rw [arangeShiftF_exact a s e he h1 hsb, arangeNumF_exact a s e n hs he hb, add_same_exp,
      roundDy_of_fits _ _ h1 he]
    simp
  · intro cs hsum
    have h := arange_den f64Arith ⟨a, e⟩ ⟨a + s, e⟩ cs
    refine ⟨?_, h.2⟩
    rw [h.1, hsum]
    unfold arangeBlockG arangeSpec
    rw [List.map_map]
    apply List.map_congr_left
    intro i hi
    have hi' : i < n := List.mem_range.1 hi
    simp only [Nat.zero_add, Function.comp]
    exact arangeElem_exact a s e n i he (by omega) (by omega) hb

example : (1 : Int) ≠ 0 ∧ (-1074 : Int) ≤ -1 ∧ (1 : Int).natAbs + (4 + 1) * (1 : Int).natAbs < 2 ^ 53 := by decide

/-- the block plan *before* `fix: da.arange computes every element from its global index`, on
    `da.arange(2**30 - 3*2**-23, 2**30 + 10*2**-23, 2**-23, chunks=2)`: the declared chunks are `(2,2,2,2,2,2,1)`, the
    blocks `np.arange(blockstart, blockstop, step)` (bounds rounded to binary64, trimmed by at most one element) had
    lengths `2,1,3,0,3,0,1` — exactly what the real code returned (computed shape `(10,)` for 13 declared elements) -/
theorem old_arange_plan_refuted :
    oldBlockLens ⟨9007199254740989, -23⟩ ⟨1, -23⟩ 0 [2, 2, 2, 2, 2, 2, 1]
      = [some 2, some 1, some 3, some 0, some 3, some 0, some 1] := by decide

/-- **linspace_den**: for every chunking the blocks have the declared lengths and concatenate to NumPy's
    `arange(num) * step + start` with the last element pinned to `stop` — every element is a function of its
    *global* index only (numerators over `div`; `a = start*div`, `b = stop*div`, `range = stop - start`). -/
theorem linspace_den (a b range : Int) (num : Nat) (ep : Bool) (cs : List Nat) (hsum : sum cs = num) :
    (linspaceValues a b range num ep cs).flatten = linspaceSpec a b range num ep
    ∧ (linspaceValues a b range num ep cs).map List.length = cs := by
  refine ⟨?_, linspace_lens a b range num ep cs 0⟩
  unfold linspaceValues linspaceSpec
  rw [linspace_aux a b range num ep cs 0, hsum]
  rfl

/-- the pinned endpoint is the value the formula gives in exact arithmetic: `start + (num-1)*step = stop` -/
theorem linspace_endpoint (start stop : Int) (num : Nat) :
    start * ((num - 1 : Nat) : Int) + ((num - 1 : Nat) : Int) * (stop - start) = stop * ((num - 1 : Nat) : Int) := by
  generalize ((num - 1 : Nat) : Int) = d
  rw [Int.mul_sub, Int.mul_comm start d, Int.mul_comm stop d]; omega

example : linspaceValues 0 40 10 5 true [2, 3] = [[0, 10], [20, 30, 40]] := by decide

/-- **eye_den**: for every chunking of rows and columns and every `k`, element `(r, c)` of the
    assembled blocks is `1` iff `c - r = k` (NumPy's `eye(N, M, k)`), including the blocks built with `np.zeros`. -/
theorem eye_den (vchunks hchunks : List Nat) (k : Int) (r c : Nat)
    (hr : r < sum vchunks) (hc : c < sum hchunks) :
    eyeDen vchunks hchunks k r c = some (if (c : Int) - (r : Int) = k then 1 else 0) := by
  obtain ⟨bi, ro, h1⟩ := blockOf_some hr
  obtain ⟨bj, co, h2⟩ := blockOf_some hc
  obtain ⟨v, hv, hro, hrs⟩ := blockOf_spec h1
  obtain ⟨h, hh, hco, hcs⟩ := blockOf_spec h2
  simp only [eyeDen, h1, h2, hv, hh, bind, Option.bind, pure]
  rw [eyeBlockVal_eq v h _ _ k ro co hro hco, hrs, hcs]

example : eyeDen [1] [2] 1 0 1 = some 1 := by rfl
example : eyeTable 1 [1, 2] 0 [2, 1] = [[(false, 1), (true, 0)], [(false, 3), (false, 2)]] := by rfl

/-- **diag_den** (1-d input, `k = 0`): block `(i, j)` is `np.diag(block i)` on the diagonal of the block
    grid and zeros elsewhere; element `(r, c)` of the result is `v[r]` iff `r = c`. -/
theorem diag_den {α} [Inhabited α] (zero : α) (cs : List Nat) (xs : List α) (r c : Nat)
    (hr : r < sum cs) (hc : c < sum cs) :
    diagDen zero cs xs r c = some (if r = c then xs.getD r zero else zero) := by
  obtain ⟨bi, ro, h1⟩ := blockOf_some hr
  obtain ⟨bj, co, h2⟩ := blockOf_some hc
  obtain ⟨v, hv, hro, hrs⟩ := blockOf_spec h1
  obtain ⟨h, hh, hco, hcs⟩ := blockOf_spec h2
  simp only [diagDen, h1, h2, bind, Option.bind, pure]
  by_cases hb : bi = bj
  · subst hb
    rw [if_pos rfl]
    congr 1
    rw [splitBy_getD cs xs bi v hv]
    by_cases hrc : r = c
    · have : ro = co := by omega
      subst this
      rw [if_pos rfl, if_pos hrc]
      simp only [List.getD_eq_getElem?_getD, List.getElem?_take, hro, if_true, List.getElem?_drop, hrs]
    · have : ro ≠ co := by omega
      rw [if_neg this, if_neg hrc]
  · rw [if_neg hb]
    have : r ≠ c := by
      intro hrc; subst hrc
      rw [h1] at h2; injection h2 with h2; injection h2 with h3 _; exact hb h3
    rw [if_neg this]

/-- **diagonal_den** (2-d, `axis1 = 0`, `axis2 = 1`): for positive row/column chunks and any offset `k`, the loop that
    follows the k-diagonal through the blocks terminates, every task's declared chunk length is what
    `np.diagonal(block, k_local)` returns, and the tasks read exactly the global diagonal positions
    `(max(0,-k) + t, max(0,k) + t)`, `t < len_kdiag`, in order. -/
theorem diagonal_den (rch cch : List Nat) (hpr : ∀ c ∈ rch, 0 < c) (hpc : ∀ c ∈ cch, 0 < c) (k : Int) :
    ∃ segs, diagonalPlan rch cch k = some segs ∧
      segs.flatMap (segPoints rch cch)
        = diagPoints (max 0 (-k)) (max 0 k) (min ((sum rch : Nat) : Int) (((sum cch : Nat) : Int) - k) - max 0 (-k)).toNat ∧
      ∀ s ∈ segs, SegOK rch cch s := by
  unfold diagonalPlan
  by_cases hL : min ((sum rch : Nat) : Int) (((sum cch : Nat) : Int) - k) - max 0 (-k) ≤ 0
  · refine ⟨[], by simp only [hL, if_true], ?_, by simp⟩
    have : (min ((sum rch : Nat) : Int) (((sum cch : Nat) : Int) - k) - max 0 (-k)).toNat = 0 := by omega
    simp [this, diagPoints]
  · simp only [hL, if_false]
    obtain ⟨r0, hr0⟩ : ∃ r0 : Nat, (r0 : Int) = max 0 (-k) := ⟨(max 0 (-k)).toNat, by omega⟩
    obtain ⟨c0, hc0⟩ : ∃ c0 : Nat, (c0 : Int) = max 0 k := ⟨(max 0 k).toNat, by omega⟩
    have hr0N : r0 < sum rch := by omega
    have hc0M : c0 < sum cch := by omega
    have e1 : (max 0 (-k)).toNat = r0 := by omega
    have e2 : (max 0 k).toNat = c0 := by omega
    rw [e1, e2]
    obtain ⟨I, ro, hI⟩ := blockOf_some hr0N
    obtain ⟨J, co, hJ⟩ := blockOf_some hc0M
    simp only [hI, hJ]
    obtain ⟨hbI, hleI⟩ := inBlock_of_blockOf hI hr0N
    obtain ⟨hbJ, hleJ⟩ := inBlock_of_blockOf hJ hc0M
    have hz : r0 < sum rch → c0 < sum cch → r0 = blockStart rch I ∨ c0 = blockStart cch J := by
      intro _ _; omega
    obtain ⟨segs, h1, h2, h3⟩ := diagLoop_spec rch cch hpr hpc (sum rch + sum cch) r0 c0 I J hbI hbJ hz (by omega)
    rw [← hr0, ← hc0]
    refine ⟨segs, h1, ?_, h3⟩
    rw [h2]
    congr 1
    omega

example : diagonalPlan [2, 3] [1, 2, 2] 1 = some [⟨0, 1, 0, 2⟩, ⟨1, 2, 0, 2⟩] := by decide
example : diagonalPlan [2, 3] [1, 2, 2] (-2) = some [⟨1, 0, 0, 1⟩, ⟨1, 1, -1, 2⟩] := by decide
example : diagonalPlan [2, 3] [1, 2] 7 = some [] := by decide

/-- **tri_den**: `tri(N, M, k)[i, j] = (arange(N)[i] >= arange(-k, M-k)[j])` is NumPy's `j - k ≤ i`
    (given `arange_den` for both operands). -/
theorem tri_den (k : Int) (i j : Nat) :
    triSpec k i j = decide ((arangeSpec (-k) 1 (j + 1)).getD j 0 ≤ (arangeSpec 0 1 (i + 1)).getD i 0) := by
  simp only [triSpec, arangeSpec, List.getD_eq_getElem?_getD, List.getElem?_map, List.getElem?_range (Nat.lt_succ_self _),
    Option.map_some, Option.getD_some]
  congr 1
  apply propext; constructor <;> intro h <;> omega

/-- **chunks_sum_shape**: the lazily reported chunks of every creation routine are
    `normalize_chunks(chunks, shape)`, hence add up to the shape (C23 `normalize_sum_nonneg`). -/
theorem chunks_sum_shape {top shape limit autoRes r} (h : Chunks.normalize top shape limit autoRes = .ok r)
    (hne : shape ≠ []) (hauto : ∀ a, autoRes = some a → a.length = shape.length ∧ ∀ c ∈ a, c.isNeg = false) :
    r.length = shape.length ∧ ∀ i (h1 : i < r.length) (h2 : i < shape.length), isum r[i] = (shape[i] : Int) := by
  have H : AllDims DimOK r shape := by
    unfold Chunks.normalize at h
    cases h1 : preNormalize top shape limit with
    | error e => simp [h1] at h
    | ok chunks =>
      simp only [h1] at h
      have hl := preNormalize_length h1 hne
      split at h
      · cases autoRes with
        | none => simp at h
        | some a => exact finalize_dims h (hauto a rfl).1 hne (hauto a rfl).2
      · exact finalize_dims h hl hne (preNormalize_nonneg h1)
  exact ⟨H.length, fun i h1 h2 => (H.get i h1 h2).2.2⟩

end Dask.C34
